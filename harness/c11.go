package main

import (
	"bytes"
	"encoding/json"
	"fmt"
	"math/rand"
	"sort"
	"strings"
	"time"

	"github.com/rkosegi/yaml-toolkit/props"
)

// C11 — placeholder resolution: substitution, defaults, termination, true cycles only.

// the fixed set of non-overlapping delimiter triples (prefix, suffix, separator). "Every
// configured prefix, suffix and separator" includes every combination of LENGTHS: the set has
// triples with |separator| = |suffix| (1/1, 2/2), |separator| > |suffix| (2/1) and
// |separator| < |suffix| (1/2), and with |prefix| = / != |suffix|.
var c11Triples = [][3]string{{"${", "}", ":"}, {"#{", "}", "|"}, {"<<", ">>", "::"}, {"%(", ")", "?"},
	{"${", "}", ":-"}, {"{{", "}}", "|"}, {"[[", "]]", "=>"}, {"@", "))", "~"}}

// length bound of the exhaustive token stream per triple (quick / thorough)
var (
	c11MaxLenQuick    = []int{7, 6, 6, 6, 5, 5, 5, 5}
	c11MaxLenThorough = []int{9, 8, 7, 7, 7, 7, 6, 6}
)

type c11Out struct {
	R string `json:"r"`           // ok | cycle | budget | panic
	S string `json:"s,omitempty"` // result string (ok) / panic text (panic)
	O string `json:"o,omitempty"` // placeholder text reported as circular
}

type c11Batch struct {
	D   [3]string   `json:"d"`
	Tbl [][2]string `json:"tbl"` // unique keys, sorted
	In  []string    `json:"in"`
	Src string      `json:"src"` // tok | gram | raw | corpus
}

type c11Concat struct {
	D   [3]string   `json:"d"`
	Tbl [][2]string `json:"tbl"`
	S1  string      `json:"s1"`
	S2  string      `json:"s2"`
}

const (
	c11LookupBudget = 10000 // lookups per Resolve call ("step budget")
	c11RefBudget    = 200000
	c11Timeout      = 20 * time.Second
)

func init() {
	register(&Prop{ID: "C11", Run: c11Run,
		Rule: "for each delimiter triple of {${ } :, #{ } |, << >> ::, %( ) ?, ${ } :-, {{ }} |, [[ ]] =>, @ )) ~} (separator shorter than, as long as and longer than the suffix; prefix shorter than, as long as and longer than the suffix): (tok) ALL token strings over {prefix,suffix,separator,a,b} up to a length bound against 7 fixed tables (plain, chain, self cycle, mutual cycle, separator-injecting values, unterminated values, key containing the separator); (gram) templates from the grammar text | prefix key-template [sep default-template] suffix (nesting depth <= 4, repetition, unknown keys, unterminated tails, stray suffix/separator) against random tables whose values are templates incl. self and mutual references; (raw) random strings over the delimiter CHARACTERS, lexed by the model; (concat) pairs of delimiter-balanced templates. A batch case is non-trivial when at least one input has a complete placeholder; distinct = distinct canonical case JSON.",
		Assumptions: []string{
			"delimiter triples are the eight fixed non-overlapping ones (no character shared by two delimiters of a triple); strings are ASCII",
			"the model works on token lists (greedy left-to-right lexing for the triple; the resolved placeholder text is re-lexed before lookup); byte-level = token-level matching is validated by the raw stream (random strings and table values over the delimiter CHARACTERS, incl. partial delimiters), not proved",
			"the concatenation clause is evaluated for pairs whose concatenation lexes to the concatenation of the lexings (no delimiter forms across the junction)",
			"termination is observed as: at most 10000 lookups per Resolve call and a 20 s wall-clock backstop per batch",
			"lookup tables are Go maps given through props.MapLookup (unique keys)"}})
	evals["C11"] = c11Eval
	shrinkers["C11"] = c11Shrink
}

// ---------------------------------------------------------------- implementation under test

type c11BudgetHit struct{}

// number of Resolve calls that ran into the step budget so far; once divergence is
// established (10 hits) later calls get a small budget so that a diverging tree does not
// cost minutes (each hit is already a recorded failure of the termination clause)
var c11BudgetHits int

type c11Resolver struct {
	r props.Resolver
	n *int
}

func c11NewResolver(d [3]string, tbl map[string]string) *c11Resolver {
	n := new(int)
	ml := props.MapLookup(tbl)
	r := props.Builder().Prefix(d[0]).Suffix(d[1]).ValueSeparator(d[2]).LookupFunc(func(k string) *string {
		*n++
		if *n > c11LookupBudget || (c11BudgetHits >= 10 && *n > 400) {
			panic(c11BudgetHit{})
		}
		return ml(k)
	}).MustBuild()
	return &c11Resolver{r: r, n: n}
}

const (
	c11CycPre = "Circular placeholder reference '"
	c11CycSuf = "' in property definitions"
)

func (cr *c11Resolver) resolve(s string) (out c11Out) {
	*cr.n = 0
	defer func() {
		if x := recover(); x != nil {
			if _, ok := x.(c11BudgetHit); ok {
				c11BudgetHits++
				out = c11Out{R: "budget"}
				return
			}
			msg := fmt.Sprint(x)
			if strings.HasPrefix(msg, c11CycPre) && strings.HasSuffix(msg, c11CycSuf) && len(msg) >= len(c11CycPre)+len(c11CycSuf) {
				out = c11Out{R: "cycle", O: msg[len(c11CycPre) : len(msg)-len(c11CycSuf)]}
				return
			}
			out = c11Out{R: "panic", S: msg}
		}
	}()
	return c11Out{R: "ok", S: cr.r.Resolve(s)}
}

func c11TblMap(t [][2]string) map[string]string {
	m := map[string]string{}
	for _, kv := range t {
		m[kv[0]] = kv[1]
	}
	return m
}

// ---------------------------------------------------------------- Go-side lexer (domain predicates of the direct clauses)

type c11Tok struct {
	k byte // 'P' prefix, 'S' suffix, 'V' separator, 'c' character
	c byte
}

func c11Lex(d [3]string, s string) []c11Tok {
	var out []c11Tok
	for i := 0; i < len(s); {
		switch {
		case strings.HasPrefix(s[i:], d[0]):
			out = append(out, c11Tok{k: 'P'})
			i += len(d[0])
		case strings.HasPrefix(s[i:], d[1]):
			out = append(out, c11Tok{k: 'S'})
			i += len(d[1])
		case strings.HasPrefix(s[i:], d[2]):
			out = append(out, c11Tok{k: 'V'})
			i += len(d[2])
		default:
			out = append(out, c11Tok{k: 'c', c: s[i]})
			i++
		}
	}
	return out
}

// delimiter-balanced: every prefix is closed inside the string (a suffix at depth 0 is text)
func c11Balanced(t []c11Tok) bool {
	depth := 0
	for _, x := range t {
		switch x.k {
		case 'P':
			depth++
		case 'S':
			if depth > 0 {
				depth--
			}
		}
	}
	return depth == 0
}

func c11HasPh(t []c11Tok) bool {
	depth, seen := 0, false
	for _, x := range t {
		switch x.k {
		case 'P':
			depth++
		case 'S':
			if depth > 0 {
				depth--
				if depth == 0 {
					seen = true
				}
			}
		}
	}
	return seen
}

func c11Hazard(d [3]string, t []c11Tok) bool {
	multi := ""
	for _, x := range d {
		if len(x) > 1 {
			multi += x
		}
	}
	for _, x := range t {
		if x.k == 'c' && strings.IndexByte(multi, x.c) >= 0 {
			return true
		}
	}
	return false
}

// c11Glues: lexing the concatenation differs from concatenating the lexings (a delimiter
// forms across the junction) — outside "delimiter-balanced s1, s2" read on tokens.
func c11Glues(d [3]string, s1, s2 string) bool {
	a, b, ab := c11Lex(d, s1), c11Lex(d, s2), c11Lex(d, s1+s2)
	if len(ab) != len(a)+len(b) {
		return true
	}
	for i := range ab {
		x := b[0:0]
		if i < len(a) {
			x = a[i : i+1]
		} else {
			x = b[i-len(a) : i-len(a)+1]
		}
		if x[0] != ab[i] {
			return true
		}
	}
	return false
}

// ---------------------------------------------------------------- generators

// token alphabet of the exhaustive stream
const c11Alpha = "PSVab"

func c11Render(d [3]string, toks string) string {
	var sb strings.Builder
	for i := 0; i < len(toks); i++ {
		switch toks[i] {
		case 'P':
			sb.WriteString(d[0])
		case 'S':
			sb.WriteString(d[1])
		case 'V':
			sb.WriteString(d[2])
		default:
			sb.WriteByte(toks[i])
		}
	}
	return sb.String()
}

// the fixed tables of the exhaustive stream, in token notation
var c11FixedTables = [][][2]string{
	{},
	{{"a", "x"}, {"b", "y"}},
	{{"a", "PbS"}, {"b", "x"}},
	{{"a", "PaS"}, {"b", "PaS"}},
	{{"a", "PbS"}, {"b", "PaS"}},
	{{"a", "b"}, {"b", "aVb"}},
	{{"a", "Pb"}, {"aVb", "x"}, {"b", "S"}},
}

func c11RenderTbl(d [3]string, t [][2]string) [][2]string {
	out := make([][2]string, 0, len(t))
	for _, kv := range t {
		out = append(out, [2]string{c11Render(d, kv[0]), c11Render(d, kv[1])})
	}
	sort.Slice(out, func(i, j int) bool { return out[i][0] < out[j][0] })
	return out
}

// all token strings of exactly length n, in lexicographic order of the alphabet
func c11Enum(n int, f func(string)) {
	buf := make([]byte, n)
	var rec func(i int)
	rec = func(i int) {
		if i == n {
			f(string(buf))
			return
		}
		for j := 0; j < len(c11Alpha); j++ {
			buf[i] = c11Alpha[j]
			rec(i + 1)
		}
	}
	rec(0)
}

type c11Gen struct {
	r    *rand.Rand
	d    [3]string
	keys []string
	unk  []string
	txt  []string
}

func c11NewGen(r *rand.Rand, d [3]string) *c11Gen {
	return &c11Gen{r: r, d: d, keys: []string{"a", "b", "c", "ab", "ba", "k1"}, unk: []string{"u", "zz", "a.b"},
		txt: []string{"x", "y", "-", " ", "0", "a", "b", "k", "1", "_.", "xy z"}}
}

func (g *c11Gen) text() string {
	s := pick(g.r, g.txt)
	if g.r.Intn(20) == 0 { // stray suffix / separator as plain text
		s += pick(g.r, []string{g.d[1], g.d[2]})
	}
	return s
}

func (g *c11Gen) tmpl(depth int) string {
	n := g.r.Intn(4)
	var sb strings.Builder
	for i := 0; i < n; i++ {
		if depth > 0 && g.r.Intn(2) == 0 {
			sb.WriteString(g.ph(depth))
		} else {
			sb.WriteString(g.text())
		}
	}
	return sb.String()
}

func (g *c11Gen) ph(depth int) string {
	s := g.d[0] + g.key(depth-1)
	if g.r.Intn(3) == 0 {
		s += g.d[2] + g.tmpl(depth-1)
	}
	return s + g.d[1]
}

func (g *c11Gen) key(depth int) string {
	k := g.r.Intn(20)
	switch {
	case depth > 0 && k < 6:
		s := ""
		if g.r.Intn(3) == 0 {
			s += pick(g.r, []string{"a", "b", "k"})
		}
		s += g.ph(depth)
		if g.r.Intn(3) == 0 {
			s += pick(g.r, []string{"a", "b", "1"})
		}
		return s
	case k < 9:
		return pick(g.r, g.unk)
	case k == 9:
		return ""
	default:
		return pick(g.r, g.keys)
	}
}

// input template: depth <= 4, sometimes with an unterminated tail
func (g *c11Gen) input() string {
	s := g.tmpl(1 + g.r.Intn(4))
	if g.r.Intn(3) > 0 {
		s += g.ph(1 + g.r.Intn(4))
	}
	if g.r.Intn(3) == 0 {
		s += g.text() + g.ph(1+g.r.Intn(2))
	}
	if g.r.Intn(8) == 0 { // unterminated tail
		s += g.d[0] + g.key(g.r.Intn(2))
		if g.r.Intn(2) == 0 {
			s += g.d[2] + g.text()
		}
	}
	return s
}

func (g *c11Gen) table() [][2]string {
	m := map[string]string{}
	n := 2 + g.r.Intn(5)
	for i := 0; i < n; i++ {
		k := pick(g.r, g.keys)
		var v string
		switch x := g.r.Intn(10); {
		case x < 4:
			v = g.tmpl(1 + g.r.Intn(2))
		case x < 7:
			v = pick(g.r, []string{"a", "b", "c", "x", "1", "ab", "v w"})
		case x == 7:
			v = g.ph(1) + g.ph(1) // repetition inside a value
		case x == 8:
			v = g.d[0] + pick(g.r, g.keys) // unterminated value
		default:
			v = ""
		}
		m[k] = v
	}
	out := make([][2]string, 0, len(m))
	for _, k := range sortedKeys(m) {
		out = append(out, [2]string{k, m[k]})
	}
	return out
}

func c11RawString(r *rand.Rand, alpha string, max int) string {
	n := r.Intn(max + 1)
	b := make([]byte, n)
	for i := range b {
		b[i] = alpha[r.Intn(len(alpha))]
	}
	return string(b)
}

func c11RawAlpha(d [3]string) string {
	seen := map[byte]bool{}
	out := []byte{}
	for _, s := range []string{d[0], d[1], d[2], "ab"} {
		for i := 0; i < len(s); i++ {
			if !seen[s[i]] {
				seen[s[i]] = true
				out = append(out, s[i])
			}
		}
	}
	return string(out)
}

func c11Run(c *Ctx) {
	r := c.Rng
	// (tok) exhaustive token strings
	if !c.searchMode {
		maxLen := c11MaxLenQuick
		if c.Thorough() {
			maxLen = c11MaxLenThorough
		}
		total := 0
		for ti, d := range c11Triples {
			var all []string
			for n := 0; n <= maxLen[ti]; n++ {
				c11Enum(n, func(s string) { all = append(all, c11Render(d, s)) })
			}
			total += len(all) * len(c11FixedTables)
			for _, ft := range c11FixedTables {
				tbl := c11RenderTbl(d, ft)
				for i := 0; i < len(all); i += 250 {
					c.Tick()
					j := i + 250
					if j > len(all) {
						j = len(all)
					}
					c.Do("batch", c11Batch{D: d, Tbl: tbl, In: all[i:j], Src: "tok"})
				}
			}
		}
		c.Note("exhaustive scope: all token strings over {prefix,suffix,separator,a,b} up to length %v (per triple) x %d fixed tables = %d resolutions", maxLen, len(c11FixedTables), total)
	} else {
		// witness search: sample the same space
		for i := 0; i < 400; i++ {
			c.Tick()
			d := pick(r, c11Triples)
			var in []string
			for j := 0; j < 100; j++ {
				in = append(in, c11Render(d, c11RawString(r, c11Alpha, 9)))
			}
			c.Do("batch", c11Batch{D: d, Tbl: c11RenderTbl(d, pick(r, c11FixedTables)), In: in, Src: "tok"})
		}
	}
	// (gram) grammar-generated templates against random tables
	for i := 0; i < c.N(2500); i++ {
		c.Tick()
		d := c11Triples[i%len(c11Triples)]
		g := c11NewGen(r, d)
		tbl := g.table()
		var in []string
		for j := 0; j < 4; j++ {
			in = append(in, g.input())
		}
		c.Do("batch", c11Batch{D: d, Tbl: tbl, In: in, Src: "gram"})
	}
	// (raw) random strings over the delimiter characters
	for i := 0; i < c.N(2500); i++ {
		c.Tick()
		d := c11Triples[i%len(c11Triples)]
		alpha := c11RawAlpha(d)
		m := map[string]string{}
		for _, k := range []string{"a", "b", "ab", c11RawString(r, alpha, 3)} {
			if r.Intn(4) > 0 {
				if r.Intn(3) == 0 {
					m[k] = c11Render(d, c11RawString(r, c11Alpha, 5))
				} else {
					m[k] = c11RawString(r, alpha, 5)
				}
			}
		}
		var tbl [][2]string
		for _, k := range sortedKeys(m) {
			tbl = append(tbl, [2]string{k, m[k]})
		}
		var in []string
		for j := 0; j < 6; j++ {
			if r.Intn(3) == 0 {
				in = append(in, c11Render(d, c11RawString(r, c11Alpha, 10)))
			} else {
				in = append(in, c11RawString(r, alpha, 12))
			}
		}
		c.Do("batch", c11Batch{D: d, Tbl: tbl, In: in, Src: "raw"})
	}
	// (glue) table values that are halves of delimiters, substituted inside a placeholder body
	// right next to the other half: the resolved body is looked up / split as BYTES
	for i := 0; i < c.N(600); i++ {
		c.Tick()
		d := c11Triples[i%len(c11Triples)]
		dl := pick(r, d[:])
		k := len(dl)
		if k > 1 {
			k = 1 + r.Intn(k-1)
		}
		h1, h2 := dl[:k], dl[k:]
		m := map[string]string{"a": h1}
		if h2 != "" && r.Intn(2) == 0 {
			m["b"] = h2
		}
		for _, key := range []string{"x", "y", "xy", "x" + d[2] + "y"} {
			if r.Intn(3) == 0 {
				m[key] = pick(r, []string{"1", "x", d[0] + "a" + d[1], d[0] + "y" + d[1], h1, h2})
			}
		}
		var tbl [][2]string
		for _, key := range sortedKeys(m) {
			tbl = append(tbl, [2]string{key, m[key]})
		}
		frag := func() string { return pick(r, []string{"", "x", "y", "a", "u"}) }
		ref := func(k string) string { return d[0] + k + d[1] }
		var in []string
		for j := 0; j < 6; j++ {
			second := h2
			if _, ok := m["b"]; ok && r.Intn(2) == 0 {
				second = ref("b")
			}
			body := frag() + ref("a") + second + frag()
			switch r.Intn(4) {
			case 0:
				body = "u" + d[2] + body
			case 1:
				body = frag() + second + ref("a") + frag()
			}
			s := d[0] + body + d[1]
			if r.Intn(3) == 0 {
				s = frag() + s + second + ref("a") + second
			}
			in = append(in, s)
		}
		c.Do("batch", c11Batch{D: d, Tbl: tbl, In: in, Src: "glue"})
	}
	// (concat) balanced pairs
	for i := 0; i < c.N(2500); i++ {
		c.Tick()
		d := c11Triples[i%len(c11Triples)]
		g := c11NewGen(r, d)
		var tbl [][2]string
		if r.Intn(3) == 0 {
			tbl = c11RenderTbl(d, pick(r, c11FixedTables))
		} else {
			tbl = g.table()
		}
		gen := func() string {
			for try := 0; try < 50; try++ {
				var s string
				if r.Intn(3) == 0 {
					s = c11Render(d, c11RawString(r, c11Alpha, 7))
				} else {
					s = g.input()
				}
				if c11Balanced(c11Lex(d, s)) {
					return s
				}
			}
			return "x"
		}
		s1 := gen()
		s2 := gen()
		if r.Intn(5) == 0 {
			s2 = s1
		}
		c.Do("concat", c11Concat{D: d, Tbl: tbl, S1: s1, S2: s2})
	}
}

// ---------------------------------------------------------------- evaluation

func c11Eval(c *Ctx, kind string, raw []byte) {
	switch kind {
	case "batch":
		var b c11Batch
		if err := json.Unmarshal(raw, &b); err != nil {
			panic(err)
		}
		c11EvalBatch(c, b)
	case "concat":
		var p c11Concat
		if err := json.Unmarshal(raw, &p); err != nil {
			panic(err)
		}
		c11EvalConcat(c, p)
	}
}

// c11Timed runs f on its own goroutine; false = the wall-clock backstop fired.
func c11Timed(f func()) bool {
	done := make(chan struct{})
	var esc any
	go func() {
		defer func() {
			esc = recover()
			close(done)
		}()
		f()
	}()
	select {
	case <-done:
		if esc != nil {
			panic(esc)
		}
		return true
	case <-time.After(c11Timeout):
		return false
	}
}

func c11Same(a, b c11Out) bool {
	if a.R == "cycle" && b.R == "cycle" {
		return true
	}
	return a.R == "ok" && b.R == "ok" && a.S == b.S
}

// c11DivergeFinding classifies a failed termination clause: known finding D29 covers exactly the
// tables with a value that is not delimiter-balanced (such values can glue into ever-new
// placeholders; proved divergent in Lean: Ytk.C11.resolve_diverges_counterexample). For tables whose
// values are all balanced termination is a theorem (resolve_terminates_balanced_partial), so a
// budget overrun there is an unlisted violation.
func c11DivergeFinding(d [3]string, tbl map[string]string) string {
	for _, v := range tbl {
		if !c11Balanced(c11Lex(d, v)) {
			return "D29-unbalanced-values-diverge"
		}
	}
	return ""
}

func c11EvalBatch(c *Ctx, b c11Batch) {
	tbl := c11TblMap(b.Tbl)
	n := len(b.In)
	res := make([]c11Out, n)
	dup := make([]c11Out, n)
	lexed := make([][]c11Tok, n)
	bal := make([]bool, n)
	for i, s := range b.In {
		lexed[i] = c11Lex(b.D, s)
		bal[i] = c11Balanced(lexed[i])
	}
	if !c11Timed(func() {
		cr := c11NewResolver(b.D, tbl)
		for i, s := range b.In {
			res[i] = cr.resolve(s)
			if bal[i] {
				dup[i] = cr.resolve(s + s)
			}
		}
	}) {
		c.Direct("terminates(wall-clock)", false, "batch did not finish within the backstop")
		return
	}
	nontrivial := false
	implObs := make([]any, n)
	for i, s := range b.In {
		r := res[i]
		hz := c11Hazard(b.D, lexed[i])
		hasPh := c11HasPh(lexed[i])
		if hasPh {
			nontrivial = true
		}
		c.Dist(b.Src + ":" + r.R)
		if hz {
			c.Dist(b.Src + ":has-lone-char-of-multichar-delimiter")
		}
		det := func(extra any) any { return map[string]any{"in": s, "impl": r, "more": extra} }
		c.DirectF("terminates(step-budget)", r.R != "budget", det(nil), c11DivergeFinding(b.D, tbl))
		c.Direct("no-panic-other-than-circular-reference", r.R != "panic", det(nil))
		// Resolve(s) == s when s has no prefix
		if !strings.Contains(s, b.D[0]) {
			c.Dist(b.Src + ":no-prefix")
			c.Direct("no-prefix-identity", r.R == "ok" && r.S == s, det(nil))
		}
		// agreement with the independent recursive-descent reference
		ref := c11RefResolve(b.D, tbl, s, c11RefBudget)
		if ref.R != "budget" && r.R != "budget" && r.R != "panic" {
			c.Direct("agrees-with-reference", c11Same(r, ref), det(map[string]any{"reference": ref}))
			c.Direct("circular-reference-only-on-true-cycle", r.R != "cycle" || ref.R == "cycle", det(map[string]any{"reference": ref}))
			c.Direct("true-cycle-is-reported", ref.R != "cycle" || r.R == "cycle", det(map[string]any{"reference": ref}))
		}
		// repetition: Resolve(s+s) == Resolve(s)+Resolve(s) for balanced s (never a cycle merely because of the repeat)
		if bal[i] && r.R != "budget" && r.R != "panic" && !c11Glues(b.D, s, s) {
			want := c11Out{R: "ok", S: r.S + r.S}
			if r.R == "cycle" {
				want = r
			}
			if hasPh {
				c.Dist(b.Src + ":dup-checked")
			}
			c.Direct("repeat-homomorphism", c11Same(dup[i], want), map[string]any{"in": s, "Resolve(s)": r, "Resolve(s+s)": dup[i]})
		}
		implObs[i] = map[string]any{"bal": bal[i], "ntok": len(lexed[i]), "res": c11Wire(r)}
	}
	if nontrivial {
		c.Nontrivial()
	}
	m := c.Model("resolve", map[string]any{"d": b.D, "tbl": c11TblWire(b.Tbl), "in": b.In})
	c.Corr("resolve", implObs, c11ModelObs(m))
}

func c11TblWire(t [][2]string) [][2]string {
	if t == nil {
		return [][2]string{}
	}
	return t
}

func c11Wire(r c11Out) any {
	switch r.R {
	case "ok":
		return map[string]any{"r": "ok", "s": r.S}
	case "cycle":
		return map[string]any{"r": "cycle", "o": r.O}
	case "budget":
		// the implementation ran into the step budget; the model reports running out of fuel
		return map[string]any{"r": "fuel"}
	}
	return map[string]any{"r": r.R}
}

// c11ModelObs projects the driver's answer onto what is compared: result, balance flag,
// token count; "rt" (unlex∘lex = id) must be true.
func c11ModelObs(m any) any {
	l, ok := m.([]any)
	if !ok {
		return m
	}
	out := make([]any, len(l))
	for i, e := range l {
		o, ok := e.(map[string]any)
		if !ok {
			out[i] = e
			continue
		}
		p := map[string]any{"bal": o["bal"], "ntok": o["ntok"], "res": o["res"]}
		if rt, _ := o["rt"].(bool); !rt {
			p["rt"] = o["rt"]
		}
		out[i] = p
	}
	return out
}

func c11EvalConcat(c *Ctx, p c11Concat) {
	tbl := c11TblMap(p.Tbl)
	l1, l2 := c11Lex(p.D, p.S1), c11Lex(p.D, p.S2)
	if !c11Balanced(l1) || !c11Balanced(l2) {
		c.Dist("concat:unbalanced(skipped)")
		return
	}
	if c11Glues(p.D, p.S1, p.S2) {
		c.Dist("concat:delimiter-forms-across-junction(skipped)")
		return
	}
	var r1, r2, r12 c11Out
	if !c11Timed(func() {
		cr := c11NewResolver(p.D, tbl)
		r1, r2, r12 = cr.resolve(p.S1), cr.resolve(p.S2), cr.resolve(p.S1+p.S2)
	}) {
		c.Direct("terminates(wall-clock)", false, nil)
		return
	}
	if c11HasPh(l1) && c11HasPh(l2) {
		c.Nontrivial()
	}
	det := map[string]any{"Resolve(s1)": r1, "Resolve(s2)": r2, "Resolve(s1+s2)": r12}
	for _, r := range []c11Out{r1, r2, r12} {
		c.DirectF("terminates(step-budget)", r.R != "budget", det, c11DivergeFinding(p.D, tbl))
		c.Direct("no-panic-other-than-circular-reference", r.R != "panic", det)
	}
	var want c11Out
	switch {
	case r1.R == "cycle":
		want = r1
	case r2.R == "cycle":
		want = r2
	default:
		want = c11Out{R: "ok", S: r1.S + r2.S}
	}
	c.Dist("concat:" + r1.R + "+" + r2.R)
	if r1.R != "budget" && r2.R != "budget" && r1.R != "panic" && r2.R != "panic" {
		c.Direct("concat-homomorphism", c11Same(r12, want), det)
	}
	m := c.Model("resolve", map[string]any{"d": p.D, "tbl": c11TblWire(p.Tbl), "in": []string{p.S1, p.S2, p.S1 + p.S2}})
	obs := func(r c11Out, l int, bal bool) any {
		return map[string]any{"bal": bal, "ntok": l, "res": c11Wire(r)}
	}
	c.Corr("resolve", []any{obs(r1, len(l1), true), obs(r2, len(l2), true), obs(r12, len(l1)+len(l2), true)},
		c11ModelObs(m))
}

// ---------------------------------------------------------------- shrinking

func c11DropChars(s string) []string {
	var out []string
	for i := 0; i < len(s); i++ {
		out = append(out, s[:i]+s[i+1:])
	}
	return out
}

func c11Shrink(kind string, raw []byte) [][]byte {
	var out [][]byte
	emit := func(v any) {
		// no HTML escaping: "<" must not grow to \u003c, or a smaller case looks larger
		var buf bytes.Buffer
		enc := json.NewEncoder(&buf)
		enc.SetEscapeHTML(false)
		if err := enc.Encode(v); err == nil {
			out = append(out, bytes.TrimSpace(buf.Bytes()))
		}
	}
	tblVariants := func(t [][2]string, f func([][2]string)) {
		for i := range t {
			f(append(append([][2]string{}, t[:i]...), t[i+1:]...))
		}
		for i := range t {
			for _, v := range c11DropChars(t[i][1]) {
				n := append([][2]string{}, t...)
				n[i] = [2]string{t[i][0], v}
				f(n)
			}
		}
	}
	switch kind {
	case "batch":
		var b c11Batch
		if json.Unmarshal(raw, &b) != nil {
			return nil
		}
		if len(b.In) > 1 {
			for _, s := range b.In {
				n := b
				n.In = []string{s}
				emit(n)
			}
			return out
		}
		tblVariants(b.Tbl, func(t [][2]string) { n := b; n.Tbl = t; emit(n) })
		if len(b.In) == 1 {
			for _, s := range c11DropChars(b.In[0]) {
				n := b
				n.In = []string{s}
				emit(n)
			}
		}
	case "concat":
		var p c11Concat
		if json.Unmarshal(raw, &p) != nil {
			return nil
		}
		tblVariants(p.Tbl, func(t [][2]string) { n := p; n.Tbl = t; emit(n) })
		for _, s := range c11DropChars(p.S1) {
			n := p
			n.S1 = s
			emit(n)
		}
		for _, s := range c11DropChars(p.S2) {
			n := p
			n.S2 = s
			emit(n)
		}
	}
	return out
}
