package main

import (
	"bytes"
	"encoding/json"
	"fmt"
	"math/rand"
	"strings"
	"text/template"

	"github.com/rkosegi/yaml-toolkit/dom"
	"github.com/rkosegi/yaml-toolkit/pipeline"
)

// C13 — lenient rendering / the template operation over a HISTORY OF TEXTS (round 9).
//
// "Lenient rendering returns ... text whose rendering fails unchanged", "the template operation stores the
// rendered text ... and only that effect": whether a text renders, and to what, is a matter of THAT text and
// of the data of that moment — not of the texts some earlier operation rendered.  c13_hist.go keeps the text
// and exchanges the data; here the data stays and the TEXTS change: a sequence of 2-5 texts is rendered by
// executors made with pipeline.New(WithData(doc)) (one kept for the sequence, or a new one per step — they
// all use the engine New() installs), each through RenderLenient / Render or through a TemplateOp.
//
// The texts use only what the template language itself offers (field access, if / with, printf, and the
// language's NAMED templates: {{define}}, {{template}}, {{block}}), so the verdict on a text comes from
// text/template applied by the harness to that text alone, on the same data, with no functions:
//
//   - text/template rejects or fails the text  -> Render fails, RenderLenient(s) == s, TemplateOp fails
//   - text/template renders the text to out     -> Render == out, RenderLenient(s) == out, TemplateOp
//     succeeds and the leaf at its path holds out
//
// A text that invokes a named template it does not define is a text "whose rendering fails"; the classes
// of interest are a definition met in an earlier text (also in one that failed after the definition, or
// that only held the definition) followed by an invocation without one, a re-definition with another body,
// and a block whose default must not be replaced by an earlier definition.
//
// Template names are made unique per evaluation (a process-wide counter is woven into every name), so
// that the verdict on a sequence depends on that sequence alone and a shrunk replay fails on its own.

type c13TextStep struct {
	S     string `json:"s"`
	Op    string `json:"op"`    // lenient | template
	Fresh bool   `json:"fresh"` // a new executor (pipeline.New) from this step on
}

type c13TextSeq struct {
	Data  W             `json:"data"`
	Steps []c13TextStep `json:"steps"`
}

var c13TextsCount int

// c13StdRender: the text alone under text/template with no functions.
func c13StdRender(s string, data any) (out string, err error) {
	o, txt := guard(func() {
		var t *template.Template
		if t, err = template.New("tmpl").Parse(s); err != nil {
			return
		}
		var b bytes.Buffer
		if err = t.Execute(&b, data); err != nil {
			return
		}
		out = b.String()
	})
	if o != "ok" {
		return "", fmt.Errorf("panic: %s", txt)
	}
	return out, err
}

func c13EvalTextSeq(c *Ctx, raw []byte) {
	var p c13TextSeq
	if err := json.Unmarshal(raw, &p); err != nil {
		panic(err)
	}
	if !c13IsDoc(p.Data) || len(p.Steps) == 0 || len(p.Steps) > 8 {
		return
	}
	for _, st := range p.Steps {
		if st.Op != "lenient" && st.Op != "template" {
			return
		}
		if strings.Contains(st.S, "c13out") { // the paths the template operations of this case write
			return
		}
	}
	c13TextsCount++
	tag := fmt.Sprintf(`"h%d_n`, c13TextsCount)
	gd := wireContainer(p.Data)
	ex := pipeline.New(pipeline.WithData(gd))
	defined := map[string]bool{}
	usedEarlier := false
	for i, st := range p.Steps {
		text := strings.ReplaceAll(st.S, `"n`, tag)
		if st.Fresh {
			ex = pipeline.New(pipeline.WithData(gd))
		}
		var snap map[string]interface{}
		var rendered, lenient string
		var rerr, operr error
		path := fmt.Sprintf("c13out%d", i)
		out, txt := guard(func() {
			_ = ex.Execute(&c13Probe{f: func(ctx pipeline.ActionContext) error {
				snap = ctx.Snapshot()
				if st.Op == "lenient" {
					rendered, rerr = ctx.TemplateEngine().Render(text, snap)
					lenient = ctx.TemplateEngine().RenderLenient(text, snap)
				}
				return nil
			}})
			if st.Op == "template" {
				operr = ex.Execute(&pipeline.TemplateOp{Template: text, Path: path})
			}
		})
		if !c.Direct("no-panic", out == "ok", map[string]any{"step": i + 1, "text": text, "panic": txt}) {
			return
		}
		want, werr := c13StdRender(text, snap)
		det := map[string]any{"step": i + 1, "text": text, "op": st.Op}
		if werr != nil {
			det["text/template on the text alone"] = werr.Error()
			c.Dist("lenient-texts:failing")
		} else {
			det["text/template on the text alone"] = want
			c.Dist("lenient-texts:renders")
		}
		switch {
		case st.Op == "lenient" && werr != nil:
			det["lenient"], det["rendered"] = lenient, rendered
			c.Direct("Render fails for a text whose rendering fails, whatever was rendered before", rerr != nil, det)
			c.Direct("RenderLenient(s)==s when rendering fails, whatever was rendered before", lenient == text, det)
		case st.Op == "lenient":
			det["lenient"], det["rendered"] = lenient, rendered
			if rerr != nil {
				det["error"] = rerr.Error()
			}
			c.Direct("Render(s) is the rendering of s alone, whatever was rendered before", rerr == nil && rendered == want, det)
			c.Direct("RenderLenient(s)==Render(s) when rendering succeeds", lenient == want, det)
		case werr != nil:
			c.Direct("template operation fails for a text whose rendering fails, whatever was rendered before", operr != nil, det)
		default:
			var got any
			if l, ok := gd.Child(path).(dom.Leaf); ok {
				got = l.Value()
			}
			det["stored"] = got
			if operr != nil {
				det["error"] = operr.Error()
			}
			c.Direct("template operation stores the rendering of its text alone", operr == nil && got == want, det)
		}
		// bookkeeping for the evidence: an invocation of a name an EARLIER text defined, by a text that does not
		for n := 0; n < 4; n++ {
			name := fmt.Sprintf(`"n%d"`, n)
			def := strings.Contains(st.S, "define "+name) || strings.Contains(st.S, "block "+name)
			if strings.Contains(st.S, "template "+name) && !def && defined[name] {
				usedEarlier = true
			}
		}
		for n := 0; n < 4; n++ { // … and only then what this text defines
			name := fmt.Sprintf(`"n%d"`, n)
			if strings.Contains(st.S, "define "+name) || strings.Contains(st.S, "block "+name) {
				defined[name] = true
			}
		}
	}
	if len(p.Steps) >= 2 {
		c.Nontrivial()
	}
	if usedEarlier {
		c.Dist("lenient-texts:invokes-name-defined-by-earlier-text")
	}
}

// c13GenTextSeq: 2-5 texts over a pool of three template names.
func c13GenTextSeq(r *rand.Rand, g *DocGen) c13TextSeq {
	data := g.Doc(r)
	var leaves []string
	if m, ok := wireCont(data); ok {
		for _, k := range sortedKeys(m) {
			leaves = append(leaves, k)
		}
	}
	acc := func() string {
		if len(leaves) == 0 || r.Intn(4) == 0 {
			return ".nokey"
		}
		return c13TplAccess([]string{pick(r, leaves)})
	}
	name := func() string { return fmt.Sprintf(`"n%d"`, r.Intn(3)) }
	body := func() string {
		switch r.Intn(5) {
		case 0:
			return "{{ " + acc() + " }}"
		case 1:
			return "[{{ . }}]"
		case 2:
			return ""
		case 3:
			return "B" + fmt.Sprint(r.Intn(3))
		}
		return pick(r, []string{"body", "x: 1", " "})
	}
	arg := func() string { return pick(r, []string{"", " .", " \"lit\"", " " + acc()}) }
	failing := func() string {
		return pick(r, []string{"{{ .nokey.deeper.still }}", "{{ index .nokey 3 }}", "{{ nosuchfunction 1 }}", "{{ if }}", "{{ template \"n9\" }}"})
	}
	text := func() string {
		switch k := r.Intn(12); {
		case k <= 2: // a definition, alone or with its use
			n := name()
			s := "{{define " + n + "}}" + body() + "{{end}}"
			switch r.Intn(4) {
			case 0:
				s += "{{template " + n + arg() + "}}"
			case 1:
				s = "pre " + s + " post"
			case 2: // the definition is read, then the text fails
				s += failing()
			}
			return s
		case k <= 6: // an invocation without a definition
			s := "{{template " + name() + arg() + "}}"
			if r.Intn(2) == 0 {
				s = pick(r, []string{"pre-", "out.", " "}) + s
			}
			if r.Intn(4) == 0 {
				s += "{{ " + acc() + " }}"
			}
			return s
		case k <= 8: // a block: definition and invocation in one
			return "{{block " + name() + pick(r, []string{" .", " \"lit\"", " " + acc()}) + "}}" + body() + "{{end}}"
		case k == 9:
			return failing()
		case k == 10:
			return "{{ " + acc() + " }}" + pick(r, []string{"", "-tail"})
		}
		return pick(r, []string{"plain", "no template }} here", "{{ printf \"%v\" 7 }}", "{{ if .nokey }}a{{ else }}b{{ end }}"})
	}
	cs := c13TextSeq{Data: data}
	for i, m := 0, 2+r.Intn(4); i < m; i++ {
		st := c13TextStep{S: text(), Op: "lenient", Fresh: i > 0 && r.Intn(3) == 0}
		if r.Intn(3) == 0 {
			st.Op = "template"
		}
		cs.Steps = append(cs.Steps, st)
	}
	return cs
}

func c13RunTexts(c *Ctx) {
	r := c.Rng
	g := c13Gen()
	data := map[string]any{"m": map[string]any{"a": scalarWire("greeting"), "b": scalarWire(7)}}
	// the smallest histories, deterministically
	for _, fresh := range []bool{false, true} {
		for _, op := range []string{"lenient", "template"} {
			c.Do("lenient-texts", c13TextSeq{Data: data, Steps: []c13TextStep{
				{S: `{{define "n0"}}body{{end}}{{template "n0"}}`, Op: "lenient"},
				{S: `{{template "n0"}}`, Op: op, Fresh: fresh}}})
			c.Do("lenient-texts", c13TextSeq{Data: data, Steps: []c13TextStep{
				{S: `{{define "n0"}}one{{end}}`, Op: op},
				{S: `{{block "n0" .}}two{{end}}`, Op: "lenient", Fresh: fresh},
				{S: `{{define "n0"}}three{{end}}{{template "n0"}}`, Op: op},
				{S: `out.{{template "n0" .a}}`, Op: "lenient"}}})
		}
	}
	for i := 0; i < c.N(300); i++ {
		c.Tick()
		c.Do("lenient-texts", c13GenTextSeq(r, g))
	}
}

func init() {
	p := registry["C13"]
	run := p.Run
	p.Run = func(c *Ctx) {
		run(c)
		c13RunTexts(c)
	}
	p.Rule += " ROUND 9, lenient-texts cases (c13_texts.go): a HISTORY OF 2-5 TEXTS is rendered on one data document by executors made with pipeline.New (one kept, or a new one at a step), each text through Render / RenderLenient or through a TemplateOp; the texts use only the template language itself (field access, if, printf, and NAMED templates: define / template / block over a pool of three names: definitions alone, with their use, followed by a failing action; invocations without a definition; blocks), so every text is judged by text/template applied by the harness to that text alone on the same data: rejected or failing there -> Render fails, RenderLenient(s)==s, TemplateOp fails; rendering there -> same text from Render / RenderLenient / stored by TemplateOp; template names are made unique per evaluation so that a verdict depends on the sequence alone."
	ev := evals["C13"]
	evals["C13"] = func(c *Ctx, kind string, raw []byte) {
		if kind == "lenient-texts" {
			c13EvalTextSeq(c, raw)
			return
		}
		ev(c, kind, raw)
	}
}
