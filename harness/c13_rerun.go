package main

import (
	"encoding/base64"
	"encoding/json"
	"fmt"
	"math/rand"
	"os"
	"path/filepath"
	"reflect"
	"regexp"
	"sort"
	"strings"
	"time"
	"unicode/utf8"

	"github.com/rkosegi/yaml-toolkit/pipeline"
	"gopkg.in/yaml.v3"
)

// C13 — histories: ONE operation object, decoded from pipeline YAML (the only way to obtain
// `path: {ref: …}` / `file: {ref: …}`), is executed several times through one executor while the
// data document (and, for import, the files) change between the executions.  The documented
// effect of an operation is a function of its configuration and of the data at the time of the
// execution, so every execution is judged against the data AT THAT TIME:
//
//   - export: the documented rule (c13ExportRule: resolved / unresolved / wrong-kind path, text vs
//     document formats, unknown format, unopenable file) with the path and the file resolved on the
//     wire document of that moment, independently of Lookup / Resolve; only the file named at that
//     moment is touched; the model's exportOp on that document;
//   - every kind: the same outcome, document and files as a FRESH operation object decoded from the
//     same YAML and executed on an equal document ("documented effect and only that effect": an
//     execution leaves nothing behind in the operation object that shows in a later one).

const c13DirMark = "$DIR"

type c13RStep struct {
	Do      string `json:"do"` // run | put | remove | write | unlink
	Path    string `json:"path,omitempty"`
	Value   W      `json:"value,omitempty"`   // put: the node placed at Path (wire form)
	File    string `json:"file,omitempty"`    // write / unlink: a name inside the case's directory
	Content []byte `json:"content,omitempty"` // write
	// write: the file keeps the modification time it had before (cp -p, rsync -t, reproducible-build tooling, a file
	// system with coarse timestamps): what an import stores is a matter of the file's CONTENT at that moment
	Pin bool `json:"pin,omitempty"`
}

// c13PinnedTime: the modification time every pinned file carries.
var c13PinnedTime = time.Unix(1000000000, 0)

type c13Rerun struct {
	Data  W              `json:"data"`
	Kind  string         `json:"kind"` // export | import | set | patch | template | env
	Spec  map[string]any `json:"spec"` // the operation as written in a pipeline file; $DIR = the case's directory
	Env   [][2]string    `json:"env,omitempty"`
	Pre   bool           `json:"pre,omitempty"` // export: the output files exist with longer, unrelated content before each execution
	Steps []c13RStep     `json:"steps"`
}

var c13OutPool = []string{"o1.dat", "o2.dat"}

// c13Subst replaces $DIR in every string of a JSON-like value (copying it).
func c13Subst(v any, dir string) any {
	switch x := v.(type) {
	case string:
		return strings.ReplaceAll(x, c13DirMark, dir)
	case []any:
		l := make([]any, len(x))
		for i, e := range x {
			l[i] = c13Subst(e, dir)
		}
		return l
	case map[string]any:
		m := make(map[string]any, len(x))
		for k, e := range x {
			m[k] = c13Subst(e, dir)
		}
		return m
	}
	return v
}

// c13DecodeOp decodes one operation the way a pipeline file is read: as the only operation of an
// action document, through the library's own YAML decoding.
func c13DecodeOp(kind string, spec map[string]any) (pipeline.Action, error) {
	b, err := yaml.Marshal(map[string]any{kind: spec})
	if err != nil {
		return nil, err
	}
	var as pipeline.ActionSpec
	if err := yaml.Unmarshal(b, &as); err != nil {
		return nil, err
	}
	v := reflect.ValueOf(as.Operations)
	for i := 0; i < v.NumField(); i++ {
		if f := v.Field(i); f.Kind() == reflect.Ptr && !f.IsNil() {
			if a, ok := f.Interface().(pipeline.Action); ok {
				return a, nil
			}
		}
	}
	return nil, fmt.Errorf("no operation decoded")
}

func c13RunOn(ex pipeline.Executor, a pipeline.Action) (tag, txt string) {
	var err error
	out, t := guard(func() { err = ex.Execute(a) })
	if out == "panic" {
		return "panic", t
	}
	if err != nil {
		return "err", err.Error()
	}
	return "ok", ""
}

// c13ResetOutputs puts the output file pool into its initial state (absent, or stale content).
func c13ResetOutputs(dir string, pre bool) {
	for _, n := range c13OutPool {
		f := filepath.Join(dir, n)
		if pre {
			_ = os.WriteFile(f, []byte(c13Stale), 0o644)
		} else {
			_ = os.Remove(f)
		}
	}
}

// c13Outputs reads the output pool: name -> content for every file the execution touched.
func c13Outputs(dir string, pre bool, sortLines bool) map[string]any {
	out := map[string]any{}
	for _, n := range c13OutPool {
		b, err := os.ReadFile(filepath.Join(dir, n))
		if err != nil || (pre && string(b) == c13Stale) {
			continue
		}
		s := string(b)
		if sortLines {
			s = c13SortLines(s)
		}
		out[n] = s
	}
	return out
}

// c13SpecVoR reads a `file:` / `path:` entry of an export spec: absent, immediate value, or {ref: …}.
func c13SpecVoR(v any) (present, isRef bool, s string, ok bool) {
	switch x := v.(type) {
	case nil:
		return false, false, "", true
	case string:
		return true, false, x, true
	case map[string]any:
		if r, isStr := x["ref"].(string); isStr && len(x) == 1 {
			return true, true, r, true
		}
	}
	return false, false, "", false
}

// c13ResolveOnWire: ValOrRef's documented resolution, on the wire document: the immediate value, or
// the %v text of the leaf the reference addresses, or "" when it addresses nothing / no leaf.
func c13ResolveOnWire(data W, isRef bool, s string) string {
	if !isRef {
		return s
	}
	if w, ok := c13WireAt(data, s); ok && isWireLeaf(w) {
		t, _ := w.(map[string]any)["v"].(string)
		return t
	}
	return ""
}

var c13EnvNameRe = regexp.MustCompile(`^[A-Za-z0-9_]+$`)

func c13EvalRerun(c *Ctx, raw []byte) {
	var p c13Rerun
	if err := json.Unmarshal(raw, &p); err != nil {
		panic(err)
	}
	if !c13IsDoc(p.Data) || p.Spec == nil {
		return
	}
	switch p.Kind {
	case "export", "import", "set", "patch", "template", "env":
	default:
		return
	}
	for _, st := range p.Steps {
		switch st.Do {
		case "run":
		case "put":
			if segs, ok := c13ParsePath(st.Path); !ok || len(segs) == 0 || st.Value == nil {
				return
			}
		case "remove":
			if segs, ok := c13ParsePath(st.Path); !ok || len(segs) == 0 || len(segs[len(segs)-1].Idx) > 0 {
				return
			}
		case "write", "unlink":
			if st.File == "" || st.File != filepath.Base(st.File) || strings.HasPrefix(st.File, ".") {
				return
			}
		default:
			return
		}
	}
	if strings.Contains(mustJSON(p.Spec), "{{") && p.Kind == "export" {
		return // export histories keep to template-free configuration (the model's renderer is a parameter)
	}
	dir := c13TempDir(c)
	defer os.RemoveAll(dir)
	spec, _ := c13Subst(p.Spec, dir).(map[string]any)
	op, err := c13DecodeOp(p.Kind, spec)
	if err != nil {
		c.Dist("rerun:spec-not-decodable")
		return
	}
	format, _ := spec["format"].(string)
	var pathPresent, pathIsRef, fileIsRef bool
	var pathS, fileS string
	if p.Kind == "export" {
		var ok1, ok2, filePresent bool
		pathPresent, pathIsRef, pathS, ok1 = c13SpecVoR(spec["path"])
		filePresent, fileIsRef, fileS, ok2 = c13SpecVoR(spec["file"])
		if !ok1 || !ok2 || !filePresent {
			return
		}
	}
	if p.Kind == "env" {
		seen := map[string]bool{}
		for _, e := range p.Env {
			if !c13EnvNameRe.MatchString(e[0]) || seen[e[0]] || strings.ContainsRune(e[1], 0) {
				return
			}
			seen[e[0]] = true
		}
		saved := os.Environ()
		os.Clearenv()
		for _, e := range p.Env {
			_ = os.Setenv(e[0], e[1])
		}
		defer func() {
			os.Clearenv()
			for _, kv := range saved {
				if i := strings.Index(kv, "="); i > 0 {
					_ = os.Setenv(kv[:i], kv[i+1:])
				}
			}
		}()
	}
	sortLines := format == "properties"
	// details name the case's directory as $DIR (replay files are the same on every run)
	det := func(v any) any {
		var x any
		if err := json.Unmarshal([]byte(strings.ReplaceAll(mustJSON(v), dir, c13DirMark)), &x); err != nil {
			return v
		}
		return x
	}
	gd := wireContainer(c13Subst(p.Data, dir))
	ex := pipeline.New(pipeline.WithData(gd))
	runs, edits, changed := 0, 0, false
	lastBefore := ""
	c.Dist("rerun:kind=" + p.Kind)
	for _, st := range p.Steps {
		switch st.Do {
		case "put":
			edits++
			if out, t := guard(func() { gd.AddValueAt(st.Path, wireNode(c13Subst(st.Value, dir))) }); out == "panic" {
				c.Dist("rerun:edit-panicked(case dropped): " + t)
				return
			}
		case "remove":
			edits++
			if out, _ := guard(func() { gd.RemoveAt(st.Path) }); out == "panic" {
				return
			}
		case "write":
			edits++
			_ = os.WriteFile(filepath.Join(dir, st.File), st.Content, 0o644)
			if st.Pin {
				_ = os.Chtimes(filepath.Join(dir, st.File), c13PinnedTime, c13PinnedTime)
				c.Dist("rerun:file-rewritten-with-its-modification-time-kept")
			}
		case "unlink":
			edits++
			_ = os.Remove(filepath.Join(dir, st.File))
		case "run":
			before, ok, btxt := c13After(gd)
			if !ok {
				c.Dist("rerun:document-not-finite(case dropped): " + btxt)
				return
			}
			if runs > 0 && canon(before) != lastBefore {
				changed = true
			}
			lastBefore = canon(before)
			file, name, inPool := "", "", false
			if p.Kind == "export" {
				// the file named at this moment (resolved on the wire document); histories keep to the
				// case's own directory
				file = c13ResolveOnWire(before, fileIsRef, fileS)
				for _, n := range c13OutPool {
					if file == filepath.Join(dir, n) {
						name, inPool = n, true
					}
				}
				if !inPool && file != "" && !strings.HasPrefix(file, filepath.Join(dir, "no-such-dir")+"/") {
					c.Dist("rerun:export-file-outside-domain(case dropped)")
					return
				}
			}
			// every read API shows the document the walk shows — before the execution (what the reads leave
			// behind in the document is there when the operation edits it) and after it
			if pr := c13ReadAll(gd); len(pr) > 0 {
				c.Direct("every read API shows the same document (before an execution)", false, det(map[string]any{"execution": runs + 1, "data": before, "problems": pr}))
				return
			}
			// the execution under test: the one long-lived operation object (after an operation of the
			// same kind that failed part-way on another document)
			c13ResetOutputs(dir, p.Pre)
			c13Decoy(op)
			tag, txt := c13RunOn(ex, op)
			after, snapOK, stxt := c13After(gd)
			outs := c13Outputs(dir, p.Pre, sortLines)
			runs++
			if !c.Direct("no-panic", tag != "panic" && snapOK, det(map[string]any{"execution": runs, "panic": txt + stxt})) {
				return
			}
			if pr := c13ReadAll(gd); len(pr) > 0 {
				c.Direct("every read API shows the same document (after an execution)", false, det(map[string]any{"execution": runs, "data-before": before, "data": after, "problems": pr}))
			}
			// reference: a fresh object decoded from the same text, on an equal document
			fresh, ferr := c13DecodeOp(p.Kind, spec)
			if ferr != nil {
				return
			}
			gdR := wireContainer(before)
			c13ResetOutputs(dir, p.Pre)
			tagR, txtR := c13RunOn(pipeline.New(pipeline.WithData(gdR)), fresh)
			afterR, _, _ := c13After(gdR)
			outsR := c13Outputs(dir, p.Pre, sortLines)
			c.Direct("re-executed operation == fresh operation with the same configuration on the data at that time (an execution leaves no state in the operation object)",
				tag == tagR && canon(after) == canon(afterR) && canon(outs) == canon(outsR),
				det(map[string]any{"execution": runs, "data-before": before,
					"same-object":  map[string]any{"out": tag, "text": txt, "data": after, "files": outs},
					"fresh-object": map[string]any{"out": tagR, "text": txtR, "data": afterR, "files": outsR}}))
			c.Dist(fmt.Sprintf("rerun:%s:execution-%d:%s", p.Kind, min(runs, 4), tag))
			if p.Kind == "import" && tag == "ok" {
				c13ImportStoresContent(c, spec, dir, before, after, runs, det)
			}
			if p.Kind != "export" {
				continue
			}
			// ---- export: the documented rule on the data of this moment
			c.Direct("export-does-not-change-data", canon(after) == canon(before), det(map[string]any{"execution": runs, "after": after}))
			var target W
			kindOf, resolved := "absent", ""
			if !pathPresent {
				target, kindOf = before, "cont"
			} else {
				resolved = c13ResolveOnWire(before, pathIsRef, pathS)
				if _, ok := c13ParsePath(resolved); !ok {
					c.Dist("rerun:export-resolved-path-outside-domain")
					continue
				}
				if t, ok := c13WireAt(before, resolved); ok {
					target, kindOf = t, wireKind(t)
				}
			}
			c.Dist("rerun:export:" + format + "/" + kindOf + ":" + tag)
			if pathIsRef && kindOf == "absent" && runs > 1 {
				c.Dist("rerun:export:reference-stopped-resolving-or-target-gone")
			}
			content, exists := []byte(nil), false
			if s, ok := outs[name].(string); ok && inPool {
				content, exists = []byte(s), true
			} else if inPool && p.Pre {
				content, exists = []byte(c13Stale), true // still there, untouched
			}
			_, opened := outs[name]
			opened = opened && inPool
			others := []string{}
			for n := range outs {
				if n != name {
					others = append(others, n)
				}
			}
			sort.Strings(others)
			c.Direct("export-touches-only-the-file-named-at-the-time-of-the-execution", len(others) == 0,
				det(map[string]any{"execution": runs, "file-named-now": file, "also-written": others, "data-before": before}))
			if sortLines && exists {
				content = []byte(c13SortLines(string(content)))
			}
			c13ExportRule(c, format, kindOf, target, !inPool, tag, txt, exists, opened, content, det)
			var pathArg any
			if pathPresent {
				pathArg = map[string]any{"isRef": pathIsRef, "ref": "", "val": ""}
				if pathIsRef {
					pathArg.(map[string]any)["ref"] = pathS
				} else {
					pathArg.(map[string]any)["val"] = pathS
				}
			}
			c13ExportModel(c, before, format, pathArg, inPool, tag, exists, opened, content, det)
			fileArg := map[string]any{"isRef": fileIsRef, "ref": "", "val": ""}
			if fileIsRef {
				fileArg["ref"] = fileS
			} else {
				fileArg["val"] = fileS
			}
			c.Corr("valOrRef.resolve(file)", det(file), det(c.Model("resolve", map[string]any{"data": before, "v": fileArg})))
		}
	}
	if runs >= 2 && changed && c13NodeCount(p.Data) >= 2 {
		c.Nontrivial()
		c.Dist("rerun:data-changed-between-executions")
	}
	_ = edits
}

// c13ImportStoresContent: an import that succeeded stored what the file named at that moment holds at that
// moment — the text (text mode, the default), its base64 (binary), or the document yaml.v3 / encoding/json read
// from it (yaml / json; documents whose top level is a mapping) — whatever an earlier execution read from a file
// of that name.  The file name is an immediate value or `$DIR/{{ .fn }}` (resolved on the wire document); the path
// is an immediate, non-empty path.
func c13ImportStoresContent(c *Ctx, spec map[string]any, dir string, before, after W, run int, det func(any) any) {
	file, _ := spec["file"].(string)
	path, _ := spec["path"].(string)
	mode, _ := spec["mode"].(string)
	if strings.Contains(file, "{{ .fn }}") {
		fn, ok := c13WireAt(before, "fn")
		if !ok || !isWireLeaf(fn) {
			return
		}
		t, _ := fn.(map[string]any)["v"].(string)
		file = strings.ReplaceAll(file, "{{ .fn }}", t)
	}
	if strings.Contains(file, "{{") || strings.Contains(path, "{{") || path == "" || filepath.Dir(file) != dir {
		return
	}
	if segs, ok := c13ParsePath(path); !ok || len(segs) == 0 {
		return
	}
	content, err := os.ReadFile(file)
	if err != nil {
		return
	}
	var want W
	switch mode {
	case "", "text":
		if !utf8.Valid(content) {
			return
		}
		want = scalarWire(string(content))
	case "binary":
		want = scalarWire(base64.StdEncoding.EncodeToString(content))
	case "yaml", "json":
		var v any
		if mode == "yaml" {
			err = yaml.Unmarshal(content, &v)
		} else {
			err = json.Unmarshal(content, &v)
		}
		m, isMap := v.(map[string]any)
		if err != nil || !isMap {
			return
		}
		want = plainWire(m)
	default:
		return
	}
	got, ok := c13WireAt(after, path)
	c.Dist("rerun:import:content-at-that-time-checked:" + mode)
	c.Direct("import stores what the file holds at the time of the execution", ok && canon(got) == canon(want),
		det(map[string]any{"execution": run, "mode": mode, "file-content-now": string(content), "stored": got, "want": want}))
}

// c13SameLength: another content of the same length — one letter / digit exchanged for another one.
func c13SameLength(r *rand.Rand, b []byte) []byte {
	var at []int
	for i, ch := range b {
		if (ch >= 'a' && ch <= 'z') || (ch >= '1' && ch <= '9') {
			at = append(at, i)
		}
	}
	if len(at) == 0 {
		return nil
	}
	out := append([]byte{}, b...)
	i := pick(r, at)
	for out[i] == b[i] {
		if b[i] >= 'a' && b[i] <= 'z' {
			out[i] = byte('a' + r.Intn(26))
		} else {
			out[i] = byte('1' + r.Intn(9))
		}
	}
	return out
}

// ------------------------------------------------------------------ generators

func c13Leaf(s string) W { return scalarWire(s) }

// c13PutWire places a node into a wire document through the builder (path-safe dotted path).
func c13PutWire(data W, path string, v W) W {
	gd := wireContainer(data)
	gd.AddValueAt(path, wireNode(v))
	return nodeWire(gd)
}

// c13RandomEdit: an edit somewhere in the document.
func c13RandomEdit(r *rand.Rand, g *DocGen, data W) c13RStep {
	t := c13Target(r, g, data)
	if segs, ok := c13ParsePath(t); ok && len(segs) > 0 && len(segs[len(segs)-1].Idx) == 0 && r.Intn(3) == 0 {
		return c13RStep{Do: "remove", Path: t}
	}
	return c13RStep{Do: "put", Path: t, Value: g.Node(r, g.MaxDepth-1)}
}

func c13ParentPath(p string) string {
	if i := strings.LastIndex(p, "."); i > 0 {
		return p[:i]
	}
	return ""
}

// c13RerunExport: an export whose path and / or file is a reference (or an immediate value), run
// again after the referenced leaf was removed, turned into a container / list / other scalar,
// pointed elsewhere, or after the target itself changed.
func c13RerunExport(r *rand.Rand, g *DocGen) c13Rerun {
	data := g.Doc(r)
	format := pick(r, []string{"yaml", "yaml", "json", "json", "properties", "text", "text", "xml"})
	var paths, lists []string
	wirePaths(data, "", &paths, &lists)
	conts := c13ContPaths(data)
	var leaves []string
	for _, p := range paths {
		if w, ok := c13WireAt(data, p); ok && isWireLeaf(w) {
			leaves = append(leaves, p)
		}
	}
	// what the reference points to at first
	pointsTo := func() string {
		switch {
		case format == "text" && len(leaves) > 0 && r.Intn(5) > 0:
			return pick(r, leaves)
		case format != "text" && len(conts) > 0 && r.Intn(6) > 0:
			return pick(r, conts)
		}
		return c13Target(r, g, data)
	}
	first := pointsTo()
	refAt := pick(r, []string{"pref", "pref", "cfg.pref", "n1.n2.pref"})
	frefAt := pick(r, []string{"fref", "cfg.fref"})
	spec := map[string]any{"format": format}
	usesPathRef, usesFileRef := false, false
	switch k := r.Intn(20); {
	case k < 12:
		spec["path"] = map[string]any{"ref": refAt}
		usesPathRef = true
	case k < 14 && len(paths) > 0: // a reference to whatever is there
		refAt = pick(r, paths)
		spec["path"] = map[string]any{"ref": refAt}
	case k < 17:
		spec["path"] = first
	case k < 18:
		spec["path"] = ""
	default: // nil path: the whole document
	}
	if r.Intn(10) < 3 {
		spec["file"] = map[string]any{"ref": frefAt}
		usesFileRef = true
	} else {
		spec["file"] = c13DirMark + "/" + pick(r, c13OutPool)
	}
	if usesPathRef {
		data = c13PutWire(data, refAt, c13Leaf(first))
	}
	if usesFileRef {
		data = c13PutWire(data, frefAt, c13Leaf(c13DirMark+"/o1.dat"))
	}
	cs := c13Rerun{Data: data, Kind: "export", Spec: spec, Pre: r.Intn(2) == 0}
	cs.Steps = append(cs.Steps, c13RStep{Do: "run"})
	for n := 1 + r.Intn(3); n > 0; n-- {
		for e := 1 + r.Intn(2); e > 0; e-- {
			var st c13RStep
			switch k := r.Intn(20); {
			case k < 3:
				st = c13RStep{Do: "remove", Path: refAt}
			case k < 4 && c13ParentPath(refAt) != "":
				st = c13RStep{Do: "remove", Path: c13ParentPath(refAt)}
			case k < 6:
				st = c13RStep{Do: "put", Path: refAt, Value: g.Cont(r, 2)}
			case k < 7:
				st = c13RStep{Do: "put", Path: refAt, Value: g.List(r, 2)}
			case k < 8:
				st = c13RStep{Do: "put", Path: refAt, Value: g.Scalar(r)}
			case k < 10: // the reference points elsewhere
				st = c13RStep{Do: "put", Path: refAt, Value: c13Leaf(pointsTo())}
			case k < 11: // ... or to what it pointed to at first
				st = c13RStep{Do: "put", Path: refAt, Value: c13Leaf(first)}
			case k < 13: // the target changes
				if r.Intn(2) == 0 {
					st = c13RStep{Do: "put", Path: first, Value: g.Node(r, 2)}
				} else {
					st = c13RStep{Do: "put", Path: first + ".zz", Value: g.Scalar(r)}
				}
			case k < 14:
				st = c13RStep{Do: "remove", Path: first}
			case k < 18 && usesFileRef:
				switch r.Intn(5) {
				case 0:
					st = c13RStep{Do: "remove", Path: frefAt}
				case 1:
					st = c13RStep{Do: "put", Path: frefAt, Value: g.Cont(r, 2)}
				case 2:
					st = c13RStep{Do: "put", Path: frefAt, Value: c13Leaf(c13DirMark + "/no-such-dir/o.dat")}
				case 3:
					st = c13RStep{Do: "put", Path: frefAt, Value: c13Leaf(c13DirMark + "/o1.dat")}
				default:
					st = c13RStep{Do: "put", Path: frefAt, Value: c13Leaf(c13DirMark + "/o2.dat")}
				}
			default:
				st = c13RandomEdit(r, g, data)
			}
			if st.Do == "remove" {
				if segs, ok := c13ParsePath(st.Path); !ok || len(segs) == 0 || len(segs[len(segs)-1].Idx) > 0 {
					st = c13RStep{Do: "put", Path: st.Path, Value: g.Scalar(r)}
				}
			}
			if st.Path == "" || strings.HasPrefix(st.Path, ".") {
				st = c13RandomEdit(r, g, data)
			}
			// the file reference only ever holds names inside the case's directory
			if st.Do == "put" && st.Path == frefAt && isWireLeaf(st.Value) {
				if s, _ := st.Value.(map[string]any)["v"].(string); !strings.HasPrefix(s, c13DirMark+"/") {
					st = c13RStep{Do: "remove", Path: frefAt}
				}
			}
			cs.Steps = append(cs.Steps, st)
		}
		cs.Steps = append(cs.Steps, c13RStep{Do: "run"})
	}
	return cs
}

// c13RerunOther: set / patch / template / import / env operation objects re-executed while the data
// (and the imported files) change.  Their path / file / template fields are rendered against the
// data at the time of the execution, so some of them are written as templates over leaves (`pp`,
// `pk`, `fn`, `tv`) that the edits change.
func c13RerunOther(r *rand.Rand, g *DocGen, kind string) c13Rerun {
	data := g.Doc(r)
	cs := c13Rerun{Data: data, Kind: kind, Spec: map[string]any{}}
	plainPayload := func() map[string]any {
		gp := &DocGen{Keys: defaultKeys, MaxDepth: 3, MaxWidth: 3, ListMax: 3, PNull: 0, PEmpty: 0.15, PList: 0.3, PLeaf: 0.5,
			Types: []string{"int", "string", "bool"}, Strings: []string{"", "s", "t", "a b", "héllo"}}
		m, _ := wirePlain(gp.Cont(r, 1)).(map[string]any)
		return m
	}
	tmplPath := func() string { // a path given as a template over the leaf `pp`
		cs.Data = c13PutWire(cs.Data, "pp", c13Leaf(c13Target(r, g, data)))
		return "{{ .pp }}"
	}
	var special []c13RStep // edits aimed at the leaves the configuration reads
	switch kind {
	case "set":
		cs.Spec["data"] = plainPayload()
		if r.Intn(5) > 0 {
			cs.Spec["path"] = c13Target(r, g, data)
		}
		if r.Intn(2) == 0 {
			cs.Spec["strategy"] = pick(r, []string{"merge", "replace", "replace", "bogus"})
		}
	case "patch":
		opn := pick(r, []string{"add", "add", "remove", "replace", "move", "copy", "test"})
		cs.Spec["op"] = opn
		cs.Spec["path"] = c13Pointer(c13Target(r, g, data))
		if r.Intn(4) == 0 {
			cs.Data = c13PutWire(cs.Data, "pk", c13Leaf(pick(r, g.Keys)))
			cs.Spec["path"] = "/{{ .pk }}"
			special = append(special, c13RStep{Do: "put", Path: "pk", Value: c13Leaf(pick(r, g.Keys))}, c13RStep{Do: "remove", Path: "pk"})
		}
		switch r.Intn(4) {
		case 0: // a leaf value
			cs.Spec["value"] = pick(r, []any{"v", 7, true, "", "x y"})
		case 1: // a composite value: every execution must place a value of its own (D30: the operation's node itself was placed)
			if r.Intn(2) == 0 {
				cs.Spec["value"] = plainPayload()
			} else {
				cs.Spec["value"] = []any{plainPayload(), pick(r, []any{"v", 7, nil})}
			}
		default:
			cs.Spec["valueFrom"] = c13Target(r, g, data)
			if conts := c13ContPaths(data); len(conts) > 0 && r.Intn(2) == 0 {
				cs.Spec["valueFrom"] = pick(r, conts)
			}
		}
		if opn == "move" || opn == "copy" {
			cs.Spec["from"] = c13Pointer(c13Target(r, g, data))
		}
	case "template":
		cs.Data = c13PutWire(cs.Data, "tv", c13Leaf(pick(r, []string{"one", "k: v", "- 1\n- 2", " padded "})))
		cs.Spec["template"] = pick(r, []string{"{{ .tv }}", "x{{ .tv }}y", "literal", `{{ index . "a" }}`, "{{ .tv }}{{ .pp }}", `{{ fail "boom" }}`})
		cs.Spec["path"] = c13Target(r, g, data)
		if r.Intn(3) == 0 {
			cs.Spec["path"] = tmplPath()
		}
		if r.Intn(2) == 0 {
			cs.Spec["parseAs"] = pick(r, []string{"none", "yaml", "yaml", "bogus"})
		}
		if r.Intn(2) == 0 {
			cs.Spec["trim"] = r.Intn(2) == 0
		}
		special = append(special,
			c13RStep{Do: "put", Path: "tv", Value: c13Leaf(pick(r, []string{"two", "q: [1, 2]", "a: [1, 2", ""}))},
			c13RStep{Do: "remove", Path: "tv"}, c13RStep{Do: "put", Path: "tv", Value: g.Cont(r, 2)})
	case "import":
		cs.Spec["mode"] = pick(r, []string{"text", "text", "binary", "yaml", "json", "bogus"})
		if r.Intn(6) == 0 {
			delete(cs.Spec, "mode")
		}
		cs.Spec["file"] = c13DirMark + "/in1.dat"
		if r.Intn(2) == 0 {
			cs.Data = c13PutWire(cs.Data, "fn", c13Leaf("in1.dat"))
			cs.Spec["file"] = c13DirMark + "/{{ .fn }}"
			special = append(special, c13RStep{Do: "put", Path: "fn", Value: c13Leaf("in2.dat")}, c13RStep{Do: "remove", Path: "fn"},
				c13RStep{Do: "put", Path: "fn", Value: c13Leaf("in1.dat")})
		}
		cs.Spec["path"] = c13Target(r, g, data)
		if r.Intn(3) == 0 {
			cs.Spec["path"] = tmplPath()
		}
		if r.Intn(10) == 0 {
			cs.Spec["path"] = ""
		}
		content := func() []byte {
			switch cs.Spec["mode"] {
			case "yaml":
				b, _ := yaml.Marshal(wirePlain(g.Doc(r)))
				return b
			case "json":
				b, _ := json.Marshal(wirePlain(g.Doc(r)))
				return b
			}
			return []byte(pick(r, []string{"", "abc", "x: 1\n", "{{ .a }}", "é\x00\xff", "line1\nline2\n"}))
		}
		first := content()
		cs.Steps = append(cs.Steps, c13RStep{Do: "write", File: "in1.dat", Content: first})
		if r.Intn(3) == 0 {
			// the file is rewritten in place between the executions: content of the same length (one letter / digit
			// exchanged), modification time kept
			cs.Steps[len(cs.Steps)-1].Pin = true
			prev := first
			for i := 0; i < 3; i++ {
				if next := c13SameLength(r, prev); next != nil {
					special = append(special, c13RStep{Do: "write", File: "in1.dat", Content: next, Pin: true})
					prev = next
				}
			}
			special = append(special, special...) // (drawn more often than the other edits)
		}
		if r.Intn(2) == 0 {
			cs.Steps = append(cs.Steps, c13RStep{Do: "write", File: "in2.dat", Content: content()})
		}
		special = append(special, c13RStep{Do: "write", File: "in1.dat", Content: content()}, c13RStep{Do: "write", File: "in2.dat", Content: content()},
			c13RStep{Do: "unlink", File: "in1.dat"})
	case "env":
		if r.Intn(2) == 0 {
			cs.Spec["path"] = c13Target(r, g, data)
		}
		if r.Intn(2) == 0 {
			cs.Spec["include"] = pick(r, []string{"^YTKV_", "A", "_B", ".*", "X|Y"})
		}
		if r.Intn(3) == 0 {
			cs.Spec["exclude"] = pick(r, []string{"^YTKV_", "A", "[0-9]$", "^$"})
		}
		for _, n := range []string{"YTKV_A", "YTKV_B1", "HOME_X", "X9", "Y"} {
			if r.Intn(2) == 0 {
				cs.Env = append(cs.Env, [2]string{n, pick(r, []string{"", "1", "v", "a=b", "x y", "é"})})
			}
		}
	}
	if cs.Spec["path"] == "{{ .pp }}" || cs.Spec["template"] == "{{ .tv }}{{ .pp }}" {
		special = append(special, c13RStep{Do: "put", Path: "pp", Value: c13Leaf(c13Target(r, g, data))}, c13RStep{Do: "remove", Path: "pp"},
			c13RStep{Do: "put", Path: "pp", Value: g.Cont(r, 2)})
	}
	cs.Steps = append(cs.Steps, c13RStep{Do: "run"})
	for n := 1 + r.Intn(3); n > 0; n-- {
		for e := 1 + r.Intn(2); e > 0; e-- {
			if len(special) > 0 && r.Intn(2) == 0 {
				cs.Steps = append(cs.Steps, pick(r, special))
			} else {
				cs.Steps = append(cs.Steps, c13RandomEdit(r, g, data))
			}
		}
		cs.Steps = append(cs.Steps, c13RStep{Do: "run"})
	}
	return cs
}

func c13RunRerun(c *Ctx) {
	c13RunPatchRFC(c) // patch operations with related locations (c13_patch.go)
	c13RunLarge(c)    // large files (c13_more.go)
	r := c.Rng
	g := c13Gen()
	if !c.searchMode {
		// the smallest import histories: one file rewritten in place (same length; modification time kept or not)
		for _, h := range [][3]string{{"yaml", "a: one\n", "a: two\n"}, {"json", `{"a":1}`, `{"a":2}`}, {"text", "one", "two"}, {"binary", "one", "two"}, {"yaml", "a: 1\n", "b: 1\n"}} {
			for _, pin := range []bool{true, false} {
				c.Do("rerun", c13Rerun{Data: map[string]any{"m": map[string]any{}}, Kind: "import",
					Spec: map[string]any{"file": c13DirMark + "/in1.dat", "mode": h[0], "path": "imp"},
					Steps: []c13RStep{{Do: "write", File: "in1.dat", Content: []byte(h[1]), Pin: pin}, {Do: "run"},
						{Do: "write", File: "in1.dat", Content: []byte(h[2]), Pin: pin}, {Do: "run"},
						{Do: "write", File: "in1.dat", Content: []byte(h[1]), Pin: pin}, {Do: "run"}}})
			}
		}
	}
	for i := 0; i < c.N(700); i++ {
		c.Tick()
		c.Do("rerun", c13RerunExport(r, g))
	}
	for _, kind := range []string{"set", "patch", "template", "import", "env"} {
		for i := 0; i < c.N(150); i++ {
			c.Tick()
			c.Do("rerun", c13RerunOther(r, g, kind))
		}
	}
}
