package main

import (
	"fmt"
	"strconv"
	"strings"

	"github.com/rkosegi/yaml-toolkit/dom"
)

// C16 — canonical signatures for the repeated-run loops.
//
// The check builds the same document 50 times through each entry point and compares the results.
// Comparing through nodeWire + JSON made these loops the hot spot of the quick run; a signature is
// written straight from Children() / Items() / Value() instead: children in key order, every name
// and scalar length-prefixed, leaves as Go type + fmt.Sprint text — the same information as the
// wire form, so two trees have equal signatures iff their wire forms are equal.  The wire form (for
// the model comparison and for failure details) is still built for the first run and for any run
// whose signature differs.

func c16SigStr(sb *strings.Builder, s string) {
	sb.WriteString(strconv.Itoa(len(s)))
	sb.WriteByte(':')
	sb.WriteString(s)
}

func c16SigScalar(sb *strings.Builder, v any) {
	sb.WriteByte('s')
	if v == nil {
		c16SigStr(sb, "nil")
		c16SigStr(sb, "<nil>")
		return
	}
	if s, ok := v.(string); ok {
		c16SigStr(sb, "string")
		c16SigStr(sb, s)
		return
	}
	c16SigStr(sb, fmt.Sprintf("%T", v))
	c16SigStr(sb, fmt.Sprint(v))
}

// c16Sig: signature of a DOM node (nil node: "0").
func c16Sig(sb *strings.Builder, n dom.Node) {
	switch {
	case n == nil:
		sb.WriteByte('0')
	case n.IsContainer():
		ch := n.(dom.Container).Children()
		sb.WriteByte('{')
		for _, k := range sortedKeys(ch) {
			c16SigStr(sb, k)
			c16Sig(sb, ch[k])
		}
		sb.WriteByte('}')
	case n.IsList():
		sb.WriteByte('[')
		for _, e := range n.(dom.List).Items() {
			c16Sig(sb, e)
		}
		sb.WriteByte(']')
	default:
		c16SigScalar(sb, n.(dom.Leaf).Value())
	}
}

func c16NodeSig(n dom.Node) string {
	var sb strings.Builder
	c16Sig(&sb, n)
	return sb.String()
}

// c16PlainSig: signature of a plain Go tree (map[string]any / []any / scalars), in the same format
// as c16Sig gives for the DOM tree of the same shape.
func c16PlainSig(sb *strings.Builder, v any) {
	switch x := v.(type) {
	case map[string]any:
		sb.WriteByte('{')
		for _, k := range sortedKeys(x) {
			c16SigStr(sb, k)
			c16PlainSig(sb, x[k])
		}
		sb.WriteByte('}')
	case []any:
		sb.WriteByte('[')
		for _, e := range x {
			c16PlainSig(sb, e)
		}
		sb.WriteByte(']')
	default:
		c16SigScalar(sb, v)
	}
}

// c16FlatSig: signature of a flattened view (path -> scalar), paths in order.
func c16FlatSig[T any](m map[string]T, val func(T) any) string {
	var sb strings.Builder
	for _, k := range sortedKeys(m) {
		c16SigStr(&sb, k)
		c16SigScalar(&sb, val(m[k]))
	}
	return sb.String()
}
