package main

import (
	"crypto/sha256"
	"encoding/json"
	"fmt"
	"io"
	"math/rand"
	"os"
	"path/filepath"
	"strings"
	"unicode/utf8"

	"github.com/rkosegi/yaml-toolkit/analytics"
	"github.com/rkosegi/yaml-toolkit/dom"
	"gopkg.in/yaml.v3"
)

// C18, document SIZE and the equivalent ENTRY POINTS of a document set.
//
// "... each layer equal to the document registered under that name": any document - also one whose text has 511
// bytes, 4 KiB, 64 KiB or more than 1 MiB - and whichever way it was registered.  One case = one document whose
// YAML / JSON text has an EXACT size in bytes (just under / at / just over 512 B, 4 KiB, 64 KiB, 1 MiB), the bulk
// being one long string value, many keys, or a long list, optionally of multi-byte UTF-8 characters with one of
// them lying across the threshold offset.  The same text is registered through AddDocumentFromReader (a reader
// handing it out whole / in chunks / with the last chunk together with io.EOF), AddDocumentFromFile, and - decoded
// by the harness with yaml.v3 / encoding/json, independently of the code under test - through AddDocument of a
// FromMap-built document, between two small documents.  All leaves are strings, so the expected content is the
// generated document itself.  Each registration is preceded by readers that FAIL part-way through the same text:
// an error, and nothing registered.  Then: AsOne / TaggedSubset / NamedDocument serve, under each of the three
// names, exactly the generated document; the three served documents are Equal to each other; order and tag
// selection as the property says.  Direct predicates only (documents of a megabyte are slow through the model's
// JSON pipe; the model has no notion of entry points).

type c18Big struct {
	Size     int      `json:"size"`          // exact size of the text in bytes (0: natural)
	Enc      string   `json:"enc"`           // yaml | json
	Fill     string   `json:"fill"`          // value | keys | list
	Unit     string   `json:"unit"`          // what the bulk repeats
	Cut      int      `json:"cut,omitempty"` // > 0: a multi-byte character of the bulk is to lie across this offset of the text
	Doc      W        `json:"doc"`           // the rest of the document (string leaves)
	Small    W        `json:"small"`         // the small document registered before and after
	Tags     []string `json:"tags"`          // tags of the big registrations
	Reader   string   `json:"reader"`        // whole | chunk | dataeof
	Chunk    int      `json:"chunk,omitempty"`
	FailRead []int    `json:"failRead"` // permille of the text after which a preceding reader fails
}

var c18Thresholds = []int{512, 4096, 65536, 1 << 20}

func c18GenBig(r *rand.Rand, size, cut int) c18Big {
	g := stdGen()
	g.MaxDepth, g.MaxWidth, g.ListMax = 2, 3, 3
	g.Types = []string{"string"}
	g.PNull, g.PEmpty = 0, 0
	g.Strings = []string{"s", "x y", "héllo", "v1", "日本"}
	cs := c18Big{Size: size, Enc: pick(r, []string{"yaml", "json"}), Fill: pick(r, []string{"value", "value", "keys", "list"}),
		Unit: pick(r, []string{"ab", "x", "é", "日", "ü日", "0123456789"}), Doc: g.Doc(r), Small: g.Doc(r), Tags: []string{},
		Reader: pick(r, []string{"whole", "chunk", "chunk", "dataeof"}), Chunk: pick(r, []int{1, 7, 512, 4096, 65536}), FailRead: []int{}}
	if size > 65536 && cs.Chunk < 512 {
		cs.Chunk = 4096
	}
	if size > 0 && size <= 1024 {
		cs.Doc = map[string]any{"m": map[string]any{"k": scalarWire("v")}}
	}
	if cut > 0 && r.Intn(3) > 0 {
		cs.Fill, cs.Cut, cs.Unit = "value", cut, pick(r, []string{"é", "日", "ü日"})
	}
	for n := r.Intn(3); n > 0; n-- {
		cs.Tags = append(cs.Tags, pick(r, c18Tags))
	}
	for n := r.Intn(3); n > 0; n-- {
		cs.FailRead = append(cs.FailRead, pick(r, []int{0, 0, 1, 500, 999, r.Intn(1000)}))
	}
	return cs
}

func c18BigCases(c *Ctx) {
	r := c.Rng
	for rep := 0; rep < c.N(1); rep++ {
		for _, t := range c18Thresholds {
			for i, size := range []int{t - 1, t, t + 1, t + 2 + r.Intn(40), t + 100 + r.Intn(t/4)} {
				c.Tick()
				cut := 0
				if i >= 3 {
					cut = t
				}
				c.Do("bigdocs", c18GenBig(r, size, cut))
			}
		}
	}
	for i := 0; i < c.N(30); i++ {
		c.Tick()
		c.Do("bigdocs", c18GenBig(r, 0, 0))
	}
}

// c18BigBuild: the document (wire form, string leaves) and its text of the exact size.
func c18BigBuild(cs c18Big) (doc W, text string, exact, cross bool) {
	base, ok := wireCont(deepCopyW(cs.Doc))
	if !ok {
		base = map[string]any{}
	}
	for k := range base {
		if strings.HasPrefix(k, "zz") || strings.HasPrefix(k, "k0") {
			delete(base, k)
		}
	}
	unit := cs.Unit
	if unit == "" || strings.ContainsAny(unit, " \n\t:#\"\\") {
		unit = "x"
	}
	marshal := func(w W) string {
		plain := wirePlain(w)
		if cs.Enc == "json" {
			b, err := json.Marshal(plain)
			if err != nil {
				panic(err)
			}
			return string(b)
		}
		b, err := yaml.Marshal(plain)
		if err != nil {
			panic(err)
		}
		return string(b)
	}
	with := func(lead, n, pad int) W {
		m := map[string]any{}
		for k, v := range base {
			m[k] = v
		}
		s := strings.Repeat("x", lead) + strings.Repeat(unit, n)
		per := 40
		if cs.Size > 100000 {
			per = 480 // yaml.v3 checks mapping keys for duplicates pairwise: keep the number of keys moderate
		}
		split := func() []string {
			var parts []string
			for len(s) > per {
				at := per
				for at > 0 && !utf8.RuneStart(s[at]) {
					at--
				}
				parts = append(parts, s[:at])
				s = s[at:]
			}
			return append(parts, s)
		}
		switch cs.Fill {
		case "keys":
			sub := map[string]any{}
			for i, p := range split() {
				sub[fmt.Sprintf("k%06d", i)] = scalarWire("v" + p)
			}
			m["zz-bulk"] = map[string]any{"m": sub}
		case "list":
			var l []any
			for _, p := range split() {
				l = append(l, scalarWire("v"+p))
			}
			m["zz-bulk"] = l
		default:
			m["zz-bulk"] = scalarWire("v" + s)
		}
		m["zz-pad"] = scalarWire("p" + strings.Repeat("p", pad))
		return map[string]any{"m": m}
	}
	if cs.Size <= 0 {
		doc = map[string]any{"m": base}
		return doc, marshal(doc), true, false
	}
	size := func(lead, n, pad int) int { return len(marshal(with(lead, n, pad))) }
	multi := len(unit) != len([]rune(unit))
	for lead := 0; lead < 4; lead++ {
		s0 := size(lead, 0, 0)
		if s0 > cs.Size {
			break
		}
		const cal = 4096
		g := size(lead, cal, 0) - s0
		n := 0
		if g > 0 {
			n = int(int64(cs.Size-s0) * cal / int64(g))
			for it := 0; it < 4; it++ {
				d := cs.Size - size(lead, n, 0)
				if d >= 0 && d <= g/cal+64 {
					break
				}
				step := int(int64(d) * cal / int64(g))
				if step == 0 {
					step = -1
				}
				if n += step; n < 0 {
					n = 0
				}
			}
			for n > 0 && size(lead, n, 0) > cs.Size {
				n--
			}
		}
		pad := 0
		for tries := 0; tries < 4; tries++ {
			d := cs.Size - size(lead, n, pad)
			if d == 0 {
				break
			}
			if pad += d; pad < 0 {
				pad = 0
				break
			}
		}
		w := with(lead, n, pad)
		t := marshal(w)
		ex := len(t) == cs.Size
		cr := cs.Cut > 0 && cs.Cut < len(t) && !utf8.RuneStart(t[cs.Cut])
		if doc == nil || (ex && !exact) || (ex == exact && cr && !cross) {
			doc, text, exact, cross = w, t, ex, cr
		}
		if exact && (cs.Cut <= 0 || cross || !multi || cs.Fill != "value") {
			break
		}
	}
	if doc == nil {
		doc = map[string]any{"m": base}
		text = marshal(doc)
	}
	return
}

// c18WireDigest: a document compared without printing megabytes.
func c18WireDigest(w W) string {
	h := sha256.New()
	nodes, bytes := 0, 0
	var walk func(w W)
	walk = func(w W) {
		nodes++
		switch x := w.(type) {
		case []any:
			fmt.Fprintf(h, "[%d", len(x))
			for _, e := range x {
				walk(e)
			}
		case map[string]any:
			if m, ok := x["m"].(map[string]any); ok {
				fmt.Fprintf(h, "{%d", len(m))
				for _, k := range sortedKeys(m) {
					fmt.Fprintf(h, "%q:", k)
					walk(m[k])
				}
				return
			}
			t, _ := x["t"].(string)
			v, _ := x["v"].(string)
			bytes += len(v)
			fmt.Fprintf(h, "%s %d:%s", t, len(v), v)
		case nil:
			fmt.Fprint(h, "absent")
		}
	}
	walk(w)
	return fmt.Sprintf("%d nodes, %d bytes of scalars, sha256 %x", nodes, bytes, h.Sum(nil)[:8])
}

// c18WireDiff: the first position at which two documents differ.
func c18WireDiff(a, b W, path string) string {
	clip := func(s string) string {
		if len(s) > 48 {
			i := 24
			for i > 0 && !utf8.RuneStart(s[i]) {
				i--
			}
			return fmt.Sprintf("%q…(%d bytes)", s[:i], len(s))
		}
		return fmt.Sprintf("%q", s)
	}
	switch x := a.(type) {
	case []any:
		y, ok := b.([]any)
		if !ok {
			return path + ": a list vs something else"
		}
		if len(x) != len(y) {
			return fmt.Sprintf("%s: lists of %d vs %d items", path, len(x), len(y))
		}
		for i := range x {
			if d := c18WireDiff(x[i], y[i], fmt.Sprintf("%s[%d]", path, i)); d != "" {
				return d
			}
		}
		return ""
	case map[string]any:
		y, ok := b.(map[string]any)
		if !ok {
			return path + ": a node vs nothing / a list"
		}
		xm, xc := x["m"].(map[string]any)
		ym, yc := y["m"].(map[string]any)
		if xc != yc {
			return path + ": a container vs a leaf"
		}
		if xc {
			for _, k := range sortedKeys(xm) {
				if _, ok := ym[k]; !ok {
					return fmt.Sprintf("%s: key %q only in the first (%d vs %d keys)", path, k, len(xm), len(ym))
				}
				if d := c18WireDiff(xm[k], ym[k], path+"."+k); d != "" {
					return d
				}
			}
			for _, k := range sortedKeys(ym) {
				if _, ok := xm[k]; !ok {
					return fmt.Sprintf("%s: key %q only in the second (%d vs %d keys)", path, k, len(xm), len(ym))
				}
			}
			return ""
		}
		if x["t"] != y["t"] || x["v"] != y["v"] {
			xv, _ := x["v"].(string)
			yv, _ := y["v"].(string)
			return fmt.Sprintf("%s: %v %s vs %v %s", path, x["t"], clip(xv), y["t"], clip(yv))
		}
		return ""
	}
	if a == nil && b == nil {
		return ""
	}
	return path + ": absent vs present"
}

// c18Reader hands the text out in chunks; failAt >= 0: an I/O error instead of the byte at that offset.
type c18Reader struct {
	text    string
	pos     int
	chunk   int
	dataEOF bool
	failAt  int
}

func (r *c18Reader) Read(p []byte) (int, error) {
	if len(p) == 0 {
		return 0, nil
	}
	end := len(r.text)
	if r.failAt >= 0 && r.failAt < end {
		end = r.failAt
	}
	if r.pos >= end {
		if r.failAt >= 0 {
			return 0, fmt.Errorf("injected read failure at byte %d", r.failAt)
		}
		return 0, io.EOF
	}
	n := end - r.pos
	if n > len(p) {
		n = len(p)
	}
	if r.chunk > 0 && n > r.chunk {
		n = r.chunk
	}
	copy(p, r.text[r.pos:r.pos+n])
	r.pos += n
	if r.dataEOF && r.failAt < 0 && r.pos == len(r.text) {
		return n, io.EOF
	}
	return n, nil
}

func c18SizeClass(n int) string {
	for _, t := range c18Thresholds {
		switch {
		case n < t-1:
			return fmt.Sprintf("<%d", t-1)
		case n == t-1:
			return fmt.Sprintf("=%d-1", t)
		case n == t:
			return fmt.Sprintf("=%d", t)
		case n == t+1:
			return fmt.Sprintf("=%d+1", t)
		}
	}
	return fmt.Sprintf(">%d+1", c18Thresholds[len(c18Thresholds)-1])
}

func c18EvalBig(c *Ctx, raw []byte) {
	var cs c18Big
	if err := json.Unmarshal(raw, &cs); err != nil {
		panic(err)
	}
	if cs.Size > 8<<20 || (cs.Enc != "yaml" && cs.Enc != "json") {
		return
	}
	want, text, exact, cross := c18BigBuild(cs)
	// in the domain: the text decodes (with the decoder libraries themselves) to the generated document
	var plain map[string]any
	var derr error
	if cs.Enc == "json" {
		derr = json.Unmarshal([]byte(text), &plain)
	} else {
		derr = yaml.Unmarshal([]byte(text), &plain)
	}
	if derr != nil || c18WireDiff(plainWire(plain), want, "") != "" {
		c.Dist("bigdocs:text-does-not-round-trip(skipped)")
		return
	}
	c.Nontrivial()
	c.Dist("bigdocs-size:" + c18SizeClass(len(text)))
	c.Dist("bigdocs-enc:" + cs.Enc)
	c.Dist("bigdocs-fill:" + cs.Fill)
	c.Dist("bigdocs-reader:" + cs.Reader)
	if cs.Size > 0 {
		c.Dist(fmt.Sprintf("bigdocs-exact-size:%v", exact))
		if cs.Cut > 0 {
			c.Dist(fmt.Sprintf("bigdocs-utf8-character-across-threshold:%v", cross))
		}
	}
	wantDigest := c18WireDigest(want)
	small, ok := wireCont(cs.Small)
	if !ok {
		small = map[string]any{}
	}
	smallW := map[string]any{"m": small}

	dir := filepath.Join(c.VerifDir, ".work", fmt.Sprintf("c18b-%d", os.Getpid()))
	_ = os.MkdirAll(dir, 0o755)
	defer os.RemoveAll(dir)
	file := filepath.Join(dir, "big."+cs.Enc)
	if err := os.WriteFile(file, []byte(text), 0o644); err != nil {
		panic(err)
	}
	newReader := func() *c18Reader {
		rd := &c18Reader{text: text, failAt: -1}
		switch cs.Reader {
		case "chunk":
			if rd.chunk = cs.Chunk; rd.chunk < 1 {
				rd.chunk = 1
			}
		case "dataeof":
			rd.dataEOF = true
		}
		return rd
	}
	tags := analytics.WithTags(cs.Tags...)
	ds := analytics.NewDocumentSet()
	names := []string{"first", "big-reader", file, "big-map", "last"}
	errs := map[string]error{}
	out, txt := guard(func() {
		errs["first"] = ds.AddDocument("first", wireContainer(smallW))
		for _, p := range cs.FailRead {
			rd := newReader()
			rd.failAt = c18Permille(p, len(text))
			ferr := ds.AddDocumentFromReader("big-reader", rd, c18Dec(cs.Enc), tags)
			c.Dist("bigdocs-failing-reader")
			c.Direct("failing-reader-is-an-error-and-registers-nothing", ferr != nil && ds.NamedDocument("big-reader") == nil && len(ds.AsOne().LayerNames()) == 1,
				map[string]any{"fails-after-bytes": rd.failAt, "of": len(text), "err": fmt.Sprint(ferr), "layers": ds.AsOne().LayerNames()})
		}
		errs["big-reader"] = ds.AddDocumentFromReader("big-reader", newReader(), c18Dec(cs.Enc), tags)
		errs[file] = ds.AddDocumentFromFile(file, c18Dec(cs.Enc), tags)
		errs["big-map"] = ds.AddDocument("big-map", dom.Builder().FromMap(plain), tags)
		errs["last"] = ds.AddDocument("last", wireContainer(smallW))
	})
	if !c.Direct("no-panic(add)", out == "ok", txt) {
		return
	}
	for _, n := range names {
		if !c.Direct("in-domain-document-is-registered", errs[n] == nil, map[string]any{"name": filepath.Base(n), "size": len(text), "err": fmt.Sprint(errs[n])}) {
			return
		}
	}
	show := func(n string) string { return filepath.Base(n) }
	out, txt = guard(func() {
		// ---- every view serves the generated document under each of the three names
		check := func(view string, n string, got W) {
			w := want
			if n == "first" || n == "last" {
				w = smallW
			}
			if d := c18WireDiff(got, w, ""); d != "" {
				c.Direct("layer-content-is-registered-document", false, map[string]any{"view": view, "name": show(n), "size": len(text),
					"served": c18WireDigest(got), "registered": c18WireDigest(w), "first-difference(served vs registered)": d})
			}
		}
		asOne := ds.AsOne()
		c.Direct("AsOne-all-in-insertion-order", canon(asOne.LayerNames()) == canon(names), map[string]any{"got": asOne.LayerNames()})
		layers := asOne.Layers()
		for _, n := range names {
			check("AsOne", n, nodeWire(layers[n]))
			check("NamedDocument", n, nodeWire(ds.NamedDocument(n)))
		}
		c.Direct("NamedDocument-nil-iff-unknown", ds.NamedDocument("unknown") == nil, nil)
		// ---- tag selection
		tagSet := map[string]bool{"*": true}
		for _, t := range cs.Tags {
			tagSet[t] = true
		}
		for _, q := range [][]string{{"*"}, {"t1"}, {"t2", ""}, {"zz"}} {
			var wantNames []string
			for _, n := range names {
				hit := false
				for _, t := range q {
					if t == "*" || (n != "first" && n != "last" && tagSet[t]) {
						hit = true
					}
				}
				if hit {
					wantNames = append(wantNames, n)
				}
			}
			sub := ds.TaggedSubset(q...)
			c.Direct("subset-names-are-exactly-the-tagged-in-insertion-order", canon(append([]string{}, sub.LayerNames()...)) == canon(append([]string{}, wantNames...)),
				map[string]any{"tags": q, "got": sub.LayerNames(), "want": wantNames})
			sl := sub.Layers()
			for _, n := range sub.LayerNames() {
				check("TaggedSubset", n, nodeWire(sl[n]))
			}
		}
		// ---- the three ways in serve equal documents
		r, f, m := ds.NamedDocument("big-reader"), ds.NamedDocument(file), ds.NamedDocument("big-map")
		if r != nil && f != nil && m != nil {
			c.Direct("entry-points-agree(reader/file/AddDocument-serve-equal-documents)", r.Equals(f) && f.Equals(r) && r.Equals(m) && m.Equals(r) && f.Equals(m),
				map[string]any{"size": len(text), "reader": c18WireDigest(nodeWire(r)), "file": c18WireDigest(nodeWire(f)), "AddDocument": c18WireDigest(nodeWire(m)), "generated": wantDigest})
		}
	})
	c.Direct("no-panic(queries)", out == "ok", txt)
}
