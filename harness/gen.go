package main

import (
	"encoding/json"
	"fmt"
	"math/rand"
	"time"
)

// DocGen generates documents in wire form.
type DocGen struct {
	Keys     []string // key pool
	MaxDepth int
	MaxWidth int     // max children per container
	ListMax  int     // max list length
	PNull    float64 // probability that a scalar is null
	PEmpty   float64 // probability of an empty container / list where a composite is chosen
	PList    float64 // probability of a list where a composite is chosen
	PLeaf    float64 // probability of a leaf at inner positions
	PLong    float64 // probability that a non-empty list is long (10-13 items: multi-digit indices)
	Types    []string
	Strings  []string // string scalar pool (nil: default)
}

var defaultKeys = []string{"a", "b", "c", "k1", "x-y", "z_9"}

func stdGen() *DocGen {
	return &DocGen{Keys: defaultKeys, MaxDepth: 4, MaxWidth: 4, ListMax: 4, PNull: 0.1, PEmpty: 0.12, PList: 0.4, PLeaf: 0.55, PLong: 0.03,
		Types: []string{"int", "string", "bool", "float64"}}
}

func (g *DocGen) Scalar(r *rand.Rand) W {
	if r.Float64() < g.PNull {
		return scalarWire(nil)
	}
	switch g.Types[r.Intn(len(g.Types))] {
	case "int":
		return scalarWire(r.Intn(7) - 1)
	case "bool":
		return scalarWire(r.Intn(2) == 0)
	case "float64":
		return scalarWire([]float64{0.5, 1.5, 2, -3.25, 1e21}[r.Intn(5)])
	case "int64":
		return scalarWire(int64(r.Intn(5)))
	case "uint64":
		return scalarWire(uint64(1<<63) + uint64(r.Intn(3)))
	case "time":
		return scalarWire(time.Date(2001, 12, 14+r.Intn(3), 21, 59, 43, 0, time.UTC))
	default:
		pool := g.Strings
		if pool == nil {
			pool = []string{"", "s", "t", "1", "true", "a b", "héllo", "x.y", "q[0]"}
		}
		return scalarWire(pool[r.Intn(len(pool))])
	}
}

func (g *DocGen) Node(r *rand.Rand, depth int) W {
	if depth >= g.MaxDepth || r.Float64() < g.PLeaf {
		return g.Scalar(r)
	}
	if r.Float64() < g.PList {
		return g.List(r, depth)
	}
	return g.Cont(r, depth)
}

func (g *DocGen) List(r *rand.Rand, depth int) W {
	if r.Float64() < g.PEmpty {
		return []any{}
	}
	n := 1 + r.Intn(g.ListMax)
	long := g.PLong > 0 && r.Float64() < g.PLong
	if long {
		n = 10 + r.Intn(4)
	}
	l := make([]any, n)
	for i := range l {
		if long && i < 9 {
			l[i] = g.Scalar(r) // keep long lists cheap: composites only at the multi-digit end
			continue
		}
		l[i] = g.Node(r, depth+1)
	}
	return l
}

func (g *DocGen) Cont(r *rand.Rand, depth int) W {
	m := map[string]any{}
	if depth > 0 && r.Float64() < g.PEmpty {
		return map[string]any{"m": m}
	}
	n := 1 + r.Intn(g.MaxWidth)
	if depth == 0 && r.Float64() < 0.03 {
		n = 0
	}
	for i := 0; i < n; i++ {
		m[g.Keys[r.Intn(len(g.Keys))]] = g.Node(r, depth+1)
	}
	return map[string]any{"m": m}
}

// Doc generates a root container.
func (g *DocGen) Doc(r *rand.Rand) W { return g.Cont(r, 0) }

// deepCopyW copies a wire value.
func deepCopyW(w W) W {
	b, _ := json.Marshal(w)
	var x any
	_ = json.Unmarshal(b, &x)
	return x
}

// mutateDoc returns a near-miss copy of w: one random local edit.
func (g *DocGen) Mutate(r *rand.Rand, w W) W {
	w = deepCopyW(w)
	// collect composite positions
	type pos struct {
		cont map[string]any
		list *[]any
		par  func(W)
	}
	var conts []map[string]any
	var lists []struct {
		l   []any
		set func([]any)
	}
	var walk func(x W, set func(W))
	walk = func(x W, set func(W)) {
		switch v := x.(type) {
		case []any:
			lists = append(lists, struct {
				l   []any
				set func([]any)
			}{v, func(n []any) { set(n) }})
			for i := range v {
				i := i
				walk(v[i], func(n W) { v[i] = n })
			}
		case map[string]any:
			if c, ok := v["m"].(map[string]any); ok {
				conts = append(conts, c)
				for _, k := range sortedKeys(c) {
					k := k
					walk(c[k], func(n W) { c[k] = n })
				}
			}
		}
	}
	root := w
	walk(w, func(n W) { root = n })
	if len(lists) > 0 && r.Intn(3) == 0 {
		e := lists[r.Intn(len(lists))]
		switch r.Intn(4) {
		case 0:
			e.set(append(append([]any{}, e.l...), g.Node(r, g.MaxDepth-1)))
		case 1:
			if len(e.l) > 0 {
				i := r.Intn(len(e.l))
				e.set(append(append([]any{}, e.l[:i]...), e.l[i+1:]...))
			}
		case 2:
			if len(e.l) > 1 {
				n := append([]any{}, e.l...)
				i, j := r.Intn(len(n)), r.Intn(len(n))
				n[i], n[j] = n[j], n[i]
				e.set(n)
			}
		default:
			if len(e.l) > 0 {
				e.l[r.Intn(len(e.l))] = g.Node(r, g.MaxDepth-1)
			}
		}
		return root
	}
	if len(conts) == 0 {
		return root
	}
	c := conts[r.Intn(len(conts))]
	keys := sortedKeys(c)
	switch r.Intn(4) {
	case 0: // add / overwrite a key
		c[g.Keys[r.Intn(len(g.Keys))]] = g.Node(r, g.MaxDepth-1)
	case 1: // remove a key
		if len(keys) > 0 {
			delete(c, keys[r.Intn(len(keys))])
		}
	case 2: // change a value to a scalar
		if len(keys) > 0 {
			c[keys[r.Intn(len(keys))]] = g.Scalar(r)
		}
	default: // change kind
		if len(keys) > 0 {
			c[keys[r.Intn(len(keys))]] = g.Node(r, g.MaxDepth-2)
		}
	}
	return root
}

// ------------------------------------------------------------------ generic JSON shrinker

// shrinkJSON proposes strictly smaller variants of a JSON case: delete one array element,
// delete one entry of a container ("m" object), replace a composite document node by one of
// its children or by a scalar, recursively at every position.
func shrinkJSON(_ string, raw []byte) [][]byte {
	var v any
	if err := json.Unmarshal(raw, &v); err != nil {
		return nil
	}
	var out [][]byte
	emit := func() {
		b, err := json.Marshal(v)
		if err == nil && len(b) < len(raw) {
			out = append(out, b)
		}
	}
	var walk func(x any, set func(any))
	walk = func(x any, set func(any)) {
		switch t := x.(type) {
		case []any:
			for i := range t {
				n := append(append([]any{}, t[:i]...), t[i+1:]...)
				set(n)
				emit()
				set(t)
			}
			for i := range t {
				i := i
				walk(t[i], func(n any) { t[i] = n })
			}
		case map[string]any:
			if c, ok := t["m"].(map[string]any); ok && len(t) == 1 {
				for _, k := range sortedKeys(c) {
					old := c[k]
					delete(c, k)
					emit()
					c[k] = old
				}
				for _, k := range sortedKeys(c) {
					k := k
					walk(c[k], func(n any) { c[k] = n })
				}
				return
			}
			for _, k := range sortedKeys(t) {
				k := k
				walk(t[k], func(n any) { t[k] = n })
			}
		}
	}
	walk(v, func(n any) { v = n })
	if len(out) > 400 {
		out = out[:400]
	}
	return out
}

func pick[T any](r *rand.Rand, xs []T) T { return xs[r.Intn(len(xs))] }

func mustJSON(v any) string {
	b, err := json.Marshal(v)
	if err != nil {
		return fmt.Sprintf("<%v>", err)
	}
	return string(b)
}

// ---- confusable scalars -------------------------------------------------------------------------

// twinPairs are pairs of DIFFERENT scalars that sloppy comparisons identify: the same printed text under
// two Go types, integers next to each other beyond 2^53 (equal once converted to float64), an integer and
// the float of the same value, values that differ only by case or by surrounding space.
func twinPair(r *rand.Rand) (W, W) {
	const big = int64(1) << 53
	pairs := [][2]any{
		{1, 1.0}, {2, 2.0}, {0, 0.0}, {-1, -1.0},
		{1, "1"}, {1.5, "1.5"}, {true, "true"}, {false, "false"}, {nil, "<nil>"}, {nil, ""}, {0, false}, {1, true}, {nil, 0},
		{int(big + 1), int(big)}, {int(big + 1), float64(big)}, {int64(big + 3), int64(big + 2)}, {uint64(1<<63 + 1), uint64(1 << 63)},
		{int(3), int64(3)}, {uint64(3), int(3)},
		{"s", "S"}, {"s", "s "}, {"a b", "a  b"}, {1e21, 1e21 + 131072},
	}
	p := pairs[r.Intn(len(pairs))]
	if r.Intn(2) == 0 {
		return scalarWire(p[1]), scalarWire(p[0])
	}
	return scalarWire(p[0]), scalarWire(p[1])
}

// wireLeafSlots lists the positions of the leaves of w as index paths (keys / list indices).
func wireLeafSlots(w W, prefix []any, out *[][]any) {
	switch x := w.(type) {
	case []any:
		for i, e := range x {
			wireLeafSlots(e, append(append([]any{}, prefix...), i), out)
		}
	case map[string]any:
		if c, ok := x["m"].(map[string]any); ok {
			for _, k := range sortedKeys(c) {
				wireLeafSlots(c[k], append(append([]any{}, prefix...), k), out)
			}
			return
		}
		*out = append(*out, prefix)
	}
}

func wireSetSlot(w W, slot []any, v W) W {
	if len(slot) == 0 {
		return v
	}
	switch x := w.(type) {
	case []any:
		i := slot[0].(int)
		x[i] = wireSetSlot(x[i], slot[1:], v)
		return x
	case map[string]any:
		c := x["m"].(map[string]any)
		k := slot[0].(string)
		c[k] = wireSetSlot(c[k], slot[1:], v)
		return x
	}
	return w
}

// withTwins returns two copies of w that differ in exactly one leaf position, by a confusable pair of
// scalars (ok=false when w has no leaf).
func withTwins(r *rand.Rand, w W) (W, W, bool) {
	var slots [][]any
	wireLeafSlots(w, nil, &slots)
	if len(slots) == 0 {
		return nil, nil, false
	}
	s := slots[r.Intn(len(slots))]
	a, b := twinPair(r)
	return wireSetSlot(deepCopyW(w), s, a), wireSetSlot(deepCopyW(w), s, b), true
}
