package main

import (
	"bytes"
	"fmt"
	"math/rand"
	"sort"
	"strings"

	"github.com/rkosegi/yaml-toolkit/dom"
)

// DOM documents WITH A HISTORY (shared by C01, C04, C05, C07, C10; identifiers prefixed dh).
//
// The properties quantify over all documents / all histories.  A document that was read and then edited
// in place is a document like any other, yet it is exactly where memoised views (Items(), flattened
// forms, encoded forms ...) with a missed invalidation show.  This file provides
//
//   - dhEdit: one in-place edit, addressed by the position of the container / list that is edited, through
//     one of several ROUTES (the nested builder reached through Children()/Items(), the nested builder
//     obtained with root.Lookup, the root builder's path API AddValueAt / RemoveAt) and one of several
//     OPERATIONS (containers: AddValue, Remove, AddContainer, AddList; lists: Set, MustSet, Append, Clear);
//   - a reference semantics of every edit on the plain wire value (written from the API documentation,
//     shares no code with the library);
//   - dhDoc: the live document plus the wire value it must hold now, nested nodes optionally attached as
//     their sealed (read-only) views while the harness keeps the builders;
//   - dhDoc.reads: the document observed through EVERY read API (Children/Items/Value walk, Size, AsMap,
//     AsSlice, DefaultNodeEncoderFn, Flatten, Search, Lookup and Child of every flattened path, Clone,
//     Equals both ways against a freshly built document, the sealed view, Serialize) — every observation is
//     compared with the expected value, hence with each other;
//   - dhGenEdits: histories whose consecutive edits differ in route or operation.

type dhEdit struct {
	Op  string `json:"op"`            // add | remove | addcont | addlist | set | mustset | append | clear
	At  []any  `json:"at"`            // position of the edited container / list: keys and list indices from the root
	Key string `json:"key,omitempty"` // container edits: member name
	Idx int    `json:"idx,omitempty"` // list edits: index
	V   W      `json:"v,omitempty"`   // add, set, mustset, append: the value
	Via string `json:"via,omitempty"` // handle (default) | lookup | root
}

func dhIsListOp(op string) bool {
	return op == "set" || op == "mustset" || op == "append" || op == "clear"
}

// dhStep normalises one element of a position: a key (string) or an index (int; JSON numbers arrive as float64).
func dhStep(s any) (key string, idx int, isIdx bool, ok bool) {
	switch x := s.(type) {
	case string:
		return x, 0, false, true
	case int:
		return "", x, true, x >= 0
	case float64:
		return "", int(x), true, x >= 0 && x == float64(int(x))
	}
	return "", 0, false, false
}

// dhUpdate rebuilds doc with the node at position `at` replaced by f(node); ok=false when the position
// does not exist (or f refuses).
func dhUpdate(doc W, at []any, f func(W) (W, bool)) (W, bool) {
	if len(at) == 0 {
		return f(doc)
	}
	key, idx, isIdx, ok := dhStep(at[0])
	if !ok {
		return nil, false
	}
	if isIdx {
		l, isList := doc.([]any)
		if !isList || idx >= len(l) {
			return nil, false
		}
		n, ok := dhUpdate(l[idx], at[1:], f)
		if !ok {
			return nil, false
		}
		out := append([]any{}, l...)
		out[idx] = n
		return out, true
	}
	c, isCont := wireCont(doc)
	if !isCont {
		return nil, false
	}
	ch, has := c[key]
	if !has {
		return nil, false
	}
	n, ok := dhUpdate(ch, at[1:], f)
	if !ok {
		return nil, false
	}
	m := map[string]any{}
	for k, v := range c {
		m[k] = v
	}
	m[key] = n
	return map[string]any{"m": m}, true
}

func dhGet(doc W, at []any) (W, bool) {
	var got W
	_, ok := dhUpdate(doc, at, func(w W) (W, bool) { got = w; return w, true })
	return got, ok
}

// dhApplyRef: what the document holds after the edit, per the API documentation.  status: "ok", "skip"
// (the position is not a container / list of the right kind, or a value is missing: nothing is executed),
// "panic" (MustSet beyond the end: the call must panic and change nothing).
func dhApplyRef(doc W, e dhEdit) (W, string) {
	needsV := e.Op == "add" || e.Op == "set" || e.Op == "mustset" || e.Op == "append"
	if needsV && e.V == nil {
		return doc, "skip"
	}
	if e.Idx < 0 || e.Idx > 64 {
		return doc, "skip"
	}
	status := "ok"
	out, ok := dhUpdate(doc, e.At, func(w W) (W, bool) {
		if dhIsListOp(e.Op) {
			l, isList := w.([]any)
			if !isList {
				return nil, false
			}
			switch e.Op {
			case "append": // "Append adds new item at the end of slice"
				return append(append([]any{}, l...), deepCopyW(e.V)), true
			case "clear": // "Clear sets items to empty slice"
				return []any{}, true
			case "mustset": // "MustSet sets item at given index. Panics if index is out of bounds."
				if e.Idx >= len(l) {
					status = "panic"
					return l, true
				}
				n := append([]any{}, l...)
				n[e.Idx] = deepCopyW(e.V)
				return n, true
			default: // "Set sets item at given index. Items are allocated and set to nil Leaf as necessary."
				n := append([]any{}, l...)
				for len(n) <= e.Idx {
					n = append(n, scalarWire(nil))
				}
				n[e.Idx] = deepCopyW(e.V)
				return n, true
			}
		}
		c, isCont := wireCont(w)
		if !isCont {
			return nil, false
		}
		m := map[string]any{}
		for k, v := range c {
			m[k] = v
		}
		switch e.Op {
		case "add":
			m[e.Key] = deepCopyW(e.V)
		case "remove":
			delete(m, e.Key)
		case "addcont":
			m[e.Key] = map[string]any{"m": map[string]any{}}
		case "addlist":
			m[e.Key] = []any{}
		default:
			return nil, false
		}
		return map[string]any{"m": m}, true
	})
	if !ok {
		return doc, "skip"
	}
	return out, status
}

// dhKeyOK: a member name the builder API stores by name (it reads a trailing index group as a list
// position: finding D26).
func dhKeyOK(k string) bool { return !idxSuffixRe.MatchString(k) }

// dhPathSafe: a member name that can be a component of a dotted path.
func dhPathSafe(k string) bool { return k != "" && !strings.ContainsAny(k, ".[]") }

// dhPathString renders a position as a dotted path with index groups; ok=false when a key is not path-safe.
func dhPathString(at []any) (string, bool) {
	var sb strings.Builder
	for i, s := range at {
		key, idx, isIdx, ok := dhStep(s)
		if !ok {
			return "", false
		}
		if isIdx {
			if i == 0 {
				return "", false
			}
			fmt.Fprintf(&sb, "[%d]", idx)
			continue
		}
		if !dhPathSafe(key) {
			return "", false
		}
		if i > 0 {
			sb.WriteByte('.')
		}
		sb.WriteString(key)
	}
	return sb.String(), true
}

// dhAllKeysSafe: every member name of the document can be a path component.
func dhAllKeysSafe(w W) bool {
	switch x := w.(type) {
	case []any:
		for _, e := range x {
			if !dhAllKeysSafe(e) {
				return false
			}
		}
	case map[string]any:
		if c, ok := x["m"].(map[string]any); ok {
			for k, e := range c {
				if !dhPathSafe(k) || !dhAllKeysSafe(e) {
					return false
				}
			}
		}
	}
	return true
}

// ------------------------------------------------------------------ the live document

type dhDoc struct {
	root     dom.ContainerBuilder
	exp      W                    // what the document must hold now
	held     map[uintptr]dom.Node // builders of the nodes that are attached as sealed views
	nullMode int
	sealed   map[string]bool
}

// dhNew builds the document; the composites at the positions listed in seal are attached as their sealed
// (read-only) views — the harness keeps the builders, as a program that hands out read-only views does.
func dhNew(doc W, seal [][]any) *dhDoc {
	d := &dhDoc{exp: deepCopyW(doc), held: map[uintptr]dom.Node{}, sealed: map[string]bool{},
		nullMode: int(hash64([]byte(canon(doc))) % 3)}
	for _, p := range seal {
		if len(p) > 0 {
			d.sealed[dhPosKey(p)] = true
		}
	}
	d.root = d.build(doc, nil, false).(dom.ContainerBuilder)
	return d
}

func dhPosKey(at []any) string {
	parts := make([]string, len(at))
	for i, s := range at {
		key, idx, isIdx, _ := dhStep(s)
		if isIdx {
			parts[i] = fmt.Sprintf("#%d", idx)
		} else {
			parts[i] = "k" + key
		}
	}
	return strings.Join(parts, "\x00")
}

func (d *dhDoc) build(w W, at []any, inList bool) dom.Node {
	switch x := w.(type) {
	case []any:
		lb := dom.ListNode()
		for i, e := range x {
			lb.Append(d.build(e, append(append([]any{}, at...), i), true))
		}
		if d.sealed[dhPosKey(at)] {
			d.held[nodeID(lb)] = lb
			return lb.Seal()
		}
		return lb
	case map[string]any:
		if c, ok := x["m"].(map[string]any); ok {
			cb := dom.Builder().Container()
			for _, k := range sortedKeys(c) {
				cb.AddValue(k, d.build(c[k], append(append([]any{}, at...), k), false))
			}
			if len(at) > 0 && d.sealed[dhPosKey(at)] {
				d.held[nodeID(cb)] = cb
				return cb.Seal()
			}
			return cb
		}
	}
	return wireNodeM(w, d.nullMode, inList)
}

// builderOf returns the builder behind a node: the node itself, or the kept builder of a sealed view.
func (d *dhDoc) builderOf(n dom.Node) dom.Node {
	switch n.(type) {
	case dom.ContainerBuilder, dom.ListBuilder:
		return n
	}
	if n == nil || n.IsLeaf() {
		return nil
	}
	return d.held[nodeID(n)]
}

// walk reaches the node at a position through Children() / Items(); sealedOnWay: some node on the way
// (the target included) is a read-only view.
func (d *dhDoc) walk(at []any) (n dom.Node, sealedOnWay bool) {
	n = d.root
	for _, s := range at {
		key, idx, isIdx, ok := dhStep(s)
		if !ok || n == nil {
			return nil, sealedOnWay
		}
		if isIdx {
			l, isList := n.(dom.List)
			if !isList || idx >= l.Size() {
				return nil, sealedOnWay
			}
			n = l.Items()[idx]
		} else {
			c, isCont := n.(dom.Container)
			if !isCont {
				return nil, sealedOnWay
			}
			n = c.Children()[key]
		}
		if n != nil && !n.IsLeaf() && d.builderOf(n) != n {
			sealedOnWay = true
		}
	}
	return n, sealedOnWay
}

// apply executes the edit on the live document through its route and updates the expectation.
// It returns "skip" (nothing executed), "ok", or a description of what went wrong.
func (d *dhDoc) apply(e dhEdit) string {
	next, status := dhApplyRef(d.exp, e)
	if status == "skip" {
		return "skip"
	}
	if (e.Op == "add" || e.Op == "addcont" || e.Op == "addlist") && !dhKeyOK(e.Key) {
		return "skip"
	}
	target, sealedOnWay := d.walk(e.At)
	if target == nil {
		return "bad: the position exists in the expected document but cannot be reached through Children()/Items()"
	}
	via := e.Via
	path, pathOK := dhPathString(e.At)
	if via == "root" && (sealedOnWay || !pathOK || status == "panic" ||
		!(e.Op == "add" || e.Op == "remove" || e.Op == "set") || (!dhIsListOp(e.Op) && !dhPathSafe(e.Key))) {
		via = "handle" // the root builder's path API cannot express this edit (or would have to write through a read-only view)
	}
	if via == "lookup" && (!pathOK || len(e.At) == 0) {
		via = "handle"
	}
	var value dom.Node
	if e.V != nil {
		value = wireNode(e.V)
	}
	out, txt := guard(func() {
		if via == "root" {
			switch e.Op {
			case "add":
				d.root.AddValueAt(utilsToPath(path, e.Key), value)
			case "remove":
				d.root.RemoveAt(utilsToPath(path, e.Key))
			default: // set: the path API writes list positions as name[idx]
				d.root.AddValueAt(fmt.Sprintf("%s[%d]", path, e.Idx), value)
			}
			return
		}
		h := target
		if via == "lookup" {
			h = d.root.Lookup(path)
			if h == nil || nodeID(h) != nodeID(target) {
				panic("harness: Lookup(" + path + ") does not return the node that Children()/Items() show at that position")
			}
		}
		h = d.builderOf(h)
		if h == nil {
			panic("harness: no builder for the node at the position")
		}
		if dhIsListOp(e.Op) {
			lb := h.(dom.ListBuilder)
			switch e.Op {
			case "set":
				lb.Set(uint(e.Idx), value)
			case "mustset":
				lb.MustSet(uint(e.Idx), value)
			case "append":
				lb.Append(value)
			default:
				lb.Clear()
			}
			return
		}
		cb := h.(dom.ContainerBuilder)
		switch e.Op {
		case "add":
			cb.AddValue(e.Key, value)
		case "remove":
			cb.Remove(e.Key)
		case "addcont":
			cb.AddContainer(e.Key)
		default:
			cb.AddList(e.Key)
		}
	})
	d.exp = next
	switch {
	case status == "panic" && out != "panic":
		return "MustSet beyond the end of the list did not panic"
	case status == "ok" && out != "ok":
		return "panic: " + txt
	}
	return "ok"
}

func utilsToPath(path, key string) string {
	if path == "" {
		return key
	}
	return path + "." + key
}

// ------------------------------------------------------------------ reads

type dhFinding struct {
	Name   string
	Detail any
}

type dhReadOpts struct {
	Paths     bool // Flatten / Search / Lookup / Child of every flattened path (needs path-safe member names)
	Serialize bool // Serialize (YAML, JSON) equals Serialize of a freshly built document
	Light     bool // only the structural reads (walk, Size, AsMap, Clone, Equals)
}

// dhRefFlatten: the flattened form of a wire document ([[path, scalar], ...] sorted by path), and the
// position of every composite as a dotted path.
func dhRefFlatten(w W, prefix string, leaves *[][2]any, comps *[]string) {
	switch x := w.(type) {
	case []any:
		if prefix != "" {
			*comps = append(*comps, prefix)
		}
		for i, e := range x {
			dhRefFlatten(e, fmt.Sprintf("%s[%d]", prefix, i), leaves, comps)
		}
		return
	case map[string]any:
		if c, ok := x["m"].(map[string]any); ok {
			if prefix != "" {
				*comps = append(*comps, prefix)
			}
			for _, k := range sortedKeys(c) {
				dhRefFlatten(c[k], utilsToPath(prefix, k), leaves, comps)
			}
			return
		}
	}
	*leaves = append(*leaves, [2]any{prefix, w})
}

// dhWalkChecked is nodeWire plus the list clause Size() == len(Items()).
func dhWalkChecked(n dom.Node, bad *[]string) W {
	if n == nil {
		return nil
	}
	switch {
	case n.IsContainer():
		m := map[string]any{}
		for k, e := range n.(dom.Container).Children() {
			m[k] = dhWalkChecked(e, bad)
		}
		return map[string]any{"m": m}
	case n.IsList():
		l := n.(dom.List)
		items := l.Items()
		if l.Size() != len(items) {
			*bad = append(*bad, fmt.Sprintf("Size()=%d but Items() has %d", l.Size(), len(items)))
		}
		out := make([]any, len(items))
		for i, e := range items {
			out[i] = dhWalkChecked(e, bad)
		}
		return out
	default:
		return scalarWire(n.(dom.Leaf).Value())
	}
}

// dhItemsAreCopies: "Items returns copy of slice of all nodes in this list" — the caller may do what it likes
// with the result; the next call shows the list's items all the same.  Run LAST on a document (it overwrites
// what Items() returned), so that it cannot disturb any other observation.
func dhItemsAreCopies(n dom.Node) string {
	switch {
	case n == nil:
		return ""
	case n.IsContainer():
		ch := n.(dom.Container).Children()
		for _, k := range sortedKeys(ch) {
			if s := dhItemsAreCopies(ch[k]); s != "" {
				return s
			}
		}
	case n.IsList():
		l := n.(dom.List)
		items := l.Items()
		keep := append([]dom.Node{}, items...)
		for i := range items {
			items[i] = scribbleLeaf
		}
		again := l.Items()
		if len(again) != len(keep) {
			return "Items() changed length between two calls"
		}
		for i := range again {
			if again[i] != keep[i] {
				return fmt.Sprintf("Items()[%d] differs between two calls: the slice returned first was overwritten by the caller in between", i)
			}
		}
		for _, e := range keep {
			if s := dhItemsAreCopies(e); s != "" {
				return s
			}
		}
	}
	return ""
}

// reads observes the document through every read API and returns what does not match the expectation.
func (d *dhDoc) reads(o dhReadOpts) []dhFinding {
	var out []dhFinding
	expC := canon(d.exp)
	cmp := func(name string, got W) {
		if g := canon(got); g != expC {
			out = append(out, dhFinding{name, map[string]any{"observed": got, "expected": d.exp}})
		}
	}
	var bad []string
	cmp("walk(Children/Items/Value)", dhWalkChecked(d.root, &bad))
	if len(bad) > 0 {
		out = append(out, dhFinding{"list(Size/Items)", bad})
	}
	cmp("AsMap", plainWire(d.root.AsMap()))
	cl := d.root.Clone()
	cmp("Clone", nodeWire(cl))
	fresh := wireNode(d.exp)
	eq := map[string]bool{
		"x.Equals(x)":         d.root.Equals(d.root),
		"x.Equals(fresh)":     d.root.Equals(fresh),
		"fresh.Equals(x)":     fresh.Equals(d.root),
		"x.Equals(x.Clone())": d.root.Equals(cl),
		"x.Clone().Equals(x)": cl.Equals(d.root),
	}
	for _, k := range sortedKeys(eq) {
		if !eq[k] {
			out = append(out, dhFinding{"Equals", eq})
			break
		}
	}
	if o.Light {
		return out
	}
	cmp("DefaultNodeEncoderFn", plainWire(dom.DefaultNodeEncoderFn(d.root)))
	sv := d.root.Seal()
	cmp("Seal().AsMap", plainWire(sv.AsMap()))
	cmp("Seal().Clone", nodeWire(sv.Clone()))
	// every nested list through AsSlice, every nested container through AsMap (the nested handles a program holds)
	var nested func(n dom.Node, at W)
	nested = func(n dom.Node, at W) {
		switch {
		case n.IsContainer():
			c, _ := wireCont(at)
			if g := plainWire(n.(dom.Container).AsMap()); canon(g) != canon(at) {
				out = append(out, dhFinding{"nested.AsMap", map[string]any{"observed": g, "expected": at}})
			}
			for k, e := range n.(dom.Container).Children() {
				if c != nil && c[k] != nil {
					nested(e, c[k])
				}
			}
		case n.IsList():
			l, _ := at.([]any)
			if g := plainWire(n.(dom.List).AsSlice()); canon(g) != canon(at) {
				out = append(out, dhFinding{"nested.AsSlice", map[string]any{"observed": g, "expected": at}})
			}
			for i, e := range n.(dom.List).Items() {
				if i < len(l) {
					nested(e, l[i])
				}
			}
		}
	}
	if c, ok := wireCont(d.exp); ok {
		for k, e := range d.root.Children() {
			if c[k] != nil {
				nested(e, c[k])
			}
		}
	}
	if o.Paths {
		var leaves [][2]any
		var comps []string
		dhRefFlatten(d.exp, "", &leaves, &comps)
		sort.Slice(leaves, func(i, j int) bool { return leaves[i][0].(string) < leaves[j][0].(string) })
		want := make([]any, len(leaves))
		keys := make([]string, len(leaves))
		for i, l := range leaves {
			want[i] = []any{l[0], l[1]}
			keys[i] = l[0].(string)
		}
		for i, c := range []dom.Container{d.root, sv} {
			if got := flattenWire(c); canon(got) != canon(want) {
				out = append(out, dhFinding{[]string{"Flatten", "Seal().Flatten"}[i], map[string]any{"observed": got, "expected": want}})
			}
		}
		found := d.root.Search(func(interface{}) bool { return true })
		sort.Strings(found)
		if canon(found) != canon(keys) && !(len(found) == 0 && len(keys) == 0) {
			out = append(out, dhFinding{"Search(all)", map[string]any{"observed": found, "expected": keys}})
		}
		for _, l := range leaves {
			p := l[0].(string)
			n := d.root.Lookup(p)
			if n == nil || !n.IsLeaf() || canon(scalarWire(n.(dom.Leaf).Value())) != canon(l[1]) {
				out = append(out, dhFinding{"Lookup(leaf path)", map[string]any{"path": p, "observed": nodeWire(n), "expected": l[1]}})
				break
			}
		}
		for _, p := range comps {
			want, _ := c07WireLookup(d.exp, p)
			if got := nodeWire(d.root.Lookup(p)); canon(got) != canon(want) {
				out = append(out, dhFinding{"Lookup(composite path)", map[string]any{"path": p, "observed": got, "expected": want}})
				break
			}
		}
	}
	if o.Serialize {
		for i, enc := range []dom.EncoderFunc{dom.DefaultYamlEncoder, dom.DefaultJsonEncoder} {
			name := []string{"yaml", "json"}[i]
			var a, b bytes.Buffer
			e1 := d.root.Serialize(&a, dom.DefaultNodeEncoderFn, enc)
			e2 := fresh.(dom.Container).Serialize(&b, dom.DefaultNodeEncoderFn, enc)
			if (e1 == nil) != (e2 == nil) || !bytes.Equal(a.Bytes(), b.Bytes()) {
				out = append(out, dhFinding{"Serialize(" + name + ")", map[string]any{"document": a.String(), "fresh": b.String(), "err": fmt.Sprint(e1), "errFresh": fmt.Sprint(e2)}})
			}
		}
	}
	return out
}

// report turns findings into direct predicates (clause names are stable: prefix + read name).
func dhReport(c *Ctx, prefix string, step int, fs []dhFinding) bool {
	for _, f := range fs {
		c.Direct(prefix+f.Name, false, map[string]any{"after_edits": step, "finding": f.Detail})
	}
	return len(fs) == 0
}

// ------------------------------------------------------------------ generation

type dhPos struct {
	at   []any
	kind string // cont | list
	n    int    // list length
	keys []string
}

func dhPositions(w W, at []any, out *[]dhPos) {
	switch x := w.(type) {
	case []any:
		*out = append(*out, dhPos{at: at, kind: "list", n: len(x)})
		for i, e := range x {
			dhPositions(e, append(append([]any{}, at...), i), out)
		}
	case map[string]any:
		if c, ok := x["m"].(map[string]any); ok {
			*out = append(*out, dhPos{at: at, kind: "cont", keys: sortedKeys(c)})
			for _, k := range sortedKeys(c) {
				dhPositions(c[k], append(append([]any{}, at...), k), out)
			}
		}
	}
}

// dhGenEdits generates n edits against the evolving document.  Lists are preferred targets, MustSet is the
// most frequent list edit, an edit never repeats the previous edit's (operation, route) pair, and two
// thirds of the edits stay on the node edited last (read - edit - read - edit on one node).
func dhGenEdits(r *rand.Rand, g *DocGen, doc W, n int) []dhEdit {
	var out []dhEdit
	cur := deepCopyW(doc)
	var last *dhEdit
	value := func() W {
		if r.Intn(4) == 0 {
			return g.Node(r, g.MaxDepth-1)
		}
		return g.Scalar(r)
	}
	for len(out) < n {
		var ps []dhPos
		dhPositions(cur, []any{}, &ps)
		var lists, conts []dhPos
		for _, p := range ps {
			if p.kind == "list" {
				lists = append(lists, p)
			} else {
				conts = append(conts, p)
			}
		}
		var p dhPos
		switch {
		case last != nil && r.Intn(3) > 0:
			found := false
			for _, q := range ps {
				if dhPosKey(q.at) == dhPosKey(last.At) {
					p, found = q, true
				}
			}
			if !found {
				p = pick(r, ps)
			}
		case len(lists) > 0 && r.Intn(3) > 0:
			p = pick(r, lists)
		default:
			p = pick(r, conts)
		}
		e := dhEdit{At: p.at}
		for try := 0; try < 8; try++ {
			e = dhEdit{At: p.at, Via: pick(r, []string{"handle", "handle", "lookup", "root"})}
			if p.kind == "list" {
				switch k := r.Intn(10); {
				case k < 4 && p.n > 0:
					e.Op, e.Idx, e.V = "mustset", r.Intn(p.n), value()
				case k < 6:
					e.Op, e.Idx, e.V = "set", r.Intn(p.n+3), value()
				case k < 9:
					e.Op, e.V = "append", value()
				default:
					e.Op = "clear"
				}
			} else {
				key := pick(r, g.Keys)
				if len(p.keys) > 0 && r.Intn(2) == 0 {
					key = pick(r, p.keys)
				}
				e.Key = key
				switch k := r.Intn(10); {
				case k < 5:
					e.Op, e.V = "add", value()
				case k < 7:
					e.Op = "remove"
				case k == 7:
					e.Op = "addcont"
				default:
					e.Op = "addlist"
				}
			}
			if last == nil || last.Op != e.Op || last.Via != e.Via {
				break
			}
		}
		next, st := dhApplyRef(cur, e)
		if st != "ok" {
			continue
		}
		cur = next
		out = append(out, e)
		last = &out[len(out)-1]
	}
	return out
}

// dhGenSeals picks composite positions (never the root) to attach as sealed views.
func dhGenSeals(r *rand.Rand, doc W) [][]any {
	var ps []dhPos
	dhPositions(doc, []any{}, &ps)
	var out [][]any
	for _, p := range ps {
		if len(p.at) > 0 && r.Intn(3) == 0 {
			out = append(out, p.at)
		}
	}
	return out
}

// dhAcyclic: the nodes reachable from n form a finite tree / DAG (no container or list contains itself).  Observing
// a cyclic document recurses without end — inside the library as well — and a stack overflow cannot be recovered,
// so results of calls that were given shared node objects are checked with this first.
func dhAcyclic(n dom.Node) bool {
	onPath := map[uintptr]bool{}
	var walk func(n dom.Node, depth int) bool
	walk = func(n dom.Node, depth int) bool {
		if n == nil || n.IsLeaf() {
			return true
		}
		id := nodeID(n)
		if onPath[id] || depth > 2000 {
			return false
		}
		onPath[id] = true
		defer delete(onPath, id)
		if n.IsContainer() {
			for _, e := range n.(dom.Container).Children() {
				if !walk(e, depth+1) {
					return false
				}
			}
			return true
		}
		for _, e := range n.(dom.List).Items() {
			if !walk(e, depth+1) {
				return false
			}
		}
		return true
	}
	return walk(n, 0)
}
