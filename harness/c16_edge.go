package main

import (
	"encoding/json"
	"fmt"
	"strings"
	"unicode/utf8"
)

// C16 — kind "edge" (direct predicates only): the exactness clauses on texts in which a chosen
// character lies ACROSS or NEXT TO a chosen byte offset — the offsets at which readers, decoders and
// buffers change their behaviour (512 B, 4 KiB, 64 KiB, 1 MiB, the other powers of two between
// them, and the piece sizes of the harness' own chunked readers).  The character is ASCII or a 2-,
// 3- or 4-byte UTF-8 character inside a plain value ("values that need no escaping": a non-ASCII
// letter is written as it is, by the encoders too); its first byte is placed 0 … len+2 bytes before
// the offset, so that it starts at, lies across, ends at, or is followed by the line end at the
// offset.  With after == 0 the text ends with that pair, so the TOTAL size of the text is just
// under / at / just over the offset; otherwise further pairs follow.
//
// The case is described compactly (a replay file holds the description, not the text):
//
//	f<i/50>.k<i> = v<i>_<pad to valLen>          filler pairs before (and after) the edge pair
//	zz.edge      = ppp…p<char><"end" when tail>   the pair holding the character
type c16Edge struct {
	Offset int    `json:"offset"`
	Char   string `json:"char"`
	Back   int    `json:"back"`            // the character starts Back bytes before Offset
	After  int    `json:"after,omitempty"` // bytes of filler pairs after the edge pair (about)
	Tail   bool   `json:"tail,omitempty"`  // the value goes on after the character
	Wide   bool   `json:"wide,omitempty"`  // the filler values hold non-ASCII characters too
	ValLen int    `json:"valLen"`          // length of the filler values
}

const c16EdgeKey = "zz.edge"
const c16EdgeMax = 4 << 20

func c16EdgePairs(p c16Edge) (kv map[string]string, text string, ok bool) {
	if p.Offset < 0 || p.Offset > c16EdgeMax || p.After < 0 || p.After > c16EdgeMax || p.ValLen < 1 || p.ValLen > 4096 ||
		p.Back < 0 || p.Back > 16 || !utf8.ValidString(p.Char) || utf8.RuneCountInString(p.Char) != 1 {
		return nil, "", false
	}
	if r, _ := utf8.DecodeRuneInString(p.Char); r < 0x80 && !c16ValRe.MatchString(p.Char) {
		return nil, "", false
	} else if r >= 0x80 && !c16PlainRune(r) {
		return nil, "", false
	}
	start := p.Offset - p.Back // where the character begins
	head := len(c16EdgeKey) + 1
	if start < head {
		return nil, "", false
	}
	kv = map[string]string{}
	var sb strings.Builder
	sb.Grow(p.Offset + p.After + 64)
	const fill = "xyz-ABC_012."
	wide := []string{"é", "日", "ß", "😀", "€"}
	i := 0
	filler := func() string {
		k := fmt.Sprintf("f%d.k%d", i/50, i)
		v := fmt.Sprintf("v%d_", i)
		for len(v) < p.ValLen {
			v += fill[:min(len(fill), p.ValLen-len(v))]
		}
		if p.Wide {
			v += wide[i%len(wide)]
		}
		i++
		kv[k] = v
		return k + "=" + v + "\n"
	}
	for {
		save := i
		l := filler()
		if sb.Len()+len(l)+head > start {
			i = save
			delete(kv, strings.SplitN(l, "=", 2)[0])
			break
		}
		sb.WriteString(l)
	}
	v := strings.Repeat("p", start-sb.Len()-head) + p.Char
	if p.Tail {
		v += "end"
	}
	kv[c16EdgeKey] = v
	sb.WriteString(c16EdgeKey + "=" + v + "\n")
	for end := sb.Len() + p.After; p.After > 0 && sb.Len() < end; {
		sb.WriteString(filler())
	}
	return kv, sb.String(), true
}

// c16PlainRune: a non-ASCII character that is an ordinary value character of the format (a letter
// or a symbol; no white space, no control character, no line or paragraph separator).
func c16PlainRune(r rune) bool {
	switch {
	case r < 0xA1, r == 0xAD, r >= 0x2000 && r <= 0x206F, r == 0x3000, r == 0xFEFF, r >= 0xD800 && r <= 0xDFFF, r >= 0xFFF0 && r <= 0xFFFF:
		return false
	}
	return utf8.ValidRune(r)
}

func c16EvalEdge(c *Ctx, raw []byte) {
	var p c16Edge
	if err := json.Unmarshal(raw, &p); err != nil {
		panic(err)
	}
	kv, text, ok := c16EdgePairs(p)
	if !ok {
		return
	}
	c.Nontrivial()
	w := len(p.Char)
	c.Dist(fmt.Sprintf("edge:offset=%d", p.Offset))
	c.Dist(fmt.Sprintf("edge:char=%d-bytes", w))
	switch {
	case p.Back > 0 && p.Back < w:
		c.Dist("edge:character-lies-across-the-offset")
	case p.Back == 0:
		c.Dist("edge:character-starts-at-the-offset")
	case p.Back == w:
		c.Dist("edge:character-ends-at-the-offset")
	}
	if p.After == 0 && !p.Tail {
		c.Dist(fmt.Sprintf("edge:text-size=offset%+d", len(text)-p.Offset))
	}
	c16ExactLarge(c, kv, text)
}

// c16RunEdge: a fixed number of cases per run (it does not grow with the case budget): every
// placement of a 1-, 2-, 3- and 4-byte character around 512 B, 4 KiB and 64 KiB, the placements
// across 1 MiB, and one drawn placement at each of the other offsets.
func c16RunEdge(c *Ctx) {
	r := c.Rng
	chars := [][]string{{"Z", "7"}, {"é", "ó", "ß", "ü"}, {"日", "€", "→", "ก"}, {"😀", "𝄞"}}
	valLen := func(off int) int { return max(6, min(off/96, 160)) }
	mk := func(off int, ch string, back int) c16Edge {
		e := c16Edge{Offset: off, Char: ch, Back: back, ValLen: valLen(off), Tail: r.Intn(3) == 0, Wide: r.Intn(2) == 0}
		if r.Intn(3) > 0 {
			e.After = 1 + r.Intn(off)
		}
		return e
	}
	for _, off := range []int{512, 4096, 65536} {
		for _, pool := range chars {
			ch := pick(r, pool)
			for back := 0; back <= len(ch)+2; back++ {
				c.Tick()
				c.Do("edge", mk(off, ch, back))
			}
		}
	}
	for _, pool := range chars[1:] {
		ch := pick(r, pool)
		c.Tick()
		c.Do("edge", mk(1<<20, ch, 1+r.Intn(len(ch)-1)))
	}
	for _, d := range []int{2, 1, 0} { // total size of the text: 1 MiB - 1, 1 MiB, 1 MiB + 1
		c.Tick()
		c.Do("edge", c16Edge{Offset: 1 << 20, Char: "é", Back: 2 + d, ValLen: 160})
	}
	others := []int{256, 1024, 2048, 8192, 16384, 32768, 1 << 17, 1 << 18, 1 << 19, 4093, 2 * 4093, 65521, 32 << 10, 100, 1000, 10000}
	for _, off := range others {
		ch := pick(r, pick(r, chars[1:]))
		c.Tick()
		c.Do("edge", mk(off, ch, 1+r.Intn(len(ch)-1)))
	}
	if c.Thorough() {
		for i := 0; i < 60; i++ {
			off := 1 << (6 + r.Intn(15))
			if r.Intn(3) == 0 {
				off = 64 + r.Intn(1<<18)
			}
			ch := pick(r, pick(r, chars))
			c.Tick()
			c.Do("edge", mk(off, ch, r.Intn(len(ch)+3)))
		}
	}
}

// c16ShrinkEdge: nothing after the edge pair, no tail, plain filler values, shorter filler values —
// the offset and the placement are what the case is about and stay.
func c16ShrinkEdge(raw []byte) [][]byte {
	var p c16Edge
	if json.Unmarshal(raw, &p) != nil {
		return nil
	}
	var out [][]byte
	add := func(q c16Edge) {
		if b, err := json.Marshal(q); err == nil && len(b) < len(raw) {
			out = append(out, b)
		}
	}
	if p.After > 0 {
		q := p
		q.After = 0
		add(q)
		q.After = p.After / 2
		add(q)
	}
	if p.Tail {
		q := p
		q.Tail = false
		add(q)
	}
	if p.Wide {
		q := p
		q.Wide = false
		add(q)
	}
	if p.ValLen > 9 {
		q := p
		q.ValLen = 9
		add(q)
	}
	return out
}
