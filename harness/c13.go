package main

import (
	"bytes"
	"encoding/base64"
	"encoding/json"
	"fmt"
	"math/rand"
	"os"
	"path/filepath"
	"regexp"
	"sort"
	"strconv"
	"strings"
	"unicode/utf8"

	"github.com/rkosegi/yaml-toolkit/dom"
	"github.com/rkosegi/yaml-toolkit/patch"
	"github.com/rkosegi/yaml-toolkit/pipeline"
	"github.com/rkosegi/yaml-toolkit/props"
	"gopkg.in/yaml.v3"
)

// C13 — pipeline data operations have their documented effect and only that effect.

func init() {
	register(&Prop{ID: "C13", Run: c13Run,
		Rule: "every case executes one operation through pipeline.New(WithData(doc)).Execute on a generated data document (<= 4 levels, key pool of 6 path-safe keys), along a route named by the case: directly (half of the cases), or through the copy made by CloneWith(ctx) of the operation alone / of the OpSpec / ActionSpec / named step holding it, or as the body of a forEach over one item, one or two levels deep (forEach clones its operations per item) - all predicates and the model comparison are the same on every route, and a fixed table runs every route x every configuration (set strategies x container / leaf / list-item / absent / root targets holding keys the payload lacks, template parseAs x trim, import modes, export formats x target kinds, patch ops, env include / exclude) on one document. set: payload maps (also present-but-empty ones, and scalars over a wider value range: texts with white space around them, line ends, letter-case twins, supplementary-plane characters, template look-alikes, typed int64 / uint64) x target paths (existing leaf / container / list / list item, absent below a container, absent below a leaf, fresh, empty = root) x strategy {unset, merge, replace, unknown} x nil payload; template: literal / {{ .key }} / failing / YAML-of-a-tree templates x parseAs {unset, none, yaml, unknown} x trim, and YAML texts whose reading depends on the WHITE SPACE AROUND them (before the first token: tab, spaces, line ends, NBSP, NEL, BOM; after the last: blank lines behind a block scalar with a chomping indicator, tab, NBSP, NEL, document end marker, comment; uniformly indented blocks; texts YAML rejects) x parseAs x trim - direct predicate: what is stored is the YAML parse (yaml.v3 applied by the harness; every scalar a text) of the rendered text with the white space trimmed off when trim is set, a text the parser rejects is an error; patch: RFC 6902 ops with pointers derived from the document's own paths, value / valueFrom / from; import: text / binary over random byte strings (incl. invalid UTF-8, empty; half of them led by a special beginning - UTF-8 / UTF-16 / UTF-32 byte order marks whole, doubled and cut, NUL, YAML document / directive / comment / tag / anchor markers, white space and line ends of every kind, quotes, braces, template delimiters, control and magic bytes - and a third ended by a special ending: with and without final line end, CR, NUL, BOM, backslash, padding characters), yaml / json / properties over encoded subtrees, missing file, unknown mode, empty path; roundtrip: export of a container (or the whole document) as yaml / json re-imported at a fresh path; export: every format (incl. unknown) x target kind (nil path, absent, leaf, list, container, via value and via ref); env: synthetic process environment (os.Clearenv + Setenv, restored afterwards) x include / exclude regex pools; lenient: strings without '{{', with unbalanced braces, failing and working templates; rerun (histories): ONE operation object decoded from pipeline YAML (export with path / file given as immediate value or as {ref: leaf}; set / patch / template / import / env with path, file and template fields partly written as templates over data leaves) is executed 2-4 times through one executor while edits between the executions remove the referenced leaf, turn it into a container / list / other scalar, point it elsewhere, change or remove the target, rewrite or unlink the imported files - every execution is judged on the data of that moment (export: documented rule with path and file resolved on the wire document, only the file named at that moment is touched, model exportOp / resolve; all kinds: same outcome, document and files as a fresh operation object decoded from the same YAML on an equal document; import: a successful import stored what the file named at that moment holds at that moment - text, base64, or the mapping yaml.v3 / encoding/json read from it - where import histories also REWRITE THE FILE IN PLACE with content of the same length (one letter / digit exchanged) while the file keeps its modification time, as under cp -p / rsync -t / a coarse-timestamp file system). ROUND 8, lenient-history cases (c13_hist.go): ONE text reading a key path (plainly, inside a path-like text, through index into a list, through a function that wants a string, in an if) is rendered leniently by one executor over a history of 2-4 data documents in which that path holds a text / a number / a list of varying length / a container, is cut short by a scalar or a list, or is missing - so that the same text FAILS during execution on one document and RENDERS on a later one (and the other way round); every rendering is judged on the data of its moment: unchanged when Render fails, equal to Render when it succeeds; each evaluation renders a text nothing in the process rendered before (a comment action with a counter is appended), so a verdict depends on the history alone. A case is non-trivial when the data document has at least two nodes and the operation's outcome is not an argument error (a history: at least two executions with different data); distinct = distinct canonical case JSON (hash).",
		Assumptions: []string{
			"keys and path segments are path-safe: over [A-Za-z0-9_-] in the main streams, any text without a dot, an index group or a template delimiter in the look-alike stream of c13_look.go (index groups only where a list item is addressed); scalars are NaN-free and -0-free",
			"text/template + sprig, yaml.v3, encoding/json, magiconair/properties, regexp and the OS are parameters of the model: the harness feeds the model the renderer's / parser's / decoder's / matcher's actual results for the same inputs",
			"list-item targets address an existing item or the position one past the end (no null padding of intermediate slots is counted as a frame change)",
			"environment variable names are over [A-Za-z0-9_] (a dot or index group in a name is interpreted by AddValueAt as path syntax)",
			"export histories use template-free configuration and files inside the case's own directory"}})
	evals["C13"] = c13Eval
	shrinkers["C13"] = shrinkJSON
}

// ------------------------------------------------------------------ case types

type c13Set struct {
	Data     W       `json:"data"`
	Payload  W       `json:"payload"` // container wire or null (nil Data)
	Path     string  `json:"path"`
	Strategy *string `json:"strategy"`
	Via      string  `json:"via,omitempty"` // route of the execution (c13_via.go); "" = Executor.Execute(op)
}

type c13Part struct {
	Lit  string `json:"lit,omitempty"`
	Ref  string `json:"ref,omitempty"`
	Fail bool   `json:"fail,omitempty"`
	Raw  string `json:"raw,omitempty"`
	Yaml W      `json:"yaml,omitempty"` // YAML text of this plain tree (wire form)
}

type c13Template struct {
	Data    W         `json:"data"`
	Parts   []c13Part `json:"parts"`
	Path    string    `json:"path"`
	ParseAs *string   `json:"parseAs"`
	Trim    *bool     `json:"trim"`
	Via     string    `json:"via,omitempty"`
}

type c13Patch struct {
	Data      W       `json:"data"`
	Op        string  `json:"op"`
	Path      string  `json:"path"`
	From      string  `json:"from"`
	Value     W       `json:"value"` // plain tree or null
	ValueFrom *string `json:"valueFrom"`
	Via       string  `json:"via,omitempty"`
}

type c13Import struct {
	Data    W      `json:"data"`
	Mode    string `json:"mode"`
	Path    string `json:"path"`
	Content []byte `json:"content"`
	Missing bool   `json:"missing,omitempty"`
	Via     string `json:"via,omitempty"`
}

type c13Round struct {
	Data   W      `json:"data"`
	Src    string `json:"src"`
	Whole  bool   `json:"whole,omitempty"` // nil Path: the whole document
	Dst    string `json:"dst"`
	Format string `json:"format"`
	Pre    bool   `json:"pre,omitempty"` // the target file already exists with longer, unrelated content
	Via    string `json:"via,omitempty"`
	Tmp    bool   `json:"tmp,omitempty"` // executed while TMPDIR names a directory on another file system than the target (c13_look.go)
}

type c13Export struct {
	Data    W      `json:"data"`
	Format  string `json:"format"`
	NilPath bool   `json:"nilPath,omitempty"`
	Path    string `json:"path"`
	ViaRef  bool   `json:"viaRef,omitempty"` // Path is read from the leaf `pref` of the document
	BadDir  bool   `json:"badDir,omitempty"` // the file cannot be opened
	Pre     bool   `json:"pre,omitempty"`    // the target file already exists with longer, unrelated content
	Via     string `json:"via,omitempty"`
	Tmp     bool   `json:"tmp,omitempty"` // executed while TMPDIR names a directory on another file system than the target (c13_look.go)
}

type c13Env struct {
	Data    W           `json:"data"`
	Path    string      `json:"path"`
	Env     [][2]string `json:"env"`
	Include *string     `json:"include"`
	Exclude *string     `json:"exclude"`
	Via     string      `json:"via,omitempty"`
}

type c13Lenient struct {
	Data W      `json:"data"`
	S    string `json:"s"`
}

// ------------------------------------------------------------------ probe action

type c13Probe struct {
	f func(ctx pipeline.ActionContext) error
}

func (p *c13Probe) String() string                                       { return "probe" }
func (p *c13Probe) Do(ctx pipeline.ActionContext) error                  { return p.f(ctx) }
func (p *c13Probe) CloneWith(ctx pipeline.ActionContext) pipeline.Action { return p }

// c13Render asks the real template engine (through an executor over an equal document).
func c13Render(data W, tmpl string) (out string, rerr error, lenient string) {
	gd := wireContainer(data)
	_ = pipeline.New(pipeline.WithData(gd)).Execute(&c13Probe{f: func(ctx pipeline.ActionContext) error {
		out, rerr = ctx.TemplateEngine().Render(tmpl, ctx.Snapshot())
		lenient = ctx.TemplateEngine().RenderLenient(tmpl, ctx.Snapshot())
		return nil
	}})
	return
}

// ------------------------------------------------------------------ paths on wire documents

type c13Seg struct {
	Name string
	Idx  []int
}

var c13SegRe = regexp.MustCompile(`^([^\[\]]*)((?:\[\d+\])*)$`)
var c13IdxRe = regexp.MustCompile(`\[(\d+)\]`)

func c13ParsePath(path string) ([]c13Seg, bool) {
	if path == "" {
		return nil, true
	}
	var out []c13Seg
	for _, s := range strings.Split(path, ".") {
		m := c13SegRe.FindStringSubmatch(s)
		if m == nil || m[1] == "" {
			return nil, false
		}
		seg := c13Seg{Name: m[1]}
		for _, im := range c13IdxRe.FindAllStringSubmatch(m[2], -1) {
			n, _ := strconv.Atoi(im[1])
			seg.Idx = append(seg.Idx, n)
		}
		out = append(out, seg)
	}
	return out, true
}

// c13WireAt navigates a wire document by a dom path, independently of Lookup.
func c13WireAt(w W, path string) (W, bool) {
	segs, ok := c13ParsePath(path)
	if !ok || len(segs) == 0 {
		return nil, false
	}
	cur := w
	for _, s := range segs {
		c, ok := wireCont(cur)
		if !ok {
			return nil, false
		}
		v, ok := c[s.Name]
		if !ok {
			return nil, false
		}
		for _, i := range s.Idx {
			l, ok := v.([]any)
			if !ok || i >= len(l) {
				return nil, false
			}
			v = l[i]
		}
		cur = v
	}
	return cur, true
}

// c13Frame: every position that is neither under the target nor on the way to it is unchanged.
func c13Frame(b, a W, segs []c13Seg) (bool, string) {
	if len(segs) == 0 {
		return true, ""
	}
	bc, bok := wireCont(b)
	if !bok {
		return true, "" // a non-container on the way to the target is replaced as a whole
	}
	ac, aok := wireCont(a)
	if !aok {
		return false, "container on the way to the target is no longer a container"
	}
	s := segs[0]
	for k, bv := range bc {
		if k == s.Name {
			continue
		}
		av, ok := ac[k]
		if !ok || canon(av) != canon(bv) {
			return false, "sibling " + k + " changed"
		}
	}
	for k := range ac {
		if _, ok := bc[k]; !ok && k != s.Name {
			return false, "sibling " + k + " appeared"
		}
	}
	bv, bex := bc[s.Name]
	av, aex := ac[s.Name]
	if !bex || !aex {
		return true, ""
	}
	for _, i := range s.Idx {
		bl, ok := bv.([]any)
		if !ok {
			return true, ""
		}
		al, ok := av.([]any)
		if !ok {
			return true, ""
		}
		for j := range bl {
			if j == i {
				continue
			}
			if j >= len(al) || canon(al[j]) != canon(bl[j]) {
				return false, fmt.Sprintf("list item %d beside the target changed", j)
			}
		}
		for j := len(bl); j < len(al); j++ {
			if j != i {
				return false, fmt.Sprintf("list item %d beside the target appeared", j)
			}
		}
		if i >= len(bl) || i >= len(al) {
			return true, ""
		}
		bv, av = bl[i], al[i]
	}
	return c13Frame(bv, av, segs[1:])
}

// ------------------------------------------------------------------ generators

func c13Gen() *DocGen {
	g := stdGen()
	g.MaxDepth = 3
	return g
}

// c13Target picks a path-safe target path for the document.
func c13Target(r *rand.Rand, g *DocGen, data W) string {
	var paths, lists []string
	wirePaths(data, "", &paths, &lists)
	fresh := []string{"n1", "n2", "new-k", "t_0"}
	switch k := r.Intn(10); {
	case k <= 4 && len(paths) > 0: // an existing position: leaf, container, list, list item
		return pick(r, paths)
	case k <= 6 && len(paths) > 0: // below an existing position (absent below a container / a leaf / a list)
		p := pick(r, paths)
		if r.Intn(2) == 0 {
			return p + "." + pick(r, fresh)
		}
		return p + "." + pick(r, g.Keys)
	case k == 7 && len(lists) > 0: // one past the end of a list
		lp := pick(r, lists)
		if l, ok := c13WireAt(data, lp); ok {
			if ll, ok := l.([]any); ok {
				return fmt.Sprintf("%s[%d]", lp, len(ll))
			}
		}
		return lp
	case k == 8: // fresh multi-segment
		return pick(r, fresh) + "." + pick(r, g.Keys) + "." + pick(r, fresh)
	default:
		if r.Intn(2) == 0 {
			return pick(r, g.Keys)
		}
		return pick(r, fresh)
	}
}

// c13ContPaths lists the paths of the document that address containers.
func c13ContPaths(data W) []string {
	var paths, lists, conts []string
	wirePaths(data, "", &paths, &lists)
	for _, p := range paths {
		if w, ok := c13WireAt(data, p); ok && c13IsDoc(w) {
			conts = append(conts, p)
		}
	}
	return conts
}

func c13Pointer(path string) string {
	segs, ok := c13ParsePath(path)
	if !ok {
		return "/" + path
	}
	var sb strings.Builder
	for _, s := range segs {
		sb.WriteString("/" + c13EscTok(s.Name)) // RFC 6901: '~' as ~0, '/' as ~1 inside a token
		for _, i := range s.Idx {
			sb.WriteString("/" + strconv.Itoa(i))
		}
	}
	return sb.String()
}

func strp(s string) *string { return &s }
func boolp(b bool) *bool    { return &b }

// c13PlainTree: a tree with string / int / bool scalars only (its YAML text has a predictable reading).
func c13PlainTree(r *rand.Rand, depth int) W {
	g := &DocGen{Keys: defaultKeys, MaxDepth: 3, MaxWidth: 3, ListMax: 3, PNull: 0, PEmpty: 0.15, PList: 0.4, PLeaf: 0.5,
		Types: []string{"int", "string", "bool"}, Strings: []string{"", "s", "t", "1", "true", "a b", "héllo", "x.y", "null", "~"}}
	return g.Node(r, depth)
}

func c13Run(c *Ctx) {
	r := c.Rng
	g := c13Gen()
	strategies := []*string{nil, nil, strp("merge"), strp("merge"), strp("replace"), strp("replace"), strp("unknown"), strp("")}
	// payload scalars over a wider range: texts with leading / trailing white space, line ends, letter-case twins, non-ASCII
	// (supplementary plane, U+FFFD), text that looks like a template or a number beyond 64 bits; typed integers
	gp := c13Gen()
	gp.Strings = []string{"", "s", "t", "1", "true", "a b", "héllo", "x.y", "q[0]", " lead", "trail ", "\t", "a\nb", "\U0001F680", "\ufffd", "T", "~",
		"12345678901234567890123", "{{ .a }}", "MaxConn", "maxconn", "\u00a0"}
	gp.Types = []string{"int", "string", "string", "bool", "float64", "int64", "uint64"}
	for i := 0; i < c.N(2200); i++ {
		c.Tick()
		data := g.Doc(r)
		cs := c13Set{Data: data, Strategy: strategies[r.Intn(len(strategies))], Via: c13PickVia(r)}
		if r.Intn(12) > 0 {
			cs.Payload = g.Cont(r, 1)
			switch r.Intn(12) {
			case 0, 1, 2: // the VALUE RANGE of a payload's scalars (see gp)
				cs.Payload = gp.Cont(r, 1)
			case 3: // present but EMPTY: legal — nothing to merge at the root, an empty container created / kept / merged at a path
				cs.Payload = plainWire(map[string]any{})
			}
			if r.Intn(4) == 0 { // a near-copy of the destination, so that merge meets equal keys
				if d, ok := c13WireAt(data, c13Target(r, g, data)); ok {
					if _, isC := wireCont(d); isC {
						cs.Payload = g.Mutate(r, d)
					}
				}
			}
		}
		if r.Intn(5) > 0 {
			cs.Path = c13Target(r, g, data)
			if conts := c13ContPaths(data); len(conts) > 0 && r.Intn(3) == 0 {
				cs.Path = pick(r, conts)
				if r.Intn(2) == 0 {
					if d, ok := c13WireAt(data, cs.Path); ok && cs.Payload != nil {
						cs.Payload = g.Mutate(r, g.Mutate(r, d))
					}
				}
			}
		}
		c.Do("set", cs)
	}
	parseAs := []*string{nil, strp("none"), strp("yaml"), strp("yaml"), strp("json")}
	for i := 0; i < c.N(1000); i++ {
		c.Tick()
		data := g.Doc(r)
		ct := c13Template{Data: data, Path: c13Target(r, g, data), ParseAs: parseAs[r.Intn(len(parseAs))], Via: c13PickVia(r)}
		if r.Intn(3) > 0 {
			ct.Trim = boolp(r.Intn(2) == 0)
		}
		if r.Intn(25) == 0 {
			ct.Path = ""
		}
		switch k := r.Intn(10); {
		case k <= 2:
			n := 1 + r.Intn(3)
			for j := 0; j < n; j++ {
				if r.Intn(2) == 0 {
					ct.Parts = append(ct.Parts, c13Part{Lit: pick(r, []string{"text", " padded ", "a: 1", "x\ny", "- 1\n- 2", "{ single }", "}} {", "é", "\t",
						"\u00a0nbsp\u00a0", "\u0085", " \r\n", "\n", "\U0001F680 ", "\ufffd", "T", "12345678901234567890123", "~", "#c", "k: |+\n  kept\n\n"})})
				} else {
					ct.Parts = append(ct.Parts, c13Part{Ref: pick(r, g.Keys)})
				}
			}
		case k <= 6:
			ct.Parts = []c13Part{{Yaml: c13PlainTree(r, 0)}}
			if r.Intn(3) > 0 {
				ct.ParseAs = strp("yaml")
			}
		case k == 7:
			ct.Parts = []c13Part{{Lit: "x"}, {Fail: true}}
		case k == 8:
			ct.Parts = []c13Part{{Raw: pick(r, []string{`{{ "" }}`, `{{ "  " }}`, `{{ .a.b.c.d }}`, `{{ `, `{{ 1 | add 2 }}`, `{{ "a: [1, 2" }}`, `{{ "k: v" }}`})}}
		default:
			// empty template
		}
		c.Do("template", ct)
	}
	// templates whose SURROUNDING WHITE SPACE matters to a YAML parser (the smallest ones first), parseAs x trim
	for _, ct := range c13TrimYamlBasics() {
		c.Tick()
		c.Do("template", ct)
	}
	for i := 0; i < c.N(400); i++ {
		c.Tick()
		data := g.Doc(r)
		ct := c13Template{Data: data, Path: c13Target(r, g, data), Via: c13PickVia(r),
			ParseAs: pick(r, []*string{strp("yaml"), strp("yaml"), strp("yaml"), strp("yaml"), nil, strp("none")}),
			Trim:    pick(r, []*bool{boolp(true), boolp(true), boolp(true), boolp(false), nil})}
		pre, body, post := pick(r, c13YamlPre), pick(r, c13YamlBodies), pick(r, c13YamlPost)
		switch r.Intn(4) {
		case 0:
			ct.Parts = []c13Part{{Lit: pre}, {Lit: body}, {Lit: post}}
		case 1:
			ct.Parts = []c13Part{{Lit: pre + body}, {Raw: `{{ "" }}`}, {Lit: post}} // the same text, rendered through an action
		default:
			ct.Parts = []c13Part{{Lit: pre + body + post}}
		}
		c.Do("template", ct)
	}
	ops := []string{"add", "add", "remove", "replace", "move", "copy", "test", "bogus"}
	for i := 0; i < c.N(1000); i++ {
		c.Tick()
		data := g.Doc(r)
		cp := c13Patch{Data: data, Op: pick(r, ops), Path: c13Pointer(c13Target(r, g, data)), Via: c13PickVia(r)}
		if r.Intn(20) == 0 {
			cp.Path = pick(r, []string{"no-slash", "", "/"})
		}
		switch r.Intn(4) {
		case 0:
			cp.Value = c13PlainTree(r, 1)
		case 1:
			cp.ValueFrom = strp(c13Target(r, g, data))
		case 2:
			cp.Value = c13PlainTree(r, 2)
			cp.ValueFrom = strp(c13Target(r, g, data))
		}
		if conts := c13ContPaths(data); len(conts) > 0 && (cp.Op == "add" || cp.Op == "replace") && r.Intn(3) == 0 {
			cp.Value = nil
			cp.ValueFrom = strp(pick(r, conts))
		}
		if cp.Op == "test" && r.Intn(2) == 0 {
			tp := c13Target(r, g, data)
			cp.Path, cp.Value, cp.ValueFrom = c13Pointer(tp), nil, strp(tp)
		}
		if cp.Op == "move" || cp.Op == "copy" || r.Intn(8) == 0 {
			cp.From = c13Pointer(c13Target(r, g, data))
			if r.Intn(15) == 0 {
				cp.From = "bad"
			}
		}
		c.Do("patch", cp)
	}
	modes := []string{"", "text", "binary", "binary", "yaml", "json", "properties", "bogus"}
	for i := 0; i < c.N(1000); i++ {
		c.Tick()
		data := g.Doc(r)
		ci := c13Import{Data: data, Mode: pick(r, modes), Path: c13Target(r, g, data), Via: c13PickVia(r)}
		if r.Intn(10) == 0 {
			ci.Path = ""
		}
		switch ci.Mode {
		case "yaml":
			b, _ := yaml.Marshal(wirePlain(g.Doc(r)))
			ci.Content = b
		case "json":
			b, _ := json.Marshal(wirePlain(g.Doc(r)))
			ci.Content = b
		case "properties":
			kv := c16Gen(r, r.Intn(3))
			var sb strings.Builder
			for _, e := range kv.Pairs {
				sb.WriteString(e[0] + "=" + e[1] + "\n")
			}
			ci.Content = []byte(sb.String())
		default:
			n := r.Intn(12)
			if r.Intn(6) == 0 {
				n = 0
			}
			b := make([]byte, n)
			for j := range b {
				if r.Intn(3) == 0 {
					b[j] = byte(r.Intn(256))
				} else {
					b[j] = "abcXYZ019 \n=.{}é"[r.Intn(16)]
				}
			}
			// "for all byte strings": beginnings and endings that readers, decoders and editors are
			// known to treat specially — byte order marks, NUL, document / comment markers, white
			// space, line ends — around the random body (or alone)
			if r.Intn(2) == 0 {
				h := pick(r, c13Heads)
				if r.Intn(3) == 0 {
					h = pick(r, c13Heads[:8]) // byte order marks and NUL
				}
				b = append([]byte(h), b...)
			}
			if r.Intn(3) == 0 {
				b = append(b, pick(r, c13Tails)...)
			}
			ci.Content = b
		}
		if ci.Content == nil {
			ci.Content = []byte{}
		}
		if r.Intn(20) == 0 {
			ci.Missing = true
		}
		c.Do("import", ci)
	}
	for i := 0; i < c.N(800); i++ {
		c.Tick()
		gb := stdGen()
		gb.PLeaf = 0.4
		data := gb.Doc(r)
		cr := c13Round{Data: data, Format: pick(r, []string{"yaml", "json"}), Dst: pick(r, []string{"imp", "imp.q", "n1.n2.n3"}), Pre: r.Intn(2) == 0, Via: c13PickVia(r)}
		conts := c13ContPaths(data)
		if len(conts) == 0 || r.Intn(3) == 0 {
			cr.Whole = true
		} else {
			cr.Src = pick(r, conts)
		}
		c.Do("roundtrip", cr)
	}
	formats := []string{"yaml", "json", "properties", "text", "xml", ""}
	for i := 0; i < c.N(1200); i++ {
		c.Tick()
		data := g.Doc(r)
		ce := c13Export{Data: data, Format: pick(r, formats), Path: c13Target(r, g, data), Pre: r.Intn(2) == 0, Via: c13PickVia(r)}
		switch r.Intn(8) {
		case 0:
			ce.NilPath = true
		case 1:
			ce.Path = ""
		case 2, 3:
			ce.ViaRef = true
		}
		if r.Intn(25) == 0 {
			ce.BadDir = true
		}
		c.Do("export", ce)
	}
	names := []string{"YTKV_A", "YTKV_B1", "YTKV_", "HOME_X", "PATHY", "a_b", "X9", "Y", "ytkv_a", "Ytkv_A", "YTKV_AA", "x9"} // incl. letter-case twins, prefix-related names
	vals := []string{"", "1", "v", "a=b", "x y", "é", "/usr/bin:/bin", "{{ .a }}", "a.b[0]",
		// VALUE RANGE: a value is stored exactly as it is — white space around it, `=` in it, line ends, non-ASCII, long digit strings
		" padded ", "trail\n", "\ttab", "=", "a=b=c", "=lead", "\U0001F680", "\ufffd", "T", "12345678901234567890123", "l1\nl2", "\u00a0", "~"}
	res := []*string{nil, nil, strp("^YTKV_"), strp("A"), strp("_B"), strp("^$"), strp(".*"), strp("[0-9]$"), strp("X|Y"), strp("^a")}
	for i := 0; i < c.N(700); i++ {
		c.Tick()
		data := g.Doc(r)
		ce := c13Env{Data: data, Include: res[r.Intn(len(res))], Exclude: res[r.Intn(len(res))], Env: [][2]string{}, Via: c13PickVia(r)}
		if r.Intn(2) == 0 {
			ce.Path = c13Target(r, g, data)
		}
		seen := map[string]bool{}
		for j := r.Intn(6); j > 0; j-- {
			n := pick(r, names)
			if !seen[n] {
				seen[n] = true
				ce.Env = append(ce.Env, [2]string{n, pick(r, vals)})
			}
		}
		c.Do("env", ce)
	}
	lens := []string{"", "plain", "a { b } c", "}} {", "{ {", "{{", "{{ open", "}} before {{ after", "{{}}", "{{ .a }}", "x {{ .b }} y",
		"{{ fail \"no\" }}", "{{ .a.b.c.d.e }}", "{{ nofunc 1 }}", "{{ 1 }} }}", "{{ if }}", "é {{ \"ü\" }}", "{{ \"}}\" }}", "{x{ }}", "{{\n}}"}
	for i := 0; i < c.N(400); i++ {
		c.Tick()
		s := pick(r, lens)
		if r.Intn(3) == 0 {
			s = pick(r, lens) + pick(r, []string{"", " ", "x", "{", "}"}) + pick(r, lens)
		}
		if r.Intn(4) == 0 { // random text over a brace-heavy alphabet
			n := r.Intn(10)
			b := make([]rune, n)
			for j := range b {
				b[j] = []rune("{} .a\"|é\n")[r.Intn(9)]
			}
			s = string(b)
		}
		ws := []string{" ", "\n", "\t", "  "}
		if r.Intn(3) == 0 {
			s = pick(r, ws) + s
		}
		if r.Intn(3) == 0 {
			s += pick(r, ws)
		}
		c.Do("lenient", c13Lenient{Data: g.Doc(r), S: s})
	}
	if !c.searchMode {
		// all (format, target kind) combinations, deterministically
		data := map[string]any{"m": map[string]any{
			"leaf": scalarWire("v"), "num": scalarWire(7), "nul": scalarWire(nil),
			"list": []any{scalarWire(1), scalarWire("x")}, "elist": []any{},
			"cont":  map[string]any{"m": map[string]any{"k": scalarWire("w"), "n": scalarWire(2)}},
			"econt": map[string]any{"m": map[string]any{}},
			"pref":  scalarWire("cont")}}
		for _, f := range formats {
			for _, p := range []string{"absent", "leaf.below", "leaf", "num", "nul", "list", "elist", "list[0]", "cont", "econt", "cont.k", ""} {
				c.Do("export", c13Export{Data: data, Format: f, Path: p})
				c.Do("export", c13Export{Data: data, Format: f, Path: p, Pre: true})
				c.Do("export", c13Export{Data: data, Format: f, Path: p, BadDir: true})
			}
			c.Do("export", c13Export{Data: data, Format: f, NilPath: true})
			c.Do("export", c13Export{Data: data, Format: f, ViaRef: true, Path: "cont"})
		}
		c13RunVia(c)
	}
	c13RunRerun(c)
	c13RunHist(c) // one text rendered leniently over a history of data documents (c13_hist.go)
	heapPatchOpGen(c, c.N(400)) // heap_share2.go
	heapSetOpGen(c, c.N(300))   // heap_share2.go
	c13RunLook(c)               // syntax look-alike keys, rare shapes, TMPDIR on another file system (c13_look.go)
	c13tfRun(c)                 // the template functions of template_engine_funcs.go through real templates (c13_tplfuncs.go)
	c13oxRun(c)                 // ExecOp, TemplateFileOp, Html2DomOp, ValOrRef / AnyVal decoding (c13_opsext.go)
}

// c13Heads / c13Tails: special beginnings and endings of imported files.
var c13Heads = []string{"\xef\xbb\xbf", "\xef\xbb\xbf\xef\xbb\xbf", "\xef\xbb", "\xfe\xff", "\xff\xfe", "\xff\xfe\x00\x00", "\x00", "\x00\x00",
	"---", "---\n", "--- ", "...\n", "#", "# c\n", "#!", "%YAML 1.2\n", "!", "!!binary ", "&a ", "*a", "? ", "- ", "|", ">", "@", "`",
	" ", "  ", "\t", "\n", "\n\n", "\r\n", "\r", "\v", "\f", "\u00a0", "\u2028", "\u0085", "\ufffe",
	"{", "[", "\"", "'", "=", ":", "\\", "{{", "{{ .a }}", "\x1b[0m", "\x7f", "\x1a", "PK\x03\x04", "\x1f\x8b", "data:", "base64,"}
var c13Tails = []string{"\n", "\n\n", "\r\n", "\r", " ", "\t", " \n", "\x00", "\x1a", "\xef\xbb\xbf", "\\", "\\\n", "=", "==", "\n...\n", "\n---\n", "\xff"}

// ------------------------------------------------------------------ evaluation

func c13TempDir(c *Ctx) string {
	base := filepath.Join(c.VerifDir, ".work")
	_ = os.MkdirAll(base, 0o755)
	d, err := os.MkdirTemp(base, "c13-")
	if err != nil {
		panic(err)
	}
	return d
}

func c13Exec(gd dom.ContainerBuilder, a pipeline.Action) (tag string, txt string) {
	var err error
	out, t := guard(func() { err = pipeline.New(pipeline.WithData(gd)).Execute(a) })
	if out == "panic" {
		return "panic", t
	}
	if err != nil {
		return "err", err.Error()
	}
	return "ok", ""
}

// c13After observes the document after an operation.  The tree is first walked with a bounded
// depth and node budget through Children()/Items(): a cyclic document (a node stored below
// itself) ends in a recoverable panic here, BEFORE AsMap / Snapshot — whose unbounded recursion
// would be a fatal stack overflow — is called.  A panic of AsMap (a nil node stored in the
// tree) is reported likewise.
func c13After(gd dom.ContainerBuilder) (w W, snapOK bool, txt string) {
	out, t := guard(func() {
		budget := 200000
		w = c13NodeWire(gd, 0, &budget)
		_ = gd.AsMap()
	})
	return w, out == "ok", t
}

const c13Cyclic = "document is not finite (cyclic or deeper than 64 levels)"

func c13NodeWire(n dom.Node, depth int, budget *int) W {
	*budget--
	if depth > 64 || *budget < 0 {
		panic(c13Cyclic)
	}
	if n == nil {
		return nil
	}
	switch {
	case n.IsContainer():
		m := map[string]any{}
		for k, e := range n.(dom.Container).Children() {
			m[k] = c13NodeWire(e, depth+1, budget)
		}
		return map[string]any{"m": m}
	case n.IsList():
		items := n.(dom.List).Items()
		l := make([]any, len(items))
		for i, e := range items {
			l[i] = c13NodeWire(e, depth+1, budget)
		}
		return l
	default:
		return scalarWire(n.(dom.Leaf).Value())
	}
}

func c13NodeCount(w W) int { return wireSize(w) }

func c13Eval(c *Ctx, kind string, raw []byte) {
	c13tfEval(c, kind, raw) // c13_tplfuncs.go: the kinds "tf-…" (template functions)
	c13oxEval(c, kind, raw) // c13_opsext.go: the kinds "ox-…"
	switch kind {
	case "heap-patchop":
		heapPatchOpEval(c, raw) // heap_share2.go
	case "heap-setop":
		heapSetOpEval(c, raw) // heap_share2.go
	case "large":
		c13EvalLarge(c, raw) // c13_more.go
	case "set":
		c13EvalSet(c, raw)
	case "template":
		c13EvalTemplate(c, raw)
	case "patch":
		c13EvalPatch(c, raw)
	case "import":
		c13EvalImport(c, raw)
	case "roundtrip":
		c13EvalRound(c, raw)
	case "export":
		c13EvalExport(c, raw)
	case "env":
		c13EvalEnv(c, raw)
	case "lenient":
		c13EvalLenient(c, raw)
	case "rerun":
		c13EvalRerun(c, raw)
	case "lenient-history":
		c13EvalLenientSeq(c, raw) // c13_hist.go
	}
}

func c13IsDoc(w W) bool {
	_, ok := wireCont(w)
	return ok
}

func c13IsNullLeaf(w W) bool {
	m, ok := w.(map[string]any)
	return ok && m["t"] == "nil"
}

func c13EvalSet(c *Ctx, raw []byte) {
	var p c13Set
	if err := json.Unmarshal(raw, &p); err != nil {
		panic(err)
	}
	if !c13IsDoc(p.Data) || (p.Payload != nil && !c13IsDoc(p.Payload)) || !c13ViaDomain(p.Via, p.Data, p.Payload) {
		return
	}
	segs, ok := c13ParsePath(p.Path)
	if !ok {
		return
	}
	c.Dist("via:" + p.Via)
	gd := wireContainer(p.Data)
	before := nodeWire(gd)
	op := &pipeline.SetOp{Path: p.Path}
	if p.Payload != nil {
		op.Data = c13SharedPayload(p.Payload) // equal subtrees are ONE Go object (c13_more.go)
	}
	strategy := "merge"
	if p.Strategy != nil {
		s := pipeline.SetStrategy(*p.Strategy)
		op.Strategy = &s
		strategy = *p.Strategy
	}
	tag, txt := c13ExecVia(gd, op, p.Via)
	after, snapOK, stxt := c13After(gd)
	if !c.Direct("no-panic", tag != "panic" && snapOK, txt+stxt) {
		return
	}
	known := strategy == "merge" || strategy == "replace"
	c.Dist("set:strategy=" + strategy)
	switch {
	case p.Payload == nil:
		c.Dist("set:nil-data")
		c.Direct("set-nil-data-is-error", tag == "err", tag)
	case !known:
		c.Direct("set-unknown-strategy-is-error", tag == "err", tag)
	default:
		c.Direct("set-no-error", tag == "ok", txt)
	}
	if tag == "err" {
		c.Direct("set-error-leaves-data-unchanged", canon(after) == canon(before), after)
	}
	if tag == "ok" && p.Payload != nil {
		if c13NodeCount(p.Data) >= 2 {
			c.Nontrivial()
		}
		pc, _ := wireCont(p.Payload)
		if p.Path != "" {
			dest, dok := c13WireAt(before, p.Path)
			destC, destIsC := wireCont(dest)
			switch {
			case !dok:
				c.Dist("set:target=absent")
			case destIsC:
				c.Dist("set:target=container")
			case isWireLeaf(dest):
				c.Dist("set:target=leaf")
			default:
				c.Dist("set:target=list")
			}
			if len(segs) > 0 && len(segs[len(segs)-1].Idx) > 0 {
				c.Dist("set:target-is-list-item")
			}
			got, gok := c13WireAt(after, p.Path)
			if strategy == "replace" || !dok || !destIsC {
				c.Direct("set-places-data-at-path", gok && canon(got) == canon(p.Payload), map[string]any{"at-path": got, "payload": p.Payload})
			} else {
				// merge into an existing container: keys of one side only are carried over, equal keys
				// that are not both containers / both lists take the payload's value unless it is null
				gc, gIsC := wireCont(got)
				ok := gok && gIsC
				detail := ""
				if ok {
					for k, dv := range destC {
						pv, inP := pc[k]
						gv, inG := gc[k]
						if !inG {
							ok, detail = false, "key "+k+" lost"
							break
						}
						if !inP {
							if canon(gv) != canon(dv) {
								ok, detail = false, "key "+k+" of the destination changed"
							}
							continue
						}
						_, dC := wireCont(dv)
						_, pC := wireCont(pv)
						_, dL := dv.([]any)
						_, pL := pv.([]any)
						if (dC && pC) || (dL && pL) {
							continue
						}
						want := pv
						if c13IsNullLeaf(pv) {
							want = dv
						}
						if canon(gv) != canon(want) {
							ok, detail = false, "key "+k+": neither merged nor replaced"
						}
					}
					for k, pv := range pc {
						if _, inD := destC[k]; !inD {
							if gv, inG := gc[k]; !inG || canon(gv) != canon(pv) {
								ok, detail = false, "payload key "+k+" not placed"
							}
						}
					}
					for k := range gc {
						_, inD := destC[k]
						_, inP := pc[k]
						if !inD && !inP {
							ok, detail = false, "key "+k+" appeared"
						}
					}
				}
				c.Direct("set-merges-into-existing-container", ok, map[string]any{"why": detail, "at-path": got})
			}
			fr, why := c13Frame(before, after, segs)
			c.Direct("frame: paths not under the target unchanged", fr, map[string]any{"why": why, "after": after})
		} else {
			c.Dist("set:target=root")
			bc, _ := wireCont(before)
			ac, _ := wireCont(after)
			ok, detail := true, ""
			for k, bv := range bc {
				if _, inP := pc[k]; inP {
					continue
				}
				if av, in := ac[k]; !in || canon(av) != canon(bv) {
					ok, detail = false, "key "+k+" outside the payload changed"
				}
			}
			for k := range ac {
				_, inB := bc[k]
				_, inP := pc[k]
				if !inB && !inP {
					ok, detail = false, "key "+k+" appeared"
				}
			}
			c.Direct("frame: paths not under the target unchanged", ok, map[string]any{"why": detail, "after": after})
			ok, detail = true, ""
			for k, pv := range pc {
				av, in := ac[k]
				bv, inB := bc[k]
				_, bC := wireCont(bv)
				_, pC := wireCont(pv)
				if strategy == "merge" && inB && bC && pC {
					if _, aC := wireCont(av); !in || !aC {
						ok, detail = false, "key "+k+": containers not merged into a container"
					}
					continue
				}
				if !in || canon(av) != canon(pv) {
					ok, detail = false, "key "+k+" not placed at the root"
				}
			}
			c.Direct("set-places-data-at-root", ok, map[string]any{"why": detail, "after": after})
		}
	}
	m := c.Model("set", map[string]any{"data": p.Data, "payload": p.Payload, "path": p.Path, "strategy": p.Strategy})
	c.Corr("setOp", map[string]any{"out": tag, "data": after}, m)
}

// YAML texts whose reading depends on the white space AROUND them: what stands before the first token (a tab is no
// indentation; NBSP and NEL are white space to strings.TrimSpace and content to YAML; a BOM is neither), a final
// block scalar with a chomping indicator followed by blank lines, uniformly indented blocks (trimming takes the
// indentation off the first line only), document markers and comments at the edges.
var c13YamlPre = []string{"", "", "", "\t", " ", "  ", "\n", "\n\n", "\n  ", "\u00a0", "\u0085", "\r\n", "\t\n", " \t", "\ufeff", "\n\t"}
var c13YamlBodies = []string{"a: 1", "k: v\nl: w", "- x\n- y", "k: |+\n  text\n", "k: >+\n  folded\n  more\n", "|+\n  top\n", "k: |-\n  strip\n",
	"k: |\n  clip\n", "k: |2+\n    indented\n", "- |+\n  item\n", "plain", "'quoted '", "\"dq \\n\"", "k: 'v '", "a:\n  b: 1\n  c: [1, 2]", "[1, 2]", "{a: 1}",
	"a: 1 # comment", "# only a comment", "k: \"\"", "k:", "k: !!str 1", "---\na: 1", "a: 1\n...", "", "a: 1\nb: 2", "  a: 1\n  b: 2", "  - p\n  - q",
	"k: [1, 2", "a: b: c", "k: v\u00a0", "\u00fc: \U0001F680", "T: f", "n: ~", "n: null", "e: {}", "l: []", "big: 123456789012345678901234", "MaxConn: 1\nmaxconn: 2"}
var c13YamlPost = []string{"", "", "", "\n", "\n\n\n", " ", "\t", " \n", "\n ", "\u00a0", "\u0085", "\r\n", "\n\t", "\n...\n", "\n# c\n", "\n  \n"}

func c13TrimYamlBasics() []c13Template {
	var out []c13Template
	data := plainWire(map[string]any{"k1": "v", "k2": map[string]any{"k3": 1}})
	for _, t := range []string{"\ta: 1", "k: |+\n  text\n\n\n", "\u00a0a: 1", "k: v\u0085", "  a: 1\n  b: 2", "\n a: 1\n", " - x\n - y\n", "\t\n", "|+\n  top\n\n"} {
		for _, trim := range []*bool{boolp(true), boolp(false), nil} {
			for _, pa := range []*string{strp("yaml"), nil} {
				out = append(out, c13Template{Data: data, Path: "out", ParseAs: pa, Trim: trim, Parts: []c13Part{{Lit: t}}})
			}
		}
	}
	return out
}

// c13YamlParseWire: the document a YAML text denotes, as the template operation stores it (every scalar a text — the
// documented reading of decodeYamlNode —, sequences lists, mappings containers; a text that holds no node at all
// a null).  ok = false: outside what the predicate judges (aliases, mappings with composite or repeated keys).
func c13YamlParseWire(n *yaml.Node) (W, bool) {
	switch n.Kind {
	case 0:
		return scalarWire(nil), true
	case yaml.DocumentNode:
		if len(n.Content) != 1 {
			return scalarWire(nil), true
		}
		return c13YamlParseWire(n.Content[0])
	case yaml.ScalarNode:
		return scalarWire(n.Value), true
	case yaml.SequenceNode:
		l := []any{}
		for _, e := range n.Content {
			w, ok := c13YamlParseWire(e)
			if !ok {
				return nil, false
			}
			l = append(l, w)
		}
		return l, true
	case yaml.MappingNode:
		m := map[string]any{}
		for i := 0; i+1 < len(n.Content); i += 2 {
			k := n.Content[i]
			if _, dup := m[k.Value]; dup || k.Kind != yaml.ScalarNode {
				return nil, false
			}
			w, ok := c13YamlParseWire(n.Content[i+1])
			if !ok {
				return nil, false
			}
			m[k.Value] = w
		}
		return map[string]any{"m": m}, true
	}
	return nil, false
}

func c13TemplateText(p *c13Template) (text string, expect *string, yamlTree W) {
	var sb, eb, lb strings.Builder // text, expected rendering, text with every action replaced by \x00
	known := true
	dc, _ := wireCont(p.Data)
	for _, part := range p.Parts {
		if part.Fail || part.Raw != "" || part.Ref != "" {
			lb.WriteByte(0)
		} else if part.Yaml == nil {
			lb.WriteString(part.Lit)
		}
		switch {
		case part.Yaml != nil:
			b, err := yaml.Marshal(wirePlain(part.Yaml))
			if err != nil || strings.Contains(string(b), "{{") {
				known = false
				continue
			}
			sb.Write(b)
			eb.Write(b)
			if len(p.Parts) == 1 {
				yamlTree = part.Yaml
			}
		case part.Fail:
			sb.WriteString(`{{ fail "boom" }}`)
			known = false
		case part.Raw != "":
			sb.WriteString(part.Raw)
			known = false
		case part.Ref != "":
			sb.WriteString(`{{ index . "` + part.Ref + `" }}`)
			v, ok := dc[part.Ref].(map[string]any)
			if ok && v["t"] == "string" {
				eb.WriteString(v["v"].(string))
			} else {
				known = false
			}
		default:
			if strings.Contains(part.Lit, "{{") {
				known = false
			}
			sb.WriteString(part.Lit)
			eb.WriteString(part.Lit)
		}
	}
	if l := lb.String(); strings.Contains(l, "{{") || strings.Contains(l, "{\x00") {
		known = false // adjacent literals form an action delimiter the generator did not intend
	}
	if known {
		e := eb.String()
		expect = &e
	}
	return sb.String(), expect, yamlTree
}

// c13Stringify: the reading of a YAML text through decodeYamlNode — every scalar a string.
func c13Stringify(w W) W {
	switch x := w.(type) {
	case []any:
		l := make([]any, len(x))
		for i, e := range x {
			l[i] = c13Stringify(e)
		}
		return l
	case map[string]any:
		if cm, ok := x["m"].(map[string]any); ok {
			m := map[string]any{}
			for k, e := range cm {
				m[k] = c13Stringify(e)
			}
			return map[string]any{"m": m}
		}
		return map[string]any{"t": "string", "v": x["v"]}
	}
	return w
}

func c13YNodeWire(n *yaml.Node) any {
	switch n.Kind {
	case yaml.ScalarNode:
		return map[string]any{"s": n.Value}
	case yaml.SequenceNode:
		l := make([]any, 0, len(n.Content))
		for _, e := range n.Content {
			l = append(l, c13YNodeWire(e))
		}
		return map[string]any{"l": l}
	case yaml.MappingNode:
		o := make([]any, 0, len(n.Content)/2)
		for i := 0; i+1 < len(n.Content); i += 2 {
			o = append(o, []any{n.Content[i].Value, c13YNodeWire(n.Content[i+1])})
		}
		return map[string]any{"o": o}
	}
	return map[string]any{"s": "<unsupported>"}
}

func c13EvalTemplate(c *Ctx, raw []byte) {
	var p c13Template
	if err := json.Unmarshal(raw, &p); err != nil {
		panic(err)
	}
	if !c13IsDoc(p.Data) || !c13ViaDomain(p.Via, p.Data) {
		return
	}
	segs, ok := c13ParsePath(p.Path)
	if !ok {
		return
	}
	c.Dist("via:" + p.Via)
	text, expect, yamlTree := c13TemplateText(&p)
	gd := wireContainer(p.Data)
	before := nodeWire(gd)
	op := &pipeline.TemplateOp{Template: text, Path: p.Path, Trim: p.Trim}
	mode := "none"
	if p.ParseAs != nil {
		pa := pipeline.ParseTextAs(*p.ParseAs)
		op.ParseAs = &pa
		mode = *p.ParseAs
	}
	trim := p.Trim != nil && *p.Trim
	tag, txt := c13ExecVia(gd, op, p.Via)
	after, snapOK, stxt := c13After(gd)
	if !c.Direct("no-panic", tag != "panic" && snapOK, txt+stxt) {
		return
	}
	c.Dist("template:parseAs=" + mode)
	argErr := text == "" || p.Path == "" || (mode != "none" && mode != "yaml")
	if argErr {
		c.Direct("template-argument-error", tag == "err" && canon(after) == canon(before), map[string]any{"tag": tag, "after": after})
	} else if c13NodeCount(p.Data) >= 2 {
		c.Nontrivial()
	}
	if !argErr && expect != nil {
		want := *expect
		if trim {
			want = strings.TrimSpace(want)
		}
		got, gok := c13WireAt(after, p.Path)
		if mode == "none" {
			c.Dist("template:known-text")
			c.Direct("template-stores-rendered-text", tag == "ok" && gok && canon(got) == canon(scalarWire(want)), map[string]any{"tag": tag, "at-path": got, "want": want})
		} else if yamlTree != nil {
			c.Dist("template:known-yaml")
			wantW := c13Stringify(yamlTree)
			c.Direct("template-stores-yaml-parse", tag == "ok" && gok && canon(got) == canon(wantW), map[string]any{"tag": tag, "at-path": got, "want": wantW})
		}
	}
	if !argErr {
		fr, why := c13Frame(before, after, segs)
		c.Direct("frame: paths not under the target unchanged", fr, map[string]any{"why": why, "after": after})
	}
	// model: renderer, TrimSpace and the YAML parser are parameters fed with the real results
	rendered, rerr, _ := c13Render(p.Data, text)
	args := map[string]any{"data": p.Data, "template": text, "path": p.Path, "parseAs": p.ParseAs, "trim": trim}
	val := ""
	if rerr == nil {
		args["rendered"] = rendered
		val = rendered
	} else {
		args["rendered"] = nil
		c.Dist("template:render-error")
	}
	args["trimmed"] = strings.TrimSpace(val)
	if trim {
		val = strings.TrimSpace(val)
	}
	if !argErr && mode == "yaml" && (expect != nil || rerr == nil) {
		// "the template operation stores the rendered text, or its YAML parse when so configured, at its path", Trim:
		// "when true, whitespace is trimmed off the value": what is parsed is the rendered text — known in closed
		// form, else as the engine renders it — with the white space trimmed off when trim is set, and not anything else
		// (the untrimmed text reads differently when it starts with a tab, NBSP or NEL, ends in a kept block scalar …).
		// The YAML parser is a parameter: yaml.v3, applied to that text.  A text it rejects cannot be stored: an error.
		src := rendered
		if expect != nil {
			src = *expect
		}
		if t := strings.TrimSpace(src); trim && t != src {
			src = t
			c.Dist("template:yaml:trim-removed-something")
		}
		var doc yaml.Node
		if perr := yaml.Unmarshal([]byte(src), &doc); perr != nil {
			c.Dist("template:yaml:unparsable-text")
			c.Direct("template-yaml-of-unparsable-text-is-an-error", tag == "err", map[string]any{"tag": tag, "text": src, "trim": trim, "yaml": perr.Error()})
		} else if wantW, ok := c13YamlParseWire(&doc); ok {
			c.Dist("template:yaml:parse-compared")
			got, gok := c13WireAt(after, p.Path)
			c.Direct("template-stores-yaml-parse-of-the-(trimmed)-rendered-text", tag == "ok" && gok && canon(got) == canon(wantW),
				map[string]any{"tag": tag, "err": txt, "text": src, "trim": trim, "at-path": got, "want": wantW})
		}
	}
	var yn yaml.Node
	if err := yaml.Unmarshal([]byte(val), &yn); err != nil {
		args["ynode"] = "error"
		c.Dist("template:yaml-error")
	} else if yn.Kind == yaml.DocumentNode && len(yn.Content) == 1 {
		args["ynode"] = c13YNodeWire(yn.Content[0])
	} else {
		args["ynode"] = nil
		c.Dist("template:yaml-empty-document")
	}
	m := c.Model("template", args)
	c.Corr("templateOp", map[string]any{"err": tag == "err", "data": after}, m)
}

func c13AnyVal(v W) (*pipeline.AnyVal, error) {
	b, err := yaml.Marshal(wirePlain(v))
	if err != nil {
		return nil, err
	}
	var av pipeline.AnyVal
	if err := yaml.Unmarshal(b, &av); err != nil {
		return nil, err
	}
	return &av, nil
}

func c13EvalPatch(c *Ctx, raw []byte) {
	var p c13Patch
	if err := json.Unmarshal(raw, &p); err != nil {
		panic(err)
	}
	if !c13IsDoc(p.Data) || !c13ViaDomain(p.Via, p.Data) {
		return
	}
	c.Dist("via:" + p.Via)
	// the document as the operation sees it (inside a forEach body it also holds the item variable)
	seen := c13Seen(p.Data, p.Via)
	// A: the pipeline operation
	gdA := wireContainer(p.Data)
	opA := &pipeline.PatchOp{Op: patch.Op(p.Op), Path: p.Path, From: p.From, ValueFrom: p.ValueFrom}
	var valueWire W
	if p.Value != nil {
		av, err := c13AnyVal(p.Value)
		if err != nil || av.Value() == nil {
			return
		}
		opA.Value = av
		valueWire = nodeWire(av.Value())
	}
	tagA, txtA := c13ExecVia(gdA, opA, p.Via)
	afterA, finiteA, ftxt := c13After(gdA)
	if !c.Direct("patch-op-leaves-a-finite-document(Snapshot works)", finiteA, ftxt) {
		return
	}
	// B: patch.Do on an equal document with the corresponding operation object
	gdB := wireContainer(seen)
	tagB := "ok"
	func() {
		path, err := patch.ParsePath(p.Path)
		if err != nil {
			tagB = "err"
			return
		}
		oo := &patch.OpObj{Op: patch.Op(p.Op), Path: path}
		if p.Value != nil {
			av, _ := c13AnyVal(p.Value)
			oo.Value = av.Value()
		} else if p.ValueFrom != nil {
			// RFC 6902 reading on plain values: the value is a copy of what valueFrom addresses
			// (navigated on the wire document, rebuilt as a fresh node)
			if sw, ok := c13WireAt(p.Data, *p.ValueFrom); ok {
				oo.Value = wireNode(sw)
			}
		}
		if p.From != "" {
			from, err := patch.ParsePath(p.From)
			if err != nil {
				tagB = "err"
				return
			}
			oo.From = &from
		}
		var err2 error
		out, _ := guard(func() { err2 = patch.Do(oo, gdB) })
		if out == "panic" {
			tagB = "panic"
		} else if err2 != nil {
			tagB = "err"
		}
	}()
	c13Unsee(gdB, p.Via)
	afterB, _, _ := c13After(gdB)
	c.Dist("patch:op=" + p.Op + ":" + tagA)
	if tagA == "ok" && c13NodeCount(p.Data) >= 2 {
		c.Nontrivial()
	}
	c.Direct("patch-op-has-exactly-the-effect-of-patch.Do", tagA == tagB && canon(afterA) == canon(afterB),
		map[string]any{"PatchOp": map[string]any{"out": tagA, "text": txtA, "data": afterA}, "patch.Do": map[string]any{"out": tagB, "data": afterB}})
	c13PatchRFC(c, &p, seen, valueWire, tagA, afterA) // ... and of the RFC 6902 operation itself (c13_patch.go)
	// a later edit inside the subtree placed through valueFrom does not show at its source
	if p.Value == nil && p.ValueFrom != nil && tagA == "ok" && (p.Op == "add" || p.Op == "replace") {
		src, sok := c13WireAt(p.Data, *p.ValueFrom)
		srcPtr := c13Pointer(*p.ValueFrom)
		if sok && c13IsDoc(src) && !strings.HasPrefix(srcPtr+"/", p.Path+"/") {
			av, _ := c13AnyVal(scalarWire("edit"))
			tagE, _ := c13Exec(gdA, &pipeline.PatchOp{Op: patch.OpAdd, Path: p.Path + "/zz_edit", Value: av})
			afterE, finiteE, etxt := c13After(gdA)
			if tagE == "ok" {
				c.Dist("patch:valueFrom-independence-probed")
				_, shows := c13WireAt(afterE, *p.ValueFrom+".zz_edit")
				c.Direct("patch-valueFrom-copy-is-independent-of-its-source", finiteE && !shows,
					map[string]any{"why": etxt, "after-edit": afterE})
			}
		}
	}
	// model: the arguments the model hands to patch.Do, executed by the real patch.Do
	m, _ := c.Model("patchargs", map[string]any{"data": p.Data, "op": p.Op, "from": p.From, "path": p.Path, "value": valueWire, "valueFrom": p.ValueFrom}).(map[string]any)
	gdC := wireContainer(seen)
	tagC := "ok"
	if m == nil {
		tagC = "model-error"
	} else if e, _ := m["err"].(bool); e {
		tagC = "err"
	} else {
		path, err := patch.ParsePath(m["path"].(string))
		if err != nil {
			tagC = "err(model path)"
		} else {
			oo := &patch.OpObj{Op: patch.Op(m["op"].(string)), Path: path}
			if mv := m["value"]; mv != nil {
				oo.Value = wireNode(mv)
			}
			if f, ok := m["from"].(string); ok {
				if from, err := patch.ParsePath(f); err == nil {
					oo.From = &from
				} else {
					tagC = "err(model from)"
				}
			}
			if tagC == "ok" {
				var err2 error
				out, _ := guard(func() { err2 = patch.Do(oo, gdC) })
				if out == "panic" {
					tagC = "panic"
				} else if err2 != nil {
					tagC = "err"
				}
			}
		}
	}
	c13Unsee(gdC, p.Via)
	afterC, _, _ := c13After(gdC)
	c.Corr("patchOp", map[string]any{"out": tagA, "data": afterA}, map[string]any{"out": tagC, "data": afterC})
}

func c13Bytes(b []byte) []any {
	out := make([]any, len(b))
	for i, x := range b {
		out[i] = int(x)
	}
	return out
}

func c13EvalImport(c *Ctx, raw []byte) {
	var p c13Import
	if err := json.Unmarshal(raw, &p); err != nil {
		panic(err)
	}
	if !c13IsDoc(p.Data) || !c13ViaDomain(p.Via, p.Data) {
		return
	}
	segs, ok := c13ParsePath(p.Path)
	if !ok {
		return
	}
	c.Dist("via:" + p.Via)
	dir := c13TempDir(c)
	defer os.RemoveAll(dir)
	file := filepath.Join(dir, "in.dat")
	if !p.Missing {
		if err := os.WriteFile(file, p.Content, 0o644); err != nil {
			panic(err)
		}
	}
	gd := wireContainer(p.Data)
	before := nodeWire(gd)
	tag, txt := c13ExecVia(gd, &pipeline.ImportOp{File: file, Path: p.Path, Mode: pipeline.ParseFileMode(p.Mode)}, p.Via)
	after, snapOK, stxt := c13After(gd)
	if !c.Direct("no-panic", tag != "panic" && snapOK, txt+stxt) {
		return
	}
	c.Dist("import:mode=" + p.Mode + ":" + tag)
	if tag == "err" {
		c.Direct("import-error-leaves-data-unchanged", canon(after) == canon(before), after)
	}
	mode := p.Mode
	if mode == "" {
		mode = "text"
	}
	if tag == "ok" && c13NodeCount(p.Data) >= 2 {
		c.Nontrivial()
	}
	switch {
	case p.Missing:
		c.Direct("import-missing-file-is-error", tag == "err", tag)
	case mode == "text" || mode == "binary":
		if p.Path == "" {
			c.Direct("import-leaf-at-root-is-error", tag == "err", tag)
			break
		}
		want := string(p.Content)
		if mode == "binary" {
			want = base64.StdEncoding.EncodeToString(p.Content)
		}
		// exact bytes: read the leaf's Go string directly (no JSON in between)
		got, isStr := any(nil), false
		if n := gd.Lookup(p.Path); n != nil && n.IsLeaf() {
			got = n.(dom.Leaf).Value()
			_, isStr = got.(string)
		}
		c.Direct("import-"+mode+"-stores-exact-content", tag == "ok" && isStr && got.(string) == want,
			map[string]any{"tag": tag, "got": fmt.Sprintf("%q", got), "want": fmt.Sprintf("%q", want)})
	}
	if tag == "ok" && p.Path != "" {
		fr, why := c13Frame(before, after, segs)
		c.Direct("frame: paths not under the target unchanged", fr, map[string]any{"why": why, "after": after})
	}
	// model
	if mode == "text" && !utf8.Valid(p.Content) {
		c.Dist("import:text-not-utf8(direct only)")
		return
	}
	args := map[string]any{"data": p.Data, "mode": p.Mode, "path": p.Path, "text": string(p.Content)}
	if p.Missing {
		args["content"] = nil
	} else {
		args["content"] = c13Bytes(p.Content)
	}
	var dec dom.DecoderFunc
	switch mode {
	case "yaml":
		dec = dom.DefaultYamlDecoder
	case "json":
		dec = dom.DefaultJsonDecoder
	case "properties":
		dec = props.DecoderFn
	}
	if dec != nil {
		out, _ := guard(func() {
			if cb, err := dom.Builder().FromReader(bytes.NewReader(p.Content), dec); err == nil {
				args["decoded"] = nodeWire(cb)
			}
		})
		if out == "panic" {
			return
		}
	}
	m := c.Model("import", args)
	c.Corr("importOp", map[string]any{"err": tag == "err", "data": after}, m)
}

// c13Normalise: the codec's own reading of the value it wrote (number normalisation).
func c13Normalise(format string, v any) (any, error) {
	var out map[string]any
	switch format {
	case "yaml":
		b, err := yaml.Marshal(v)
		if err != nil {
			return nil, err
		}
		if err := yaml.Unmarshal(b, &out); err != nil {
			return nil, err
		}
	case "json":
		b, err := json.Marshal(v)
		if err != nil {
			return nil, err
		}
		if err := json.Unmarshal(b, &out); err != nil {
			return nil, err
		}
	}
	if out == nil {
		out = map[string]any{}
	}
	return out, nil
}

// c13Stale is the previous content of an export target: long, and not valid YAML/JSON when
// only its beginning is overwritten.
var c13Stale = strings.Repeat("stale: {unterminated [previous, content\n", 200)

func c13EvalRound(c *Ctx, raw []byte) {
	var p c13Round
	if err := json.Unmarshal(raw, &p); err != nil {
		panic(err)
	}
	if !c13IsDoc(p.Data) || (p.Format != "yaml" && p.Format != "json") || !c13ViaDomain(p.Via, p.Data) {
		return
	}
	c.Dist("via:" + p.Via)
	dsegs, ok := c13ParsePath(p.Dst)
	if !ok || len(dsegs) == 0 {
		return
	}
	var sub W = c13Seen(p.Data, p.Via) // the whole document as the export sees it
	if !p.Whole {
		s, ok := c13WireAt(p.Data, p.Src)
		if !ok || !c13IsDoc(s) {
			return
		}
		sub = s
	}
	dir := c13TempDir(c)
	defer os.RemoveAll(dir)
	defer c13MaybeTmpElsewhere(c, p.Tmp, dir)() // a legal environment: temporary files live on another file system (c13_look.go)
	file := filepath.Join(dir, "out."+p.Format)
	if p.Pre {
		// the target file already exists and is longer than what will be written: an export
		// must replace the file's content, not overwrite its beginning
		_ = os.WriteFile(file, []byte(c13Stale), 0o644)
		c.Dist("roundtrip:file-preexists")
	}
	gd := wireContainer(p.Data)
	before := nodeWire(gd)
	ex := &pipeline.ExportOp{File: &pipeline.ValOrRef{Val: file}, Format: pipeline.OutputFormat(p.Format)}
	if !p.Whole {
		ex.Path = &pipeline.ValOrRef{Val: p.Src}
	}
	tag, txt := c13ExecVia(gd, ex, p.Via)
	mid, snapOK, stxt := c13After(gd)
	if !c.Direct("no-panic", tag != "panic" && snapOK, txt+stxt) {
		return
	}
	c.Direct("export-no-error", tag == "ok", txt)
	c.Direct("export-does-not-change-data", canon(mid) == canon(before), mid)
	tag2, txt2 := c13ExecVia(gd, &pipeline.ImportOp{File: file, Path: p.Dst, Mode: pipeline.ParseFileMode(p.Format)}, p.Via)
	after, snapOK, stxt := c13After(gd)
	if !c.Direct("no-panic", tag2 != "panic" && snapOK, txt2+stxt) {
		return
	}
	c.Direct("import-no-error", tag2 == "ok", txt2)
	c.Nontrivial()
	c.Dist("roundtrip:" + p.Format)
	c.Dist(fmt.Sprintf("roundtrip:size~%d", c13NodeCount(sub)/5*5))
	norm, err := c13Normalise(p.Format, wirePlain(sub))
	if err != nil {
		return
	}
	got, gok := c13WireAt(after, p.Dst)
	c.Direct("Import(Export(subtree))==subtree up to number normalisation", gok && canon(got) == canon(plainWire(norm)),
		map[string]any{"imported": got, "want": plainWire(norm)})
	fr, why := c13Frame(before, after, dsegs)
	c.Direct("frame: paths not under the target unchanged", fr, map[string]any{"why": why, "after": after})
}

func c13KnownFormat(f string) bool {
	return f == "yaml" || f == "json" || f == "properties" || f == "text"
}

// c13ExportRule: the documented rule of ExportOp for one execution, evaluated on the implementation's
// outcome alone.  kindOf / target: what the (resolved) path addresses in the data at the time of
// the execution, taken from the wire document; cannotOpen: the (resolved) file cannot be opened;
// exists / opened / content: the state of that file afterwards.
func c13ExportRule(c *Ctx, format, kindOf string, target W, cannotOpen bool, tag, txt string, exists, opened bool, content []byte, det func(any) any) {
	if det == nil {
		det = func(v any) any { return v }
	}
	switch {
	case !c13KnownFormat(format):
		c.Direct("export-unknown-format-is-error-before-any-file-is-opened", tag == "err" && !opened, det(map[string]any{"tag": tag, "file-touched": opened}))
	case cannotOpen:
		c.Direct("export-unopenable-file-is-error", tag == "err", det(map[string]any{"tag": tag, "text": txt}))
	case format == "text":
		switch kindOf {
		case "absent":
			c.Direct("export-text-absent-writes-default(empty)", tag == "ok" && exists && len(content) == 0, det(map[string]any{"tag": tag, "content": string(content)}))
		case "leaf":
			want := target.(map[string]any)["v"].(string) // fmt.Sprint of the value == %v
			c.Direct("export-text-leaf-writes-%v", tag == "ok" && exists && string(content) == want, det(map[string]any{"tag": tag, "content": string(content), "want": want}))
		default:
			c.Direct("export-text-non-leaf-is-error", tag == "err", det(map[string]any{"tag": tag, "text": txt}))
		}
	default:
		if kindOf != "cont" {
			want := map[string]string{"yaml": "{}\n", "json": "{}\n", "properties": ""}[format]
			c.Direct("export-wrong-kind-or-unresolved-writes-documented-default(empty document)", tag == "ok" && exists && string(content) == want,
				det(map[string]any{"tag": tag, "content": string(content), "want": want, "target": kindOf}))
		} else if format != "properties" {
			norm, err := c13Normalise(format, wirePlain(target))
			back, err2 := map[string]any(nil), error(nil)
			if format == "yaml" {
				err2 = yaml.Unmarshal(content, &back)
			} else {
				err2 = json.Unmarshal(content, &back)
			}
			if back == nil {
				back = map[string]any{}
			}
			if err == nil {
				c.Direct("export-container-writes-the-subtree", tag == "ok" && err2 == nil && canon(plainWire(back)) == canon(plainWire(norm)),
					det(map[string]any{"tag": tag, "content": string(content)}))
			}
		} else {
			c.Direct("export-no-error", tag == "ok", det(txt))
		}
	}
}

// c13ExportModel compares one execution of ExportOp with the model's exportOp on the data at that
// time: error flag, whether the file was opened, and the bytes (what the model hands to the
// encoder, encoded by the real encoder).
func c13ExportModel(c *Ctx, data W, format string, pathArg any, canOpen bool, tag string, exists, opened bool, content []byte, det func(any) any) {
	if det == nil {
		det = func(v any) any { return v }
	}
	m, _ := c.Model("export", map[string]any{"data": data, "format": format, "path": pathArg, "canOpen": canOpen}).(map[string]any)
	implObs := map[string]any{"err": tag == "err", "opened": opened}
	modelObs := map[string]any{"err": nil, "opened": nil}
	if m != nil {
		modelObs = map[string]any{"err": m["err"], "opened": m["opened"]}
		if wr, ok := m["written"].(map[string]any); ok && exists {
			var buf bytes.Buffer
			if d, ok := wr["doc"]; ok {
				var enc dom.EncoderFunc
				switch format {
				case "yaml":
					enc = dom.DefaultYamlEncoder
				case "json":
					enc = dom.DefaultJsonEncoder
				case "properties":
					enc = props.EncoderFn
				}
				if enc != nil {
					_ = enc(&buf, wirePlain(d))
				}
			} else if t, ok := wr["text"].(string); ok {
				buf.WriteString(t)
			}
			a, b := string(content), buf.String()
			if format == "properties" { // Go map order: compare the lines as a set
				a, b = c13SortLines(a), c13SortLines(b)
			}
			implObs["content"] = a
			modelObs["content"] = b
		}
	}
	c.Corr("exportOp", det(implObs), det(modelObs))
}

func c13SortLines(s string) string {
	l := strings.Split(s, "\n")
	sort.Strings(l)
	return strings.Join(l, "\n")
}

func c13EvalExport(c *Ctx, raw []byte) {
	var p c13Export
	if err := json.Unmarshal(raw, &p); err != nil {
		panic(err)
	}
	if !c13IsDoc(p.Data) || !c13ViaDomain(p.Via, p.Data) {
		return
	}
	if _, ok := c13ParsePath(p.Path); !ok {
		return
	}
	c.Dist("via:" + p.Via)
	data := p.Data
	if p.ViaRef {
		d := deepCopyW(p.Data)
		dc, _ := wireCont(d)
		dc["pref"] = scalarWire(p.Path)
		data = d
	}
	dir := c13TempDir(c)
	defer os.RemoveAll(dir)
	defer c13MaybeTmpElsewhere(c, p.Tmp, dir)() // a legal environment: temporary files live on another file system (c13_look.go)
	file := filepath.Join(dir, "out.dat")
	if p.BadDir {
		file = filepath.Join(dir, "no-such-dir", "out.dat")
	} else if p.Pre {
		_ = os.WriteFile(file, []byte(c13Stale), 0o644)
		c.Dist("export:file-preexists")
	}
	gd := wireContainer(data)
	before := nodeWire(gd)
	ex := &pipeline.ExportOp{File: &pipeline.ValOrRef{Val: file}, Format: pipeline.OutputFormat(p.Format)}
	var pathArg any
	switch {
	case p.NilPath:
	case p.ViaRef:
		var vr pipeline.ValOrRef
		if err := yaml.Unmarshal([]byte("ref: pref\n"), &vr); err != nil {
			panic(err)
		}
		ex.Path = &vr
		pathArg = map[string]any{"isRef": true, "ref": "pref", "val": ""}
	default:
		ex.Path = &pipeline.ValOrRef{Val: p.Path}
		pathArg = map[string]any{"isRef": false, "ref": "", "val": p.Path}
	}
	tag, txt := c13ExecVia(gd, ex, p.Via)
	after, snapOK, stxt := c13After(gd)
	// from here on: the document as the operation saw it (inside a forEach body it also held the item variable)
	data = c13Seen(data, p.Via)
	// target kind, from the wire document
	var target W
	kindOf := "absent"
	if p.NilPath {
		target, kindOf = data, "cont"
	} else if t, ok := c13WireAt(data, p.Path); ok {
		target = t
		kindOf = wireKind(t)
	}
	c.Dist("export:" + p.Format + "/" + kindOf + ":" + tag)
	if !c.Direct("export-never-panics", tag != "panic" && snapOK, map[string]any{"format": p.Format, "target": kindOf, "panic": txt + stxt}) {
		return
	}
	c.Direct("export-does-not-change-data", canon(after) == canon(before), after)
	content, rerr := os.ReadFile(file)
	exists := rerr == nil
	// opened: the export touched the file (a pre-existing target still holding its old content was not opened)
	opened := exists && !(!p.BadDir && p.Pre && string(content) == c13Stale)
	if c13KnownFormat(p.Format) && !p.BadDir && c13NodeCount(p.Data) >= 2 {
		c.Nontrivial()
	}
	c13ExportRule(c, p.Format, kindOf, target, p.BadDir, tag, txt, exists, opened, content, nil)
	// model: decision and what is handed to the encoder; the encoder itself is the real one
	c13ExportModel(c, data, p.Format, pathArg, !p.BadDir, tag, exists, opened, content, nil)
	md := c.Model("decision", map[string]any{"format": p.Format, "target": kindOf})
	implDec := "?"
	switch {
	case tag == "err" && !opened && !p.BadDir:
		implDec = "errorBeforeOpen"
	case tag == "err" && opened:
		implDec = "errorAfterOpen"
	case tag == "ok" && p.Format == "text" && kindOf == "leaf":
		implDec = "writeLeafText"
	case tag == "ok" && p.Format == "text":
		implDec = "writeEmptyText"
	case tag == "ok" && kindOf == "cont":
		implDec = "writeNode"
	case tag == "ok":
		implDec = "writeEmptyDoc"
	}
	if !p.BadDir {
		c.Corr("exportDecision", implDec, md)
	}
}

func c13EvalEnv(c *Ctx, raw []byte) {
	var p c13Env
	if err := json.Unmarshal(raw, &p); err != nil {
		panic(err)
	}
	if !c13IsDoc(p.Data) || !c13ViaDomain(p.Via, p.Data) {
		return
	}
	segs, ok := c13ParsePath(p.Path)
	if !ok {
		return
	}
	c.Dist("via:" + p.Via)
	nameRe := regexp.MustCompile(`^[A-Za-z0-9_]+$`)
	seen := map[string]bool{}
	for _, e := range p.Env {
		if !nameRe.MatchString(e[0]) || seen[e[0]] || strings.ContainsRune(e[1], 0) {
			return
		}
		seen[e[0]] = true
	}
	op := &pipeline.EnvOp{Path: p.Path}
	var err error
	if p.Include != nil {
		if op.Include, err = regexp.Compile(*p.Include); err != nil {
			return
		}
	}
	if p.Exclude != nil {
		if op.Exclude, err = regexp.Compile(*p.Exclude); err != nil {
			return
		}
	}
	gd := wireContainer(p.Data)
	before := nodeWire(gd)
	// synthetic process environment: exactly the case's variables
	saved := os.Environ()
	os.Clearenv()
	for _, e := range p.Env {
		_ = os.Setenv(e[0], e[1])
	}
	tag, txt := c13ExecVia(gd, op, p.Via)
	os.Clearenv()
	for _, kv := range saved {
		if i := strings.Index(kv, "="); i > 0 {
			_ = os.Setenv(kv[:i], kv[i+1:])
		}
	}
	after, snapOK, stxt := c13After(gd)
	if !c.Direct("no-panic", tag != "panic" && snapOK, txt+stxt) {
		return
	}
	c.Direct("env-no-error", tag == "ok", txt)
	if c13NodeCount(p.Data) >= 2 && len(p.Env) > 0 {
		c.Nontrivial()
	}
	envPath := "Env"
	if p.Path != "" {
		envPath = p.Path + ".Env"
	}
	stored := 0
	entries := []any{}
	for _, e := range p.Env {
		incl := op.Include == nil || op.Include.MatchString(e[0])
		excl := op.Exclude != nil && op.Exclude.MatchString(e[0])
		entries = append(entries, map[string]any{"e": e[0] + "=" + e[1], "n": e[0], "incl": incl, "excl": excl})
		got, gok := c13WireAt(after, envPath+"."+e[0])
		if incl && !excl {
			stored++
			c.Direct("env-stores-matching-variable-under-<path>.Env", gok && canon(got) == canon(scalarWire(e[1])), map[string]any{"name": e[0], "got": got})
		} else {
			old, ook := c13WireAt(before, envPath+"."+e[0])
			c.Direct("env-does-not-store-non-matching-variable", gok == ook && canon(got) == canon(old), map[string]any{"name": e[0], "got": got})
		}
	}
	c.Dist(fmt.Sprintf("env:stored=%d", stored))
	if stored == 0 {
		c.Direct("frame: paths not under the target unchanged", canon(after) == canon(before), after)
	} else {
		es, _ := c13ParsePath(envPath)
		fr, why := c13Frame(before, after, es)
		c.Direct("frame: paths not under the target unchanged", fr, map[string]any{"why": why, "after": after})
		// under <path>.Env only the stored names changed
		bEnv, _ := c13WireAt(before, envPath)
		aEnv, _ := c13WireAt(after, envPath)
		bc, bIsC := wireCont(bEnv)
		ac, _ := wireCont(aEnv)
		okE := true
		for k, av := range ac {
			isStored := false
			for _, en := range entries {
				m := en.(map[string]any)
				if m["n"] == k && m["incl"].(bool) && !m["excl"].(bool) {
					isStored = true
				}
			}
			if isStored {
				continue
			}
			if !bIsC {
				okE = false
			} else if bv, in := bc[k]; !in || canon(bv) != canon(av) {
				okE = false
			}
		}
		c.Direct("env-stores-exactly-the-matching-variables", okE, aEnv)
	}
	_ = segs
	m := c.Model("env", map[string]any{"data": p.Data, "path": p.Path, "entries": entries})
	c.Corr("envOp", map[string]any{"out": tag, "data": after}, m)
}

func c13EvalLenient(c *Ctx, raw []byte) {
	var p c13Lenient
	if err := json.Unmarshal(raw, &p); err != nil {
		panic(err)
	}
	if !c13IsDoc(p.Data) {
		return
	}
	var rendered, lenient string
	var rerr error
	out, txt := guard(func() { rendered, rerr, lenient = c13Render(p.Data, p.S) })
	if !c.Direct("no-panic", out == "ok", txt) {
		return
	}
	hasOpen := strings.Contains(p.S, "{{")
	switch {
	case !hasOpen:
		c.Dist("lenient:no-open-braces")
		c.Direct("RenderLenient(s)==s for s without '{{'", lenient == p.S, lenient)
	case rerr != nil:
		c.Dist("lenient:failing")
		c.Nontrivial()
		c.Direct("RenderLenient(s)==s when rendering fails", lenient == p.S, lenient)
	default:
		c.Dist("lenient:renders")
		c.Nontrivial()
	}
	args := map[string]any{"s": p.S}
	if rerr == nil {
		args["rendered"] = rendered
	} else {
		args["rendered"] = nil
	}
	m, _ := c.Model("lenient", args).(map[string]any)
	if m == nil {
		c.Corr("renderLenient", lenient, nil)
		return
	}
	c.Corr("renderLenient", lenient, m["out"])
}
