package main

import (
	"fmt"
	"math/rand"
	"strings"
)

// C06 — components that LOOK like a list-item reference.
//
// A path component addresses a list item only when it ends in one or more groups "[" ASCII decimal digits "]"
// (name[3], name[0][12]).  Every other component is a member name and is stored, reported and looked up as written —
// also one that merely resembles an item reference: a sign or blank inside the brackets (cpu[+1], delta[-0], a[ 1]),
// no digits or other characters (a[], a[x], a[0x1], a[1e0], a[1_0]), decimal digits outside ASCII (a[١], a[１]), text
// after the group (a[1]x).  Such names are free of '.', the only character that separates components, so a write to
// such a path is a write to that member, and the flattened path of the leaf is the name itself.

var c06LookSuffixes = []string{"[+1]", "[+0]", "[-0]", "[-1]", "[+007]", "[ 1]", "[1 ]", "[]", "[x]", "[0x1]", "[1e0]", "[1_0]",
	"[١]", "[１]", "[1]x", "[1", "1]", "[[1]]"}

// c06Look: the history being generated uses look-alike components (set by c06GenHist; the generator is sequential).
var c06Look bool

// c06LookAlike decorates a component: the look-alike group goes at the end (the whole component is then a member
// name, whatever precedes it) or between the name and its genuine index groups (name[+1][2]: item 2 of the list
// stored under the member "name[+1]").
func c06LookAlike(r *rand.Rand, comp string) string {
	s := pick(r, c06LookSuffixes)
	if i := strings.Index(comp, "["); i > 0 && r.Intn(2) == 0 {
		return comp[:i] + s + comp[i:]
	}
	return comp + s
}

// c06LookRead turns one genuine index group of a known path into a look-alike of the same number (l[1] -> l[+1]):
// a read there finds nothing unless a member of that very name was written.
func c06LookRead(r *rand.Rand, p string) string {
	var at []int
	for i := 0; i < len(p); i++ {
		if p[i] == '[' && i+2 < len(p) && p[i+1] >= '0' && p[i+1] <= '9' {
			at = append(at, i)
		}
	}
	if len(at) == 0 {
		return c06LookAlike(r, p)
	}
	i := pick(r, at)
	return p[:i+1] + pick(r, []string{"+", "-", " ", "+0"}) + p[i+1:]
}

// c06Comp is one component of a path, split by the harness's own reading of the addressing scheme.
type c06Comp struct {
	Key string
	Idx []int
}

func c06Comps(path string) []c06Comp {
	var out []c06Comp
	for _, comp := range strings.Split(path, ".") {
		st := c06ParsePath(comp)
		if len(st) == 0 {
			out = append(out, c06Comp{})
			continue
		}
		cc := c06Comp{Key: st[0].Key}
		for _, s := range st[1:] {
			cc.Idx = append(cc.Idx, s.Idx)
		}
		out = append(out, cc)
	}
	return out
}

// c06RefAt resolves a path on the wire form of a layer (as handed out by Layers(), walked through Children / Items
// only): per component the member of that name, then the items its index groups name; every component but the last
// must lead to a container.  nil: nothing there.
func c06RefAt(layer W, path string) W {
	if path == "" {
		return nil
	}
	cur := layer
	comps := c06Comps(path)
	for i, cc := range comps {
		m, ok := wireCont(cur)
		if !ok {
			return nil
		}
		if cur, ok = m[cc.Key]; !ok {
			return nil
		}
		for _, ix := range cc.Idx {
			l, isList := cur.([]any)
			if !isList || ix >= len(l) {
				return nil
			}
			cur = l[ix]
		}
		if i < len(comps)-1 {
			if _, ok := wireCont(cur); !ok {
				return nil
			}
		}
	}
	return cur
}

// c06CheckWrite: a write lands at the positions its path names and creates no member of the layer's root other than
// the one its first component names.  before / after: the layer's content (Layers()) around the write.
func c06CheckWrite(c *Ctx, op c06Op, before, after W) bool {
	ok := true
	type exp struct {
		path string
		v    W
	}
	var exps []exp
	roots := map[string]bool{}
	switch {
	case op.Op == "put" && wireKind(op.V) != "cont":
		exps = append(exps, exp{op.Path, op.V})
	default:
		var leaves []string
		c06LeafPaths(op.V, "", &leaves)
		for _, k := range leaves {
			exps = append(exps, exp{c06ToPath(op.Path, k), c06RefAt(op.V, k)})
		}
		if op.Path == "" {
			vc, _ := wireCont(op.V)
			for k := range vc {
				roots[c06Comps(k)[0].Key] = true
			}
		}
	}
	if op.Path != "" {
		roots[c06Comps(op.Path)[0].Key] = true
	}
	for _, e := range exps {
		got := c06RefAt(after, e.path)
		if canon(got) != canon(e.v) {
			ok = c.Direct("write-lands-at-the-position-its-path-names", false,
				map[string]any{"op": op, "position": e.path, "components": fmt.Sprintf("%+v", c06Comps(e.path)), "written": e.v, "layer holds there": got, "layer": after}) && ok
			break
		}
	}
	bc, _ := wireCont(before)
	ac, _ := wireCont(after)
	for _, k := range sortedKeys(ac) {
		if _, had := bc[k]; !had && !roots[k] {
			ok = c.Direct("write-creates-only-the-member-its-first-component-names", false,
				map[string]any{"op": op, "new member": k, "allowed": sortedKeys(roots), "layer before": before, "layer after": after}) && ok
			break
		}
	}
	return ok
}

// c06HasLook: some component of the write's path, or some member name of its value, holds a bracket that is not part
// of a genuine index group.
func c06HasLook(op c06Op) bool {
	odd := func(path string) bool {
		if path == "" {
			return false
		}
		for _, cc := range c06Comps(path) {
			if strings.ContainsAny(cc.Key, "[]") {
				return true
			}
		}
		return false
	}
	if odd(op.Path) {
		return true
	}
	var leaves []string
	c06LeafPaths(op.V, "", &leaves)
	for _, k := range leaves {
		if odd(k) {
			return true
		}
	}
	return false
}
