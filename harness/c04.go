package main

import (
	"bytes"
	"encoding/json"
	"fmt"
	"math/rand"
	"os"
	"path/filepath"
	"strings"
	"sync/atomic"
	"time"

	"github.com/rkosegi/yaml-toolkit/dom"
	"github.com/rkosegi/yaml-toolkit/fluent"
	"gopkg.in/yaml.v3"
)

// C04 — merge: union of keys, the other side wins (unless null), inputs untouched.

type c04Pair struct {
	A    W      `json:"a"`
	B    W      `json:"b"`
	Opt  string `json:"opt"`            // meld | append
	Seal bool   `json:"seal,omitempty"` // pass B as a sealed (read-only) Container
}

type c04Layer struct {
	Name string `json:"name"`
	Doc  W      `json:"doc"`
}

type c04Overlay struct {
	Layers []c04Layer `json:"layers"`
	Opt    string     `json:"opt"`
	Dag    bool       `json:"dag,omitempty"` // structurally equal subtrees are ONE node object, inside and between the layers
}

type c04Source struct {
	Via string `json:"via"` // yaml | json (override file, Load) | map | dom (Add)
	Doc W      `json:"doc"`
}

// c04Vias: how an override reaches the helper; one in eight is a file that breaks off in the middle (Load must fail
// and leave the helper as it was: the sources after it merge over what was accumulated before it).
var c04Vias = []string{"yaml", "yaml", "yaml", "json", "json", "map", "dom", "broken-yaml", "broken-json", "yaml", "json", "map", "dom", "yaml", "json", "dom"}

type c04Config struct {
	Defaults W                 `json:"defaults,omitempty"`
	Typed    *c04TypedDefaults `json:"typed,omitempty"` // c04_typed.go: the defaults as a typed Go value (Defaults is then the document it stands for)
	Sources  []c04Source       `json:"sources"`
}

func init() {
	register(&Prop{ID: "C04", Run: c04Run,
		Rule: "pairs of root containers A, B over a shared 6-key pool (B independent, or A after 1-4 local edits: key added/removed, leaf changed, kind swapped, list grown/shrunk/permuted), nulls with probability 0.2, lists of containers and lists of lists, both list strategies, B optionally sealed; every pair is merged again with the documents built so that structurally equal subtrees are ONE node object (inside A, inside B and between them; three times, once with a tree-shaped A, when B holds a composite subtree at several positions) — what b.AddValue(k1, n); b.AddValue(k2, n) produces — and a shared stream copies one or two composite subtrees of B to a second position and gives A members of its own at both places, so that the right-hand side references a non-empty container from two places that exist on the left; the result must be the reference merge of the two contents, whichever objects hold them; overlay cases add 2-4 such documents as layers and read Merged(opts); 300 overlay-hist cases (c04_ovhist.go) add 2-3 layers and then run 2-6 steps — a write through a live node (the builder Lookup(layer, path) hands out, or the caller's own handle on the document given to Add: AddValue / Remove on a nested container, Append on a list), Put, Add (also of a new layer), Populate, Serialize — reading Merged() and Merged(ListsMergeAppend()) after the layers are added and after EVERY step, each time against the reference fold over Layers() in LayerNames() order at that moment; heap-merge cases build A and B (or 1-3 overlay layers) in one of seven ways (FromMap, AddValue/ListNode with own or shared nil leaves, AddContainer/AddList/Set/Append, subtrees shared inside and between the documents, containers with an add-and-remove history), encode the real object graph as an explicit heap by pointer identity, Merge / Merged, and compare the result's sharing map (which result node is which input object / a new object) with the heap model, snapshot the inputs pointer for pointer, then write in place to the merged containers of the result; config cases send defaults plus 1-3 override sources (YAML file, JSON file, map, dom container) through fluent.ConfigHelper (six of them with an override file just over 512 B / 4 KiB / 64 KiB); 240 further config cases (c04_typed.go) hand the defaults to Add as a typed Go value — map of structs, named map type, map of struct pointers, a settings struct or a pointer to it, a named map[string]any, a map of maps, a map of struct slices, typed scalar maps/slices inside a map[string]any — and merge 1-2 SPARSE overrides (a subset of the entries, a subset of the fields of each, shorter/longer lists, kind conflicts, nulls) over it: expected is the reference fold over the document the value stands for (its YAML encoding decoded), and the result must equal that of Add(that document); four wide cases per quick run (c04_wide.go, direct predicates only) merge documents of 1100 / 4200 / 12000 / 33000 entries (members of the root, or, below 5000, items of one list) whose entries follow 1-3 small templates per side, the right side's being the left side's after the edits of an override (containers emptied out, members dropped, leaves changed), optionally only every 2nd/3rd entry: no panic, == reference merge, inputs unchanged, identity with {} on both sides, self-merge; 540 index-named cases (c04_keys.go; pairs incl. FromMap-built ones, overlays, config sources) put a list of 1-4 (now and then 10-12) items on one side and, at the same position 1-3 levels down, a container on the other whose 1..len+1 member names are decimal list positions (mostly in range, sometimes all of them, one past the end, a non-canonical spelling such as 01 / +1 / -1 / 1.0, or a non-number) with the items after an edit or fresh nodes as values, in either direction — the kind conflict in which the two sides look like two spellings of one list; seq cases merge the SAME A with 2-3 documents one after the other (half of them sparse documents that extend one of A's lists by 1-3 items; lists of up to 7 items, so that item slices have spare capacity), with itself under both strategies, and each B with A, re-observe every earlier result after all later merges, then edit A in place (domhist.go: AddValue / Remove / Set / MustSet / Append / Clear through nested builders, Lookup, the root's path API) and merge again; one in five builds all documents of the case so that structurally equal subtrees are one node object. A case is non-trivial when the two sides (some two layers / sources) share at least one key; distinct = distinct canonical case JSON (hash).",
		Assumptions: []string{
			"scalars are NaN-free and -0-free; a leaf is null iff its Go value is nil (wire scalar {nil,<nil>})",
			"keys are arbitrary strings (a path-safe pool, and a second pool with dots, slashes, spaces, '~', brackets, non-ASCII text and the empty key); no key ends in an index group `[digits]`: the API invariant discussed under D26",
			"ConfigHelper.Result() passes through a yaml.v3 encode/decode round trip; expected values are normalised through the same round trip (external library, contract validated by correspondence only)",
			"Merge / Merged calls on documents with shared node objects run under a 20 s watchdog (c04Bounded): an implementation that edits such inputs in place can make them cyclic or exponentially large and never return; a call that does not come back is a falsified clause (Merged-returns / Merge-returns), after which such calls are not made any more in that run",
			"heap tie: a node object is identified by the address its pointer holds (a sealed view and its builder are one object), a children map by the address of its header (Children() returns the map itself); item slices are not observable by identity and are covered by the in-place write probes; the overlay's internal layer roots are not reachable through the API, the given layer documents stand for them (same members)",
		}})
	evals["C04"] = c04Eval
	shrinkers["C04"] = shrinkJSON
}

func c04Gen() *DocGen {
	g := stdGen()
	g.PNull = 0.2
	g.MaxDepth = 4
	g.PLeaf = 0.45
	return g
}

func c04Run(c *Ctx) {
	g := c04Gen()
	r := c.Rng
	switch os.Getenv("VERIF_C04_ONLY") { // detection / timing experiments: one of the later streams alone
	case "typed":
		c04RunTyped(c, g)
		return
	case "ovhist":
		c04RunOvHist(c, g, func(a W) W { return g.Mutate(r, a) })
		return
	case "wide":
		c04RunWide(c, g, func() string { return "meld" })
		return
	}
	second := func(a W) W {
		switch r.Intn(3) {
		case 0:
			return g.Doc(r)
		default:
			b := a
			for i, n := 0, 1+r.Intn(4); i < n; i++ {
				b = g.Mutate(r, b)
			}
			return b
		}
	}
	opt := func() string {
		if r.Intn(2) == 0 {
			return "append"
		}
		return "meld"
	}
	for i := 0; i < c.N(4000); i++ {
		c.Tick()
		a := g.Doc(r)
		c.Do("pair", c04Pair{A: a, B: second(a), Opt: opt(), Seal: r.Intn(4) == 0})
	}
	// the right-hand document references ONE node from two or three places that also exist on the left
	for i := 0; i < c.N(700); i++ {
		c.Tick()
		a, b := c04SharedPair(r, g)
		c.Dist("pair:right side holds a subtree at several positions")
		c.Do("pair", c04Pair{A: a, B: b, Opt: opt(), Seal: r.Intn(4) == 0})
	}
	for i := 0; i < c.N(800); i++ {
		c.Tick()
		n := 2 + r.Intn(3)
		ls := make([]c04Layer, n)
		prev := g.Doc(r)
		for j := range ls {
			ls[j] = c04Layer{Name: fmt.Sprintf("L%d", j), Doc: prev}
			prev = second(prev)
		}
		c.Do("overlay", c04Overlay{Layers: ls, Opt: opt(), Dag: r.Intn(4) == 0})
	}
	for i := 0; i < c.N(500); i++ {
		c.Tick()
		def := g.Doc(r)
		n := 1 + r.Intn(3)
		srcs := make([]c04Source, n)
		prev := def
		for j := range srcs {
			prev = second(prev)
			srcs[j] = c04Source{Via: pick(r, c04Vias), Doc: prev}
		}
		c.Do("config", c04Config{Defaults: def, Sources: srcs})
	}
	// size thresholds of the file entry point: an override file just over 512 B / 4 KiB / 64 KiB (one long value, or
	// many list items), a multi-byte character next to the threshold
	if !c.searchMode || c.Thorough() {
		for i, size := range []int{512, 4096, 65536, 512, 4096, 65536} {
			c.Tick()
			def := g.Doc(r)
			src := second(def)
			if m, ok := wireCont(src); ok {
				if i < 3 {
					m["pad"] = scalarWire(strings.Repeat("a", size-8) + "é€𝄞" + strings.Repeat("b", 40))
				} else {
					l := []any{}
					for j := 0; j*80 < size; j++ {
						l = append(l, scalarWire(fmt.Sprintf("%s%d", strings.Repeat("x", 60), j)), scalarWire(nil))
					}
					m["pad"] = l
				}
			}
			c.Dist("config:big-override-file")
			c.Do("config", c04Config{Defaults: def, Sources: []c04Source{{Via: pick(r, []string{"yaml", "json"}), Doc: src}, {Via: "map", Doc: second(def)}}})
		}
	}
	c04RunSeq(c, opt) // c04_seq.go: the same receiver merged several times, read and edited in between, merged with itself
	// pointer level: the real object graph against the heap model's sharing map (heap_share.go)
	heapMergeGen(c, g, second, opt, c.N(900))
	c04RunKeys(c, opt) // c04_keys.go: the same three routes over keys that are arbitrary strings
	c04flRun(c)        // c04_fluent.go: fluent.ConfigHelper histories (Add / Load / Mutate / Result / Save)
	c04RunKeys(c, opt)         // c04_keys.go: the same three routes over keys that are arbitrary strings
	c04RunTyped(c, g)          // c04_typed.go: ConfigHelper with the defaults as typed Go values, sparse overrides
	c04RunOvHist(c, g, second) // c04_ovhist.go: an overlay document read, changed (API and live nodes), read again
	if !c.searchMode {
		c04RunWide(c, g, opt) // c04_wide.go: a few documents with thousands of entries
	}
	// last of the random streams (the streams above draw what they drew before it existed)
	c04RunIndexNamed(c, opt) // c04_keys.go: a list on one side, a container whose member names are list positions on the other
	if c.Thorough() && !c.searchMode {
		all := c04EnumDocs()
		c.Note("exhaustive scope: %d root containers of size <= 4 over keys {a,b}; all ordered pairs x both strategies", len(all))
		for _, x := range all {
			for _, y := range all {
				c.Do("pair", c04Pair{A: x, B: y, Opt: "meld"})
				c.Do("pair", c04Pair{A: x, B: y, Opt: "append"})
			}
		}
		// every ordered pair at pointer level; strategy and build modes rotate over the pairs
		for i, x := range all {
			for j, y := range all {
				o := "meld"
				if (i+j)%2 == 1 {
					o = "append"
				}
				c.Do("heap-merge", heapMergeCase{A: x, B: y, Opt: o, Build: (i + j) % heapBuildModes, BuildB: (i + 2*j) % heapBuildModes, Salt: i + j})
			}
		}
	}
}

// c04EnumDocs: all root containers with at most 4 nodes (enumNodes of c05.go, containers only).
func c04EnumDocs() []W {
	var out []W
	for _, n := range enumNodes(4) {
		if wireKind(n) == "cont" {
			out = append(out, n)
		}
	}
	return out
}

// ---------------------------------------------------------------- reference merge (from the property statement)

func c04IsNull(w W) bool {
	m, ok := w.(map[string]any)
	if !ok {
		return false
	}
	if _, isCont := m["m"]; isCont {
		return false
	}
	return m["t"] == "nil"
}

// c04RefValue: what a key (or list position) present on both sides holds after the merge.
func c04RefValue(x, y W, app bool) W {
	cx, okx := wireCont(x)
	cy, oky := wireCont(y)
	if okx && oky {
		return map[string]any{"m": c04RefMerge(cx, cy, app)}
	}
	lx, okx := x.([]any)
	ly, oky := y.([]any)
	if okx && oky {
		if app {
			return append(append([]any{}, lx...), ly...)
		}
		n := len(lx)
		if len(ly) > n {
			n = len(ly)
		}
		out := make([]any, n)
		for i := range out {
			switch {
			case i < len(lx) && i < len(ly):
				out[i] = c04RefValue(lx[i], ly[i], app)
			case i < len(lx):
				out[i] = lx[i]
			default:
				out[i] = ly[i]
			}
		}
		return out
	}
	if !c04IsNull(y) {
		return y
	}
	return x
}

// c04RefMerge: every key of either; common keys by c04RefValue.
func c04RefMerge(a, b map[string]any, app bool) map[string]any {
	out := map[string]any{}
	for k, v := range a {
		out[k] = v
	}
	for k, v := range b {
		if x, ok := a[k]; ok {
			out[k] = c04RefValue(x, v, app)
		} else {
			out[k] = v
		}
	}
	return out
}

func c04RefDoc(a, b W, app bool) W {
	ca, _ := wireCont(a)
	cb, _ := wireCont(b)
	return map[string]any{"m": c04RefMerge(ca, cb, app)}
}

// c04KeyUnion checks "contains every key of either" at the root and below every key that
// is a container on both sides.
func c04KeyUnion(r, a, b W) bool {
	cr, okr := wireCont(r)
	ca, oka := wireCont(a)
	cb, okb := wireCont(b)
	if !okr || !oka || !okb {
		return false
	}
	for k := range cr {
		_, ina := ca[k]
		_, inb := cb[k]
		if !ina && !inb {
			return false
		}
	}
	for k := range ca {
		if _, ok := cr[k]; !ok {
			return false
		}
	}
	for k := range cb {
		if _, ok := cr[k]; !ok {
			return false
		}
		if x, ok := ca[k]; ok && wireKind(x) == "cont" && wireKind(cb[k]) == "cont" {
			if !c04KeyUnion(cr[k], x, cb[k]) {
				return false
			}
		}
	}
	return true
}

// c04Stats records which interesting situations a pair contains.
func c04Stats(c *Ctx, a, b W, top bool) (shared bool) {
	ca, oka := wireCont(a)
	cb, okb := wireCont(b)
	if !oka || !okb {
		return false
	}
	for _, k := range sortedKeys(cb) {
		x, ok := ca[k]
		if !ok {
			continue
		}
		shared = true
		c04StatsValue(c, x, cb[k])
	}
	return shared
}

func c04StatsValue(c *Ctx, x, y W) {
	kx, ky := wireKind(x), wireKind(y)
	switch {
	case kx == "cont" && ky == "cont":
		c.Dist("common:cont/cont")
		c04Stats(c, x, y, false)
	case kx == "list" && ky == "list":
		lx, ly := x.([]any), y.([]any)
		if len(lx) != len(ly) {
			c.Dist("common:list/list-unequal")
		} else {
			c.Dist("common:list/list-equal-length")
		}
		for i := 0; i < len(lx) && i < len(ly); i++ {
			c04StatsValue(c, lx[i], ly[i])
		}
	case kx != ky:
		if c04IsNull(y) {
			c.Dist("common:null-over-composite")
		} else if c04IsNull(x) {
			c.Dist("common:composite-over-null")
		} else {
			c.Dist("common:kind-conflict")
		}
	default:
		if c04IsNull(y) {
			c.Dist("common:null-override")
		} else {
			c.Dist("common:leaf/leaf")
		}
	}
}

func c04Opts(opt string) []dom.MergeOption {
	if opt == "append" {
		return []dom.MergeOption{dom.ListsMergeAppend()}
	}
	return nil
}

func c04YamlRT(v any) (any, error) {
	var buf bytes.Buffer
	if err := yaml.NewEncoder(&buf).Encode(v); err != nil {
		return nil, err
	}
	var m map[string]any
	if err := yaml.NewDecoder(&buf).Decode(&m); err != nil {
		return nil, err
	}
	return m, nil
}

func c04Eval(c *Ctx, kind string, raw []byte) {
	if kind == "fluent" {
		c04flEval(c, raw) // c04_fluent.go: ConfigHelper as a state machine
		return
	}
	switch kind {
	case "heap-merge":
		heapMergeEval(c, raw)
	case "pair":
		var p c04Pair
		if err := json.Unmarshal(raw, &p); err != nil {
			panic(err)
		}
		if wireKind(p.A) != "cont" || wireKind(p.B) != "cont" {
			return // shrinking may propose non-documents: outside the domain
		}
		app := p.Opt == "append"
		c.Dist("opt:" + p.Opt)
		if c04Stats(c, p.A, p.B, true) {
			c.Nontrivial()
		}
		var rw, rmap, a0, a1, b0, b1, am0, am1, bm0, bm1 W
		var idR, idL, self W
		var eqR, eqL, eqSelf bool
		out, txt := guard(func() {
			a := wireContainer(p.A)
			b := wireContainer(p.B)
			var other dom.Container = b
			if p.Seal {
				other = b.Seal()
			}
			a0, b0 = nodeWire(a), nodeWire(b)
			am0, bm0 = plainWire(a.AsMap()), plainWire(b.AsMap())
			res := a.Merge(other, c04Opts(p.Opt)...)
			rw = nodeWire(res)
			rmap = plainWire(res.AsMap())
			// identity and self-merge laws, on the same A
			e := dom.Builder().Container()
			r1 := a.Merge(e, c04Opts(p.Opt)...)
			r2 := e.Merge(a, c04Opts(p.Opt)...)
			idR, idL = nodeWire(r1), nodeWire(r2)
			eqR = r1.Equals(a) && a.Equals(r1)
			eqL = r2.Equals(a) && a.Equals(r2)
			r3 := a.Merge(a)
			self = nodeWire(r3)
			eqSelf = r3.Equals(a) && a.Equals(r3)
			c.Direct("empty-unchanged", len(e.Children()) == 0, nodeWire(e))
			a1, b1 = nodeWire(a), nodeWire(b)
			am1, bm1 = plainWire(a.AsMap()), plainWire(b.AsMap())
		})
		if !c.Direct("no-panic", out == "ok", txt) {
			return
		}
		ref := c04RefDoc(p.A, p.B, app)
		c.Direct("merge-eq-reference(AsMap)", canon(rmap) == canon(ref), map[string]any{"impl": rmap, "expected": ref})
		c.Direct("merge-eq-reference(nodes)", canon(rw) == canon(ref), map[string]any{"impl": rw, "expected": ref})
		c.Direct("key-union", c04KeyUnion(rw, p.A, p.B), rw)
		c.Direct("A-unchanged", canon(a0) == canon(p.A) && canon(a1) == canon(p.A) && canon(am0) == canon(am1) && canon(am1) == canon(p.A),
			map[string]any{"before": a0, "after": a1})
		c.Direct("B-unchanged", canon(b0) == canon(p.B) && canon(b1) == canon(p.B) && canon(bm0) == canon(bm1) && canon(bm1) == canon(p.B),
			map[string]any{"before": b0, "after": b1})
		c.Direct("merge-empty-right-identity", canon(idR) == canon(p.A) && eqR, idR)
		c.Direct("merge-empty-left-identity", canon(idL) == canon(p.A) && eqL, idL)
		c.Direct("self-merge-meld-identity", canon(self) == canon(p.A) && eqSelf, self)
		c.Corr("merge", rw, c.Model("merge", map[string]any{"a": p.A, "b": p.B, "opt": p.Opt}))
		c.Corr("merge(AsMap)", rmap, c.Model("merge", map[string]any{"a": am0, "b": bm0, "opt": p.Opt}))
		// identity: the same contents held by shared node objects (a merge is a function of the two contents): A and B built
		// with shared objects; when B holds a composite at several places two more rounds (which of two places is visited first
		// follows Go's map iteration order): the same again, then a tree-shaped A against a B with shared objects.
		var dagRes, dagIn []W
		if c04Runaway.Load() {
			c.Dist("pair:shared-node rounds not evaluated after a call that did not return")
			return
		}
		rounds := 1
		if c04RepeatedComposite(p.B) {
			rounds = 3 // one object at two places of B: which place is visited first follows the map order
			c.Dist("pair:B holds one composite at several positions")
		}
		out, txt = guard(func() {
			for round := 0; round < rounds; round++ {
				memo := map[string]dom.Node{}
				var a dom.ContainerBuilder
				if round == 2 {
					a = wireContainer(p.A)
				} else {
					a = heapBuildDag(p.A, memo).(dom.ContainerBuilder)
				}
				b := heapBuildDag(p.B, memo).(dom.ContainerBuilder)
				var other dom.Container = b
				if p.Seal {
					other = b.Seal()
				}
				var res dom.ContainerBuilder
				if o, t := c04Bounded(func() { res = a.Merge(other, c04Opts(p.Opt)...) }); o != "ok" {
					c.Direct("Merge-returns(shared node objects)", o != "timeout", t)
					panic("Merge: " + o + ": " + t)
				}
				if !dhAcyclic(res) || !dhAcyclic(a) || !dhAcyclic(b) {
					panic("after Merge a container or list contains itself")
				}
				dagRes = append(dagRes, nodeWire(res))
				dagIn = append(dagIn, nodeWire(a), nodeWire(b))
			}
		})
		if c.Direct("no-panic(shared node objects)", out == "ok", txt) {
			for i, rw := range dagRes {
				c.Direct("merge-eq-reference(shared node objects)", canon(rw) == canon(ref), map[string]any{"round": i, "impl": rw, "expected": ref})
				c.Direct("A-unchanged(shared node objects)", canon(dagIn[2*i]) == canon(p.A), map[string]any{"round": i, "after": dagIn[2*i]})
				c.Direct("B-unchanged(shared node objects)", canon(dagIn[2*i+1]) == canon(p.B), map[string]any{"round": i, "after": dagIn[2*i+1]})
			}
		}
	case "seq":
		c04EvalSeq(c, raw) // c04_seq.go
	case "pair-frommap":
		c04EvalFromMap(c, raw) // c04_keys.go
	case "wide":
		c04EvalWide(c, raw) // c04_wide.go
	case "overlay-hist":
		c04EvalOvHist(c, raw) // c04_ovhist.go
	case "overlay":
		var p c04Overlay
		if err := json.Unmarshal(raw, &p); err != nil {
			panic(err)
		}
		seen := map[string]bool{}
		for _, l := range p.Layers {
			if wireKind(l.Doc) != "cont" || seen[l.Name] {
				return
			}
			seen[l.Name] = true
		}
		app := p.Opt == "append"
		c.Dist("opt:" + p.Opt)
		c.Dist(fmt.Sprintf("overlay:layers=%d", len(p.Layers)))
		if p.Dag {
			c.Dist("overlay:shared-node-objects")
		}
		for i := 1; i < len(p.Layers); i++ {
			if c04Stats(c, p.Layers[i-1].Doc, p.Layers[i].Doc, true) {
				c.Nontrivial()
			}
		}
		if c04Runaway.Load() {
			c.Dist("overlay:not-evaluated-after-a-call-that-did-not-return")
			return
		}
		var mw, mmap, fold W
		var before, after []W
		out, txt := guard(func() {
			ov := dom.NewOverlayDocument()
			memo := map[string]dom.Node{}
			var given []dom.Node
			for _, l := range p.Layers {
				if p.Dag {
					given = append(given, heapBuildDag(l.Doc, memo))
				} else {
					given = append(given, wireContainer(l.Doc))
				}
				ov.Add(l.Name, given[len(given)-1].(dom.Container))
			}
			snap := func() []W {
				var s []W
				ls := ov.Layers()
				for _, n := range ov.LayerNames() {
					s = append(s, nodeWire(ls[n]))
				}
				return s
			}
			before = snap()
			var m dom.Container
			if o, t := c04Bounded(func() { m = ov.Merged(c04Opts(p.Opt)...) }); o != "ok" {
				c.Direct("Merged-returns", o != "timeout", t)
				panic("Merged: " + o + ": " + t)
			}
			finite := dhAcyclic(m)
			for _, d := range given {
				finite = finite && dhAcyclic(d)
			}
			if !c.Direct("merged-view-and-layers-are-finite-trees", finite, "after Merged a container or list contains itself") {
				panic("harness: cyclic document, not observed any further")
			}
			mw, mmap = nodeWire(m), plainWire(m.AsMap())
			after = snap()
			// the same fold computed with ContainerBuilder.Merge itself
			acc := dom.Builder().Container()
			ls := ov.Layers()
			for _, n := range ov.LayerNames() {
				acc = acc.Merge(ls[n], c04Opts(p.Opt)...)
			}
			fold = nodeWire(acc)
		})
		if !c.Direct("no-panic", out == "ok", txt) {
			return
		}
		var ref W = map[string]any{"m": map[string]any{}}
		docs := []any{}
		for _, l := range p.Layers {
			ref = c04RefDoc(ref, l.Doc, app)
			docs = append(docs, l.Doc)
		}
		c.Direct("merged-eq-reference-fold", canon(mw) == canon(ref) && canon(mmap) == canon(ref), map[string]any{"impl": mw, "expected": ref})
		c.Direct("merged-eq-fold-of-Merge", canon(mw) == canon(fold), map[string]any{"merged": mw, "fold": fold})
		c.Direct("layers-unchanged", canon(before) == canon(after) && canon(before) == canon(docs), map[string]any{"before": before, "after": after})
		c.Corr("mergeAll", mw, c.Model("mergeAll", map[string]any{"layers": docs, "opt": p.Opt}))
	case "config":
		var p c04Config
		if err := json.Unmarshal(raw, &p); err != nil {
			panic(err)
		}
		var defArg any
		if p.Typed != nil {
			v, doc, ok := p.Typed.value()
			if !ok {
				return // a shrink candidate that is no typed value
			}
			defArg, p.Defaults = v, plainWire(doc)
			c.Dist("config:defaults-as=" + p.Typed.Shape)
		}
		if wireKind(p.Defaults) != "cont" {
			return
		}
		if defArg == nil {
			defArg = wirePlain(p.Defaults).(map[string]any)
		}
		for _, s := range p.Sources {
			if wireKind(s.Doc) != "cont" {
				return
			}
		}
		dir := filepath.Join(c.VerifDir, ".work", fmt.Sprintf("c04-%d", os.Getpid()))
		if err := os.MkdirAll(dir, 0o755); err != nil {
			panic(err)
		}
		defer os.RemoveAll(dir)
		// write the override files and decode them with the control decoders
		docs := []W{p.Defaults}
		files := make([]string, len(p.Sources))
		mustFail := make([]bool, len(p.Sources))
		for i, s := range p.Sources {
			c.Dist("config:via=" + s.Via)
			plain := wirePlain(s.Doc)
			switch s.Via {
			case "broken-yaml", "broken-json":
				// the rendering of the document, cut in the middle, then junk; what the control decoder makes of it decides
				// what is expected (an error: Load fails; a document after all: it is merged)
				var data []byte
				var err error
				ctl := map[string]any{}
				ext := "yaml"
				if s.Via == "broken-yaml" {
					data, _ = yaml.Marshal(plain)
					data = append(append([]byte{}, data[:len(data)/2]...), "\n\t- [: }\n"...)
					err = yaml.NewDecoder(bytes.NewReader(data)).Decode(&ctl)
				} else {
					ext = "json"
					data, _ = json.Marshal(plain)
					data = append(append([]byte{}, data[:len(data)/2]...), "]}{"...)
					err = json.NewDecoder(bytes.NewReader(data)).Decode(&ctl)
				}
				files[i] = filepath.Join(dir, fmt.Sprintf("broken%d.%s", i, ext))
				if werr := os.WriteFile(files[i], data, 0o644); werr != nil {
					panic(werr)
				}
				if err != nil {
					mustFail[i] = true
					c.Dist("config:broken-file-fails")
				} else {
					docs = append(docs, plainWire(ctl))
				}
				continue
			}
			switch s.Via {
			case "yaml", "json":
				var data []byte
				var err error
				var ctl map[string]any
				if s.Via == "yaml" {
					data, err = yaml.Marshal(plain)
					if err == nil {
						err = yaml.Unmarshal(data, &ctl)
					}
				} else {
					data, err = json.Marshal(plain)
					if err == nil {
						err = json.Unmarshal(data, &ctl)
					}
				}
				if err != nil {
					c.Dist("config:unencodable")
					return
				}
				files[i] = filepath.Join(dir, fmt.Sprintf("override%d.%s", i, s.Via))
				if err := os.WriteFile(files[i], data, 0o644); err != nil {
					panic(err)
				}
				docs = append(docs, plainWire(ctl))
			default:
				docs = append(docs, s.Doc)
			}
		}
		for i := 1; i < len(docs); i++ {
			if c04Stats(c, docs[i-1], docs[i], true) {
				c.Nontrivial()
			}
		}
		var got W
		var foldImpl W
		out, txt := guard(func() {
			h := fluent.NewConfigHelper[map[string]any]().Add(defArg)
			for i, s := range p.Sources {
				switch s.Via {
				case "broken-yaml", "broken-json":
					o, t := guard(func() { h = h.Load(files[i]) })
					c.Direct("config-load-fails-iff-control-decoder-fails", (o != "ok") == mustFail[i], map[string]any{"source": i, "outcome": o, "text": t})
				case "yaml", "json":
					h = h.Load(files[i])
				case "map":
					h = h.Add(wirePlain(s.Doc).(map[string]any))
				default:
					h = h.Add(wireContainer(s.Doc))
				}
			}
			got = plainWire(*h.Result())
			if p.Typed != nil {
				// the shape of the Go value does not matter: the same sources over the document it stands for
				h2 := fluent.NewConfigHelper[map[string]any]().Add(wirePlain(p.Defaults).(map[string]any))
				for i, s := range p.Sources {
					switch s.Via {
					case "broken-yaml", "broken-json":
						guard(func() { h2 = h2.Load(files[i]) })
					case "yaml", "json":
						h2 = h2.Load(files[i])
					case "map":
						h2 = h2.Add(wirePlain(s.Doc).(map[string]any))
					default:
						h2 = h2.Add(wireContainer(s.Doc))
					}
				}
				got2 := plainWire(*h2.Result())
				c.Direct("config: Add(typed value) then overrides == Add(the document the value stands for) then the same overrides", canon(got) == canon(got2),
					map[string]any{"shape": p.Typed.Shape, "document": p.Defaults, "with typed value": got, "with its document": got2})
			}
			// repeated use: a second Result is what the first was, whatever was done with the first
			first := h.Result()
			c01Scribble(*first)
			c.Direct("config-result-twice-equal", canon(plainWire(*h.Result())) == canon(got), map[string]any{"first": got, "second": plainWire(*h.Result())})
			// the same law with Merge itself: defaults, then each source merged over the accumulated document
			acc := dom.Builder().Container()
			for _, d := range docs {
				acc = acc.Merge(dom.Builder().FromMap(wirePlain(d).(map[string]any)))
			}
			rt, err := c04YamlRT(acc.AsMap())
			if err != nil {
				panic(err)
			}
			foldImpl = plainWire(rt)
		})
		if !c.Direct("no-panic", out == "ok", txt) {
			return
		}
		var ref W = map[string]any{"m": map[string]any{}}
		for _, d := range docs {
			ref = c04RefDoc(ref, d, false)
		}
		norm := func(w W) W {
			rt, err := c04YamlRT(wirePlain(w))
			if err != nil {
				return map[string]any{"yaml-error": err.Error()}
			}
			return plainWire(rt)
		}
		exp := norm(ref)
		c.Direct("config-eq-reference-fold", canon(got) == canon(exp), map[string]any{"impl": got, "expected": exp})
		c.Direct("config-eq-fold-of-Merge", canon(got) == canon(foldImpl), map[string]any{"impl": got, "fold": foldImpl})
		m := c.Model("mergeAll", map[string]any{"layers": docs, "opt": "meld"})
		c.Corr("config", got, norm(m))
	}
}

// c04RepeatedComposite: two positions below w hold structurally equal composite subtrees (the dag build makes them one
// node object).
func c04RepeatedComposite(w W) bool {
	seen := map[string]bool{}
	var walk func(x W, root bool) bool
	walk = func(x W, root bool) bool {
		var kids []W
		switch v := x.(type) {
		case []any:
			kids = v
		case map[string]any:
			c, ok := v["m"].(map[string]any)
			if !ok {
				return false
			}
			for _, k := range sortedKeys(c) {
				kids = append(kids, c[k])
			}
		default:
			return false
		}
		if !root {
			key := canon(x)
			if seen[key] {
				return true
			}
			seen[key] = true
		}
		for _, e := range kids {
			if walk(e, false) {
				return true
			}
		}
		return false
	}
	return walk(w, true)
}

// c04Runaway: a library call on documents with shared node objects did not return (see c04Bounded).
var c04Runaway atomic.Bool

// c04Bounded runs one library call (nothing else: no harness state is touched inside) and waits for it for at most
// 20 s — five orders of magnitude above what a merge of these documents takes.  Documents whose node objects are shared
// are finite and acyclic; a merge that edits its inputs in place can turn them into cyclic or exponentially growing
// ones and then never returns.  A call that does not come back is abandoned (it keeps running in its goroutine until the
// process ends) and reported as "timeout"; from then on such calls are not made any more ("skipped": the cases that
// follow are not evaluated, so the abandoned goroutine's appetite cannot add up).  A panic is reported as "panic".
func c04Bounded(f func()) (outcome, text string) {
	if c04Runaway.Load() {
		return "skipped", "an earlier call did not return; calls on shared node objects are not made any more in this run"
	}
	done := make(chan [2]string, 1)
	go func() {
		o, t := guard(f)
		done <- [2]string{o, t}
	}()
	select {
	case r := <-done:
		return r[0], r[1]
	case <-time.After(20 * time.Second):
		c04Runaway.Store(true)
		return "timeout", "the call did not return within 20 s (abandoned)"
	}
}

// c04SharedPair: B holds one or two composite subtrees at a second position each (vrGraftCopy); A is B after 0-3
// local edits, with one or two members of its own added wherever it still has a container at the places of the copied
// subtree — the left side has keys there that the right side's subtree lacks.
func c04SharedPair(r *rand.Rand, g *DocGen) (W, W) {
	b := g.Doc(r)
	var at [][]any
	for k, n := 0, 1+r.Intn(2); k < n; k++ {
		if b2, src, dst, ok := vrGraftCopy(r, b, g.Keys); ok {
			b = b2
			at = append(at, src, dst)
		}
	}
	a := b
	for i, n := 0, r.Intn(4); i < n; i++ {
		a = g.Mutate(r, a)
	}
	for _, p := range at {
		if r.Intn(4) == 0 {
			continue
		}
		if a2, ok := dhUpdate(a, p, func(w W) (W, bool) {
			cm, isCont := wireCont(w)
			if !isCont {
				return nil, false
			}
			m := map[string]any{}
			for k, v := range cm {
				m[k] = v
			}
			for i, n := 0, 1+r.Intn(2); i < n; i++ {
				m[pick(r, g.Keys)] = g.Node(r, g.MaxDepth-1)
			}
			return map[string]any{"m": m}, true
		}); ok {
			a = a2
		}
	}
	return a, b
}

var _ = rand.Int
