package main

import (
	"math/rand"
	"sort"
	"strings"
)

// C05 — "the same keys with equal values": key SETS that a folded comparison cannot tell apart.
//
// c05KeyResplit returns two copies of w (a container is put around w when it has none) that differ in the member
// names of ONE container only.  There both sides have the same NUMBER of members, with equal values at equal
// positions of the sorted name lists, but the names of one side are another segmentation of the same token
// sequence: {"a<sep>b": v, "c": v} next to {"a": v, "b<sep>c": v}, for a separator from a pool (NUL, unit
// separator, newline, tab, ".", "/", ",", "|", ":", "=", blank, or none at all).  A comparison that folds the key
// set into one string (joined names, a digest of the concatenation, a printed form) or that walks the two sorted
// name lists in lockstep without comparing the names cannot tell the two apart; the property can: they have
// different keys.  ok=false when the drawn segmentations coincide.
func c05KeyResplit(r *rand.Rand, g *DocGen, w W) (W, W, bool) {
	if wireKind(w) != "cont" {
		w = map[string]any{"m": map[string]any{"a": w}}
	}
	var ps, conts []dhPos
	dhPositions(w, []any{}, &ps)
	for _, p := range ps {
		if p.kind == "cont" {
			conts = append(conts, p)
		}
	}
	p := pick(r, conts)
	sep := pick(r, []string{"\x00", "\x00", "\x00", "\x1f", "\n", "\t", ".", "/", ",", "|", ":", "=", " ", ";", "\x00\x00", ", ", ""})
	alphabet := []string{"a", "b", "c", "d", "e", "k", "x", "y", "0", "1", "A", "ab", "bc", "key", "ü"}
	n := 3 + r.Intn(3)
	perm := r.Perm(len(alphabet))[:n]
	sort.Ints(perm) // ascending tokens: the joined names sort the way the tokens do for most separators
	if r.Intn(4) == 0 {
		perm = r.Perm(len(alphabet))[:n]
	}
	toks := make([]string, n)
	for i, k := range perm {
		toks[i] = alphabet[k]
	}
	groups := 2 + r.Intn(n-2) // 2 .. n-1 names per side, the same number on both sides
	split := func() []string {
		// choose groups-1 cut points out of n-1
		cuts := r.Perm(n - 1)[:groups-1]
		sort.Ints(cuts)
		var names []string
		from := 0
		for _, c := range cuts {
			names = append(names, strings.Join(toks[from:c+1], sep))
			from = c + 1
		}
		names = append(names, strings.Join(toks[from:], sep))
		sort.Strings(names)
		return names
	}
	na, nb := split(), split()
	for try := 0; try < 8 && strings.Join(na, "\x01") == strings.Join(nb, "\x01"); try++ {
		nb = split()
	}
	distinct := func(names []string) bool {
		for i := 1; i < len(names); i++ {
			if names[i] == names[i-1] {
				return false
			}
		}
		return true
	}
	if strings.Join(na, "\x01") == strings.Join(nb, "\x01") || !distinct(na) || !distinct(nb) {
		return nil, nil, false
	}
	// values by position in the sorted name list: one value everywhere (2 in 3), or one value per position
	vals := make([]W, groups)
	one := g.Node(r, g.MaxDepth-1)
	for i := range vals {
		vals[i] = one
		if r.Intn(3) == 0 {
			vals[i] = g.Scalar(r)
		}
	}
	keep := r.Intn(3) == 0 // now and then the container keeps its other members (the same on both sides)
	put := func(names []string) W {
		out, _ := dhUpdate(w, p.at, func(x W) (W, bool) {
			cm, _ := wireCont(x)
			m := map[string]any{}
			if keep {
				for k, e := range cm {
					m[k] = e
				}
			}
			for i, nm := range names {
				m[nm] = deepCopyW(vals[i])
			}
			return map[string]any{"m": m}, true
		})
		return out
	}
	a, b := put(na), put(nb)
	if a == nil || b == nil || !c05KeysOK(a) || !c05KeysOK(b) {
		return nil, nil, false
	}
	if r.Intn(2) == 0 {
		a, b = b, a
	}
	return a, b, true
}
