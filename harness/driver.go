package main

import (
	"bufio"
	"encoding/json"
	"fmt"
	"io"
	"os/exec"
)

// Driver is one model driver process: one JSON line in, one JSON line out.
type Driver struct {
	cmd *exec.Cmd
	in  io.WriteCloser
	out *bufio.Reader
}

func startDriver(path string) (*Driver, error) {
	cmd := exec.Command(path)
	in, err := cmd.StdinPipe()
	if err != nil {
		return nil, err
	}
	out, err := cmd.StdoutPipe()
	if err != nil {
		return nil, err
	}
	if err := cmd.Start(); err != nil {
		return nil, fmt.Errorf("cannot start model driver %s: %w", path, err)
	}
	return &Driver{cmd: cmd, in: in, out: bufio.NewReaderSize(out, 1<<20)}, nil
}

func (d *Driver) Close() {
	_ = d.in.Close()
	_ = d.cmd.Wait()
}

// Call sends {"p":prop,"op":op,"a":args} and returns the decoded "r" member.
// A model-side error ("e") is returned as map{"model_error": text}: it is an
// observation that the comparison will flag, not a transport failure.
func (d *Driver) Call(prop, op string, args any) (any, error) {
	req, err := json.Marshal(map[string]any{"p": prop, "op": op, "a": args})
	if err != nil {
		return nil, err
	}
	req = append(req, '\n')
	if _, err := d.in.Write(req); err != nil {
		return nil, fmt.Errorf("driver write: %w", err)
	}
	line, err := d.out.ReadBytes('\n')
	if err != nil {
		return nil, fmt.Errorf("driver read: %w", err)
	}
	var resp map[string]any
	if err := json.Unmarshal(line, &resp); err != nil {
		return nil, fmt.Errorf("driver output unparsable: %v: %s", err, string(line))
	}
	if e, ok := resp["e"]; ok {
		return map[string]any{"model_error": e}, nil
	}
	return resp["r"], nil
}
