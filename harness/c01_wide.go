package main

import (
	"bytes"
	"encoding/base64"
	"encoding/json"
	"fmt"
	"math/rand"
	"reflect"
	"strings"

	"github.com/rkosegi/yaml-toolkit/dom"
	"gopkg.in/yaml.v3"
)

// C01, three more input classes of "for all YAML/JSON texts t" and "for all generic values m" (all of them are
// judged by the clauses the property states: error iff the control decode errs, else AsMap == decode(t); AsMap(FromMap(m)) == m):
//
//	streams   texts that hold SEVERAL documents (YAML: `---` / `...` markers; JSON: concatenated values), any of which —
//	          the first one in particular — may be blank (nothing, or comments only, between the markers), null, a
//	          list, a scalar or a mapping: the control decode reads the first document of the stream, so must FromReader
//	bracket   member names that END in a bracketed group which is NOT an index group (`\[\d+]$` over ASCII digits is the
//	          only spelling the addressing scheme gives a meaning to): decimal digits of other scripts, other numeric
//	          characters (superscripts, fractions, Roman and CJK numerals), signs, blanks, radix prefixes, empty and
//	          unbalanced brackets — as values (FromMap) and as YAML / JSON texts
//	huge      texts of several MiB up to 64 MiB (a few fixed ones per run, not scaled with the case budget): whole, and
//	          from a reader that hands out 64 KiB per call

type c01Huge struct {
	Fmt   string `json:"fmt"`   // yaml | json
	MiB   int    `json:"mib"`   // the text is a little longer than MiB * 2^20 bytes
	Extra int    `json:"extra"` // items after the one that crosses the mark
	Item  int    `json:"item"`  // length of one bulk string
}

func c01RunWide(c *Ctx) {
	r := c.Rng
	gt := stdGen()
	gt.MaxDepth = 3
	for i := 0; i < c.N(240); i++ {
		c.Tick()
		c.Do("text", c01Text{"yaml", base64.StdEncoding.EncodeToString(c01YamlStream(r, gt)), "stream"})
		if i%3 == 0 {
			c.Do("text", c01Text{"json", base64.StdEncoding.EncodeToString(c01JsonStream(r, gt)), "stream"})
		}
	}
	gb := c01Gen()
	gb.MaxDepth, gb.PLeaf, gb.MaxWidth = 3, 0.5, 4
	for i := 0; i < c.N(240); i++ {
		c.Tick()
		gb.Keys = c01BracketPool(r)
		c.Dist("frommap:keys-end-in-a-bracket-group-that-is-no-index")
		c.Do("frommap", c01Map{gb.Doc(r)})
		if i%2 == 0 {
			plain := wirePlain(vrSprinkle(r, gb.Doc(r), 0.2, vrOpts{}))
			if b, err := yaml.Marshal(plain); err == nil {
				c.Do("text", c01Text{"yaml", base64.StdEncoding.EncodeToString(b), "rendered-bracket-keys"})
			}
			if b, err := json.Marshal(plain); err == nil {
				c.Do("text", c01Text{"json", base64.StdEncoding.EncodeToString(b), "rendered-bracket-keys"})
			}
		}
	}
	if !c.searchMode || c.Thorough() {
		// a fixed handful per run (the texts are built from the case, the case budget does not multiply them)
		for _, mib := range []int{8, 64} {
			for _, f := range []string{"yaml", "json"} {
				c.Tick()
				c.Do("huge", c01Huge{Fmt: f, MiB: mib, Extra: 1 + r.Intn(40), Item: 600 + r.Intn(800)})
			}
		}
	}
}

// ------------------------------------------------------------------ multi-document streams

var c01BlankDocs = []string{"", "", "# Source: chart/templates/empty.yaml\n", "# a\n\n# b\n", "\n", "   \n", "~\n", "null\n", "{}\n", "[]\n", "''\n",
	"- 1\n- 2\n", "just a scalar\n", "- {a: 1}\n", "a: [1\n", "\t- x\n"}

// c01YamlStream: 2-4 documents; each is a rendered mapping or one of the blank / null / non-mapping / malformed
// documents (the first one more often than not), joined by `---` lines (optionally `...` before them, a comment on
// the marker line), with or without a marker before the first document.
func c01YamlStream(r *rand.Rand, g *DocGen) []byte {
	n := 2 + r.Intn(3)
	var sb bytes.Buffer
	for i := 0; i < n; i++ {
		var doc string
		pBlank := 0.3
		if i == 0 {
			pBlank = 0.6
		}
		if r.Float64() < pBlank {
			doc = pick(r, c01BlankDocs)
		} else {
			b, _ := yaml.Marshal(wirePlain(g.Doc(r)))
			doc = string(b)
		}
		if i > 0 || r.Intn(3) > 0 {
			if i > 0 && r.Intn(5) == 0 {
				sb.WriteString("...\n")
			}
			sb.WriteString(pick(r, []string{"---\n", "---\n", "---\n", "--- # doc\n", "---   \n"}))
		}
		sb.WriteString(doc)
	}
	if r.Intn(6) == 0 {
		sb.WriteString("...\n")
	}
	return sb.Bytes()
}

// c01JsonStream: 2-3 concatenated JSON values (objects, null, lists, scalars), separated by blanks or nothing.
func c01JsonStream(r *rand.Rand, g *DocGen) []byte {
	n := 2 + r.Intn(2)
	var sb bytes.Buffer
	for i := 0; i < n; i++ {
		if r.Float64() < 0.45 {
			sb.WriteString(pick(r, []string{"null", "{}", "[]", "[1,2]", "1", `""`, `"s"`, "true", "{", "nul"}))
		} else {
			b, _ := json.Marshal(wirePlain(g.Doc(r)))
			sb.Write(b)
		}
		sb.WriteString(pick(r, []string{"", "\n", " ", "\r\n", "\n\n"}))
	}
	return sb.Bytes()
}

// ------------------------------------------------------------------ names ending in a bracket group that is no index

// the ten decimal digits of several scripts (Unicode category Nd), ASCII first
var c01DigitScripts = [][]rune{
	[]rune("0123456789"),
	[]rune("٠١٢٣٤٥٦٧٨٩"), // Arabic-Indic
	[]rune("۰۱۲۳۴۵۶۷۸۹"), // Extended Arabic-Indic
	[]rune("०१२३४५६७८९"), // Devanagari
	[]rune("০১২৩৪৫৬৭৮৯"), // Bengali
	[]rune("๐๑๒๓๔๕๖๗๘๙"), // Thai
	[]rune("０１２３４５６７８９"), // full-width
	[]rune("𝟎𝟏𝟐𝟑𝟒𝟓𝟔𝟕𝟖𝟗"), // mathematical bold (outside the BMP)
	[]rune("𝟘𝟙𝟚𝟛𝟜𝟝𝟞𝟟𝟠𝟡"), // mathematical double-struck
}

// numeric characters that are no decimal digits (categories No / Nl / Lo), and other near-numbers
var c01NearNumbers = []string{"²", "¹", "³", "⁰", "₁", "½", "¼", "Ⅷ", "ⅳ", "①", "⑩", "一", "三", "〇", "十", "x", "é", "i", "l", "O"}

// c01BracketInner: what stands between the brackets.
func c01BracketInner(r *rand.Rand) string {
	digits := func(script []rune, n int) string {
		var sb strings.Builder
		for i := 0; i < n; i++ {
			sb.WriteRune(script[r.Intn(10)])
		}
		return sb.String()
	}
	other := c01DigitScripts[1+r.Intn(len(c01DigitScripts)-1)]
	switch r.Intn(12) {
	case 0, 1, 2, 3: // digits of one non-ASCII script
		return digits(other, 1+r.Intn(3))
	case 4: // ASCII and another script mixed, either first
		if r.Intn(2) == 0 {
			return digits(c01DigitScripts[0], 1+r.Intn(2)) + digits(other, 1+r.Intn(2))
		}
		return digits(other, 1+r.Intn(2)) + digits(c01DigitScripts[0], 1+r.Intn(2))
	case 5: // numeric, but no decimal digit
		return pick(r, c01NearNumbers)
	case 6: // ASCII digits next to something that is none
		return pick(r, []string{"", digits(c01DigitScripts[0], 1)}) + pick(r, c01NearNumbers) + pick(r, []string{"", digits(c01DigitScripts[0], 1)})
	case 7: // signs, radix prefixes, separators, fractions, exponents
		return pick(r, []string{"+1", "-1", "-0", "0x1", "0b1", "1_0", "1.0", "1e1", "1,2", "1:2", "#1", "*", "1-2", "0-"})
	case 8: // blanks around / inside ASCII digits
		return pick(r, []string{" 1", "1 ", " ", "1 2", "\t1", "1\n", "\u00a01", "1\u00a0", "\u200b1", "1\u200b"})
	case 9: // empty
		return ""
	case 10: // nested / unbalanced brackets
		return pick(r, []string{"[1]", "[1", "1]", "[", "]", "[]", "a[1]b"})
	default: // an ASCII index (the known-finding class D26): the neighbours above must not be confused with it
		return digits(c01DigitScripts[0], 1+r.Intn(2))
	}
}

// c01BracketPool: the names of one value — one or two plain bases, and names made of a base, a bracket group and
// (sometimes) a second group or a tail.
func c01BracketPool(r *rand.Rand) []string {
	bases := []string{"a", "b", "tier", "größe", "名前", "", "a.b", "a b"}
	base := pick(r, bases)
	ks := []string{base, pick(r, bases)}
	for len(ks) < 6 {
		k := pick(r, []string{base, base, pick(r, bases)}) + "[" + c01BracketInner(r) + "]"
		switch r.Intn(8) {
		case 0:
			k += "[" + c01BracketInner(r) + "]"
		case 1:
			k = k[:len(k)-1] // no closing bracket
		case 2:
			k += pick(r, []string{" ", "x", ".", "\n"})
		}
		ks = append(ks, k)
	}
	return ks
}

// ------------------------------------------------------------------ huge texts

// c01HugeText: {head, bulk: [strings ...], tail}; the bulk crosses the MiB mark and is followed by Extra more items
// and the tail, so the text ends a little behind the mark.  A pure function of the case.
func c01HugeText(p c01Huge) ([]byte, int) {
	mark := p.MiB << 20
	item := strings.Repeat("a", p.Item)
	var sb bytes.Buffer
	sb.Grow(mark + (p.Extra+2)*(p.Item+32))
	items := 0
	if p.Fmt == "json" {
		sb.WriteString("{\"head\":[1,null,\"x\"],\n\"bulk\":[")
		for extra := 0; extra < p.Extra; items++ {
			if sb.Len() >= mark {
				extra++
			}
			if items > 0 {
				sb.WriteString(",\n")
			}
			fmt.Fprintf(&sb, `"v%d%s"`, items, item)
		}
		sb.WriteString("],\n\"tail\":[1,null,\"x\",[],{}]}\n")
	} else {
		sb.WriteString("head: [1, null, x]\nbulk:\n")
		for extra := 0; extra < p.Extra; items++ {
			if sb.Len() >= mark {
				extra++
			}
			fmt.Fprintf(&sb, "  - v%d%s\n", items, item)
		}
		sb.WriteString("tail: [1, null, x, [], {}]\n")
	}
	return sb.Bytes(), items
}

func c01EvalHuge(c *Ctx, raw []byte) {
	var p c01Huge
	if err := json.Unmarshal(raw, &p); err != nil {
		panic(err)
	}
	if p.MiB < 1 || p.MiB > 96 || p.Extra < 1 || p.Extra > 4096 || p.Item < 1 || p.Item > 1<<16 || (p.Fmt != "yaml" && p.Fmt != "json") {
		return
	}
	c.Nontrivial()
	c.Dist(fmt.Sprintf("huge:%s:%dMiB", p.Fmt, p.MiB))
	text, items := c01HugeText(p)
	dec := c01Decoder(p.Fmt)
	ctl := map[string]any{}
	var ctlErr error
	if p.Fmt == "yaml" {
		ctlErr = yaml.NewDecoder(bytes.NewReader(text)).Decode(&ctl)
	} else {
		ctlErr = json.NewDecoder(bytes.NewReader(text)).Decode(&ctl)
	}
	if ctlErr != nil {
		panic("harness: generated huge text does not decode: " + ctlErr.Error())
	}
	if l, _ := ctl["bulk"].([]any); len(l) != items || len(ctl) != 3 {
		panic("harness: control decode of the huge text is not the value it was built from")
	}
	describe := func(cb dom.ContainerBuilder) map[string]any {
		d := map[string]any{"text_bytes": len(text), "bulk_items_in_text": items}
		if cb != nil {
			m := cb.AsMap()
			d["members_loaded"] = sortedKeys(m)
			if l, ok := m["bulk"].([]any); ok {
				d["bulk_items_loaded"] = len(l)
				if len(l) > 0 {
					if s, ok := l[len(l)-1].(string); ok {
						d["last_bulk_item_bytes"] = len(s)
					}
				}
			}
		}
		return d
	}
	out, txt := guard(func() {
		readers := []struct {
			name string
			rd   func() *chunkReader
		}{
			{"whole", func() *chunkReader { return &chunkReader{data: text, n: len(text)} }},
			{"chunks of 64 KiB", func() *chunkReader { return &chunkReader{data: text, n: 1 << 16} }},
		}
		for _, v := range readers {
			cb, err := dom.Builder().FromReader(v.rd(), dec)
			det := describe(cb)
			det["reader"] = v.name
			det["impl_err"] = fmt.Sprint(err)
			if !c.Direct("huge:error-iff-control-error", err == nil, det) {
				return
			}
			if !c.Direct("huge:AsMap(FromReader(t))==decode(t)", reflect.DeepEqual(cb.AsMap(), ctl), det) {
				return
			}
		}
	})
	c.Direct("huge:no-panic", out == "ok", txt)
}

// ------------------------------------------------------------------ shrinking texts

// c01ShrinkText: candidates for a text case — the text without one of its lines, without its first / second half
// of lines (texts of up to 200 lines).
func c01ShrinkText(raw []byte) [][]byte {
	var p c01Text
	if err := json.Unmarshal(raw, &p); err != nil {
		return nil
	}
	text, err := base64.StdEncoding.DecodeString(p.B64)
	if err != nil || len(text) == 0 {
		return nil
	}
	lines := strings.SplitAfter(string(text), "\n")
	if len(lines) > 200 {
		return nil
	}
	var out [][]byte
	emit := func(ls []string) {
		q := p
		q.B64 = base64.StdEncoding.EncodeToString([]byte(strings.Join(ls, "")))
		if b, err := json.Marshal(q); err == nil && len(b) < len(raw) {
			out = append(out, b)
		}
	}
	if len(lines) > 3 {
		emit(lines[len(lines)/2:])
		emit(lines[:len(lines)/2])
	}
	for i := range lines {
		emit(append(append([]string{}, lines[:i]...), lines[i+1:]...))
	}
	return out
}

// c01ShowText: a text as it is shown in a replay file (the case itself holds it in base64).
func c01ShowText(text []byte) string {
	if len(text) > 600 {
		return string(text[:600]) + fmt.Sprintf("... (%d bytes)", len(text))
	}
	return string(text)
}
