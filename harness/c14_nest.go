package main

// C14, "nest" cases: iteration mechanisms nested in each other — a forEach / loop / call whose body holds the
// next forEach / loop / call either as one of the body's OPERATIONS or in a `steps` child — with custom
// variable names, and an innermost body that reads every variable in scope when it RUNS (call arguments, or a
// template operation whose result a callable prints).  The expected trace is in closed form: the product of
// the layers' items, in order, up to the failure ("the trace of (item, operation) pairs equals items x body").

import (
	"fmt"
	"math/rand"
	"regexp"
	"strconv"
	"strings"
)

type c14Layer struct {
	Kind  string   `json:"kind"`  // foreach | loop | call
	Place string   `json:"place"` // ops | child: how this layer's operation sits in the enclosing body (not used for the outermost)
	Var   *string  `json:"var"`   // foreach: variable name (nil: the default, "forEach")
	Items []string `json:"items"` // foreach: the items
	Query bool     `json:"query"` // foreach: the items come from a list query instead of literal items
	// foreach with a list query: per item, the entry of the list is a NULL (an item like any other: the body
	// runs for it, the variable is bound to a null)
	Null []bool `json:"null,omitempty"`
	N    int    `json:"n"`   // loop: bound (counter 0..n-1)
	Ext  bool   `json:"ext"` // the layer's body also carries `ext trace E<k>`
}

type c14Nest struct {
	Layers []c14Layer `json:"layers"` // outermost first
	Read   string     `json:"read"`   // call | tmpl: how the innermost body reads the variables in scope
	Place  string     `json:"place"`  // ops | child: where the reading operations sit in the innermost body
	K      int        `json:"k"`      // 0: no failure; else the reader fails from its k-th run on
}

var c14IdentRe = regexp.MustCompile(`^[A-Za-z_][A-Za-z0-9_]*$`)

// norm brings a (possibly shrunk) record back into the domain: 1..3 layers, distinct plain variable names
// that collide with nothing else in the data, plain item texts.
func (p *c14Nest) norm() {
	if len(p.Layers) > 3 {
		p.Layers = p.Layers[:3]
	}
	if len(p.Layers) == 0 {
		p.Layers = []c14Layer{{Kind: "foreach"}}
	}
	used := map[string]bool{"args": true, "last": true, "keep": true, "other": true, "j": true, "j_go": true, "j_end": true}
	for k := range p.Layers {
		for _, s := range []string{"", "_go", "_end"} {
			used[fmt.Sprintf("c%d%s", k, s)] = true
		}
		used[fmt.Sprintf("xs%d", k)], used[fmt.Sprintf("cl%d", k)] = true, true
	}
	for k := range p.Layers {
		l := &p.Layers[k]
		switch l.Kind {
		case "foreach", "loop", "call":
		default:
			l.Kind = "foreach"
		}
		if l.Place != "child" {
			l.Place = "ops"
		}
		if l.N < 0 || l.N > 4 {
			l.N = 2
		}
		if len(l.Items) > 4 {
			l.Items = l.Items[:4]
		}
		for i, it := range l.Items {
			if strings.Contains(it, "{{") || it == "" {
				l.Items[i] = fmt.Sprintf("i%d", i)
			}
		}
		if l.Kind != "foreach" || !l.Query {
			l.Null = nil
		}
		if len(l.Null) > len(l.Items) {
			l.Null = l.Null[:len(l.Items)]
		}
		if l.Kind == "foreach" {
			name := c14VarName(l.Var)
			if !c14IdentRe.MatchString(name) || used[name] {
				name = fmt.Sprintf("v%d", k)
				l.Var = sp(name)
			}
			used[name] = true
		}
	}
	if p.Read != "tmpl" {
		p.Read = "call"
	}
	if p.Place != "child" {
		p.Place = "ops"
	}
	if p.K < 0 {
		p.K = 0
	}
}

// the data name a layer binds per pass ("" for a call layer)
func (p *c14Nest) bound(k int) string {
	switch l := p.Layers[k]; l.Kind {
	case "foreach":
		return c14VarName(l.Var)
	case "loop":
		return fmt.Sprintf("c%d", k)
	}
	return ""
}

func (p *c14Nest) data() W {
	d := map[string]any{"keep": map[string]any{"x": 1}, "other": "o"}
	for k, l := range p.Layers {
		if l.Kind == "foreach" && l.Query {
			items := []any{}
			for i, s := range l.Items {
				if i < len(l.Null) && l.Null[i] {
					items = append(items, nil)
				} else {
					items = append(items, s)
				}
			}
			d[fmt.Sprintf("xs%d", k)] = items
		}
	}
	return plainWire(d)
}

func (p *c14Nest) prog() []c12Op {
	// what the innermost body reads: every variable in scope
	var refs, argRefs []string
	args := map[string]any{}
	for k := range p.Layers {
		if b := p.bound(k); b != "" {
			refs = append(refs, "{{ ."+b+" }}")
			args[fmt.Sprintf("a%d", k)] = "{{ ." + b + " }}"
			argRefs = append(argRefs, fmt.Sprintf("{{ .args.a%d }}", k))
		}
	}
	failing := func(a *c12Act) {
		if p.K > 0 {
			a.Children = []c12Act{
				{Name: "failing", Order: 2, When: sp("{{ .j_end }}"), Ops: []c12Op{{K: "abort", Msg: "stop at {{ .j }}"}}},
				{Name: "countj", Order: 1, Ops: []c12Op{{K: "ext", Fn: "inc", ID: "j", N: p.K}}}}
		}
	}
	var out, reader []c12Op
	if p.Read == "call" {
		report := &c12Act{Name: "report", Ops: []c12Op{{K: "log", Msg: "R:" + strings.Join(argRefs, "/")}}}
		failing(report)
		out = append(out, c12Op{K: "define", Name: "report", Body: report})
		reader = []c12Op{{K: "call", Name: "report", Args: plainWire(args)}}
	} else {
		show := &c12Act{Name: "show", Ops: []c12Op{{K: "log", Msg: "S:{{ .last }}"}}}
		failing(show)
		out = append(out, c12Op{K: "define", Name: "show", Body: show})
		reader = []c12Op{{K: "template", Tmpl: "T:" + strings.Join(refs, "/"), Path: "last"}, {K: "call", Name: "show", Args: plainWire(map[string]any{})}}
	}
	place := func(body *c12Act, where string, name string, ops []c12Op) {
		if where == "child" {
			body.Children = append(body.Children, c12Act{Name: name, Order: 1, Ops: ops})
		} else {
			body.Ops = append(body.Ops, ops...)
		}
	}
	inner, innerPlace := reader, p.Place
	for k := len(p.Layers) - 1; k >= 0; k-- {
		l := p.Layers[k]
		body := &c12Act{Name: fmt.Sprintf("b%d", k)}
		if l.Ext {
			body.Ops = append(body.Ops, c12Op{K: "ext", Fn: "trace", ID: fmt.Sprintf("E%d", k)})
		}
		place(body, innerPlace, fmt.Sprintf("in%d", k), inner)
		var op c12Op
		switch l.Kind {
		case "foreach":
			op = c12Op{K: "forEach", Var: l.Var, Body: body}
			if l.Query {
				op.Query = &c12VoR{Val: fmt.Sprintf("xs%d", k)}
			} else {
				its := []c12VoR{}
				for _, s := range l.Items {
					its = append(its, c12VoR{Val: s})
				}
				op.Items = &its
			}
		case "loop":
			ctr := fmt.Sprintf("c%d", k)
			op = c12Op{K: "loop", Test: "{{ ." + ctr + "_go }}", Body: body,
				Init: &c12Act{Name: fmt.Sprintf("init%d", k), Ops: []c12Op{{K: "set", Data: plainWire(map[string]any{ctr: 0, ctr + "_go": 0 < l.N})}}},
				Post: &c12Act{Name: fmt.Sprintf("post%d", k), Ops: []c12Op{{K: "ext", Fn: "inc", ID: ctr, N: l.N}}}}
		default:
			out = append(out, c12Op{K: "define", Name: fmt.Sprintf("f%d", k), Body: body})
			op = c12Op{K: "call", Name: fmt.Sprintf("f%d", k), ArgsPath: sp(fmt.Sprintf("cl%d", k)), Args: plainWire(map[string]any{"d": "x"})}
		}
		inner, innerPlace = []c12Op{op}, l.Place
	}
	return append(out, inner...)
}

// expect: the (r / l / t) events in closed form — the product of the layers, in order, cut at the failure —
// whether the last top-level call fails, and how often the reader ran.
func (p *c14Nest) expect() (evs [][]any, failed bool, runs int) {
	env := map[int]string{}
	var layer func(k int) bool
	reader := func() bool {
		runs++
		var vals []string
		for k := range p.Layers {
			if p.bound(k) != "" {
				vals = append(vals, env[k])
			}
		}
		if p.Read == "call" {
			evs = append(evs, []any{"l", "R:" + strings.Join(vals, "/")})
		} else {
			evs = append(evs, []any{"l", "S:T:" + strings.Join(vals, "/")})
		}
		if p.K > 0 {
			evs = append(evs, []any{"r", "j"}, []any{"t", "{{ .j_end }}", runs >= p.K})
			return runs >= p.K
		}
		return false
	}
	// one pass through the body of layer k.  Documented operation order: Template, Call before Ext before
	// ForEach before Loop; the body's children run after its operations.
	pass := func(k int) bool {
		l := p.Layers[k]
		next := func() bool { return reader() }
		nextPlace, nextFirst := p.Place, true // the reader is template / call: declared before Ext
		if k+1 < len(p.Layers) {
			next = func() bool { return layer(k + 1) }
			nextPlace, nextFirst = p.Layers[k+1].Place, p.Layers[k+1].Kind == "call"
		}
		if nextPlace == "ops" && nextFirst {
			if next() {
				return true
			}
		}
		if l.Ext {
			evs = append(evs, []any{"r", fmt.Sprintf("E%d", k)})
		}
		if !(nextPlace == "ops" && nextFirst) {
			if next() {
				return true
			}
		}
		return false
	}
	layer = func(k int) bool {
		switch l := p.Layers[k]; l.Kind {
		case "foreach":
			for i, it := range l.Items {
				env[k] = it
				if l.Query && i < len(l.Null) && l.Null[i] {
					env[k] = "<no value>" // what a template prints for a variable bound to a null
				}
				if pass(k) {
					return true
				}
			}
		case "loop":
			test := fmt.Sprintf("{{ .c%d_go }}", k)
			for i := 0; ; i++ {
				evs = append(evs, []any{"t", test, i < l.N})
				if !(i < l.N) {
					break
				}
				env[k] = strconv.Itoa(i)
				if pass(k) {
					return true
				}
				evs = append(evs, []any{"r", fmt.Sprintf("c%d", k)})
			}
		default:
			return pass(k)
		}
		return false
	}
	failed = layer(0)
	return evs, failed, runs
}

// what the harness' own helpers (counters, the template's target) leave behind — not the mechanisms under test
func (p *c14Nest) strip(w W) W {
	m, ok := wireCont(deepCopyW(w))
	if !ok {
		return w
	}
	for _, k := range []string{"j", "j_go", "j_end", "last"} {
		delete(m, k)
	}
	for k := range p.Layers {
		for _, s := range []string{"", "_go", "_end"} {
			delete(m, fmt.Sprintf("c%d%s", k, s))
		}
	}
	return map[string]any{"m": m}
}

func c14GenNest(r *rand.Rand) c14Nest {
	strs := []string{"a", "b", "c", "d", "1", "2", "zz"}
	names := []string{"it", "row", "col", "v_1", "X", "item", "cell"}
	perm := r.Perm(len(names))
	n := 2
	switch x := r.Intn(20); {
	case x == 0:
		n = 1
	case x < 6:
		n = 3
	}
	p := c14Nest{Read: pick(r, []string{"call", "call", "tmpl"}), Place: pick(r, []string{"ops", "ops", "child"})}
	defaultUsed := false
	for k := 0; k < n; k++ {
		l := c14Layer{Kind: pick(r, []string{"foreach", "foreach", "foreach", "loop", "call"}), Place: pick(r, []string{"ops", "ops", "child"}),
			N: 1 + r.Intn(3), Ext: r.Intn(3) == 0}
		if r.Intn(10) == 0 {
			l.N = 0
		}
		if l.Kind == "foreach" {
			if defaultUsed || r.Intn(4) > 0 {
				l.Var = sp(names[perm[k]])
			} else {
				defaultUsed = true
			}
			ip := r.Perm(len(strs))
			m := 1 + r.Intn(3)
			if r.Intn(10) == 0 {
				m = 0
			}
			for j := 0; j < m; j++ {
				it := strs[ip[j]]
				if x := pick(r, c14ItemTexts); r.Intn(4) == 0 && x != "" {
					it = x // the value range of an item (white space around it, case twins, non-ASCII, syntax look-alikes …)
				}
				l.Items = append(l.Items, it)
			}
			if len(l.Items) > 0 && r.Intn(6) == 0 {
				l.Items = append(l.Items, l.Items[0]) // an item may occur twice
			}
			l.Query = r.Intn(3) == 0
			if l.Query && len(l.Items) > 0 && r.Intn(2) == 0 {
				l.Null = make([]bool, len(l.Items))
				l.Null[r.Intn(len(l.Items))] = true
				if r.Intn(3) == 0 {
					l.Null[r.Intn(len(l.Items))] = true
				}
			}
		}
		p.Layers = append(p.Layers, l)
	}
	if r.Intn(4) == 0 {
		p.K = 1 + r.Intn(4)
	}
	return p
}

// the smallest records first, so that a failure is reported on a minimal one: a forEach with a custom
// variable as an operation / in a child of a forEach, a loop and a callable
func c14NestBasics() []c14Nest {
	var out []c14Nest
	for _, outer := range []string{"foreach", "loop", "call"} {
		for _, place := range []string{"ops", "child"} {
			for _, read := range []string{"call", "tmpl"} {
				for _, ivar := range []*string{sp("col"), nil} {
					o := c14Layer{Kind: outer, N: 2}
					if outer == "foreach" {
						o.Var, o.Items = sp("row"), []string{"a", "b"}
					}
					out = append(out, c14Nest{Read: read, Place: "ops", Layers: []c14Layer{o,
						{Kind: "foreach", Place: place, Var: ivar, Items: []string{"1", "2", "3"}}}})
				}
			}
		}
	}
	return out
}
