package main

import (
	"encoding/json"
	"fmt"
	"math/rand"

	"github.com/rkosegi/yaml-toolkit/diff"
	"github.com/rkosegi/yaml-toolkit/dom"
)

// C08 — applying a diff to the right document reconstructs the left one.

type c08Recon struct {
	L W `json:"l"`
	R W `json:"r"`
}

type c08Apply struct {
	D       W        `json:"d"`
	Mods    []c07Mod `json:"mods"`
	Lookups []string `json:"lookups"`
}

func init() {
	register(&Prop{ID: "C08", Run: c08Run,
		Rule: "recon: L is a generated root container in which every item of every list holds at least one scalar; R is derived from L exactly as the quantifier says: keyed subtrees deleted, new keyed subtrees (arbitrary) added under fresh keys, lists replaced by other lists (unrelated ones, near misses, and copies that differ in exactly one scalar by a confusable pair: same number under another Go type, neighbouring integers beyond 2^53, a value and its printed text), nothing else; flattened views are compared as (path, Go type, text) triples; the reconstruction predicate is evaluated only when the decidable domain predicate Compat(L,R) && ItemsHaveScalars(L) holds (it does for every generated case; it guards shrinking). empty / delabsent / single: generated documents and flatten-style paths (1-4 components, 0-2 index groups each, aimed at existing positions two times out of three, sometimes ending in or containing the empty name). seq: 1-6 random modifications, model correspondence only. A recon case is non-trivial when Diff(L,R) is non-empty; the others always; distinct = distinct canonical case JSON (hash).",
		Assumptions: []string{"member names are arbitrary strings without the path metacharacters '.', '[' and ']' (four pools: plain, names interleaving with a. / a[ in byte order, unusual ASCII / Latin-1, and TEXT: leading / trailing / inner blanks, tabs, NBSP, line breaks, case and blank twins of a sibling, supplementary-plane characters, U+FFFD, syntax look-alikes, long numerals); one document in four has ONE member with the empty name \"\" somewhere below the root (path 'parent.'); the root's own members have non-empty names (otherwise flattened paths are ambiguous); list indices are canonical decimals",
			"scalars are NaN-free and -0-free",
			"'every list item containing at least one scalar' is required of L's lists (the ones rebuilt from Adds); R's replacement lists are mostly generated the same way and sometimes arbitrary"}})
	evals["C08"] = c08Eval
	shrinkers["C08"] = shrinkJSON
}

// ---------------------------------------------------------------- domain predicates (on wire values)

// c08ItemsHaveScalars: every item of every list, at any depth, contains at least one scalar.
func c08ItemsHaveScalars(w W) bool {
	switch x := w.(type) {
	case []any:
		for _, e := range x {
			if wireScalars(e) == 0 || !c08ItemsHaveScalars(e) {
				return false
			}
		}
	case map[string]any:
		if c, ok := x["m"].(map[string]any); ok {
			for _, e := range c {
				if !c08ItemsHaveScalars(e) {
					return false
				}
			}
		}
	}
	return true
}

// c08Compat: wherever both containers define a keyed position the kinds agree and scalars are
// equal; lists are unconstrained.
func c08Compat(l, r W) bool {
	lc, lok := wireCont(l)
	rc, rok := wireCont(r)
	if !lok || !rok {
		return false
	}
	for k, lv := range lc {
		rv, ok := rc[k]
		if !ok {
			continue
		}
		lk, rk := wireKind(lv), wireKind(rv)
		if lk != rk {
			return false
		}
		switch lk {
		case "leaf":
			if canon(lv) != canon(rv) {
				return false
			}
		case "cont":
			if !c08Compat(lv, rv) {
				return false
			}
		}
	}
	return true
}

// ---------------------------------------------------------------- generators

// c08FixLists replaces every scalar-free list item by a scalar.
func c08FixLists(r *rand.Rand, g *DocGen, w W) W {
	switch x := w.(type) {
	case []any:
		for i, e := range x {
			if wireScalars(e) == 0 {
				x[i] = g.Scalar(r)
			} else {
				x[i] = c08FixLists(r, g, e)
			}
		}
		return x
	case map[string]any:
		if c, ok := x["m"].(map[string]any); ok {
			for _, k := range sortedKeys(c) {
				c[k] = c08FixLists(r, g, c[k])
			}
		}
	}
	return w
}

var c08KeysOdd = []string{"cpu%", "50%ile", "a b", "ü", "k:v", "#x", "%d", "a"}

// c08KeysText: member names as TEXT.  Any string without the three path metacharacters '.', '[' and ']' is a legal
// member name that a flatten-style path carries unchanged: names with leading / trailing / inner white space (space,
// tab, NBSP, newline), names that differ only by case or by surrounding space from a sibling, non-ASCII names incl.
// supplementary-plane characters and U+FFFD, names that look like syntax of some other notation, numerals incl. very
// long ones.
var c08KeysText = []string{"a", " a", "a ", "A", "\ta", "a\t", " ", "a b", " a b ", "a\u00a0", "\u00a0", "a\nb", "\n", "maxConn", "maxconn",
	"\U0001F680", "\U0001D6FC", "\ufffd", "{a}", "${a}", "a=b", "a:b", "#", "!a", "\\", "/", "a/b", "~", "(", "*", "0", "-1", "01",
	"18446744073709551616", "9223372036854775808", "true", "null"}

// c08TextKeys draws a pool of 5-8 such names (a small pool, so that the two documents of a pair share names often);
// a name and its space / case twin are drawn together half of the time.
func c08TextKeys(r *rand.Rand) []string {
	n := 5 + r.Intn(4)
	out := make([]string, 0, n+2)
	if r.Intn(2) == 0 {
		out = append(out, pick(r, [][]string{{"a", " a", "a "}, {"a", "A"}, {"maxConn", "maxconn"}, {"a b", " a b "}, {" ", "\u00a0"}, {"a", "a\t", "\ta"}})...)
	}
	for len(out) < n {
		out = append(out, pick(r, c08KeysText))
	}
	return out
}

// c08EmptyName gives one member below the root the empty name "" (one document in four): below a mapping the empty
// string is a name like any other, its flatten-style path is the parent's path followed by the separator ("parent.").
// Directly below the root the paths of its descendants would coincide with those of the root's other members, so the
// root's own members keep non-empty names.
func c08EmptyName(r *rand.Rand, w W) W {
	if r.Intn(4) > 0 {
		return w
	}
	var inner []map[string]any
	var walk func(x W, root bool)
	walk = func(x W, root bool) {
		switch v := x.(type) {
		case []any:
			for _, e := range v {
				walk(e, false)
			}
		case map[string]any:
			if c, ok := v["m"].(map[string]any); ok {
				if !root && len(c) > 0 {
					inner = append(inner, c)
				}
				for _, k := range sortedKeys(c) {
					walk(c[k], false)
				}
			}
		}
	}
	walk(w, true)
	if len(inner) == 0 {
		return w
	}
	c := pick(r, inner)
	if _, has := c[""]; has {
		return w
	}
	k := pick(r, sortedKeys(c))
	if r.Intn(2) == 0 {
		c[""] = c[k]
		delete(c, k)
	} else {
		c[""] = scalarWire("e")
	}
	return w
}

// c08Doc generates a document with g; one member below the root is sometimes given the empty name.
func c08Doc(r *rand.Rand, g *DocGen) W {
	return c08EmptyName(r, g.Doc(r))
}

func c08Gen(r *rand.Rand) *DocGen {
	g := stdGen()
	switch r.Intn(4) {
	case 0:
		g.Keys = c07KeysB
	case 1:
		// keys that are free of the path metacharacters '.', '[' and ']' but otherwise unusual
		// (the property does not restrict keys beyond what a flatten-style path needs)
		g.Keys = c08KeysOdd
	case 2:
		g.Keys = c08TextKeys(r)
	}
	g.MaxDepth = 3 + r.Intn(3)
	g.PList = 0.35 + 0.3*r.Float64()
	g.PLeaf = 0.4 + 0.2*r.Float64()
	return g
}

// c08Derive builds R from the container l: delete keyed subtrees, replace lists, add new keyed subtrees.
func c08Derive(r *rand.Rand, g *DocGen, l W, depth int) W {
	lc, _ := wireCont(l)
	m := map[string]any{}
	for _, k := range sortedKeys(lc) {
		v := lc[k]
		if r.Intn(5) == 0 {
			continue // keyed subtree deleted
		}
		switch wireKind(v) {
		case "cont":
			m[k] = c08Derive(r, g, v, depth+1)
		case "list":
			switch r.Intn(4) {
			case 0: // another list, unrelated
				nl := g.List(r, depth+1)
				if r.Intn(4) > 0 {
					nl = c08FixLists(r, g, nl)
				}
				m[k] = nl
			case 1: // another list, a near miss of the left one (items gain / lose keys, items added / dropped / swapped)
				wrap := W(map[string]any{"m": map[string]any{"k": deepCopyW(v)}})
				for i, n := 0, 1+r.Intn(3); i < n; i++ {
					wrap = g.Mutate(r, wrap)
				}
				wc, _ := wireCont(wrap)
				if nl, ok := wc["k"].([]any); ok {
					m[k] = nl
				} else {
					m[k] = deepCopyW(v)
				}
			default:
				m[k] = deepCopyW(v)
			}
		default:
			m[k] = deepCopyW(v)
		}
	}
	for i, n := 0, r.Intn(3); i < n; i++ {
		k := pick(r, g.Keys)
		if _, inL := lc[k]; inL {
			continue
		}
		m[k] = g.Node(r, depth+1) // new keyed subtree, arbitrary
	}
	return map[string]any{"m": m}
}

// c08TwinPair: L and R agree everywhere except that one list of R is a copy of L's list differing in exactly ONE
// scalar, and only by a confusable pair (the same number under two Go types, neighbouring integers beyond 2^53,
// a number and its printed text, ...).  "Replacing a list by another list" includes the other list that is
// almost the same one: a Diff that decides list equality more loosely than it compares keyed scalars emits
// nothing for it and the reconstruction keeps R's scalar.  The rest of R is derived as usual.
func c08TwinPair(r *rand.Rand, g *DocGen) (W, W, bool) {
	l := c08FixLists(r, g, g.Doc(r))
	var slots, inList [][]any
	wireLeafSlots(l, nil, &slots)
	for _, s := range slots {
		for _, e := range s[1:] {
			if _, ok := e.(int); ok {
				inList = append(inList, s)
				break
			}
		}
	}
	if len(inList) == 0 {
		return nil, nil, false
	}
	s := pick(r, inList)
	a, b := twinPair(r)
	l = wireSetSlot(l, s, a)
	var rr W = deepCopyW(l)
	if r.Intn(2) == 0 {
		rr = c08Derive(r, g, l, 0)
	}
	lc, _ := wireCont(l)
	rc, _ := wireCont(rr)
	k := s[0].(string)
	rc[k] = wireSetSlot(deepCopyW(lc[k]), s[1:], b)
	return l, rr, true
}

func c08Path(r *rand.Rand, g *DocGen, d W) string {
	var paths, lists []string
	wirePaths(d, "", &paths, &lists)
	comp := func() string {
		s := pick(r, g.Keys)
		for i, n := 0, []int{0, 0, 0, 1, 1, 2}[r.Intn(6)]; i < n; i++ {
			s += fmt.Sprintf("[%d]", r.Intn(4))
		}
		return s
	}
	p := ""
	if len(paths) > 0 && r.Intn(3) > 0 {
		p = pick(r, paths)
		switch r.Intn(4) {
		case 0:
			p += "." + comp()
		case 1:
			p += fmt.Sprintf("[%d]", r.Intn(4))
		case 2:
			if r.Intn(2) == 0 {
				p += "." // the empty name below an existing position
			}
		}
		return p
	}
	for i, n := 0, 1+r.Intn(4); i < n; i++ {
		if i > 0 {
			p += "."
		}
		if i > 0 && r.Intn(12) == 0 {
			continue // the empty name (never as the first component)
		}
		p += comp()
	}
	return p
}

func c08Run(c *Ctx) {
	r := c.Rng
	for i := 0; i < c.N(4000); i++ {
		c.Tick()
		g := c08Gen(r)
		l := c08FixLists(r, g, c08Doc(r, g))
		c.Do("recon", c08Recon{l, c08Derive(r, g, l, 0)})
	}
	for i := 0; i < c.N(1200); i++ {
		c.Tick()
		g := c08Gen(r)
		g.PList += 0.15
		if l, rr, ok := c08TwinPair(r, g); ok {
			c.Dist("recon:list-differs-by-one-confusable-scalar")
			c.Do("recon", c08Recon{l, rr})
		}
	}
	for i := 0; i < c.N(300); i++ {
		c.Tick()
		g := c08Gen(r)
		c.Do("empty", c08Apply{D: c08Doc(r, g)})
	}
	for i := 0; i < c.N(1500); i++ {
		c.Tick()
		g := c08Gen(r)
		d := c08Doc(r, g)
		p := c08Path(r, g, d)
		c.Do("delabsent", c08Apply{D: d, Mods: []c07Mod{{"Delete", p, scalarWire(nil), scalarWire(nil)}}, Lookups: []string{p}})
	}
	for i := 0; i < c.N(2500); i++ {
		c.Tick()
		g := c08Gen(r)
		d := c08Doc(r, g)
		p := c08Path(r, g, d)
		ty := "Add"
		old := scalarWire(nil)
		if r.Intn(2) == 0 {
			ty = "Change"
			old = g.Scalar(r)
		}
		c.Do("single", c08Apply{D: d, Mods: []c07Mod{{ty, p, g.Scalar(r), old}}, Lookups: []string{p}})
	}
	for i := 0; i < c.N(1500); i++ {
		c.Tick()
		g := c08Gen(r)
		d := c08Doc(r, g)
		var ms []c07Mod
		var lk []string
		for j, n := 0, 1+r.Intn(6); j < n; j++ {
			p := c08Path(r, g, d)
			lk = append(lk, p)
			switch r.Intn(3) {
			case 0:
				ms = append(ms, c07Mod{"Delete", p, scalarWire(nil), scalarWire(nil)})
			case 1:
				ms = append(ms, c07Mod{"Add", p, g.Scalar(r), scalarWire(nil)})
			default:
				ms = append(ms, c07Mod{"Change", p, g.Scalar(r), g.Scalar(r)})
			}
		}
		c.Do("seq", c08Apply{D: d, Mods: ms, Lookups: lk})
	}
}

// ---------------------------------------------------------------- evaluation

func c08Mods(ms []c07Mod) []diff.Modification {
	out := make([]diff.Modification, 0, len(ms))
	for _, m := range ms {
		var v, o any
		if vm, ok := m.Value.(map[string]any); ok {
			t, _ := vm["t"].(string)
			s, _ := vm["v"].(string)
			v = scalarFromWire(t, s)
		}
		if om, ok := m.Old.(map[string]any); ok {
			t, _ := om["t"].(string)
			s, _ := om["v"].(string)
			o = scalarFromWire(t, s)
		}
		out = append(out, diff.Modification{Type: diff.ModificationType(m.Ty), Path: m.Path, Value: v, OldValue: o})
	}
	return out
}

func c08ModsOK(ms []c07Mod) bool {
	for _, m := range ms {
		if m.Ty != "Add" && m.Ty != "Change" && m.Ty != "Delete" {
			return false
		}
		if !isWireLeaf(m.Value) || !isWireLeaf(m.Old) || m.Path == "" {
			return false
		}
	}
	return true
}

func c08Eval(c *Ctx, kind string, raw []byte) {
	if kind == "recon" {
		var p c08Recon
		if err := json.Unmarshal(raw, &p); err != nil {
			panic(err)
		}
		if !c07IsDoc(p.L) || !c07IsDoc(p.R) || !c08Compat(p.L, p.R) || !c08ItemsHaveScalars(p.L) {
			c.Dist("recon:outside-domain(skipped)")
			return
		}
		var lflat, got []any
		var doc W
		var nmods int
		out, txt := guard(func() {
			l, r := wireContainer(p.L), wireContainer(p.R)
			mods := *diff.Diff(l, r)
			nmods = len(mods)
			for _, m := range mods {
				c.Dist("recon:mod:" + string(m.Type))
			}
			diff.Apply(r, mods)
			lflat, got = flattenWire(l), flattenWire(r)
			doc = nodeWire(r)
		})
		if !c.Direct("no-panic", out == "ok", txt) {
			return
		}
		if nmods > 0 {
			c.Nontrivial()
		} else {
			c.Dist("recon:diff-empty")
		}
		c.Direct("apply-diff-reconstructs-left-flatten", canon(got) == canon(lflat),
			map[string]any{"Flatten(Apply(R,Diff(L,R)))": got, "Flatten(L)": lflat})
		m := c.Model("recon", map[string]any{"l": p.L, "r": p.R})
		c.Corr("applyDiff", map[string]any{"doc": doc, "flat": got}, m)
		return
	}
	var p c08Apply
	if err := json.Unmarshal(raw, &p); err != nil {
		panic(err)
	}
	if !c07IsDoc(p.D) || !c08ModsOK(p.Mods) {
		c.Dist(kind + ":malformed(skipped)")
		return
	}
	c.Nontrivial()
	var before, after W
	var absent []bool
	var looks []any
	var looked []dom.Node
	out, txt := guard(func() {
		d := wireContainer(p.D)
		before = nodeWire(d)
		for _, q := range p.Lookups {
			absent = append(absent, d.Lookup(q) == nil)
		}
		if kind == "empty" {
			diff.Apply(d, nil)
			diff.Apply(d, []diff.Modification{})
		} else {
			diff.Apply(d, c08Mods(p.Mods))
		}
		after = nodeWire(d)
		for _, q := range p.Lookups {
			n := d.Lookup(q)
			looked = append(looked, n)
			looks = append(looks, nodeWire(n))
		}
	})
	if !c.Direct("no-panic", out == "ok", txt) {
		return
	}
	switch kind {
	case "empty":
		c.Direct("apply-empty-list-changes-nothing", canon(before) == canon(after), map[string]any{"before": before, "after": after})
		return
	case "delabsent":
		if len(p.Mods) != 1 || p.Mods[0].Ty != "Delete" || len(p.Lookups) != 1 || p.Lookups[0] != p.Mods[0].Path {
			c.Dist("delabsent:malformed(skipped)")
			return
		}
		if absent[0] {
			c.Dist("delabsent:absent")
			c.Direct("delete-of-absent-path-is-noop", canon(before) == canon(after), map[string]any{"before": before, "after": after})
		} else {
			c.Dist("delabsent:present(model only)")
		}
	case "single":
		if len(p.Mods) != 1 || p.Mods[0].Ty == "Delete" || len(p.Lookups) != 1 || p.Lookups[0] != p.Mods[0].Path {
			c.Dist("single:malformed(skipped)")
			return
		}
		c.Dist("single:" + p.Mods[0].Ty)
		n := looked[0]
		ok := n != nil && n.IsLeaf() && canon(scalarWire(n.(dom.Leaf).Value())) == canon(p.Mods[0].Value)
		c.Direct("single-add-or-change-then-lookup-returns-value", ok, map[string]any{"Lookup": looks[0], "doc": after})
	}
	lk := p.Lookups
	if lk == nil {
		lk = []string{}
	}
	m := c.Model("apply", map[string]any{"d": p.D, "mods": p.Mods, "lookups": lk})
	if looks == nil {
		looks = []any{}
	}
	c.Corr("apply", map[string]any{"doc": after, "lookups": looks}, m)
}
