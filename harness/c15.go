package main

import (
	"encoding/json"
	"fmt"
	"math/rand"
	"reflect"
	"regexp"
	"sort"
	"strings"

	"github.com/rkosegi/yaml-toolkit/dom"
	"github.com/rkosegi/yaml-toolkit/pipeline"
	"gopkg.in/yaml.v3"
)

// C15 — cloning an action preserves everything that was configured.
//
// Case kinds:
//   table   the reflection-derived (type, field, Go type, clone tag) list of every type with a
//           CloneWith method reachable from OpSpec equals the extractor's clone table
//   clone   one operation type (field of OpSpec), a subset of its fields populated by kind from a
//           seed (template-free), optionally `{{ .x }}` text in some clone:"template" fields;
//           CloneWith under a real ActionContext; wrapped as bare op / OpSpec / ActionSpec / ChildActions
//   exec    a data-only action spec (JSON → YAML → ActionSpec) executed as original and as clone on
//           equal data; also as the body of a forEach against the uncloned sequential reference
//   feach   a forEach over >= 2 items whose body's text fields (log message, set / template / patch path,
//           exec argument list, in the body's operations or in a `steps` child) use `{{ .<variable> }}`:
//           per item the effects and logs are those of a FRESH copy of the body cloned and executed for
//           that item (the per-item clone leaves the forEach's own body untouched); running the same
//           forEach value again gives the same again

type c15Clone struct {
	Op     string   `json:"op"`     // field name of OpSpec; the operation type is the pointed-to type
	Fields []string `json:"fields"` // fields of the operation type that are populated (others stay zero)
	Seed   int64    `json:"seed"`   // value choices
	Tpl    []string `json:"tpl"`    // text fields that receive template text (clone:"template" fields: the clone must hold the rendered text)
	// which template text (c15TplTexts) the Tpl fields receive; 0 = "pre-{{ .x }}-post"
	TplKind int    `json:"tplKind,omitempty"`
	X       string `json:"x"`    // value of .x in the data
	Wrap    string `json:"wrap"` // "" | opspec | action | children
	// fields (among Fields) configured with an EMPTY value: non-nil pointer to "" / false / 0 / empty slice,
	// empty non-nil slice or map.  A non-nil pointer to an empty string is a configured value like any other.
	Empty []string `json:"empty,omitempty"`
	// text fields (among Fields) that hold a template which CANNOT be rendered against the context's data: one that
	// parses and FAILS WHILE IT IS BEING EXECUTED, after it has already produced output, or one that does not parse
	// (c15BadTemplates[BadKind]).  Rendering is lenient: such a text is kept as it is — and every OTHER field of the
	// clone (and of every clone made afterwards) holds exactly what it holds without that neighbour.
	Bad     []string `json:"bad,omitempty"`
	BadKind int      `json:"badKind,omitempty"`
	// > 0: the clone is PRECEDED, in the same context, by the clone of ANOTHER operation (a log operation) whose
	// message is the unrenderable template c15BadTemplates[Pre-1]
	Pre int `json:"pre,omitempty"`
	// EQUIVALENT ENTRY POINT: the wrapping value (OpSpec / ActionSpec / ChildActions — their methods have value
	// receivers, so a pointer to one is an Action too) is cloned through a POINTER to it: (&spec).CloneWith(ctx)
	// yields what spec.CloneWith(ctx) yields
	Ptr bool `json:"ptr,omitempty"`
	// THE CONTEXT'S DATA IS MORE THAN x: at every path that a text of the (expected) clone names — a path field, a
	// file name that happens to be a path, a rendered `pre-V-post` — the data holds a CONTAINER that has an `x` and an
	// `other.y` of its own (other values than at the root).  Template-bearing fields are rendered against the
	// context's data, i.e. its root: the clone holds the same texts as without those containers.
	Nest bool `json:"nest,omitempty"`
	// THE CLONING CONTEXT HAS A HISTORY (c15_hist.go): the executor in whose context the clone is made has executed
	// define operations before — one per text the operation holds, each with a body of its own — and has ext action
	// factories registered under the same texts.  The data is what it is without them: so is the clone.
	Hist bool `json:"hist,omitempty"`
}

var c15PathSafeRe = regexp.MustCompile(`^[A-Za-z0-9_-]+(\.[A-Za-z0-9_-]+)*$`)

// c15Texts collects every text held by a value (strings, pointers to / slices of them, value-or-reference texts,
// nested structs / maps of actions).
func c15Texts(v reflect.Value, depth int, out map[string]bool) {
	if !v.IsValid() || depth > 12 {
		return
	}
	switch v.Kind() {
	case reflect.String:
		out[v.String()] = true
	case reflect.Ptr, reflect.Interface:
		if !v.IsNil() {
			c15Texts(v.Elem(), depth+1, out)
		}
	case reflect.Slice, reflect.Array:
		for i := 0; i < v.Len(); i++ {
			c15Texts(v.Index(i), depth+1, out)
		}
	case reflect.Map:
		for _, k := range v.MapKeys() {
			c15Texts(v.MapIndex(k), depth+1, out)
		}
	case reflect.Struct:
		if v.Type() == reflect.TypeOf(regexp.Regexp{}) {
			return
		}
		for i := 0; i < v.NumField(); i++ {
			if v.Type().Field(i).IsExported() {
				c15Texts(v.Field(i), depth+1, out)
			}
		}
	}
}

// c15NestData places a container {x, other.y} of its own at every path-safe text of v (shorter paths first).
func c15NestData(data dom.ContainerBuilder, v reflect.Value, x string) int {
	texts := map[string]bool{}
	c15Texts(v, 0, texts)
	var paths []string
	for t := range texts {
		if c15PathSafeRe.MatchString(t) && t != "x" && t != "other" && !strings.HasPrefix(t, "x.") && !strings.HasPrefix(t, "other.") {
			paths = append(paths, t)
		}
	}
	sort.Slice(paths, func(i, j int) bool {
		if len(paths[i]) != len(paths[j]) {
			return len(paths[i]) < len(paths[j])
		}
		return paths[i] < paths[j]
	})
	for _, p := range paths {
		n := dom.Builder().Container()
		n.AddValue("x", dom.LeafNode("nested:"+x))
		n.AddValueAt("other.y", dom.LeafNode(2))
		data.AddValueAt(p, n)
	}
	return len(paths)
}

// c15PtrTo: a pointer to (a copy of) the wrapping value; other actions as they are.
func c15PtrTo(a pipeline.Action) pipeline.Action {
	switch x := a.(type) {
	case pipeline.OpSpec:
		return &x
	case pipeline.ActionSpec:
		return &x
	case pipeline.ChildActions:
		return &x
	}
	return a
}

// c15Deref: the wrapping value behind a pointer to it; other actions as they are.
func c15Deref(a pipeline.Action) pipeline.Action {
	switch x := a.(type) {
	case *pipeline.OpSpec:
		if x != nil {
			return *x
		}
	case *pipeline.ActionSpec:
		if x != nil {
			return *x
		}
	case *pipeline.ChildActions:
		if x != nil {
			return *x
		}
	}
	return a
}

// c15BadTemplates: texts that look like templates and cannot be rendered against the data of a clone case
// (x: a text, other.y: a number): they parse and fail while being EXECUTED, after having produced output (a field
// of a scalar, an associated template nobody defined, sprig's fail, an index of something that is not there), or
// they do not parse at all.  None of them holds the micro-fragment `{{ .x }}` the model renders.
var c15BadTemplates = []string{
	"deploy-{{ .other.y.name }}",
	"{{ .other.y }}:{{ .x.y.z }}-tail",
	"lead {{ template \"nope\" }} trail",
	"a{{ fail \"boom\" }}b",
	"pre {{ index .nokey 3 }}",
	"0123456789012345678901234567890123456789012345678901234567890123456789-{{ .other.y.q }}", // longer than a small buffer
	"{{ .other.y }}{{ end }}",
	"open {{ .other.y",
}

func c15BadText(k int) string {
	if k < 0 {
		k = -k
	}
	return c15BadTemplates[k%len(c15BadTemplates)]
}

type c15Exec struct {
	Spec    map[string]any `json:"spec"` // action spec in YAML-shaped JSON
	Data    W              `json:"data"`
	ForEach []string       `json:"forEach,omitempty"` // non-nil: also run spec as the body of forEach over these items
	Var     string         `json:"var,omitempty"`
}

type c15FE struct {
	Body  map[string]any `json:"body"` // action spec in YAML-shaped JSON; text fields use {{ .<var> }}
	Items []string       `json:"items"`
	Var   string         `json:"var,omitempty"`
	Data  W              `json:"data"`
}

func init() {
	register(&Prop{ID: "C15", Run: c15Run,
		Rule: "operation types are enumerated by reflection from pipeline.OpSpec (recursively through pointed-to types); each is populated by kind (strings, *string, bool, []int, []string, maps, *ValOrRef / *AnyVal / ActionSpec / ChildActions decoded from YAML or built recursively) from a seed, cloned under a real ActionContext and compared field by field (nil/empty identified), bare and wrapped in OpSpec / ActionSpec / ChildActions — the wrapping value cloned directly and through a POINTER to it ((&spec).CloneWith(ctx), an equivalent entry point) —; slices are populated with 0..2 and with 3, 5, 6, 7, 9 elements; template cases put a template over the micro-fragment `{{ .x }}` into clone:\"template\" fields — the plain `pre-{{ .x }}-post` and (VALUE RANGE, per tagged field of every operation type and at random) texts with a `}}` BEFORE the first `{{` (nested JSON in a message, `odd}}key.{{ .x }}`), the action at the very beginning / end / twice, next to braces, dots, white space, non-ASCII text and line ends — with .x from {V, a.b, 7, empty, blank, `.`, `}}`, non-ASCII …}: the clone holds the text text/template renders (every `{{ .x }}` replaced, the rest literal); template-free texts are drawn from a pool that also holds paths beginning / ending with the separator or holding an empty segment (`.defaults`, `labels.`, `a..b`: an empty-named key is a key), names that differ from their cleaned / trimmed form, leading / trailing white space, letter-case twins, supplementary-plane characters, U+FFFD, syntax look-alikes, digit strings beyond 64 bits, the empty text, `}} {{`; configured-but-empty values (non-nil pointer to \"\" / false / 0 / empty slice, empty non-nil slices and maps) are populated per field, alone and next to all other fields; value-or-reference values are populated in both kinds and in the odd forms too (an immediate value that also has Ref set, a reference that also has Val set, an empty reference); template text also goes into text fields that are NOT tagged (string, *string, []string elements, *[]string elements, *ValOrRef: the clone may hold them verbatim or rendered) and every templated value is cloned twice under different data with a deep snapshot of the original (slice elements included) compared before/after, and the FIRST clone compared with what it was before the second one was made; FAILURE THEN SUCCESS: per text field of every operation type (and at random) the field holds a template that CANNOT be rendered — it parses and fails while it is being executed, after it has produced output (field of a scalar, undefined associated template, sprig's fail, index of a missing key; short and longer than 64 bytes), or it does not parse — while the other template fields hold templates that render, and/or the clone is preceded, in the same context, by the clone of another operation whose template cannot be rendered: the unrenderable text is kept as it is, every other field holds exactly the rendered text, and a plain log operation cloned afterwards holds its rendered message; exec cases run data-only specs (set, patch, template, log, abort, define+call, loop, forEach) as original and clone on equal data (the clone first: the original must still be what it was after the clone ran) and as forEach bodies; vor cases take one value-or-reference — decoded scalar, decoded {ref: …}, composite literal with Ref AND Val, decoded reference with Val set; Ref / Val from {empty, path of a leaf, missing path, `{{ .x }}` with .x possibly empty} (small scope exhaustively, then random) — on its own ((*ValOrRef).CloneWith) and as every *ValOrRef field of every operation type found by reflection, bare / in OpSpec / in ActionSpec: the clone is compared field by field (the unexported kind flag included; reflect.DeepEqual with the original when template-free), resolved on data where the path named by Ref holds something else than Val, and executed (export: which files are written with what content, log lines; forEach over a query: log lines) against the original; feach cases run a forEach over 2-3 items whose body (log, set, template, patch, exec `true` with an argument list, in operations or in a steps child) uses `{{ .<variable> }}` and compare outcome, data and logs with a fresh copy of the body cloned+executed per item, and with a second run of the same forEach value. ROUND 6, SYNTAX LOOK-ALIKES AND SHAPES: trees held by an operation (any-values, set data, call / ext arguments; in clone, exec and nested action cases) also have KEYS that look like syntax of a neighbouring notation — dotted paths (`app.kubernetes.io/name`, `a..b`, `.lead`, `trail.`), index groups (`l[0]`, `m[1].k`), JSON pointers and their escapes (`/p`, `/a/b`, `~0`, `~1`), `k=v`, `*`, `%s`, `$x`, digits only, `-`, the empty key — and rare shapes (an empty collection followed by more content, lists directly in lists three levels deep with unequal lengths): a key is a key, the clone holds the same tree and executing it places the same tree; the value of .x is also text that LOOKS LIKE a template action which would render against the data (`{{ .other.y }}`, `v-{{ .other.y }}.yaml`, a comment action, a raw-string action, `{{ .x }}` itself), `%s`, `${x}`, `*`: the clone holds the text rendered ONCE — rendered text is text (a fixed table runs every operation type's template fields under each such value, bare and wrapped). THE CLONING CONTEXT HAS A HISTORY (Hist; c15_hist.go): a fixed table per operation type (all fields template-free bare and in every wrap, the tagged fields with template text, each field alone) and random cases are cloned in the context of an executor that has, before, executed one define operation per text the operation under test holds (original and expected clone; each with a body of its own) and has ext action factories registered under the same texts — the data is untouched by that, so the clone holds what it holds in a fresh context. ROUND 8, THE CONTEXT'S DATA IS MORE THAN x (Nest): in a third of the random clone cases and in a fixed table per operation type (its clone:\"template\" fields alone / next to all others, four template texts, bare and wrapped) the data of the cloning context also holds, at EVERY path-safe text of the expected clone (a path field, a file name that happens to be a path, a rendered `pre-V-post` / `V.name` / `name.V`), a container with an `x` and an `other.y` of its own: template-bearing fields are rendered against the context's data (its root), so the clone holds the same texts as without them. TREES (c15_tree.go): an action spec with 2-4 operations side by side in one OpSpec, in `steps` children and nested in forEach / loop / define bodies (two levels), whose text fields hold templates that READ the data (`{{ .x }}`, `{{ .other.y }}`, `{{ .cfg.name }}`), templates that also WRITE to the map they are rendered against (sprig set / unset on `.` or a nested map, the defaulting idiom) and literals, is cloned as ActionSpec / OpSpec / ChildActions in a real context; every operation of the tree, at every depth, is also cloned ON ITS OWN in a fresh context over equal data and the tree's clone must hold exactly that at the operation's place (what an operation's clone holds depends on the operation and the context's data, not on its neighbours or the order of the walk); original and context data are compared before / after; a fixed table has each writing template in one operation and a reading one in a sibling / child step / forEach body. Non-trivial: at least one field populated (tree: at least two operations). distinct = distinct canonical case JSON.",
		Assumptions: []string{"text/template + sprig is an external library: the model renders only the micro-fragment `{{ .x }}`; template-free = no `{{` … `}}` pair in any string (possiblyTemplate is false)",
			"helpers safeRenderStrPointer/safeRenderStrSlice/safeCopyIntSlice/safeCloneValOrRef are classified by name by the extractor; their behaviour is validated only by this harness",
			"operations with OS effects (exec, templateFile, import, export, env, ext, html2dom) are cloned and compared but not executed — except exec of the program `true` (no output, no files) in feach cases and export in vor cases (into a scratch directory under .work, which is also the working directory while the operation runs)"}})
	evals["C15"] = c15Eval
	shrinkers["C15"] = shrinkJSON
}

// ---------------------------------------------------------------- context

type c15Probe struct {
	f func(ctx pipeline.ActionContext) error
}

func (p *c15Probe) String() string                                   { return "c15probe" }
func (p *c15Probe) Do(ctx pipeline.ActionContext) error              { return p.f(ctx) }
func (p *c15Probe) CloneWith(pipeline.ActionContext) pipeline.Action { return p }

type c15Listener struct{ logs []string }

func (l *c15Listener) OnBefore(pipeline.ActionContext)       {}
func (l *c15Listener) OnAfter(pipeline.ActionContext, error) {}
func (l *c15Listener) OnLog(_ pipeline.ActionContext, v ...interface{}) {
	l.logs = append(l.logs, fmt.Sprint(v...))
}

// c15WithCtx runs f with the ActionContext the real executor creates over data.
func c15WithCtx(data dom.ContainerBuilder, l pipeline.Listener, f func(ctx pipeline.ActionContext) error) error {
	opts := []pipeline.Opt{pipeline.WithData(data)}
	if l != nil {
		opts = append(opts, pipeline.WithListener(l))
	}
	return pipeline.New(opts...).Execute(&c15Probe{f})
}

// ---------------------------------------------------------------- reflection

var c15ActionIface = reflect.TypeOf((*pipeline.Action)(nil)).Elem()
var c15RegexpPtr = reflect.TypeOf((*regexp.Regexp)(nil))
var c15AnyValPtr = reflect.TypeOf((*pipeline.AnyVal)(nil))
var c15Unmarshaler = reflect.TypeOf((*yaml.Unmarshaler)(nil)).Elem()

func c15InPipeline(t reflect.Type) bool {
	return strings.HasSuffix(t.PkgPath(), "yaml-toolkit/pipeline")
}

// c15HasClone: t (non-pointer) or *t has a method CloneWith.
func c15HasClone(t reflect.Type) bool {
	if t.Kind() == reflect.Ptr {
		t = t.Elem()
	}
	if !c15InPipeline(t) {
		return false
	}
	if _, ok := t.MethodByName("CloneWith"); ok {
		return true
	}
	_, ok := reflect.PtrTo(t).MethodByName("CloneWith")
	return ok
}

func c15TypeName(t reflect.Type) string {
	s := strings.ReplaceAll(t.String(), "pipeline.", "")
	s = strings.Join(strings.Fields(s), "")
	return strings.ReplaceAll(s, "interface{}", "any")
}

type c15FieldInfo struct {
	Name   string `json:"name"`
	GoType string `json:"goType"`
	Tag    string `json:"tag"`
}

// c15ReflectTable: every type with CloneWith reachable from OpSpec, with its fields.
func c15ReflectTable() map[string][]c15FieldInfo {
	out := map[string][]c15FieldInfo{}
	seen := map[reflect.Type]bool{}
	var visit func(t reflect.Type)
	visit = func(t reflect.Type) {
		for t.Kind() == reflect.Ptr || t.Kind() == reflect.Slice {
			t = t.Elem()
		}
		if seen[t] || !c15InPipeline(t) {
			return
		}
		seen[t] = true
		switch t.Kind() {
		case reflect.Struct:
			var fs []c15FieldInfo
			for i := 0; i < t.NumField(); i++ {
				f := t.Field(i)
				fs = append(fs, c15FieldInfo{f.Name, c15TypeName(f.Type), f.Tag.Get("clone")})
				visit(f.Type)
			}
			if c15HasClone(t) {
				out[t.Name()] = fs
			}
		case reflect.Map:
			if c15HasClone(t) {
				out[t.Name()] = []c15FieldInfo{{"*", c15TypeName(t.Elem()), ""}}
			}
			visit(t.Elem())
		}
	}
	visit(reflect.TypeOf(pipeline.OpSpec{}))
	return out
}

// c15OpTypes: OpSpec field name -> operation struct type.
func c15OpTypes() ([]string, map[string]reflect.Type) {
	t := reflect.TypeOf(pipeline.OpSpec{})
	names := []string{}
	m := map[string]reflect.Type{}
	for _, f := range reflect.VisibleFields(t) {
		if f.Type.Kind() == reflect.Ptr {
			names = append(names, f.Name)
			m[f.Name] = f.Type.Elem()
		}
	}
	return names, m
}

// c15Dump renders a value deterministically: pointers are followed (addresses never printed),
// nil and empty maps/slices print the same, map keys sorted, unexported fields included.
func c15Dump(v reflect.Value, depth int) string {
	if depth > 60 {
		return "<deep>"
	}
	if !v.IsValid() {
		return "nil"
	}
	switch v.Kind() {
	case reflect.Ptr:
		if v.IsNil() {
			return "nil"
		}
		if v.Type() == c15RegexpPtr && v.CanInterface() {
			return "re(" + v.Interface().(*regexp.Regexp).String() + ")"
		}
		if v.Type() == c15AnyValPtr && v.CanInterface() {
			return "any(" + canon(nodeWire(v.Interface().(*pipeline.AnyVal).Value())) + ")"
		}
		return "&" + c15Dump(v.Elem(), depth+1)
	case reflect.Interface:
		if v.IsNil() {
			return "nil"
		}
		return c15Dump(v.Elem(), depth+1)
	case reflect.Struct:
		parts := []string{}
		for i := 0; i < v.NumField(); i++ {
			parts = append(parts, v.Type().Field(i).Name+":"+c15Dump(v.Field(i), depth+1))
		}
		return "{" + strings.Join(parts, " ") + "}"
	case reflect.Slice, reflect.Array:
		parts := []string{}
		for i := 0; i < v.Len(); i++ {
			parts = append(parts, c15Dump(v.Index(i), depth+1))
		}
		return "[" + strings.Join(parts, " ") + "]"
	case reflect.Map:
		parts := []string{}
		for it := v.MapRange(); it.Next(); {
			parts = append(parts, c15Dump(it.Key(), depth+1)+":"+c15Dump(it.Value(), depth+1))
		}
		sort.Strings(parts)
		return "map[" + strings.Join(parts, " ") + "]"
	case reflect.String:
		return fmt.Sprintf("%q", v.String())
	case reflect.Bool:
		return fmt.Sprint(v.Bool())
	case reflect.Int, reflect.Int8, reflect.Int16, reflect.Int32, reflect.Int64:
		return fmt.Sprint(v.Int())
	case reflect.Uint, reflect.Uint8, reflect.Uint16, reflect.Uint32, reflect.Uint64, reflect.Uintptr:
		return fmt.Sprint(v.Uint())
	case reflect.Float32, reflect.Float64:
		return fmt.Sprint(v.Float())
	case reflect.Func, reflect.Chan, reflect.UnsafePointer:
		if v.IsNil() {
			return "nil"
		}
		return "<" + v.Kind().String() + ">"
	}
	return "<" + v.Kind().String() + ">"
}

// c15CV converts a value to the wire form of the model's clone values.
func c15CV(v reflect.Value) W {
	t := v.Type()
	switch {
	case t.Kind() == reflect.String:
		return map[string]any{"s": v.String()}
	case t.Kind() == reflect.Ptr && t.Elem().Kind() == reflect.String:
		if v.IsNil() {
			return map[string]any{"sp": nil}
		}
		return map[string]any{"sp": v.Elem().String()}
	case t.Kind() == reflect.Ptr && t.Elem().Kind() == reflect.Slice && t.Elem().Elem().Kind() == reflect.String:
		if v.IsNil() {
			return map[string]any{"ss": nil}
		}
		l := []any{}
		for i := 0; i < v.Elem().Len(); i++ {
			l = append(l, v.Elem().Index(i).String())
		}
		return map[string]any{"ss": l}
	case c15HasClone(t):
		if t.Kind() == reflect.Ptr {
			if v.IsNil() {
				return map[string]any{"nil": true}
			}
			v, t = v.Elem(), t.Elem()
		}
		fs := []any{}
		switch t.Kind() {
		case reflect.Struct:
			for i := 0; i < t.NumField(); i++ {
				fs = append(fs, []any{t.Field(i).Name, c15CV(v.Field(i))})
			}
		case reflect.Map:
			keys := []string{}
			for _, k := range v.MapKeys() {
				keys = append(keys, k.String())
			}
			sort.Strings(keys)
			for _, k := range keys {
				fs = append(fs, []any{k, c15CV(v.MapIndex(reflect.ValueOf(k)))})
			}
		}
		return map[string]any{"rec": t.Name(), "f": fs}
	}
	return map[string]any{"d": c15Dump(v, 0)}
}

// ---------------------------------------------------------------- population by kind

// c15Strings: template-free texts (no `{{` that a `}}` follows).  VALUE RANGE: paths that begin or end with the
// separator or hold an empty segment (an empty-named key is a key), names that differ from their cleaned / trimmed
// form, leading / trailing white space of every kind, letter-case twins, non-ASCII incl. supplementary-plane
// characters and U+FFFD, characters that look like syntax, digit strings beyond 64 bits, boolean / null
// spellings, the empty text, a `}}` that comes BEFORE a `{{`.
var c15Strings = []string{"abc", "a.b.c", "x y", "{{", "}}", "{ x }", "ünï", "l1\nl2", "v1", "0",
	".defaults", "labels.", ".", "a..b", "..", " lead", "trail ", "\ttab", "nl\n", "\u00a0nbsp\u00a0", "a//b", "./a", "a/", "MaxConn", "maxconn",
	"\U0001F680\U0001D6FC", "\ufffd", "12345678901234567890123", "9223372036854775808", "~", "#c", "!t", "a=b", "k: v", "[0]", "(x)", "\\", "TRUE", "f", "",
	"}} {{", "{{ }", "{\"a\":{\"b\":1}} {{"}

// c15TplTexts: template texts over the micro-fragment `{{ .x }}` (TplKind selects one; 0 = the plain one).  Every
// one of them is a template — text/template renders it, each `{{ .x }}` replaced by the value of x and the rest
// literal —, whatever stands around the actions: a `}}` BEFORE the first `{{` (nested JSON in a message), the
// action at the very beginning / end, twice, next to braces, dots, white space, non-ASCII text, line ends.
var c15TplTexts = []string{
	"pre-{{ .x }}-post",
	"{{ .x }}",
	"result {\"a\":{\"b\":1}} for {{ .x }}",
	"}} {{ .x }}",
	"{{ .x }}{{ .x }}",
	" {{ .x }}\t",
	"{{ .x }}.name",
	"name.{{ .x }}",
	".{{ .x }}.",
	"\u00fc\U0001F680-{{ .x }}-\U0001D6FC\ufffd",
	"{ {{ .x }} }",
	"a}b{c}}d {{ .x }} }",
	"{{ .x }} }} {{ .x }}",
	"l1\n{{ .x }}\r\nl3",
	"#!~\\/:=[({{ .x }})]",
	"odd}}key.{{ .x }}",
}

func c15TplText(kind int) string {
	if kind < 0 {
		kind = -kind
	}
	return c15TplTexts[kind%len(c15TplTexts)]
}

// c15Xs: values of .x — what `{{ .x }}` renders to
var c15Xs = []string{"V", "a.b", "7", "", " ", ".", "x y", "\U0001F680", "}}", "T", "pre.", "W",
	// values that LOOK LIKE template syntax (patterns kept verbatim in the data for another tool): what `{{ .x }}` renders
	// to is text — an action inside it that would render against the data (other.y is there), the action itself, a
	// comment, a printf verb, a placeholder
	"{{ .other.y }}", "v-{{ .other.y }}.yaml", "{{ .x }}", "{{/* c */}}", "{{ `t` }}", "%s", "${x}", "*"}

// c15LookXs: the values of .x among c15Xs that are template actions of their own
var c15LookXs = []string{"{{ .other.y }}", "v-{{ .other.y }}.yaml", "{{ `t` }}"}

// c15LookValues: YAML texts of any-values whose KEYS look like syntax of a neighbouring notation — dotted paths
// (kubernetes style labels), index groups, JSON pointers, k=v, globs, printf verbs, placeholders; an empty
// collection followed by more content; lists directly in lists three levels deep.  c15LookMaps: the same for
// map-typed fields (set data, call / ext arguments).
var c15LookValues = []string{
	"{app.kubernetes.io/name: web, tier: {a.b: 1, c: [x]}}",
	"{\"l[0]\": x, \"m[1].k\": y, plain: {\"n[2]\": [1, {\"q[0]\": z}]}}",
	"{/p: 1, /a/b: {~0: t, \"~1\": u}, a/b: 2, \"k=v\": 3, \"*\": 4, \"%s\": 5, \"$x\": 6, \"0\": zero, \"-\": dash}",
	"{.: dot, a..b: 1, .lead: 2, trail.: 3, \"\": empty}",
	"[{a.b: 1}, [], {e: {}, f.g: [[1, [2, 3]], [], [4]]}, x.y]",
	"{e: {}, l: [], after.empty: {x.y.z: [[[1], [2, 3]], []]}}",
}
var c15LookMaps = []string{
	"{app.kubernetes.io/name: web, tier: {a.b: 1, c: [x]}}",
	"{\"l[0]\": x, /p: {\"q[1].r\": y}, \"k=v\": [1, {x.y: z}], e: {}, z.after: 1}",
	"{.: dot, a..b: {c.: 1}, \"*\": [[1, [2, 3]], []], \"%s\": s}",
}

var c15ActionYaml = []string{
	"log:\n  message: hello\n",
	"name: n1\norder: 3\nwhen: 'true'\nset:\n  path: p.q\n  data:\n    a: 1\n    b: [x, y]\n",
	"steps:\n  s1:\n    order: 2\n    log:\n      message: one\n  s2:\n    order: 1\n    template:\n      template: txt\n      path: t.p\n      parseAs: yaml\n      trim: true\n",
	"forEach:\n  item: [a, b]\n  var: it\n  action:\n    patch:\n      op: add\n      path: /k\n      value:\n        z: [1, 2]\n",
	"exec:\n  program: prog\n  args: [a1, a2]\n  validExitCodes: [0, 2]\n  saveExitCodeTo: ec\nexport:\n  file: out.yaml\n  path:\n    ref: some.ref\n  format: yaml\n",
	"loop:\n  test: 'false'\n  init:\n    log:\n      message: init\n  action:\n    abort:\n      message: stop\n  postAction:\n    call:\n      name: fn\n      argsPath: ap\n      args:\n        k: v\n",
	"templateFile:\n  file: f.tpl\n  output: o.txt\n  path: ''\nexec:\n  program: prog\n  args: []\n  stdout: ''\n  saveExitCodeTo: ''\npatch:\n  op: add\n  path: /x\n  valueFrom: ''\nforEach:\n  var: ''\n  item: []\n  action:\n    log:\n      message: ''\n",
	"forEach:\n  item: [a]\n  action:\n    patch:\n      op: add\n      path: /metadata/labels\n      value:\n        app.kubernetes.io/name: web\n        'l[0]': [x]\n    set:\n      path: p\n      data:\n        a.b: 1\n        /c: {d.e: 2}\n",
	"ext:\n  func: f1\n  args:\n    a: {b: 1}\ndefine:\n  name: d1\n  action:\n    templateFile:\n      file: f.tpl\n      output: o.txt\n      path: a.b\n",
}

func c15Populate(v reflect.Value, r *rand.Rand, depth int, tplText string) {
	t := v.Type()
	// types that decode themselves from YAML (ValOrRef, AnyVal): unexported state is only reachable that way
	if t.Kind() == reflect.Ptr && t.Implements(c15Unmarshaler) && c15InPipeline(t.Elem()) {
		p := reflect.New(t.Elem())
		var texts []string
		switch t.Elem().Name() {
		case "ValOrRef":
			s := pick(r, c15Strings)
			if tplText != "" {
				s = tplText
			}
			q, _ := json.Marshal(s)
			texts = []string{string(q), "{ref: " + string(q) + "}"}
		default:
			// (keys of a value are keys: a dot, an index group, a pointer, k=v … inside a key is part of the name)
			texts = append([]string{"{a: 1, b: [x, {c: null}], d: {}}", "[1, [2, 3], {}]", "plain", "null"}, c15LookValues...)
		}
		_ = yaml.Unmarshal([]byte(pick(r, texts)), p.Interface())
		if vor, ok := p.Interface().(*pipeline.ValOrRef); ok {
			// the forms a decoder alone does not produce: the OTHER exported text populated as well — an immediate
			// value that also has Ref set (all that code outside the package can build with Ref), a reference
			// that also has Val set — and a reference that is empty.  Whether the value is a reference was
			// decided when it was decoded; cloning has to carry that over, whatever the texts hold.  (The draws
			// do not depend on the text, so that the template / rendered builds agree.)
			other := pick(r, c15Strings)
			if tplText != "" {
				other = tplText
			}
			switch r.Intn(6) {
			case 0:
				if vor.Ref == "" {
					vor.Ref = other
				} else {
					vor.Val = other
				}
			case 1:
				if vor.Ref != "" && tplText == "" {
					vor.Ref = ""
				}
			}
		}
		v.Set(p)
		return
	}
	if t == c15RegexpPtr {
		v.Set(reflect.ValueOf(regexp.MustCompile(pick(r, []string{"^a.*", "[0-9]+", "x|y"}))))
		return
	}
	switch t.Kind() {
	case reflect.String:
		if tplText != "" {
			v.SetString(tplText)
		} else {
			v.SetString(pick(r, c15Strings))
		}
	case reflect.Bool:
		v.SetBool(true)
	case reflect.Int, reflect.Int8, reflect.Int16, reflect.Int32, reflect.Int64:
		v.SetInt(int64(r.Intn(7) - 2))
	case reflect.Uint, reflect.Uint8, reflect.Uint16, reflect.Uint32, reflect.Uint64:
		v.SetUint(uint64(1 + r.Intn(5)))
	case reflect.Float32, reflect.Float64:
		v.SetFloat(1.5)
	case reflect.Ptr:
		p := reflect.New(t.Elem())
		c15Populate(p.Elem(), r, depth, tplText)
		v.Set(p)
	case reflect.Slice:
		n := r.Intn(3) // empty slices too
		if depth == 0 && r.Intn(4) == 0 {
			n = pick(r, []int{3, 5, 6, 7, 9}) // lengths at which append has / has no spare capacity
		}
		// a list of texts that receives template text: at least one element holds it (the choices
		// depend only on WHETHER there is template text, so that the template / rendered builds agree)
		tplElems := tplText != "" && t.Elem().Kind() == reflect.String
		k := -1
		if tplElems {
			if n == 0 {
				n = 1
			}
			k = r.Intn(n)
		}
		s := reflect.MakeSlice(t, n, n)
		for i := 0; i < n; i++ {
			txt := ""
			if tplElems && (i == k || r.Intn(2) == 0) {
				txt = tplText
			}
			c15Populate(s.Index(i), r, depth+1, txt)
		}
		v.Set(s)
	case reflect.Map:
		if t.Key().Kind() != reflect.String {
			return
		}
		if t.Elem().Kind() == reflect.Interface {
			var m map[string]interface{}
			_ = yaml.Unmarshal([]byte(pick(r, append([]string{"{a: 1, b: {c: [x, y]}, s: txt}", "{}", "{k: null}", "{n: {m: {l: 1}}}"}, c15LookMaps...))), &m)
			v.Set(reflect.ValueOf(m).Convert(t))
			return
		}
		m := reflect.MakeMap(t)
		if depth < 3 {
			for i := 0; i < r.Intn(3); i++ {
				e := reflect.New(t.Elem()).Elem()
				c15Populate(e, r, depth+1, "")
				m.SetMapIndex(reflect.ValueOf(fmt.Sprintf("k%d", i)).Convert(t.Key()), e)
			}
		}
		v.Set(m)
	case reflect.Struct:
		if t.Name() == "ActionSpec" && c15InPipeline(t) && (depth >= 2 || r.Intn(2) == 0) {
			// nested action specs decoded from YAML
			_ = yaml.Unmarshal([]byte(pick(r, c15ActionYaml)), v.Addr().Interface())
			return
		}
		if depth >= 4 {
			return
		}
		for i := 0; i < t.NumField(); i++ {
			f := v.Field(i)
			if !f.CanSet() {
				continue
			}
			if t.Name() == "OpSpec" && r.Intn(4) != 0 {
				continue // a few operations per OpSpec
			}
			c15Populate(f, r, depth+1, "")
		}
	}
}

// c15PopulateEmpty configures v with the EMPTY value of its kind: a non-nil pointer to the zero value
// ("" / false / 0 / empty non-nil slice / zero struct), an empty non-nil slice or map.  Other kinds: false.
func c15PopulateEmpty(v reflect.Value) bool {
	t := v.Type()
	switch t.Kind() {
	case reflect.Ptr:
		if t == c15RegexpPtr {
			return false
		}
		p := reflect.New(t.Elem())
		if t.Implements(c15Unmarshaler) && c15InPipeline(t.Elem()) {
			_ = yaml.Unmarshal([]byte(`""`), p.Interface())
		} else {
			switch t.Elem().Kind() {
			case reflect.Slice:
				p.Elem().Set(reflect.MakeSlice(t.Elem(), 0, 0))
			case reflect.Map:
				p.Elem().Set(reflect.MakeMap(t.Elem()))
			}
		}
		v.Set(p)
		return true
	case reflect.Slice:
		v.Set(reflect.MakeSlice(t, 0, 0))
		return true
	case reflect.Map:
		v.Set(reflect.MakeMap(t))
		return true
	}
	return false
}

// c15Texty: the field can hold text (string, *string, []string, *[]string, *ValOrRef) and so a template.
func c15Texty(t reflect.Type) bool {
	if t.Kind() == reflect.Ptr && t.Elem().Name() == "ValOrRef" && c15InPipeline(t.Elem()) {
		return true
	}
	if t.Kind() == reflect.Ptr {
		t = t.Elem()
	}
	if t.Kind() == reflect.Slice {
		t = t.Elem()
	}
	return t.Kind() == reflect.String
}

func c15CanBeEmpty(t reflect.Type) bool {
	switch t.Kind() {
	case reflect.Ptr:
		return t != c15RegexpPtr
	case reflect.Slice, reflect.Map:
		return true
	}
	return false
}

func c15In(l []string, s string) bool {
	for _, x := range l {
		if x == s {
			return true
		}
	}
	return false
}

// c15Build constructs the operation of a clone case; tplText != "" goes into the fields listed in Tpl.
func c15Build(p c15Clone, opT reflect.Type, tplText string) reflect.Value {
	op := reflect.New(opT)
	for i := 0; i < opT.NumField(); i++ {
		f := opT.Field(i)
		listed := false
		for _, n := range p.Fields {
			listed = listed || n == f.Name
		}
		if !listed || !op.Elem().Field(i).CanSet() {
			continue
		}
		// every field has its own value stream, so that removing a field from the case does not
		// change the others (shrinking) and the template variant differs only in the tagged fields
		r := rand.New(rand.NewSource(p.Seed*1000 + int64(i)))
		if c15In(p.Empty, f.Name) && c15PopulateEmpty(op.Elem().Field(i)) {
			continue
		}
		txt := ""
		if c15In(p.Tpl, f.Name) && c15Texty(f.Type) {
			txt = tplText
		}
		if c15In(p.Bad, f.Name) && c15Texty(f.Type) {
			// the same text in every build of the case (original, expected clone): it is kept as it is
			txt = c15BadText(p.BadKind)
		}
		c15Populate(op.Elem().Field(i), r, 0, txt)
	}
	return op
}

// ---------------------------------------------------------------- generation

func c15Run(c *Ctx) {
	r := c.Rng
	c.Do("table", map[string]any{})
	names, types := c15OpTypes()
	// every operation type: all fields populated, each field alone, random subsets; each wrap
	wraps := []string{"", "opspec", "action", "children"}
	for _, n := range names {
		t := types[n]
		var all, tagged, texty, emptyable []string
		for i := 0; i < t.NumField(); i++ {
			all = append(all, t.Field(i).Name)
			if t.Field(i).Tag.Get("clone") == "template" {
				tagged = append(tagged, t.Field(i).Name)
			} else if c15Texty(t.Field(i).Type) {
				texty = append(texty, t.Field(i).Name)
			}
			if c15CanBeEmpty(t.Field(i).Type) {
				emptyable = append(emptyable, t.Field(i).Name)
			}
		}
		for _, w := range wraps {
			c.Do("clone", c15Clone{Op: n, Fields: all, Seed: r.Int63n(1 << 30), X: "V", Wrap: w})
			if w != "" {
				c.Do("clone", c15Clone{Op: n, Fields: all, Seed: r.Int63n(1 << 30), Tpl: tagged, X: "V", Wrap: w, Ptr: true})
			}
		}
		for _, f := range all {
			c.Do("clone", c15Clone{Op: n, Fields: []string{f}, Seed: r.Int63n(1 << 30), X: "V"})
		}
		for _, f := range tagged {
			c.Do("clone", c15Clone{Op: n, Fields: all, Seed: r.Int63n(1 << 30), Tpl: []string{f}, X: pick(r, []string{"V", "a.b", "7"}), Wrap: pick(r, wraps)})
			// every template text, in this field alone (the smallest case that shows a text that is not rendered)
			for k := 1; k < len(c15TplTexts); k++ {
				c.Do("clone", c15Clone{Op: n, Fields: []string{f}, Seed: r.Int63n(1 << 30), Tpl: []string{f}, TplKind: k, X: pick(r, c15Xs)})
			}
		}
		if len(tagged) > 1 {
			c.Do("clone", c15Clone{Op: n, Fields: all, Seed: r.Int63n(1 << 30), Tpl: tagged, X: "W", Wrap: pick(r, wraps)})
		}
		// configured-but-empty values: alone, next to everything else, all of them
		for _, f := range emptyable {
			c.Do("clone", c15Clone{Op: n, Fields: []string{f}, Empty: []string{f}, Seed: r.Int63n(1 << 30), X: "V"})
			c.Do("clone", c15Clone{Op: n, Fields: all, Empty: []string{f}, Seed: r.Int63n(1 << 30), X: "V", Wrap: pick(r, wraps)})
		}
		if len(emptyable) > 1 {
			c.Do("clone", c15Clone{Op: n, Fields: all, Empty: emptyable, Seed: r.Int63n(1 << 30), X: "V", Wrap: pick(r, wraps)})
		}
		// template text in text fields that are not tagged as templates (texts, pointers to text, lists of texts):
		// whatever the clone does with them, the original stays as it was
		for _, f := range texty {
			c.Do("clone", c15Clone{Op: n, Fields: all, Seed: r.Int63n(1 << 30), Tpl: []string{f}, X: pick(r, []string{"V", "a.b", "7"}), Wrap: pick(r, wraps)})
		}
		if len(texty) > 0 && len(tagged)+len(texty) > 1 {
			c.Do("clone", c15Clone{Op: n, Fields: all, Seed: r.Int63n(1 << 30), Tpl: append(append([]string{}, tagged...), texty...), X: "W", Wrap: pick(r, wraps)})
		}
		// FAILURE, THEN SUCCESS: one text field holds a template that cannot be rendered (it fails while it is being
		// executed, after it has produced output, or it does not parse), all the other template fields hold templates
		// that render; and the clone of an operation preceded by the clone of ANOTHER operation whose template
		// cannot be rendered
		textFields := append(append([]string{}, tagged...), texty...)
		for _, f := range textFields {
			for _, k := range []int{0, 1 + r.Intn(len(c15BadTemplates)-1)} {
				c.Do("clone", c15Clone{Op: n, Fields: all, Seed: r.Int63n(1 << 30), Tpl: tagged, Bad: []string{f}, BadKind: k,
					X: pick(r, []string{"V", "a.b", "7"}), Wrap: pick(r, wraps)})
			}
		}
		if len(tagged) > 0 {
			c.Do("clone", c15Clone{Op: n, Fields: all, Seed: r.Int63n(1 << 30), Tpl: tagged, Pre: 1 + r.Intn(len(c15BadTemplates)), X: "V", Wrap: pick(r, wraps)})
		}
	}
	for i := 0; i < c.N(1500); i++ {
		c.Tick()
		n := pick(r, names)
		t := types[n]
		var fs, tpl, empty, bad []string
		// about one case in four: some text fields hold a template that cannot be rendered
		withBad := r.Intn(4) == 0
		for j := 0; j < t.NumField(); j++ {
			if r.Intn(4) != 0 {
				fs = append(fs, t.Field(j).Name)
				switch {
				case t.Field(j).Tag.Get("clone") == "template":
					if r.Intn(3) == 0 || withBad {
						tpl = append(tpl, t.Field(j).Name)
					}
				case c15Texty(t.Field(j).Type) && r.Intn(5) == 0:
					tpl = append(tpl, t.Field(j).Name)
				}
				if withBad && c15Texty(t.Field(j).Type) && r.Intn(3) == 0 {
					bad = append(bad, t.Field(j).Name)
				}
				if c15CanBeEmpty(t.Field(j).Type) && !c15In(tpl, t.Field(j).Name) && !c15In(bad, t.Field(j).Name) && r.Intn(6) == 0 {
					empty = append(empty, t.Field(j).Name)
				}
			}
		}
		cs := c15Clone{Op: n, Fields: fs, Seed: r.Int63n(1 << 30), Tpl: tpl, Empty: empty, X: pick(r, c15Xs), Wrap: pick(r, wraps)}
		if len(tpl) > 0 && r.Intn(2) == 0 {
			cs.TplKind = r.Intn(len(c15TplTexts))
		}
		cs.Ptr = cs.Wrap != "" && r.Intn(3) == 0
		cs.Nest = r.Intn(3) == 0
		if withBad {
			cs.Bad, cs.BadKind = bad, r.Intn(len(c15BadTemplates))
			if len(bad) == 0 || r.Intn(3) == 0 {
				cs.Pre = 1 + r.Intn(len(c15BadTemplates))
			}
		}
		c.Do("clone", cs)
	}
	// value-or-reference fields in every form (see c15_vor.go)
	for _, p := range c15VoRCases(r, c.N(400)) {
		c.Tick()
		c.Do("vor", p)
	}
	g := stdGen()
	g.MaxDepth = 3
	for i := 0; i < c.N(500); i++ {
		c.Tick()
		e := c15Exec{Spec: c15GenSpec(r, 0), Data: g.Doc(r)}
		if r.Intn(2) == 0 {
			e.ForEach = []string{"i1", "i2", "i3"}[:1+r.Intn(3)]
			if r.Intn(2) == 0 {
				e.Var = "it"
			}
		}
		c.Do("exec", e)
	}
	for i := 0; i < c.N(90); i++ {
		c.Tick()
		e := c15FE{Data: g.Doc(r)}
		if r.Intn(2) == 0 {
			e.Var = pick(r, []string{"it", "v_1"})
		}
		vn := "forEach"
		if e.Var != "" {
			vn = e.Var
		}
		e.Body = c15GenTplBody(r, "{{ ."+vn+" }}")
		its := []string{"i1", "i2", "i3"}
		r.Shuffle(len(its), func(a, b int) { its[a], its[b] = its[b], its[a] })
		e.Items = its[:2+r.Intn(2)]
		if r.Intn(5) == 0 {
			e.Items = append(e.Items, e.Items[0])
		}
		c.Do("feach", e)
	}
	c15RunLook(c, names, types)
	c15RunNest(c, names, types) // the context's data holds containers where the operation's texts point (below)
	c15RunTree(c)               // trees of several operations with reading / writing templates (c15_tree.go)
	c15RunHist(c, names, types) // the cloning context has a history (c15_hist.go)
}

// c15RunHist: per operation type a fixed table — all fields template-free, bare and wrapped; the tagged fields with
// template text; each field alone — then random cases, all cloned in the context of an executor with a history.
func c15RunHist(c *Ctx, names []string, types map[string]reflect.Type) {
	r := c.Rng
	wraps := []string{"", "opspec", "action", "children"}
	for _, n := range names {
		c.Tick()
		t := types[n]
		var all, tagged []string
		for i := 0; i < t.NumField(); i++ {
			all = append(all, t.Field(i).Name)
			if t.Field(i).Tag.Get("clone") == "template" {
				tagged = append(tagged, t.Field(i).Name)
			}
		}
		for _, w := range wraps {
			c.Do("clone", c15Clone{Op: n, Fields: all, Seed: r.Int63n(1 << 30), X: "V", Wrap: w, Hist: true})
		}
		if len(tagged) > 0 {
			c.Do("clone", c15Clone{Op: n, Fields: all, Seed: r.Int63n(1 << 30), Tpl: tagged, X: pick(r, []string{"V", "a.b", "7"}), Wrap: pick(r, wraps), Hist: true})
		}
		for _, f := range all {
			c.Do("clone", c15Clone{Op: n, Fields: []string{f}, Seed: r.Int63n(1 << 30), X: "V", Hist: true})
		}
	}
	for i := 0; i < c.N(200); i++ {
		c.Tick()
		n := pick(r, names)
		t := types[n]
		var fs, tpl []string
		for j := 0; j < t.NumField(); j++ {
			if r.Intn(4) != 0 {
				fs = append(fs, t.Field(j).Name)
				if t.Field(j).Tag.Get("clone") == "template" && r.Intn(3) == 0 {
					tpl = append(tpl, t.Field(j).Name)
				}
			}
		}
		c.Do("clone", c15Clone{Op: n, Fields: fs, Seed: r.Int63n(1 << 30), Tpl: tpl, X: pick(r, c15Xs), Wrap: pick(r, wraps), Hist: true})
	}
}

// c15RunLook (round 6): SYNTAX LOOK-ALIKES, smallest cases.  (a) the value of .x is itself text that looks like a
// template action which WOULD render against the data: per operation type, its clone:"template" fields alone and
// all fields, bare and wrapped — the clone holds the text rendered ONCE (rendered text is text); (b) every field
// that holds a tree (any-value, map) alone, over a run of seeds that reaches every look-alike key text.
func c15RunLook(c *Ctx, names []string, types map[string]reflect.Type) {
	r := c.Rng
	wraps := []string{"", "opspec", "action", "children"}
	for _, n := range names {
		t := types[n]
		var all, tagged, trees []string
		for i := 0; i < t.NumField(); i++ {
			f := t.Field(i)
			all = append(all, f.Name)
			if f.Tag.Get("clone") == "template" {
				tagged = append(tagged, f.Name)
			}
			if f.Type == c15AnyValPtr || (f.Type.Kind() == reflect.Map && f.Type.Elem().Kind() == reflect.Interface) {
				trees = append(trees, f.Name)
			}
		}
		if len(tagged) > 0 {
			for _, x := range c15LookXs {
				c.Do("clone", c15Clone{Op: n, Fields: tagged, Seed: r.Int63n(1 << 30), Tpl: tagged, X: x})
				c.Do("clone", c15Clone{Op: n, Fields: tagged, Seed: r.Int63n(1 << 30), Tpl: tagged, X: x, TplKind: 1})
				c.Do("clone", c15Clone{Op: n, Fields: all, Seed: r.Int63n(1 << 30), Tpl: tagged, X: x, TplKind: r.Intn(len(c15TplTexts)), Wrap: pick(r, wraps)})
			}
		}
		for _, f := range trees {
			for seed := int64(0); seed < 24; seed++ {
				c.Do("clone", c15Clone{Op: n, Fields: []string{f}, Seed: seed, X: "V", Wrap: wraps[int(seed)%len(wraps)]})
			}
		}
	}
}

// c15RunNest (round 8): per operation type, its clone:"template" fields (alone and next to all other fields) hold
// `{{ .x }}` texts while the context's data holds, at every path those texts name once rendered, a container with
// another `x` (c15Clone.Nest).
func c15RunNest(c *Ctx, names []string, types map[string]reflect.Type) {
	r := c.Rng
	wraps := []string{"", "opspec", "action", "children"}
	for _, n := range names {
		t := types[n]
		var all, tagged []string
		for i := 0; i < t.NumField(); i++ {
			all = append(all, t.Field(i).Name)
			if t.Field(i).Tag.Get("clone") == "template" {
				tagged = append(tagged, t.Field(i).Name)
			}
		}
		if len(tagged) == 0 {
			continue
		}
		for _, k := range []int{0, 1, 6, 7} {
			c.Do("clone", c15Clone{Op: n, Fields: tagged, Seed: r.Int63n(1 << 30), Tpl: tagged, TplKind: k, X: "V", Nest: true})
			c.Do("clone", c15Clone{Op: n, Fields: all, Seed: r.Int63n(1 << 30), Tpl: tagged, TplKind: k, X: pick(r, []string{"V", "a.b", "7"}), Nest: true, Wrap: pick(r, wraps)})
		}
	}
}

// c15GenTplBody generates a forEach body whose text fields use ref (= `{{ .<variable> }}`).
func c15GenTplBody(r *rand.Rand, ref string) map[string]any {
	one := func() (string, map[string]any) {
		// exec spawns a process (slow): in about a third of the bodies
		switch k := r.Intn(8); {
		case k < 2:
			return "log", map[string]any{"message": "m-" + ref}
		case k < 4:
			s := map[string]any{"path": "out." + ref, "data": map[string]any{"a": 1, "t": "k"}}
			if r.Intn(2) == 0 {
				s["path"] = ref
			}
			return "set", s
		case k == 4:
			return "template", map[string]any{"template": "t:" + ref, "path": "tp." + ref}
		case k < 7:
			return "patch", map[string]any{"op": "add", "path": "/p_" + ref, "value": pick(r, []any{1, "s", []any{"p", "q"}})}
		default:
			args := []any{}
			for i, n := 0, 1+r.Intn(3); i < n; i++ {
				args = append(args, pick(r, []string{ref, "x-" + ref, "k", ref + "/" + ref}))
			}
			args[r.Intn(len(args))] = pick(r, []string{ref, "a=" + ref})
			return "exec", map[string]any{"program": "true", "args": args}
		}
	}
	spec := map[string]any{}
	for i, n := 0, 1+r.Intn(3); i < n; i++ {
		k, v := one()
		spec[k] = v
	}
	if r.Intn(2) == 0 {
		// a `steps` child: executed for every item without being cloned
		k, v := one()
		spec["steps"] = map[string]any{"s1": map[string]any{"order": 1, k: v, "log": map[string]any{"message": "c-" + ref}}}
	}
	return spec
}

// c15GenSpec generates a data-only action spec in YAML-shaped JSON (template-free).
func c15GenSpec(r *rand.Rand, depth int) map[string]any {
	spec := map[string]any{}
	// (paths that begin / end with the separator address an empty-named key: legal, and the clone's path is the same)
	paths := []string{"a", "a.b", "k1.c", "n.m", "b", ".defaults", "labels.", "a..b", "A.b"}
	plain := func() map[string]any {
		return pick(r, []map[string]any{{"a": 1}, {"a": map[string]any{"b": "x"}, "k1": []any{1, 2}}, {"n": map[string]any{"m": map[string]any{"l": true}}}, {},
			// keys that look like syntax (dotted, index group, pointer, k=v)
			{"a.b": 1, "k1": map[string]any{"c.d/e": "x"}}, {"/a": 1, "k=v": []any{1, map[string]any{"x.y": 2}}, "*": "g"}})
	}
	nOps := 1 + r.Intn(2)
	for i := 0; i < nOps; i++ {
		switch k := r.Intn(9); {
		case k == 0:
			s := map[string]any{"data": plain()}
			if r.Intn(2) == 0 {
				s["path"] = pick(r, paths)
			}
			if r.Intn(2) == 0 {
				s["strategy"] = pick(r, []string{"merge", "replace"})
			}
			spec["set"] = s
		case k == 1:
			p := map[string]any{"op": pick(r, []string{"add", "replace", "remove", "test"}), "path": pick(r, []string{"/a", "/a/b", "/k1/0", "/new", "/b"})}
			switch r.Intn(3) {
			case 0:
				p["value"] = pick(r, []any{1, "s", map[string]any{"z": []any{1}}, []any{"p", "q"},
					map[string]any{"app.kubernetes.io/name": "web", "tier": map[string]any{"a.b": 1}}, map[string]any{"l[0]": "x", "/p": []any{map[string]any{"q.r": 2}}, "k=v": 3},
					[]any{map[string]any{"x.y": 1}, []any{[]any{1, []any{2}}, []any{}}, map[string]any{}}})
			case 1:
				p["valueFrom"] = pick(r, paths)
			}
			if r.Intn(4) == 0 {
				p["op"], p["from"] = pick(r, []string{"move", "copy"}), pick(r, []string{"/a", "/b", "/k1"})
			}
			spec["patch"] = p
		case k == 2:
			t := map[string]any{"template": pick(r, []string{"plain text", "a: 1\nb: [x, y]\n", "  padded  ", "k: {m: v}"}), "path": pick(r, paths)}
			if r.Intn(2) == 0 {
				t["parseAs"] = pick(r, []string{"yaml", "none"})
			}
			if r.Intn(2) == 0 {
				t["trim"] = r.Intn(2) == 0
			}
			spec["template"] = t
		case k == 3:
			spec["log"] = map[string]any{"message": pick(r, c15Strings)}
		case k == 4 && depth > 0:
			spec["abort"] = map[string]any{"message": "stop here"}
		case k == 5 && depth < 2:
			spec["define"] = map[string]any{"name": "fn", "action": c15GenSpec(r, depth+1)}
			call := map[string]any{"name": "fn", "args": pick(r, []map[string]any{{"p": "v", "q": map[string]any{"r": "s"}}, {"p": "v", "q": map[string]any{"r": "s"}},
				{"p.v": "w", "q": map[string]any{"r.s/t": "s", "l[0]": "x"}, "k=v": "y"}})}
			if r.Intn(2) == 0 {
				call["argsPath"] = pick(r, []string{"ap", "p.q"})
			}
			spec["steps"] = map[string]any{"callIt": map[string]any{"order": 9, "call": call}}
		case k == 6 && depth < 2:
			fe := map[string]any{"item": []any{"x", "y"}, "action": c15GenSpec(r, depth+1)}
			if r.Intn(2) == 0 {
				fe["var"] = "v"
			}
			spec["forEach"] = fe
		case k == 7 && depth < 2:
			spec["loop"] = map[string]any{"test": "false", "init": c15GenSpec(r, depth+1), "action": c15GenSpec(r, depth+1)}
		case k == 8 && depth < 2:
			steps := map[string]any{}
			for j := 0; j < 1+r.Intn(2); j++ {
				s := c15GenSpec(r, depth+1)
				s["order"] = (j*7 + 3) % 5 // distinct among siblings: ties are ordered by map iteration (C12's concern)
				steps[fmt.Sprintf("s%d", j)] = s
			}
			if _, has := spec["steps"]; !has {
				spec["steps"] = steps
			}
		default:
			spec["log"] = map[string]any{"message": "m"}
		}
	}
	return spec
}

// ---------------------------------------------------------------- evaluation

func c15Eval(c *Ctx, kind string, raw []byte) {
	switch kind {
	case "table":
		c15EvalTable(c)
	case "clone":
		var p c15Clone
		if err := json.Unmarshal(raw, &p); err != nil {
			panic(err)
		}
		c15EvalClone(c, p)
	case "exec":
		var p c15Exec
		if err := json.Unmarshal(raw, &p); err != nil {
			panic(err)
		}
		c15EvalExec(c, p)
	case "feach":
		var p c15FE
		if err := json.Unmarshal(raw, &p); err != nil {
			panic(err)
		}
		c15EvalFE(c, p)
	case "vor":
		c15EvalVoR(c, raw)
	case "tree":
		c15EvalTree(c, raw) // c15_tree.go
	}
}

// c15OnlyTrue: every exec operation anywhere in the spec runs the program `true` (the domain of feach
// cases: nothing else is ever spawned, whatever a replay file or the shrinker puts there).
func c15OnlyTrue(v any) bool {
	switch x := v.(type) {
	case map[string]any:
		for k, e := range x {
			if k == "exec" {
				m, ok := e.(map[string]any)
				if !ok || m["program"] != "true" || m["stdout"] != nil || m["stderr"] != nil || m["dir"] != nil {
					return false
				}
				for mk := range m {
					switch mk {
					case "program", "args", "validExitCodes", "saveExitCodeTo":
					default:
						return false
					}
				}
				continue
			}
			if !c15OnlyTrue(e) {
				return false
			}
		}
	case []any:
		for _, e := range x {
			if !c15OnlyTrue(e) {
				return false
			}
		}
	}
	return true
}

func c15EvalFE(c *Ctx, p c15FE) {
	if !c15OnlyTrue(p.Body) {
		c.Dist("feach:outside-domain(skipped)")
		return
	}
	for k := range p.Body {
		switch k {
		case "log", "set", "template", "patch", "exec", "steps":
		default:
			c.Dist("feach:outside-domain(skipped)")
			return
		}
	}
	as, err := c15Decode(p.Body)
	if err != nil {
		c.Dist("feach:undecodable")
		return
	}
	if _, ok := wireCont(p.Data); !ok {
		return
	}
	if len(p.Items) >= 2 {
		c.Nontrivial()
	}
	for _, k := range sortedKeys(p.Body) {
		c.Dist("feach-op:" + k)
	}
	vp := "forEach"
	if p.Var != "" {
		vp = p.Var
	}
	items := pipeline.ValOrRefSlice{}
	for _, it := range p.Items {
		items = append(items, &pipeline.ValOrRef{Val: it})
	}
	fe := &pipeline.ForEachOp{Item: &items, Action: as}
	if p.Var != "" {
		fe.Variable = &p.Var
	}
	r1 := c15RunAction(p.Data, func(ex pipeline.Executor, _ dom.ContainerBuilder) error { return ex.Execute(fe) })
	if !c.Direct("no-panic", r1.Out != "panic", r1.Logs) {
		return
	}
	c.Dist("feach-outcome:" + r1.Out)
	// per item: a fresh copy of the body (decoded anew, never cloned or executed before), each operation
	// cloned in the item's context and executed, then the children
	ref := c15RunAction(p.Data, func(ex pipeline.Executor, d dom.ContainerBuilder) error {
		for _, it := range p.Items {
			body, _ := c15Decode(p.Body)
			d.AddValue(vp, dom.LeafNode(it))
			err := ex.Execute(&c15Probe{func(ctx pipeline.ActionContext) error {
				ov := reflect.ValueOf(body.Operations)
				for _, f := range reflect.VisibleFields(ov.Type()) {
					fv := ov.FieldByIndex(f.Index)
					if fv.Kind() != reflect.Ptr || fv.IsNil() {
						continue
					}
					if err := ctx.Executor().Execute(fv.Interface().(pipeline.Action).CloneWith(ctx)); err != nil {
						return err
					}
				}
				return ctx.Executor().Execute(body.Children)
			}})
			d.Remove(vp)
			if err != nil {
				return err
			}
		}
		return nil
	})
	det := func(a, b any) any { return map[string]any{"forEach": a, "fresh body per item": b} }
	c.Direct("forEach-per-item-fresh-clone(outcome)", ref.Out == r1.Out, det(r1.Out, ref.Out))
	c.Direct("forEach-per-item-fresh-clone(data)", canon(ref.Data) == canon(r1.Data), det(r1.Data, ref.Data))
	c.Direct("forEach-per-item-fresh-clone(logs)", canon(ref.Logs) == canon(r1.Logs), det(r1.Logs, ref.Logs))
	// the same forEach value once more on equal data: cloning / executing the body left it as configured
	r2 := c15RunAction(p.Data, func(ex pipeline.Executor, _ dom.ContainerBuilder) error { return ex.Execute(fe) })
	c.Direct("forEach-rerun-same-effect", r1.Out == r2.Out && canon(r1.Data) == canon(r2.Data) && canon(r1.Logs) == canon(r2.Logs),
		map[string]any{"first": r1, "second": r2})
}

func c15EvalTable(c *Ctx) {
	refl := c15ReflectTable()
	if c.searchMode {
		return
	}
	m := c.Model("table", map[string]any{})
	b, _ := json.Marshal(m)
	var tbl []struct {
		Name   string `json:"name"`
		Fields []struct {
			Name, GoType, Tag, Act, Kind string
		} `json:"fields"`
	}
	_ = json.Unmarshal(b, &tbl)
	ext := map[string][]c15FieldInfo{}
	for _, t := range tbl {
		var fs []c15FieldInfo
		for _, f := range t.Fields {
			gt := strings.ReplaceAll(strings.ReplaceAll(f.GoType, "interface{}", "any"), "pipeline.", "")
			fs = append(fs, c15FieldInfo{f.Name, gt, f.Tag})
		}
		ext[t.Name] = fs
	}
	c.Nontrivial()
	c.Dist(fmt.Sprintf("table:types=%d", len(refl)))
	// the translator is validated against reflection: same types, same fields, same order, same tags
	c.Corr("cloneTable-vs-reflection", refl, ext)
}

func c15Wrap(op reflect.Value, field, wrap string) pipeline.Action {
	bare := op.Interface().(pipeline.Action)
	if wrap == "" {
		return bare
	}
	var os pipeline.OpSpec
	reflect.ValueOf(&os).Elem().FieldByName(field).Set(op)
	if wrap == "opspec" {
		return os
	}
	as := pipeline.ActionSpec{Operations: os}
	as.Name = "wrapped"
	if wrap == "action" {
		return as
	}
	return pipeline.ChildActions{"c1": as, "c2": pipeline.ActionSpec{Children: pipeline.ChildActions{"inner": as}}}
}

func c15EvalClone(c *Ctx, p c15Clone) {
	_, types := c15OpTypes()
	opT, ok := types[p.Op]
	if !ok {
		return
	}
	if len(p.Fields) > 0 {
		c.Nontrivial()
	}
	tplText := ""
	if len(p.Tpl) > 0 {
		tplText = c15TplText(p.TplKind)
		c.Dist(fmt.Sprintf("clone:template-text:%d", p.TplKind%len(c15TplTexts)))
		if strings.Index(tplText, "}}") < strings.Index(tplText, "{{") {
			c.Dist("clone:template-text:closing-delimiter-before-the-first-action")
		}
		if strings.ReplaceAll(tplText, "{{ .x }}", p.X) == "" {
			p.X = "V" // (an empty rendering would make the expected construction fall back to pool values)
		}
	}
	c.Dist("op:" + p.Op)
	c.Dist("wrap:" + p.Wrap)
	if tplText != "" {
		c.Dist("clone:with-template")
	} else {
		c.Dist("clone:template-free")
	}
	if len(p.Empty) > 0 {
		c.Dist("clone:with-empty-configured-value")
	}
	unrenderable := p.Pre > 0
	for _, f := range p.Bad {
		if sf, has := opT.FieldByName(f); has && c15In(p.Fields, f) && c15Texty(sf.Type) && !(c15In(p.Empty, f) && c15CanBeEmpty(sf.Type)) {
			unrenderable = true
		}
	}
	if unrenderable {
		c.Dist("clone:next-to-a-template-that-cannot-be-rendered")
	}
	if p.Pre > 0 {
		c.Dist("clone:preceded-by-a-clone-whose-template-cannot-be-rendered")
	}
	orig := c15Wrap(c15Build(p, opT, tplText), p.Op, p.Wrap)
	valT := reflect.TypeOf(orig) // the type of the action, and of its clone
	if p.Ptr && p.Wrap != "" {
		orig = c15PtrTo(orig)
		c.Dist("clone:through-a-pointer-to-the-value")
	}
	// deep snapshot of the original (pointers followed, every slice element and map entry included)
	before := c15Dump(reflect.ValueOf(orig), 0)
	cloneUnder := func(x string) (clone pipeline.Action, out, txt string) {
		data := dom.Builder().Container()
		data.AddValue("x", dom.LeafNode(x))
		data.AddValueAt("other.y", dom.LeafNode(1))
		if p.Nest {
			// (the texts of the EXPECTED clone: the rendered paths are the ones that matter)
			if n := c15NestData(data, c15Build(p, opT, strings.ReplaceAll(tplText, "{{ .x }}", x)), x); n > 0 {
				c.Dist("clone:context-data-holds-containers-where-the-texts-point")
			}
		}
		var preMsg, probeMsg string
		withCtx := func(f func(ctx pipeline.ActionContext) error) { _ = c15WithCtx(data, nil, f) }
		if p.Hist {
			names := c15HistNames(reflect.ValueOf(orig), c15Build(p, opT, strings.ReplaceAll(tplText, "{{ .x }}", x)))
			withCtx = func(f func(ctx pipeline.ActionContext) error) {
				if n, _ := c15WithCtxHist(data, names, f); n > 0 {
					c.Dist("clone:context-has-a-history(callables registered under the operation's texts)")
				}
			}
		}
		out, txt = guard(func() {
			withCtx(func(ctx pipeline.ActionContext) error {
				if p.Pre > 0 {
					// ANOTHER operation, cloned first: its template fails half way through (or does not parse)
					if pc, ok := (&pipeline.LogOp{Message: c15BadText(p.Pre - 1)}).CloneWith(ctx).(*pipeline.LogOp); ok && pc != nil {
						preMsg = pc.Message
					}
				}
				clone = orig.CloneWith(ctx)
				if unrenderable {
					// and one more clone afterwards, of a plain log operation: whatever failed to render before it,
					// its message is the text rendered against the context's data
					if pc, ok := (&pipeline.LogOp{Message: "probe-{{ .x }}"}).CloneWith(ctx).(*pipeline.LogOp); ok && pc != nil {
						probeMsg = pc.Message
					}
				}
				return nil
			})
		})
		if out == "ok" {
			if p.Pre > 0 {
				c.Direct("template-that-cannot-be-rendered-is-kept-as-it-is", preMsg == c15BadText(p.Pre-1),
					map[string]any{"template": c15BadText(p.Pre - 1), "clone": preMsg})
			}
			if unrenderable {
				c.Direct("clone-made-after-a-failed-rendering-holds-rendered-text", probeMsg == "probe-"+x,
					map[string]any{"x": x, "template": "probe-{{ .x }}", "expected": "probe-" + x, "clone": probeMsg})
			}
		}
		return
	}
	// what a clone under x must hold: the same construction with the rendered text in place of the
	// template.  A text field that is NOT tagged clone:"template" may be carried over verbatim or
	// rendered (the property fixes neither): whichever of the two the clone holds is expected.
	expectedFor := func(clone pipeline.Action, x string) pipeline.Action {
		exp := c15Build(p, opT, strings.ReplaceAll(tplText, "{{ .x }}", x))
		if cop := c15Unwrap(clone, p.Op, p.Wrap); tplText != "" && cop.IsValid() && cop.Type() == exp.Type() && !cop.IsNil() {
			verb := c15Build(p, opT, tplText)
			for i := 0; i < opT.NumField(); i++ {
				f := opT.Field(i)
				if c15In(p.Tpl, f.Name) && f.Tag.Get("clone") != "template" && exp.Elem().Field(i).CanSet() &&
					c15Dump(cop.Elem().Field(i), 0) == c15Dump(verb.Elem().Field(i), 0) {
					exp.Elem().Field(i).Set(verb.Elem().Field(i))
				}
			}
		}
		return c15Wrap(exp, p.Op, p.Wrap)
	}
	clone, out, txt := cloneUnder(p.X)
	if !c.Direct("no-panic", out == "ok", txt) {
		return
	}
	after := c15Dump(reflect.ValueOf(orig), 0)
	c.Direct("original-untouched-by-clone", before == after, map[string]any{"before": before, "after": after})
	if !c.Direct("clone-not-nil", clone != nil, nil) {
		return
	}
	c.Direct("clone-same-type", reflect.TypeOf(clone) == valT || reflect.TypeOf(clone) == reflect.TypeOf(orig), fmt.Sprintf("%T vs %T", clone, orig))
	clone = c15Deref(clone)
	firstClone := c15Dump(reflect.ValueOf(clone), 0)
	// field by field on the operation itself so that the failing field is named
	if reflect.TypeOf(clone) == valT {
		expected := expectedFor(clone, p.X)
		ev, cv := c15Unwrap(expected, p.Op, p.Wrap), c15Unwrap(clone, p.Op, p.Wrap)
		if ev.IsValid() && cv.IsValid() && ev.Kind() == reflect.Ptr && cv.Type() == ev.Type() && !ev.IsNil() && !cv.IsNil() && ev.Elem().Kind() == reflect.Struct {
			for i := 0; i < ev.Elem().NumField(); i++ {
				a, b := c15Dump(ev.Elem().Field(i), 0), c15Dump(cv.Elem().Field(i), 0)
				name := "clone-deep-equal(template-free)"
				switch {
				case c15In(p.Empty, opT.Field(i).Name):
					name = "clone-carries-over-empty-configured-value"
				case c15In(p.Bad, opT.Field(i).Name) && c15Texty(opT.Field(i).Type):
					name = "template-that-cannot-be-rendered-is-kept-as-it-is"
				case unrenderable && opT.Field(i).Tag.Get("clone") == "template" && tplText != "" && c15In(p.Tpl, opT.Field(i).Name):
					name = "clone-holds-rendered-text(next to a template that cannot be rendered)"
				case tplText != "" && c15In(p.Tpl, opT.Field(i).Name) && opT.Field(i).Tag.Get("clone") == "template":
					name = "clone-holds-rendered-text"
				case tplText != "" && c15In(p.Tpl, opT.Field(i).Name):
					name = "clone-holds-text-verbatim-or-rendered"
				}
				c.Direct(name, a == b, map[string]any{"type": opT.Name(), "field": opT.Field(i).Name, "expected": a, "clone": b})
			}
		}
		a, b := c15Dump(reflect.ValueOf(expected), 0), c15Dump(reflect.ValueOf(clone), 0)
		c.Direct("clone-deep-equal(whole value)", a == b, map[string]any{"expected": a, "clone": b})
	}
	if tplText != "" || unrenderable {
		// cloning again in a context with other data: the original still holds the template text, so the
		// second clone holds the text rendered against ITS context (not the first clone's rendering)
		x2 := p.X + "#2"
		clone2, out2, txt2 := cloneUnder(x2)
		clone2 = c15Deref(clone2)
		if c.Direct("no-panic(second clone)", out2 == "ok" && clone2 != nil, txt2) && reflect.TypeOf(clone2) == valT {
			a, b := c15Dump(reflect.ValueOf(expectedFor(clone2, x2)), 0), c15Dump(reflect.ValueOf(clone2), 0)
			c.Direct("second-clone-renders-against-its-own-context", a == b, map[string]any{"x": x2, "expected": a, "clone": b})
			c.Direct("original-untouched-by-clone", before == c15Dump(reflect.ValueOf(orig), 0),
				map[string]any{"before": before, "after two clones": c15Dump(reflect.ValueOf(orig), 0)})
			// REPEATED USE: the EARLIER result is still what it was after the later call (a clone owns what it holds)
			now := c15Dump(reflect.ValueOf(clone), 0)
			c.Direct("first-clone-untouched-by-second-clone", firstClone == now, map[string]any{"first clone": firstClone, "after the second clone": now})
		}
	}
	if c.searchMode {
		return
	}
	// the model clones what the original was BEFORE the implementation had a chance to touch it
	pristine := c15Wrap(c15Build(p, opT, tplText), p.Op, p.Wrap)
	m := c.Model("clone", map[string]any{"v": c15CV(reflect.ValueOf(pristine)), "x": p.X})
	c.Corr("cloneV", c15CV(reflect.ValueOf(clone)), m)
}

// c15Unwrap returns the operation (pointer) inside a value built by c15Wrap; invalid if it is not there.
func c15Unwrap(a pipeline.Action, field, wrap string) reflect.Value {
	opOf := func(os pipeline.OpSpec) reflect.Value { return reflect.ValueOf(os).FieldByName(field) }
	switch x := a.(type) {
	case pipeline.OpSpec:
		if wrap == "opspec" {
			return opOf(x)
		}
	case pipeline.ActionSpec:
		if wrap == "action" {
			return opOf(x.Operations)
		}
	case pipeline.ChildActions:
		if c1, ok := x["c1"]; ok && wrap == "children" {
			return opOf(c1.Operations)
		}
	default:
		if wrap == "" && a != nil {
			return reflect.ValueOf(a)
		}
	}
	return reflect.Value{}
}

func c15Decode(spec map[string]any) (pipeline.ActionSpec, error) {
	var as pipeline.ActionSpec
	b, err := yaml.Marshal(spec)
	if err != nil {
		return as, err
	}
	err = yaml.Unmarshal(b, &as)
	return as, err
}

type c15RunResult struct {
	Data W        `json:"data"`
	Logs []string `json:"logs"`
	Out  string   `json:"out"`
}

func c15RunAction(data W, f func(ex pipeline.Executor, d dom.ContainerBuilder) error) c15RunResult {
	d := wireContainer(data)
	l := &c15Listener{}
	ex := pipeline.New(pipeline.WithData(d), pipeline.WithListener(l))
	var err error
	out, txt := guard(func() { err = f(ex, d) })
	res := c15RunResult{Logs: l.logs, Out: out}
	if out == "ok" {
		res.Out = errTag(err)
	} else {
		res.Logs = append(res.Logs, "panic: "+txt)
	}
	res.Data = nodeWire(d)
	return res
}

func c15EvalExec(c *Ctx, p c15Exec) {
	as, err := c15Decode(p.Spec)
	if err != nil {
		c.Dist("exec:undecodable")
		return
	}
	c.Nontrivial()
	for _, k := range sortedKeys(p.Spec) {
		c.Dist("exec-op:" + k)
	}
	var action pipeline.Action = as
	if p.ForEach != nil {
		items := pipeline.ValOrRefSlice{}
		for _, it := range p.ForEach {
			items = append(items, &pipeline.ValOrRef{Val: it})
		}
		fe := &pipeline.ForEachOp{Item: &items, Action: as}
		if p.Var != "" {
			fe.Variable = &p.Var
		}
		action = pipeline.ActionSpec{Operations: pipeline.OpSpec{ForEach: fe}}
		c.Dist("exec:as-forEach-body")
	}
	// clone against a context whose snapshot is the case's data
	var clone pipeline.Action
	before := c15Dump(reflect.ValueOf(action), 0)
	out, txt := guard(func() {
		_ = c15WithCtx(wireContainer(p.Data), nil, func(ctx pipeline.ActionContext) error {
			clone = action.CloneWith(ctx)
			return nil
		})
	})
	if !c.Direct("no-panic", out == "ok" && clone != nil, txt) {
		return
	}
	c.Direct("original-untouched-by-clone", before == c15Dump(reflect.ValueOf(action), 0), nil)
	c.Direct("clone-deep-equal(whole value)", before == c15Dump(reflect.ValueOf(clone), 0),
		map[string]any{"original": before, "clone": c15Dump(reflect.ValueOf(clone), 0)})
	// the clone first: Do of some operations fills defaults into the value it runs on
	rc := c15RunAction(p.Data, func(ex pipeline.Executor, _ dom.ContainerBuilder) error { return ex.Execute(clone) })
	// the clone is an action of its own: running it (operations fill defaults into the value they run on) is not
	// running the original
	c.Direct("original-untouched-by-executing-the-clone", before == c15Dump(reflect.ValueOf(action), 0),
		map[string]any{"before": before, "after the clone ran": c15Dump(reflect.ValueOf(action), 0)})
	ro := c15RunAction(p.Data, func(ex pipeline.Executor, _ dom.ContainerBuilder) error { return ex.Execute(action) })
	c.Dist("exec-outcome:" + ro.Out)
	c.Direct("exec-same-outcome", ro.Out == rc.Out, map[string]any{"original": ro.Out, "clone": rc.Out})
	c.Direct("exec-same-data", canon(ro.Data) == canon(rc.Data), map[string]any{"original": ro.Data, "clone": rc.Data})
	c.Direct("exec-same-logs", canon(ro.Logs) == canon(rc.Logs), map[string]any{"original": ro.Logs, "clone": rc.Logs})
	if p.ForEach != nil {
		// forEach clones its body for every item; with a template-free body that must be the same as
		// executing the body itself once per item with the loop variable set
		body, _ := c15Decode(p.Spec)
		ref := c15RunAction(p.Data, func(ex pipeline.Executor, d dom.ContainerBuilder) error {
			vp := "forEach"
			if p.Var != "" {
				vp = p.Var
			}
			for _, it := range p.ForEach {
				d.AddValue(vp, dom.LeafNode(it))
				err := ex.Execute(body.Operations)
				if err == nil {
					err = ex.Execute(body.Children)
				}
				d.Remove(vp)
				if err != nil {
					return err
				}
			}
			return nil
		})
		c.Direct("forEach-body-same-effect(outcome)", ref.Out == ro.Out, map[string]any{"forEach": ro.Out, "sequential": ref.Out})
		c.Direct("forEach-body-same-effect(data)", canon(ref.Data) == canon(ro.Data), map[string]any{"forEach": ro.Data, "sequential": ref.Data})
		c.Direct("forEach-body-same-effect(logs)", canon(ref.Logs) == canon(ro.Logs), map[string]any{"forEach": ro.Logs, "sequential": ref.Logs})
	}
}

// self-check: every look-alike text is YAML the decoder reads (a text it rejects would silently populate nothing)
func init() {
	for _, t := range append(append([]string{}, c15LookValues...), c15LookMaps...) {
		var n yaml.Node
		if err := yaml.Unmarshal([]byte(t), &n); err != nil {
			panic(fmt.Sprintf("c15: look-alike text %q is not YAML: %v", t, err))
		}
	}
	for _, t := range c15LookMaps {
		var m map[string]interface{}
		if err := yaml.Unmarshal([]byte(t), &m); err != nil || len(m) == 0 {
			panic(fmt.Sprintf("c15: look-alike text %q does not decode into a map: %v", t, err))
		}
	}
}
