package main

import (
	"math/rand"
	"strconv"
	"strings"
)

// C19 — value-range breadth of the string-valued inputs of the reports: KEYS (leaf paths of the pool, the keys
// that values mention, unknown keys, impact keys, filter arguments), the TEXT between placeholders and LAYER names.
//
// "for all overlay documents over a small key pool": a key is whatever string a YAML / JSON mapping or a Go map
// holds as a key, and two keys are the same exactly when they are the same string.  Half of the `reports` cases
// therefore take their pool from FAMILIES of confusable spellings - letter-case twins ("maxConn" next to "maxconn",
// also one path segment up: "d.e" / "D.e"), characters whose case FOLDS onto ASCII letters (U+017F, U+212A), leading
// / trailing / inner white space (space, tab, NBSP, line break), Unicode composition twins, supplementary-plane
// characters, U+FFFD, characters that look like syntax, digit strings around 2^63 / 2^64, boolean / null spellings,
// names that are prefixes of each other - in a shuffled order (values mention keys LATER in the order of their
// case: acyclic), and the members of the families that are not in the pool serve as unknown keys.  Outside the
// domain stay only the characters the placeholder / path syntax itself is made of: '.', '[', ']' inside a path
// segment, ':' (the default separator), "${" and '}' inside a key, and ',' (separator of this harness's own
// `in` filter argument).

var c19KeyFamilies = [][]string{
	{"maxConn", "maxconn", "MAXCONN", "MaxConn"},
	{"a", "A"},
	{"k1", "K1", "k11", "k1x", "k"},
	{"d.e", "d.E", "D.e", "D.E"},
	{"http.maxConn", "http.maxconn", "HTTP.maxConn", "http.max-conn"},
	{"g.h.i", "g.H.i", "g.h.I", "G.h.i"},
	{"l[0]", "L[0]", "l[1]", "L[1]"},
	{"b", "b ", " b", "b\t", "b\u00a0", "b\n", "B"},
	{"x y", "x  y", "xy", "x\ty", "X y", "x\u00a0y"},
	{"\u00e9", "e\u0301", "\u00c9", "E\u0301"},
	{"s", "S", "\u017f", "K", "\u212a", "\u03c3", "\u03c2", "\u03a3"},
	{"\U0001F680", "\U0001F680\U0001F680", "\U0001D6FC", "\u03b1", "\ufffd", "\ufffd\ufffd"},
	{"a-b", "a_b", "a/b", "a//b", "a/", "a=b", "a#b", "#a", "!a", "~", "(a)", "a\\b", "a*", "*", "a?b", "a|b", "<a>", "\"a\"", "'a'", "%a", "@a", "a&b", "a b", "$a", "{a"},
	{"1", "01", "1e3", "-1", "+1", "9223372036854775807", "9223372036854775808", "18446744073709551615", "18446744073709551616", "123456789012345678901234"},
	{"true", "True", "TRUE", "t", "T", "f", "F", "0", "null", "Null"},
	{"ab", "abc", "abcd", "Ab", "aB"},
}

var c19LayerFamilies = [][]string{
	{"base", "Base", "BASE", "base ", " base", "bas"},
	{"env", "env/dev", "env//dev", "env/dev/", "Env"},
	{"local", "\U0001F680", "\u00e9", "e\u0301", "", "1", "01"},
}

// c19Gen carries the pools of one case.
type c19Gen struct {
	pool    []string // leaf paths; a value of pool[i] mentions pool[i+1:] only
	unknown []string
	texts   []string // text between placeholders
	plain   []string // placeholder-free string values
	wide    bool
	phKeys  bool // placeholder-shaped keys (c19PhKeyGen)
	long    bool // lists of more than ten items, leaf names ending in numbers of different digit counts (c19LongGen)
}

func c19ClassicGen() *c19Gen {
	return &c19Gen{pool: c19Pool, unknown: c19Unknown, texts: []string{"x", "-", "v1", " ", "_"}, plain: []string{"x", "v1", "a b", "", "1"}}
}

// c19PrefixFree: no pool path is a proper path prefix of another (a leaf is not also a container / list).
func c19PrefixFree(pool []string, k string) bool {
	head := func(s string) string {
		if i := strings.IndexAny(s, ".["); i >= 0 {
			return s[:i]
		}
		return s
	}
	for _, p := range pool {
		if p == k {
			return false
		}
		for _, pair := range [][2]string{{p, k}, {k, p}} {
			a, b := pair[0], pair[1]
			if strings.HasPrefix(b, a+".") || strings.HasPrefix(b, a+"[") {
				return false
			}
		}
		// one name is either a container or a list, not both ("l[0]" next to "l.x")
		if head(p) == head(k) && strings.Contains(p, "[") != strings.Contains(k, "[") {
			return false
		}
	}
	return true
}

func c19WideGen(r *rand.Rand) *c19Gen {
	g := &c19Gen{wide: true,
		texts: []string{"x", "-", "v1", " ", "_", "\t", "\U0001F680", "\ufffd", "\u00e9", "$", "{", "}", ":", "\\", "X", "\u00a0", "18446744073709551616"},
		plain: []string{"x", "v1", "a b", "", "1", "X", " x", "x ", "\U0001F680", "\ufffd", "$", "{}", "$x", "9223372036854775808", "true", "True"}}
	add := func(k string) {
		if len(g.pool) < 12 && c19PrefixFree(g.pool, k) {
			g.pool = append(g.pool, k)
		}
	}
	var used [][]string
	for n := 2 + r.Intn(3); n > 0; n-- {
		f := c19KeyFamilies[r.Intn(len(c19KeyFamilies))]
		used = append(used, f)
		m := 2 + r.Intn(2)
		for _, i := range r.Perm(len(f)) {
			if m > 0 {
				before := len(g.pool)
				add(f[i])
				if len(g.pool) > before {
					m--
				}
			}
		}
	}
	for _, i := range r.Perm(len(c19Pool)) {
		if len(g.pool) < 9 {
			add(c19Pool[i])
		}
	}
	r.Shuffle(len(g.pool), func(i, j int) { g.pool[i], g.pool[j] = g.pool[j], g.pool[i] })
	// unknown keys: the classic ones and the confusable spellings of pool keys that are NOT in the pool
	g.unknown = append([]string{}, c19Unknown...)
	for _, f := range used {
		for _, k := range f {
			if len(g.unknown) < 9 && c19PrefixFree(g.pool, k) && c19PrefixFree(g.unknown, k) {
				g.unknown = append(g.unknown, k)
			}
		}
	}
	return g
}

// c19LongGen: "sorted" in the clauses is the order of the key STRINGS.  It differs from the orders a reader of a report
// may find more natural - list items in document order, digit runs by numeric value, shorter keys first - only on
// keys that are equal up to a run of digits of different LENGTH: l[10] sorts before l[2], k10 before k2.  So some
// cases hold lists of more than ten items (top-level items, and items of a list of containers reached at a few
// indices below and above ten) and leaf names ending in one- and two-digit numbers.
func c19LongGen(r *rand.Rand) *c19Gen {
	g := c19ClassicGen()
	pool := []string{"a", "b", "d.e", "d.f", "k1", "k2", "k9", "k10", "k11"}
	n := 11 + r.Intn(4)
	for i := 0; i < n; i++ {
		pool = append(pool, "l["+c19Itoa(i)+"]")
	}
	if r.Intn(2) == 0 {
		for _, i := range []int{0, 1, 2, 9, 10, 12} {
			if r.Intn(3) > 0 {
				pool = append(pool, "g.m["+c19Itoa(i)+"].x")
			}
		}
	}
	r.Shuffle(len(pool), func(i, j int) { pool[i], pool[j] = pool[j], pool[i] })
	g.pool = pool
	g.unknown = append(append([]string{}, c19Unknown...), "k3", "k100")
	g.long = true
	return g
}

// c19PhKeyGen: "reports depend only on document content": a key is whatever string a mapping holds, also a text that
// LOOKS like a value - `${x}`, `${a:b}`, the very text another key holds as its value, the text the key itself holds.
// Key names and value texts are different things: a report about keys must not confuse the two.  Pool: 3-5
// placeholder-shaped keys next to 1-2 plain ones; values: placeholder-shaped texts of the same small family (so a
// value often equals the NAME of another key of the document, or of its own key), mentions of plain keys that are
// mostly absent (unresolved: failed keys), defaults, plain text.  Plain keys mention only plain keys later in the
// pool order or absent ones (acyclic); nobody mentions a placeholder-shaped key.  These cases are judged by the
// direct predicates only (noModel).
var c19PhShaped = []string{"${x}", "${y}", "${a:b}", "${k2}", "${nope}", "pre-${x}", "${x}${y}", "${y}-post"}
var c19PhPlain = []string{"x", "y", "a", "k2"}

func c19PhKeyGen(r *rand.Rand) *c19Gen {
	g := c19ClassicGen()
	var pool []string
	n := 3 + r.Intn(3)
	for _, i := range r.Perm(len(c19PhShaped))[:n] {
		pool = append(pool, c19PhShaped[i])
	}
	for _, i := range r.Perm(len(c19PhPlain))[:1+r.Intn(2)] {
		pool = append(pool, c19PhPlain[i])
	}
	r.Shuffle(len(pool), func(i, j int) { pool[i], pool[j] = pool[j], pool[i] })
	g.pool = pool
	g.unknown = []string{"nope", "u1", "${u1}", "${x}"}
	g.phKeys = true
	return g
}

// c19PhMentioned: the plain keys a text of the c19PhShaped family mentions.
func c19PhMentioned(text string) []string {
	var out []string
	for _, k := range append(append([]string{}, c19PhPlain...), "nope") {
		if strings.Contains(text, "${"+k+"}") || strings.Contains(text, "${"+k+":") {
			out = append(out, k)
		}
	}
	return out
}

func (g *c19Gen) phValue(r *rand.Rand, idx int) W {
	key := g.pool[idx]
	pos := map[string]int{}
	for i, k := range g.pool {
		pos[k] = i
	}
	shaped := strings.Contains(key, "${")
	// a text may be used when it keeps the mentions acyclic: a plain key mentions only absent keys and plain keys
	// later in the pool order
	ok := func(text string) bool {
		if shaped {
			return true
		}
		for _, m := range c19PhMentioned(text) {
			if p, in := pos[m]; in && p <= idx {
				return false
			}
		}
		return true
	}
	for try := 0; try < 8; try++ {
		var text string
		switch k := r.Intn(20); {
		case k < 10:
			text = pick(r, c19PhShaped)
		case k < 13:
			text = key // a key equal to its own value
		case k < 15:
			text = pick(r, g.pool) // the NAME of a key of the document as value text
		case k < 17:
			text = "${" + pick(r, c19PhPlain) + "}"
		case k < 18:
			text = "${" + pick(r, c19PhPlain) + ":" + pick(r, g.texts) + "}"
		default:
			return scalarWire(pick(r, g.plain))
		}
		if ok(text) {
			return scalarWire(text)
		}
	}
	return scalarWire(pick(r, g.plain))
}

func c19Itoa(i int) string { return strconv.Itoa(i) }

// c19LayerNames: layer names for one document (classic, or confusable spellings).
func c19LayerNames(r *rand.Rand, classic []string) []string {
	if r.Intn(3) > 0 {
		return classic
	}
	f := c19LayerFamilies[r.Intn(len(c19LayerFamilies))]
	out := []string{}
	for _, i := range r.Perm(len(f)) {
		if len(out) < len(classic) {
			out = append(out, f[i])
		}
	}
	return out
}

// c19KeyShape names what the keys of a case contain, for the input-distribution evidence.
func c19KeyShape(keys []string) []string {
	out := map[string]bool{}
	fold := map[string]string{}
	trim := map[string]string{}
	for _, s := range keys {
		if s != strings.TrimSpace(s) || strings.ContainsAny(s, " \t\n\u00a0") {
			out["with-white-space"] = true
		}
		for _, c := range s {
			if c > 127 {
				out["non-ascii"] = true
			}
			if c > 0xffff {
				out["supplementary-plane"] = true
			}
		}
		f := strings.ToLower(s)
		if o, ok := fold[f]; ok && o != s {
			out["case-twins"] = true
		}
		fold[f] = s
		t := strings.TrimSpace(s)
		if o, ok := trim[t]; ok && o != s {
			out["white-space-twins"] = true
		}
		trim[t] = s
		if strings.Contains(s, "${") {
			out["placeholder-shaped"] = true
		}
		if i := strings.LastIndex(s, "["); i >= 0 && strings.IndexByte(s[i:], ']') > 3 {
			out["list-index>=10"] = true
		}
		if len(s) >= 19 && strings.Trim(s, "0123456789") == "" {
			out["long-digit-string"] = true
		}
	}
	return sortedKeys(out)
}
