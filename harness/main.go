// Command harness is the correspondence harness of the yaml-toolkit verification
// machinery.  It executes the real implementation (module replaced by /repo's working
// tree) in-process, pipes the same cases to the Lean model driver and compares;
// it evaluates each property's own predicates directly on the implementation's
// outputs; and it reaches the verdict described in DESIGN.md section 5.
//
//	harness run    <Cxx> [-tier quick|thorough] [-seed N] [-proof file.json] [-evidence out.json]
//	harness replay <Cxx> <replay.json>
package main

import (
	"flag"
	"fmt"
	"os"
	"sort"
	"strconv"
	"time"
)

// Prop is one property's check.
type Prop struct {
	ID string
	// Run generates cases (corpus first) and evaluates them through ctx.
	Run func(c *Ctx)
	// Replay re-executes one recorded case and prints both sides.
	Replay func(c *Ctx, raw []byte)
	// Rule describes generation and what makes a case non-trivial.
	Rule string
	// Assumptions listed in the evidence.
	Assumptions []string
}

var registry = map[string]*Prop{}

func register(p *Prop) { registry[p.ID] = p }

func usage() {
	fmt.Fprintln(os.Stderr, "usage: harness run <Cxx> [-tier t] [-seed n] [-proof f] [-evidence f] | harness replay <Cxx> <file> | harness list")
	os.Exit(2)
}

func main() {
	if len(os.Args) < 2 {
		usage()
	}
	switch os.Args[1] {
	case "list":
		ids := []string{}
		for id := range registry {
			ids = append(ids, id)
		}
		sort.Strings(ids)
		for _, id := range ids {
			fmt.Println(id)
		}
	case "run":
		if len(os.Args) < 3 {
			usage()
		}
		id := os.Args[2]
		fs := flag.NewFlagSet("run", flag.ExitOnError)
		tier := fs.String("tier", "quick", "quick|thorough")
		seed := fs.Int64("seed", 1, "PRNG seed")
		proof := fs.String("proof", "", "proof status JSON written by ./check")
		evid := fs.String("evidence", "", "evidence output file")
		driver := fs.String("driver", "", "path of the model driver binary")
		verifDir := fs.String("verif", "/verif", "verif root")
		budget := fs.Float64("scale", 1.0, "case budget multiplier")
		_ = fs.Parse(os.Args[3:])
		p, ok := registry[id]
		if !ok {
			fmt.Fprintf(os.Stderr, "unknown property %s\n", id)
			os.Exit(2)
		}
		if s := os.Getenv("VERIF_SEED"); s != "" {
			if n, err := strconv.ParseInt(s, 10, 64); err == nil {
				*seed = n
			}
		}
		c := newCtx(p, *tier, *seed, *driver, *verifDir, *budget)
		c.loadProof(*proof)
		start := time.Now()
		c.runGuarded(func() { p.Run(c) })
		code := c.verdict(start, *evid)
		c.close()
		os.Exit(code)
	case "replay":
		if len(os.Args) < 4 {
			usage()
		}
		id := os.Args[2]
		p, ok := registry[id]
		if !ok {
			fmt.Fprintf(os.Stderr, "unknown property %s\n", id)
			os.Exit(2)
		}
		fs := flag.NewFlagSet("replay", flag.ExitOnError)
		driver := fs.String("driver", "", "path of the model driver binary")
		verifDir := fs.String("verif", "/verif", "verif root")
		_ = fs.Parse(os.Args[4:])
		c := newCtx(p, "quick", 1, *driver, *verifDir, 1)
		c.replayMode = true
		code := c.replayFile(os.Args[3])
		c.close()
		os.Exit(code)
	default:
		usage()
	}
}
