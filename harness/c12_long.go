package main

// C12, the LARGE cases (a few per run, direct predicates only — no model is involved):
//
//	long   A LONG-LIVED EXECUTOR: one executor, one data document, a small pool of actions — some that fail (an
//	       abort / a failing ext action / a condition without a boolean value a few levels down), some that do not —
//	       executed one after the other 100..300 times, whatever the earlier calls returned.  The property holds for
//	       EVERY call: "the observed trace of executed operations, the returned error and the final data equal those
//	       of a reference interpreter" — the 250th Execute of an action does what the first one did on the data it
//	       finds; a run that failed (the first failing operation stops THAT run) takes nothing away from the runs
//	       that follow.  The listener events of every call are a well-nested word of their own.
//	deep   DEPTH ("executing an action runs its own operations first … and then its child actions …, RECURSIVELY"):
//	       a chain of 60..300 nested actions, some of the levels carrying an operation of their own, a small random
//	       tree at the bottom.  The operations of every level run, in nesting order, and the bottom tree runs as it
//	       would on its own; an error at the bottom is carried by the after-notification of every level.
//
// Both are executed on the real executor only and compared with the independent Go reference interpreter
// (c12_ref.go) and the trace predicates of c12.go.

import (
	"encoding/json"
	"fmt"
	"math/rand"
	"strings"

	"github.com/rkosegi/yaml-toolkit/pipeline"
)

type c12Long struct {
	Data  W        `json:"data"`
	Pool  []c12Act `json:"pool"`
	Order []int    `json:"order"` // indices into Pool: the sequence of Execute calls
}

// c12FailingChain: an action that fails k levels down (after a set operation on the way that stays)
func c12FailingChain(r *rand.Rand, name string, k int) c12Act {
	how := pick(r, []string{"abort", "abort", "extfail", "cond"})
	leaf := c12Act{Name: fmt.Sprintf("%s_%d", name, k), Order: 1, Ops: []c12Op{}, Children: []c12Act{}}
	switch how {
	case "abort":
		leaf.Ops = []c12Op{c12MkOp("log", leaf.Name), c12MkOp("abort", leaf.Name)}
	case "extfail":
		leaf.Ops = []c12Op{{K: "ext", Fn: "fail", ID: leaf.Name}}
	default:
		leaf.When = sp(pick(r, []string{"maybe", "", "{{ .keep.y }}"}))
		leaf.Ops = []c12Op{c12MkOp("log", leaf.Name)}
	}
	cur := leaf
	for i := k - 1; i >= 0; i-- {
		a := c12Act{Name: fmt.Sprintf("%s_%d", name, i), Order: 1, Ops: []c12Op{}, Children: []c12Act{cur}}
		if r.Intn(2) == 0 {
			a.Ops = append(a.Ops, c12MkOp(pick(r, []string{"set", "log", "ext"}), a.Name))
		}
		if r.Intn(3) == 0 {
			// a sibling after the failing branch: must not run
			a.Children = append(a.Children, c12Act{Name: a.Name + "_after", Order: 2, Ops: []c12Op{c12MkOp("log", a.Name+"_after")}, Children: []c12Act{}})
		}
		cur = a
	}
	cur.Name = name
	return cur
}

func c12GenLong(r *rand.Rand) c12Long {
	p := c12Long{Data: c12Data()}
	var others, tpls []string
	// an action that fails a few levels down, two ordinary ones (random trees; they may fail as well)
	p.Pool = append(p.Pool, c12FailingChain(r, "f", 1+r.Intn(4)))
	for _, nm := range []string{"r", "s"} {
		p.Pool = append(p.Pool, c12RandTree(r, nm, 0, 1+r.Intn(2), 1+r.Intn(2), &others, &tpls))
	}
	if r.Intn(2) == 0 {
		p.Pool = append(p.Pool, c12FailingChain(r, "g", 2+r.Intn(4)))
	}
	n := pick(r, []int{100, 150, 200, 300})
	for i := 0; i < n; i++ {
		// failing runs first and in between, an ordinary one every now and then and at the end
		switch x := r.Intn(10); {
		case x < 5:
			p.Order = append(p.Order, 0)
		case x < 7 && len(p.Pool) > 3:
			p.Order = append(p.Order, 3)
		default:
			p.Order = append(p.Order, 1+r.Intn(2))
		}
	}
	p.Order = append(p.Order, 1, 2)
	return p
}

func c12EvalLong(c *Ctx, raw []byte) {
	var p c12Long
	if err := json.Unmarshal(raw, &p); err != nil {
		panic(err)
	}
	if _, ok := wireCont(p.Data); !ok {
		p.Data = map[string]any{"m": map[string]any{}}
	}
	if len(p.Order) > 1000 {
		p.Order = p.Order[:1000]
	}
	for i := range p.Pool {
		p.Pool[i].norm()
	}
	var roots []c12Act
	var which []int
	for _, ix := range p.Order {
		if ix >= 0 && ix < len(p.Pool) {
			roots = append(roots, p.Pool[ix])
			which = append(which, ix)
		}
	}
	if len(roots) >= 2 {
		c.Nontrivial()
	}
	c.Dist(fmt.Sprintf("long:execute-calls-on-one-executor:%d+", len(roots)/50*50))
	ref := refExecActsEdited(p.Data, roots, refDefaultFns, 400000, nil)
	// ONE value per pool entry, executed again and again; every other entry is passed as a pointer
	specs := make([]pipeline.Action, len(p.Pool))
	for i := range p.Pool {
		sv := p.Pool[i].spec()
		if i%2 == 1 {
			specs[i] = &sv
		} else {
			specs[i] = sv
		}
	}
	acts := make([]pipeline.Action, len(which))
	for i, ix := range which {
		acts[i] = specs[ix]
	}
	run := c12ExecEdited(p.Data, acts, false, nil)
	v := "(one-executor,many-runs)"
	if strings.HasPrefix(run.text, "runaway") {
		if !c.searchMode {
			c.Direct("terminates"+v, false, run.text)
		}
		return
	}
	if !c.Direct("no-panic"+v, run.outcome == "ok" && len(run.errs) == len(acts), run.text) {
		return
	}
	rts, problem := c12Parse(run.rec)
	if !c.Direct("well-nested"+v, problem == "" && len(rts) == len(acts), map[string]any{"problem": problem, "executeCalls": len(acts), "topLevelPairs": len(rts)}) {
		return
	}
	failed := 0
	for i, rt := range rts {
		// the clauses for this call alone; the detail names the call
		ff := c12FailFast(run.rec, rt.first, rt.last+1, run.errs[i])
		c.Direct("fail-fast"+v, ff == "", map[string]any{"problem": ff, "call": i, "action": roots[i].Name})
		c.Direct("after-carries-error"+v, c12SameErr(rt.err, run.errs[i]) && rt.label == "act:"+roots[i].Name,
			map[string]any{"call": i, "action": roots[i].Name, "returned": fmt.Sprint(run.errs[i])})
		if run.errs[i] != nil {
			failed++
		}
	}
	c.Dist(fmt.Sprintf("long:failed-runs:%d+", failed/25*25))
	if !ref.OK {
		c.Dist("long:reference:outside-its-domain")
		return
	}
	c.Dist("long:reference:compared")
	// per call: the first call whose operations / error differ from the reference's is named
	got := c12ProjectOps(run.tr)
	if canon(got) != canon(ref.Ev) {
		k := 0
		for k < len(got) && k < len(ref.Ev) && canon(got[k]) == canon(ref.Ev[k]) {
			k++
		}
		lo, hiG, hiR := max(0, k-6), min(len(got), k+6), min(len(ref.Ev), k+6)
		c.Direct("operations-trace-equals-reference"+v, false, map[string]any{"firstDifferenceAtEvent": k, "got(around it)": got[lo:hiG], "reference(around it)": ref.Ev[lo:hiR],
			"eventsGot": len(got), "eventsReference": len(ref.Ev)})
	} else {
		c.Direct("operations-trace-equals-reference"+v, true, nil)
	}
	gotErrs := run.errTags()
	firstBad := -1
	for i := range gotErrs {
		if i >= len(ref.Errs) || canon(gotErrs[i]) != canon(ref.Errs[i]) {
			firstBad = i
			break
		}
	}
	detail := map[string]any{}
	if firstBad >= 0 {
		detail = map[string]any{"call": firstBad, "action": roots[firstBad].Name, "got": gotErrs[firstBad], "reference": ref.Errs[firstBad],
			"returned": fmt.Sprint(run.errs[firstBad]), "failedRunsBefore": func() int {
				n := 0
				for _, e := range run.errs[:firstBad] {
					if e != nil {
						n++
					}
				}
				return n
			}()}
	}
	c.Direct("returned-error-equals-reference"+v, firstBad < 0 && len(gotErrs) == len(ref.Errs), detail)
	c.Direct("final-data-equals-reference"+v, canon(run.dataWire()) == canon(ref.Data), map[string]any{"got": run.dataWire(), "reference": ref.Data})
}

// ---------------------------------------------------------------- deep

type c12Deep struct {
	Data W `json:"data"`
	// one entry per level of the chain, outermost first: "" (no operation of its own) | set | log | ext | template
	Levels []string `json:"levels"`
	Bottom c12Act   `json:"bottom"`
}

func c12GenDeep(r *rand.Rand) c12Deep {
	p := c12Deep{Data: c12Data()}
	n := pick(r, []int{60, 100, 130, 160, 200, 300})
	for i := 0; i < n; i++ {
		k := ""
		if r.Intn(8) == 0 {
			k = pick(r, []string{"set", "log", "ext", "template"})
		}
		p.Levels = append(p.Levels, k)
	}
	var others, tpls []string
	p.Bottom = c12RandTree(r, "b", 0, 1+r.Intn(2), 1+r.Intn(2), &others, &tpls)
	return p
}

func (p *c12Deep) root() c12Act {
	cur := p.Bottom
	cur.Order = 1
	for i := len(p.Levels) - 1; i >= 0; i-- {
		name := fmt.Sprintf("d%d", i)
		a := c12Act{Name: name, Order: 1, Ops: []c12Op{}, Children: []c12Act{cur}}
		switch k := p.Levels[i]; k {
		case "set", "log", "ext", "template":
			a.Ops = append(a.Ops, c12MkOp(k, name))
		}
		cur = a
	}
	return cur
}

func c12EvalDeep(c *Ctx, raw []byte) {
	var p c12Deep
	if err := json.Unmarshal(raw, &p); err != nil {
		panic(err)
	}
	if _, ok := wireCont(p.Data); !ok {
		p.Data = map[string]any{"m": map[string]any{}}
	}
	if len(p.Levels) > 400 {
		p.Levels = p.Levels[:400]
	}
	p.Bottom.norm()
	if strings.HasPrefix(p.Bottom.Name, "d") || p.Bottom.Name == "" {
		p.Bottom.Name = "b"
	}
	root := p.root()
	root.norm()
	if len(p.Levels) >= 2 {
		c.Nontrivial()
	}
	c.Dist(fmt.Sprintf("deep:levels:%d+", len(p.Levels)/50*50))
	ref := refExecActsEdited(p.Data, []c12Act{root}, refDefaultFns, 100000, nil)
	for _, variant := range []string{"struct", "struct,pointer", "yaml"} {
		var spec pipeline.ActionSpec
		if variant != "yaml" {
			spec = root.spec()
		} else {
			s, _, err := root.specViaYAML()
			if !c.Direct("yaml-decodes", err == nil, map[string]any{"levels": len(p.Levels), "err": fmt.Sprint(err)}) {
				continue
			}
			spec = s
		}
		var act pipeline.Action = spec
		if variant == "struct,pointer" {
			act = &spec
		}
		run := c12Exec(p.Data, []pipeline.Action{act}, false)
		v := "(" + variant + ",deep)"
		if !c.Direct("no-panic"+v, run.outcome == "ok" && len(run.errs) == 1, run.text) {
			break
		}
		good := true
		direct := func(clause string, ok bool, detail any) {
			if !c.Direct(clause, ok, detail) {
				good = false
			}
		}
		// (the trace of a deep chain is long: the details name the problem, not the whole trace)
		rts, problem := c12Parse(run.rec)
		if !c.Direct("well-nested"+v, problem == "" && len(rts) == 1, map[string]any{"problem": problem, "levels": len(p.Levels)}) {
			break
		}
		ret := run.errs[0]
		ff := c12FailFast(run.rec, rts[0].first, rts[0].last+1, ret)
		direct("fail-fast"+v, ff == "", map[string]any{"problem": ff, "levels": len(p.Levels)})
		direct("after-carries-error"+v, c12SameErr(rts[0].err, ret), map[string]any{"returned": fmt.Sprint(ret), "levels": len(p.Levels)})
		// "… and then its child actions …, recursively": every level was entered (unless the run failed on the way)
		entered := 0
		for _, e := range run.rec.ev {
			if e[0] == "b" {
				if l, _ := e[1].(string); strings.HasPrefix(l, "act:d") {
					entered++
				}
			}
		}
		// the chain's own operations never fail (set / log / ext trace / a template that renders) and its levels carry
		// no condition: every level is entered
		direct("every-level-of-the-chain-entered"+v, entered == len(p.Levels), map[string]any{"levels": len(p.Levels), "entered": entered, "returned": fmt.Sprint(ret)})
		if !good {
			break // (the other entry points would repeat it)
		}
		if !ref.OK {
			c.Dist("deep:reference:outside-its-domain")
			continue
		}
		c.Dist("deep:reference:compared")
		got := c12ProjectOps(run.tr)
		direct("operations-trace-equals-reference"+v, canon(got) == canon(ref.Ev), map[string]any{"levels": len(p.Levels), "eventsGot": len(got), "eventsReference": len(ref.Ev),
			"got(tail)": got[max(0, len(got)-8):], "reference(tail)": ref.Ev[max(0, len(ref.Ev)-8):]})
		direct("returned-error-equals-reference"+v, canon(run.errTags()) == canon(ref.Errs), map[string]any{"levels": len(p.Levels), "got": run.errTags(), "reference": ref.Errs, "returned": fmt.Sprint(ret)})
		direct("final-data-equals-reference"+v, canon(run.dataWire()) == canon(ref.Data), map[string]any{"got": run.dataWire(), "reference": ref.Data})
		if !good {
			break
		}
	}
}
