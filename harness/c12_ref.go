package main

// An independent Go reference interpreter for pipeline programs (C12: "the observed trace of executed
// operations, the returned error and the final data equal those of a reference interpreter"; C14: "the
// trace of (item, operation) pairs equals items x body in order up to the failure").
//
// It interprets the JSON form of programs (c12Act / c12Op) over a plain document in wire form.  It shares
// nothing with the code under test and nothing with the Lean model:
//
//   - the order in which an action's own operations run is the DOCUMENTED one — a literal copy of the
//     OpSpec field list at the pinned commit (c12DocumentedOrder) — never read from the OpSpec type;
//   - which ext function name does what is a parameter of the run (the registrations made with
//     WithExtActions for THAT executor), so one program can be interpreted once per executor;
//   - documents are plain trees with value semantics (no aliasing).
//
// Domain.  The reference answers only inside the fragment whose meaning is beyond doubt: dotted paths of
// plain keys [A-Za-z0-9_-]+ (no list indices), the template micro-fragment `literal | {{ .a.b }}` of
// scalars — plus three actions that fail while the template is being EXECUTED: `{{ template "name" }}` (the
// programs never define an associated template), `{{ fail "text" }}` and `{{ index .a.b N }}` of something
// that is not there — and texts that do NOT PARSE (an opening `{{` that no `}}` follows, wherever it sits; a
// block keyword on its own; an undefined function): no template, a rendering error —, parseAs none, distinct sibling names and orders, container queries with at most one
// key (Go map order is unspecified beyond that).  Outside it the result is marked unsupported (with the
// reason) and the harness compares nothing — shrink candidates and witness-search neighbours may leave the
// domain.
//
// Two rules the property states and that are easy to get wrong:
//
//   - a condition that is PRESENT (whatever its text: empty and white-space-only texts included) must render
//     to a text that parses as a boolean; otherwise the action fails with that error — it is never treated
//     as "no condition";
//   - rendering either yields the whole text or fails: a template that fails half way through yields NO
//     text, and a template operation whose rendering failed leaves the empty text at its path.
//
// Observations.  The reference produces the projection of a run that the property speaks about:
//
//	["o", label]        an operation starts (label as the harness' listener prints it)
//	["r", id]           an ext action ran
//	["l", text]         a log line
//	["t", tmpl, b|nil]  one evaluation of a condition / loop test (nil = it failed)
//
// plus, per top-level Execute call, the error class (nil | tag) and the final document.

import (
	"fmt"
	"regexp"
	"sort"
	"strconv"
	"strings"
)

// c12DocumentedOrder is the documented, fixed order of an action's own operations: the field list of
// pipeline.OpSpec as declared at the pinned commit.  A literal on purpose.
var c12DocumentedOrder = []string{"Set", "Patch", "Import", "Template", "TemplateFile", "Call", "Define", "Env", "Exec",
	"Export", "Ext", "ForEach", "Log", "Loop", "Abort", "Html2Dom"}

// the three ext actions the harness registers under their own names by default
var refDefaultFns = map[string]string{"trace": "trace", "fail": "fail", "inc": "inc"}

type refUnsupported struct{ why string }

type refRes struct {
	OK   bool    // false: outside the reference's domain (Why says where)
	Why  string  //
	Ev   [][]any // projected events
	Errs []any   // per top-level Execute: nil | error tag
	Data W       // final document
}

type refRun struct {
	data   map[string]any // entries of the root container, wire form, owned by the run
	defs   map[string]*c12Act
	fns    map[string]string
	ev     [][]any
	budget int
}

func refOut(why string, a ...any) { panic(refUnsupported{fmt.Sprintf(why, a...)}) }

func (s *refRun) emit(e ...any) {
	s.budget--
	if s.budget < 0 {
		refOut("event budget exhausted (non-terminating program?)")
	}
	s.ev = append(s.ev, e)
}

// refExec interprets Execute(root) on a fresh executor holding data and the given ext registrations.
func refExec(data W, root *c12Act, fns map[string]string) (res *refRes) {
	return refGuard(data, fns, func(s *refRun) []any { return []any{s.execAct(root)} })
}

// refExecActs interprets one Execute(action) call per entry on ONE executor (one data document, one
// callable registry); every call is made, whatever the earlier ones returned.
func refExecActs(data W, roots []c12Act, fns map[string]string) (res *refRes) {
	return refGuard(data, fns, func(s *refRun) []any {
		errs := make([]any, 0, len(roots))
		for i := range roots {
			errs = append(errs, s.execAct(&roots[i]))
		}
		return errs
	})
}

// refExecSeq interprets one Execute(op) call per entry on one executor; every call is made, whatever
// the earlier ones returned.
func refExecSeq(data W, prog []c12Op, fns map[string]string) (res *refRes) {
	return refGuard(data, fns, func(s *refRun) []any {
		errs := make([]any, 0, len(prog))
		for i := range prog {
			errs = append(errs, s.execOp(&prog[i]))
		}
		return errs
	})
}

func refGuard(data W, fns map[string]string, f func(s *refRun) []any) (res *refRes) {
	res = &refRes{}
	defer func() {
		if r := recover(); r != nil {
			u, ok := r.(refUnsupported)
			if !ok {
				panic(r)
			}
			res.OK, res.Why = false, u.why
		}
	}()
	root, ok := wireCont(deepCopyW(data))
	if !ok {
		refOut("data is not a container")
	}
	s := &refRun{data: root, defs: map[string]*c12Act{}, fns: fns, budget: 20000}
	res.Errs = f(s)
	res.Ev, res.Data, res.OK = s.ev, map[string]any{"m": s.data}, true
	if res.Ev == nil {
		res.Ev = [][]any{}
	}
	return res
}

// ---------------------------------------------------------------- documents

var refKeyRe = regexp.MustCompile(`^[A-Za-z0-9_-]+$`)

func refKey(k string) string {
	if !refKeyRe.MatchString(k) {
		refOut("key %q is not a plain key", k)
	}
	return k
}

func refSegs(path string) []string {
	segs := strings.Split(path, ".")
	for _, s := range segs {
		refKey(s)
	}
	return segs
}

func refLeaf(t, v string) W { return map[string]any{"t": t, "v": v} }

func refLeafOf(w W) (t, v string, ok bool) {
	m, isMap := w.(map[string]any)
	if !isMap {
		return "", "", false
	}
	if _, isCont := m["m"]; isCont {
		return "", "", false
	}
	t, _ = m["t"].(string)
	v, _ = m["v"].(string)
	return t, v, true
}

// Lookup(path): nil when the path does not resolve
func refLookup(root map[string]any, path string) W {
	if path == "" {
		return nil
	}
	cur := root
	segs := refSegs(path)
	for i, s := range segs {
		n, has := cur[s]
		if !has {
			return nil
		}
		if i == len(segs)-1 {
			return n
		}
		c, ok := wireCont(n)
		if !ok {
			return nil
		}
		cur = c
	}
	return nil
}

// AddValueAt(path, v): containers are created along the way; whatever else sits on the way is replaced
func refAddAt(root map[string]any, path string, v W) {
	cur := root
	segs := refSegs(path)
	for _, s := range segs[:len(segs)-1] {
		c, ok := wireCont(cur[s])
		if !ok {
			c = map[string]any{}
			cur[s] = map[string]any{"m": c}
		}
		cur = c
	}
	cur[segs[len(segs)-1]] = deepCopyW(v)
}

// RemoveAt(path): the last key is removed from its parent when the parent exists
func refRemoveAt(root map[string]any, path string) {
	cur := root
	segs := refSegs(path)
	for _, s := range segs[:len(segs)-1] {
		c, ok := wireCont(cur[s])
		if !ok {
			return
		}
		cur = c
	}
	delete(cur, segs[len(segs)-1])
}

func refHasValue(w W) bool {
	if t, _, ok := refLeafOf(w); ok {
		return t != "nil"
	}
	return true
}

func refCoalesce(n, v W) W {
	if refHasValue(v) {
		return v
	}
	if refHasValue(n) {
		return n
	}
	return refLeaf("nil", "<nil>")
}

// dom merge with default options (containers merged key by key, lists melded position by position,
// otherwise the argument's value wins unless it is null)
func refMergeInto(n, v W) W {
	if vc, ok := wireCont(v); ok {
		if nc, ok := wireCont(n); ok {
			return map[string]any{"m": refMergeKvs(nc, vc)}
		}
		return refCoalesce(n, v)
	}
	if vl, ok := v.([]any); ok {
		if nl, ok := n.([]any); ok {
			out := []any{}
			for i := 0; i < len(nl) || i < len(vl); i++ {
				switch {
				case i >= len(vl):
					out = append(out, nl[i])
				case i >= len(nl):
					out = append(out, vl[i])
				default:
					out = append(out, refMergeInto(nl[i], vl[i]))
				}
			}
			return out
		}
		return refCoalesce(n, v)
	}
	return refCoalesce(n, v)
}

func refMergeKvs(c1, c2 map[string]any) map[string]any {
	out := map[string]any{}
	for k, v := range c1 {
		out[k] = v
	}
	for k, v := range c2 {
		if n, has := c1[k]; has {
			out[k] = refMergeInto(n, v)
		} else {
			out[k] = v
		}
	}
	return out
}

// ---------------------------------------------------------------- templates (micro-fragment)

type refSeg struct {
	lit     string
	keys    []string // nil: literal (or one of the three below)
	fails   bool     // an action that fails whenever it is executed
	index   bool     // `index .keys N`
	noParse bool     // the text is no template at all: it does not parse (nothing of it is ever executed)
}

var refIdentRe = regexp.MustCompile(`^[A-Za-z_][A-Za-z0-9_]*$`)

// actions that fail at EXECUTION time whatever the data: an associated template nobody defined, sprig's fail
var refAlwaysFailsRe = regexp.MustCompile(`^(template|fail) "[A-Za-z0-9 _-]*"$`)
var refIndexRe = regexp.MustCompile(`^index (\.[A-Za-z_][A-Za-z0-9_]*(?:\.[A-Za-z_][A-Za-z0-9_]*)*) [0-9]+$`)

var refDollarRe = regexp.MustCompile(`^\$(\.[A-Za-z_][A-Za-z0-9_]*(?:\.[A-Za-z_][A-Za-z0-9_]*)*)$`)
var refIndexKeyRe = regexp.MustCompile(`^index [.$] "([A-Za-z_][A-Za-z0-9_]*)"$`)

// actions that make the text unparsable whatever surrounds them: a block keyword without its value or without its
// block, a function nobody defined
var refNeverParsesRe = regexp.MustCompile(`^(end|else|if|range|with|nosuchfunc)$`)

// refUnclosed: an opening `{{` that no `}}` follows — an unclosed action, a syntax error wherever it sits
func refUnclosed(t string) bool {
	i := strings.LastIndex(t, "{{")
	return i >= 0 && !strings.Contains(t[i+2:], "}}")
}

func refParseTmpl(t string) []refSeg {
	var segs []refSeg
	if refUnclosed(t) {
		// parsing comes before execution: whatever the text holds before the unclosed action, nothing is rendered
		return []refSeg{{noParse: true}}
	}
	for len(t) > 0 {
		i := strings.Index(t, "{{")
		if i < 0 {
			segs = append(segs, refSeg{lit: t})
			break
		}
		if i > 0 {
			segs = append(segs, refSeg{lit: t[:i]})
		}
		t = t[i+2:]
		j := strings.Index(t, "}}")
		if j < 0 {
			refOut("template: unclosed action")
		}
		inner := strings.TrimSpace(t[:j])
		t = t[j+2:]
		if refNeverParsesRe.MatchString(inner) {
			return []refSeg{{noParse: true}}
		}
		if refAlwaysFailsRe.MatchString(inner) {
			segs = append(segs, refSeg{fails: true})
			continue
		}
		isIndex := false
		if m := refIndexRe.FindStringSubmatch(inner); m != nil {
			inner, isIndex = m[1], true
		}
		// the other spellings of a data reference: the chain on the root variable ($ is dot at the top of a template),
		// the index function with ONE key on dot / on $ (a map: the value of the key, nothing for a missing one)
		if m := refDollarRe.FindStringSubmatch(inner); m != nil {
			inner = m[1]
		} else if m := refIndexKeyRe.FindStringSubmatch(inner); m != nil {
			inner = "." + m[1]
		}
		if !strings.HasPrefix(inner, ".") {
			refOut("template action %q is outside the fragment", inner)
		}
		keys := strings.Split(inner[1:], ".")
		for _, k := range keys {
			if !refIdentRe.MatchString(k) {
				refOut("template action %q is outside the fragment", inner)
			}
		}
		segs = append(segs, refSeg{keys: keys, index: isIndex})
	}
	return segs
}

// `index .k1.k2 N`: indexing what is not there (a missing key, a null) is an execution error; indexing
// anything else is outside the fragment
func refEvalIndex(d map[string]any, keys []string) {
	cur := d
	for i, k := range keys {
		n, has := cur[k]
		if !has {
			return
		}
		if i == len(keys)-1 {
			if t, _, ok := refLeafOf(n); ok && t == "nil" {
				return
			}
			break
		}
		c, ok := wireCont(n)
		if !ok {
			break
		}
		cur = c
	}
	refOut("template: index of a value that exists")
}

// {{ .k1.k2 }}: a missing key prints "<no value>" (so does a null scalar); a field of a scalar, a null
// or a list is an execution error
func refEvalRef(d map[string]any, keys []string) (string, bool) {
	cur := d
	for i, k := range keys {
		n, has := cur[k]
		if !has {
			return "<no value>", true
		}
		if i == len(keys)-1 {
			t, v, ok := refLeafOf(n)
			if !ok {
				refOut("template prints a composite value")
			}
			if t == "nil" {
				return "<no value>", true
			}
			return v, true
		}
		c, ok := wireCont(n)
		if !ok {
			return "", false
		}
		cur = c
	}
	return "", false
}

// Render: (text, ok) — all of the text or, when any action fails, none of it
func refRender(t string, d map[string]any) (string, bool) {
	var sb strings.Builder
	segs := refParseTmpl(t)
	for _, s := range segs {
		if s.noParse {
			return "", false // a text that does not parse renders nothing and executes nothing
		}
	}
	for _, s := range segs {
		if s.fails {
			return "", false
		}
		if s.index {
			refEvalIndex(d, s.keys)
			return "", false
		}
		if s.keys == nil {
			sb.WriteString(s.lit)
			continue
		}
		v, ok := refEvalRef(d, s.keys)
		if !ok {
			return "", false
		}
		sb.WriteString(v)
	}
	return sb.String(), true
}

func refPossiblyTemplate(t string) bool {
	i := strings.Index(t, "{{")
	return i >= 0 && strings.Contains(t[i+2:], "}}")
}

// RenderLenient: the text itself when it is no template or does not render
func refLenient(t string, d map[string]any) string {
	if !refPossiblyTemplate(t) {
		return t
	}
	if v, ok := refRender(t, d); ok {
		return v
	}
	return t
}

// EvalBool: nil = error
func refEvalBool(t string, d map[string]any) any {
	v, ok := refRender(t, d)
	if !ok {
		return nil
	}
	switch strings.TrimSpace(v) {
	case "1", "t", "T", "TRUE", "true", "True":
		return true
	case "0", "f", "F", "FALSE", "false", "False":
		return false
	}
	return nil
}

// ---------------------------------------------------------------- programs

func refOpLabel(o *c12Op) string {
	switch o.K {
	case "set":
		return "set:" + o.Path
	case "template":
		return "template:" + o.Path
	case "log":
		return "log:" + o.Msg
	case "abort":
		return "abort:" + o.Msg
	case "ext":
		return "ext:" + o.Fn
	case "forEach":
		if o.Var != nil {
			return "forEach:" + *o.Var
		}
		return "forEach:forEach"
	case "loop":
		return "loop"
	case "call":
		return "call:" + o.Name
	case "define":
		return "define:" + o.Name
	}
	refOut("unknown operation kind %q", o.K)
	return ""
}

// the action's own operations (the first of each kind) in the documented order
func refOpsOf(a *c12Act) []*c12Op {
	var out []*c12Op
	for _, f := range c12DocumentedOrder {
		for i := range a.Ops {
			k, known := c12KindField[a.Ops[i].K]
			if !known {
				refOut("unknown operation kind %q", a.Ops[i].K)
			}
			if k == f {
				out = append(out, &a.Ops[i])
				break
			}
		}
	}
	return out
}

// child actions in ascending order value
func refChildren(a *c12Act) []*c12Act {
	names, orders := map[string]bool{}, map[int]bool{}
	out := make([]*c12Act, 0, len(a.Children))
	for i := range a.Children {
		c := &a.Children[i]
		if names[c.Name] || orders[c.Order] {
			refOut("sibling actions with equal names or equal order values")
		}
		names[c.Name], orders[c.Order] = true, true
		out = append(out, c)
	}
	sort.SliceStable(out, func(i, j int) bool { return out[i].Order < out[j].Order })
	return out
}

// the condition prologue: (skip, err).  A condition that is present — an empty or blank text is present —
// must evaluate to a boolean: anything else fails the action.
func (s *refRun) when(w *string) (bool, any) {
	if w == nil {
		return false, nil
	}
	b := refEvalBool(*w, s.data)
	s.emit("t", *w, b)
	switch b {
	case nil:
		return true, "cond"
	case false:
		return true, nil
	}
	return false, nil
}

// Execute(ActionSpec): condition; own operations in the documented order; condition again; children ascending
func (s *refRun) execAct(a *c12Act) any {
	if skip, err := s.when(a.When); skip {
		return err
	}
	for _, o := range refOpsOf(a) {
		if err := s.execOp(o); err != nil {
			return err
		}
	}
	if skip, err := s.when(a.When); skip {
		return err
	}
	return s.steps(a)
}

func (s *refRun) steps(a *c12Act) any {
	for _, c := range refChildren(a) {
		if err := s.execAct(c); err != nil {
			return err
		}
	}
	return nil
}

func (s *refRun) execOp(o *c12Op) any {
	s.emit("o", refOpLabel(o))
	switch o.K {
	case "set":
		return s.set(o)
	case "template":
		return s.template(o)
	case "log":
		s.emit("l", refLenient(o.Msg, s.data))
		return nil
	case "abort":
		return "abort:" + refLenient(o.Msg, s.data)
	case "ext":
		return s.ext(o)
	case "forEach":
		return s.forEach(o)
	case "loop":
		return s.loop(o)
	case "call":
		return s.call(o)
	case "define":
		if _, has := s.defs[o.Name]; has {
			return "redefined"
		}
		if o.Body == nil {
			refOut("define without a body")
		}
		s.defs[o.Name] = o.Body
		return nil
	}
	refOut("unknown operation kind %q", o.K)
	return nil
}

func (s *refRun) set(o *c12Op) any {
	if o.Data == nil {
		return "noData"
	}
	other, ok := wireCont(o.Data)
	if !ok {
		refOut("set: data is not a map")
	}
	strategy := "merge"
	if o.Strategy != nil {
		strategy = *o.Strategy
	}
	switch strategy {
	case "merge":
		if o.Path != "" {
			if dest, ok := wireCont(refLookup(s.data, o.Path)); ok {
				refAddAt(s.data, o.Path, map[string]any{"m": refMergeKvs(dest, other)})
			} else {
				refAddAt(s.data, o.Path, o.Data)
			}
			return nil
		}
		for _, k := range sortedKeys(other) {
			v := other[k]
			oc, isC := wireCont(s.data[refKey(k)])
			vc, vIsC := wireCont(v)
			if isC && vIsC {
				s.data[k] = deepCopyW(map[string]any{"m": refMergeKvs(oc, vc)})
			} else {
				s.data[k] = deepCopyW(v)
			}
		}
		return nil
	case "replace":
		if o.Path != "" {
			refAddAt(s.data, o.Path, o.Data)
			return nil
		}
		for _, k := range sortedKeys(other) {
			s.data[refKey(k)] = deepCopyW(other[k])
		}
		return nil
	}
	return "badStrategy"
}

func (s *refRun) template(o *c12Op) any {
	if o.Tmpl == "" {
		return "tmplEmpty"
	}
	if o.Path == "" {
		return "pathEmpty"
	}
	val, ok := refRender(o.Tmpl, s.data)
	if o.Trim {
		val = strings.TrimSpace(val)
	}
	pa := "none"
	if o.ParseAs != nil {
		pa = *o.ParseAs
	}
	switch pa {
	case "none":
	case "yaml":
		refOut("template: parseAs yaml")
	default:
		return "badParseAs"
	}
	// the (empty) value is stored even when rendering failed
	refAddAt(s.data, refLenient(o.Path, s.data), refLeaf("string", val))
	if !ok {
		return "render"
	}
	return nil
}

func (s *refRun) ext(o *c12Op) any {
	switch s.fns[o.Fn] {
	case "trace":
		s.emit("r", o.ID)
		return nil
	case "fail":
		s.emit("r", o.ID)
		return "extFail:" + o.ID
	case "inc":
		s.emit("r", o.ID)
		if o.N < 0 {
			refOut("inc: negative bound")
		}
		cur := 0
		if t, v, ok := refLeafOf(refLookup(s.data, refKey(o.ID))); ok && t == "int" {
			if n, err := strconv.Atoi(v); err == nil && n > 0 {
				cur = n
			}
		}
		cur++
		s.data[o.ID] = refLeaf("int", strconv.Itoa(cur))
		s.data[o.ID+"_go"] = refLeaf("bool", strconv.FormatBool(cur < o.N))
		s.data[o.ID+"_end"] = refLeaf("bool", strconv.FormatBool(!(cur < o.N)))
		return nil
	case "":
		return "noFunc"
	}
	refOut("unknown ext behaviour %q", s.fns[o.Fn])
	return nil
}

// ValOrRef.Resolve
func (s *refRun) resolve(v c12VoR) string {
	if v.IsRef {
		if _, text, ok := refLeafOf(refLookup(s.data, v.Ref)); ok {
			return refLenient(text, s.data)
		}
		return ""
	}
	return refLenient(v.Val, s.data)
}

// forEach: the body once per item, in item order, with the variable bound to the item; the variable is
// gone on every exit.  (Each body operation is instantiated — its templated fields rendered — just before
// it runs; the body's children run after the operations.)
func (s *refRun) forEach(o *c12Op) any {
	if o.Body == nil {
		refOut("forEach without a body")
	}
	vname := "forEach"
	if o.Var != nil {
		vname = *o.Var
	}
	refKey(vname)
	perItem := func(item W) any {
		s.data[vname] = deepCopyW(item)
		defer delete(s.data, vname)
		for _, bo := range refOpsOf(o.Body) {
			inst := refCloneOp(bo, s.data)
			if err := s.execOp(inst); err != nil {
				return err
			}
		}
		return s.steps(o.Body)
	}
	switch {
	case o.Query != nil:
		n := refLookup(s.data, s.resolve(*o.Query))
		if n == nil {
			return nil
		}
		if l, ok := n.([]any); ok {
			for _, it := range append([]any{}, l...) {
				if err := perItem(it); err != nil {
					return err
				}
			}
			return nil
		}
		if c, ok := wireCont(n); ok {
			if len(c) > 1 {
				refOut("container query with more than one key: iteration order is unspecified")
			}
			for _, k := range sortedKeys(c) {
				if err := perItem(refLeaf("string", k)); err != nil {
					return err
				}
			}
			return nil
		}
		return perItem(n)
	case o.Items != nil:
		for _, it := range *o.Items {
			// resolved one by one, against the data as left by the earlier iterations
			if err := perItem(refLeaf("string", s.resolve(it))); err != nil {
				return err
			}
		}
	}
	return nil
}

// loop: init once; test before every iteration; body, then post action; stops at the first false test or error
func (s *refRun) loop(o *c12Op) any {
	if o.Body == nil {
		refOut("loop without a body")
	}
	if o.Init != nil {
		if err := s.execAct(o.Init); err != nil {
			return err
		}
	}
	for {
		b := refEvalBool(o.Test, s.data)
		s.emit("t", o.Test, b)
		switch b {
		case nil:
			return "cond"
		case false:
			return nil
		}
		if err := s.execAct(o.Body); err != nil {
			return err
		}
		if o.Post != nil {
			if err := s.execAct(o.Post); err != nil {
				return err
			}
		}
	}
}

func refRenderArgs(w W, d map[string]any) W {
	c, ok := wireCont(w)
	if !ok {
		return map[string]any{"m": map[string]any{}}
	}
	out := map[string]any{}
	for k, v := range c {
		if t, text, isLeaf := refLeafOf(v); isLeaf && t == "string" {
			out[k] = refLeaf("string", refLenient(text, d))
		} else if _, isC := wireCont(v); isC {
			out[k] = refRenderArgs(v, d)
		} else {
			out[k] = v
		}
	}
	return map[string]any{"m": out}
}

// call: the callable runs with the rendered arguments visible at the arguments path; they are gone afterwards
func (s *refRun) call(o *c12Op) any {
	spec, has := s.defs[o.Name]
	if !has {
		return "undefined"
	}
	ap := "args"
	if o.ArgsPath != nil {
		ap = *o.ArgsPath
	}
	ap = refLenient(ap, s.data)
	if ap == "" {
		refOut("call: empty arguments path")
	}
	refAddAt(s.data, ap, refRenderArgs(o.Args, s.data))
	defer refRemoveAt(s.data, ap)
	return s.execAct(spec)
}

// instantiation of an operation for one item (CloneWith): the templated fields of the operation — and of
// everything nested in it — are rendered against the data of that moment
func refCloneOp(o *c12Op, d map[string]any) *c12Op {
	c := *o
	switch o.K {
	case "set", "template":
		c.Path = refLenient(o.Path, d)
	case "log", "abort":
		c.Msg = refLenient(o.Msg, d)
	case "forEach", "define":
		c.Body = refCloneAct(o.Body, d)
	case "loop":
		c.Init, c.Body, c.Post = refCloneAct(o.Init, d), refCloneAct(o.Body, d), refCloneAct(o.Post, d)
	}
	return &c
}

func refCloneAct(a *c12Act, d map[string]any) *c12Act {
	if a == nil {
		return nil
	}
	c := *a
	c.Ops = make([]c12Op, len(a.Ops))
	for i := range a.Ops {
		c.Ops[i] = *refCloneOp(&a.Ops[i], d)
	}
	c.Children = make([]c12Act, len(a.Children))
	for i := range a.Children {
		c.Children[i] = *refCloneAct(&a.Children[i], d)
	}
	return &c
}

// ---------------------------------------------------------------- the same projection of an observed trace

var refOpPrefixes = []string{"set:", "template:", "log:", "abort:", "ext:", "forEach:", "call:", "define:"}

func refIsOpLabel(l string) bool {
	if l == "loop" {
		return true
	}
	for _, p := range refOpPrefixes {
		if strings.HasPrefix(l, p) {
			return true
		}
	}
	return false
}

// c12ProjectOps keeps, of a recorded trace, what the reference produces: operation starts, ext runs,
// log lines and condition evaluations.
func c12ProjectOps(tr []any) [][]any {
	out := [][]any{}
	for _, e := range tr {
		ev := e.([]any)
		switch ev[0] {
		case "b":
			if l, _ := ev[1].(string); refIsOpLabel(l) {
				out = append(out, []any{"o", l})
			}
		case "r", "l", "t":
			out = append(out, ev)
		}
	}
	return out
}
