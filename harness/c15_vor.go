package main

// C15, case kind "vor": value-or-reference fields, in every form such a value can have.
//
// A ValOrRef is an immediate value or a reference to a leaf of the data; which of the two is decided when the
// value is built (an unexported flag, set by the YAML decoder for `{ref: …}`), NOT by what its texts hold:
//
//	scalar   decoded from a YAML scalar                      immediate, Val
//	ref      decoded from YAML `{ref: …}`                    reference, Ref (possibly empty, possibly a template
//	                                                         that renders to the empty text)
//	struct   built in code, &ValOrRef{Ref: …, Val: …}        immediate (code outside the package cannot build
//	                                                         anything else), although Ref is populated as well
//	refval   a decoded reference whose Val is set as well    reference
//
// "Cloning … yields an action that carries over every configured field, rendering only template-bearing text
// fields …; with template-free fields the clone is structurally equal to the original, and executing it has the
// same effect on the data and produces the same log output as executing the original."  Checked
//
//   - field by field (the unexported kind flag included) against the same construction with the rendered texts,
//     and with reflect.DeepEqual against the original when no text is a template;
//   - through the observable behaviour of the kind flag: Resolve on data where the distinction matters (the path
//     named by Ref holds a leaf that differs from Val);
//   - by execution: an export operation writes the file its File resolves to with the subtree its Path resolves
//     to, a forEach iterates over what its Query resolves to — the files written (names and contents), the
//     log lines and the outcome of the clone are those of the original.
//
// The value is cloned on its own ((*ValOrRef).CloneWith) and as every *ValOrRef field of every operation type
// (found by reflection), bare and wrapped in OpSpec / ActionSpec.

import (
	"encoding/json"
	"fmt"
	"math/rand"
	"os"
	"path/filepath"
	"reflect"
	"sort"
	"strings"

	"github.com/rkosegi/yaml-toolkit/dom"
	"github.com/rkosegi/yaml-toolkit/pipeline"
	"gopkg.in/yaml.v3"
)

type c15VoR struct {
	Op    string `json:"op"`    // "" (the value on its own) | field name of OpSpec
	Field string `json:"field"` // the *ValOrRef field of the operation type
	Build string `json:"build"` // scalar | ref | struct | refval
	Ref   string `json:"ref"`
	Val   string `json:"val"`
	X     string `json:"x"`    // data: the value of .x — what `{{ .x }}` in Ref / Val renders to
	Wrap  string `json:"wrap"` // "" | opspec | action
}

var c15VoRPtr = reflect.TypeOf((*pipeline.ValOrRef)(nil))

// c15VoRFields: every (OpSpec field, operation field) of type *ValOrRef, in declaration order.
func c15VoRFields() [][2]string {
	names, types := c15OpTypes()
	var out [][2]string
	for _, n := range names {
		t := types[n]
		for i := 0; i < t.NumField(); i++ {
			if t.Field(i).Type == c15VoRPtr && t.Field(i).IsExported() {
				out = append(out, [2]string{n, t.Field(i).Name})
			}
		}
	}
	return out
}

// texts: what the (rendered) texts mean is fixed by c15VoRData — "out.file" and "sel.path" are paths of leaves
var (
	c15VoRRefs = []string{"", "out.file", "sel.path", "nokey", "{{ .x }}"}
	c15VoRVals = []string{"", "direct.yaml", "payload", "alt", "{{ .x }}"}
	c15VoRXs   = []string{"", "out.file", "sel.path", "payload"}
)

func c15VoRCases(r *rand.Rand, n int) []c15VoR {
	var out []c15VoR
	targets := append([][2]string{{"", ""}}, c15VoRFields()...)
	builds := []string{"scalar", "ref", "struct", "refval"}
	// first the small scope, exhaustively: every target x every form x texts that are empty / a path that
	// resolves / a template rendering to the empty text
	for _, tg := range targets {
		for _, b := range builds {
			for _, ref := range []string{"", "out.file", "{{ .x }}"} {
				for _, val := range []string{"", "direct.yaml"} {
					if (b == "scalar" && ref != "") || (b == "ref" && val != "") {
						continue // the decoder sets one of the two
					}
					out = append(out, c15VoR{Op: tg[0], Field: tg[1], Build: b, Ref: ref, Val: val, X: ""})
				}
			}
		}
	}
	for i := 0; i < n; i++ {
		tg := pick(r, targets)
		p := c15VoR{Op: tg[0], Field: tg[1], Build: pick(r, builds), X: pick(r, c15VoRXs), Wrap: pick(r, []string{"", "", "opspec", "action"})}
		if p.Build != "scalar" {
			p.Ref = pick(r, c15VoRRefs)
		}
		if p.Build != "ref" {
			p.Val = pick(r, c15VoRVals)
		}
		if p.Op == "" {
			p.Wrap = ""
		}
		out = append(out, p)
	}
	return out
}

// c15VoRBuild constructs the value; ref / val are the texts to use (the case's, or their renderings).
func c15VoRBuild(build, ref, val string) *pipeline.ValOrRef {
	decode := func(v any) *pipeline.ValOrRef {
		var out pipeline.ValOrRef
		b, _ := yaml.Marshal(v)
		if err := yaml.Unmarshal(b, &out); err != nil {
			panic(err)
		}
		return &out
	}
	switch build {
	case "ref":
		return decode(map[string]any{"ref": ref})
	case "refval":
		v := decode(map[string]any{"ref": ref})
		v.Val = val
		return v
	case "struct":
		return &pipeline.ValOrRef{Ref: ref, Val: val}
	}
	return decode(val)
}

func c15VoRRender(s, x string) string { return strings.ReplaceAll(s, "{{ .x }}", x) }

// c15VoRData: .x; two leaves a reference can point to (out.file: a file in the scratch directory; sel.path: the
// path of a subtree — or, when the value under test names the file to write, another file in the scratch
// directory); two subtrees a path can select.
func c15VoRData(x, dir string, forFile bool) dom.ContainerBuilder {
	sel := "alt"
	if forFile {
		sel = filepath.Join(dir, "via-sel.yaml")
	}
	return wireContainer(plainWire(map[string]any{"x": x,
		"out": map[string]any{"file": filepath.Join(dir, "via-ref.yaml")}, "sel": map[string]any{"path": sel},
		"payload": map[string]any{"a": 1}, "alt": map[string]any{"b": 2, "c": 3}}))
}

// the texts as the operation holds them: file names live in the case's scratch directory
func (p *c15VoR) texts(dir string) (ref, val string) {
	ref, val = p.Ref, p.Val
	if p.Field == "File" && val != "" {
		val = filepath.Join(dir, val)
	}
	return
}

// c15VoROp builds the operation around the value: the field under test holds v, what else the operation needs to
// run is configured with plain immediate values.
func c15VoROp(p *c15VoR, v *pipeline.ValOrRef, dir string) (reflect.Value, bool) {
	_, types := c15OpTypes()
	t, ok := types[p.Op]
	if !ok {
		return reflect.Value{}, false
	}
	f, ok := t.FieldByName(p.Field)
	if !ok || f.Type != c15VoRPtr {
		return reflect.Value{}, false
	}
	op := reflect.New(t)
	switch x := op.Interface().(type) {
	case *pipeline.ExportOp:
		x.Format = pipeline.OutputFormatYaml
		x.File = &pipeline.ValOrRef{Val: filepath.Join(dir, "out.yaml")}
		x.Path = &pipeline.ValOrRef{Val: "payload"}
	case *pipeline.ForEachOp:
		// template-free (a template in the body would be rendered when the forEach is cloned): the number of
		// log lines tells how many items the query yielded — the two subtrees have different numbers of keys
		x.Action = pipeline.ActionSpec{Operations: pipeline.OpSpec{Log: &pipeline.LogOp{Message: "one item"}}}
	}
	op.Elem().FieldByIndex(f.Index).Set(reflect.ValueOf(v))
	return op, true
}

// executable: operations whose effect is confined to the scratch directory and the log
func (p *c15VoR) executable() bool {
	return (p.Op == "Export" && (p.Field == "File" || p.Field == "Path")) || (p.Op == "ForEach" && p.Field == "Query")
}

type c15VoRRun struct {
	Out   string            `json:"outcome"`
	Logs  []string          `json:"logs"`
	Files map[string]string `json:"files"` // name (relative to the scratch directory) -> content
	Data  W                 `json:"data"`
}

func c15VoRExec(a pipeline.Action, x, dir string, forFile bool) c15VoRRun {
	_ = os.RemoveAll(dir)
	_ = os.MkdirAll(dir, 0o755)
	d := c15VoRData(x, dir, forFile)
	l := &c15Listener{}
	var err error
	// executed inside the scratch directory: a file name that resolves to something relative stays in there
	wd, wdErr := os.Getwd()
	if wdErr == nil {
		wdErr = os.Chdir(dir)
	}
	out, txt := guard(func() { err = pipeline.New(pipeline.WithData(d), pipeline.WithListener(l)).Execute(a) })
	if wdErr == nil {
		_ = os.Chdir(wd)
	}
	res := c15VoRRun{Out: out, Logs: l.logs, Files: map[string]string{}, Data: nodeWire(d)}
	if out == "ok" {
		res.Out = errTag(err)
	} else {
		res.Logs = append(res.Logs, "panic: "+txt)
	}
	// container keys are visited in map order: the log lines of a forEach over a container are a multiset
	sort.Strings(res.Logs)
	ents, _ := os.ReadDir(dir)
	for _, e := range ents {
		b, _ := os.ReadFile(filepath.Join(dir, e.Name()))
		res.Files[e.Name()] = string(b)
	}
	return res
}

func c15EvalVoR(c *Ctx, raw []byte) {
	var p c15VoR
	if err := json.Unmarshal(raw, &p); err != nil {
		panic(err)
	}
	switch p.Build {
	case "scalar":
		p.Ref = ""
	case "ref":
		p.Val = ""
	case "struct", "refval":
	default:
		p.Build, p.Ref = "scalar", ""
	}
	// the domain: texts are plain or use the one template action the harness renders itself; file names are
	// single path elements (they are created inside the scratch directory)
	for _, s := range []string{p.Ref, p.Val} {
		if strings.Contains(strings.ReplaceAll(s, "{{ .x }}", ""), "{{") || strings.ContainsAny(s, "/\\") || strings.Contains(s, "..") {
			c.Dist("vor:outside-domain(skipped)")
			return
		}
	}
	if strings.Contains(p.X, "{{") || strings.ContainsAny(p.X, "/\\") || strings.Contains(p.X, "..") {
		c.Dist("vor:outside-domain(skipped)")
		return
	}
	if p.Op == "" {
		p.Field, p.Wrap = "", ""
	}
	if p.Field == "File" {
		// the value names the file an export writes: a reference has to point at one of the leaves that hold a
		// file name inside the scratch directory (or at nothing)
		switch c15VoRRender(p.Ref, p.X) {
		case "", "out.file", "sel.path", "nokey":
		default:
			c.Dist("vor:outside-domain(skipped)")
			return
		}
	}
	switch p.Wrap {
	case "", "opspec", "action":
	default:
		p.Wrap = ""
	}
	dir := filepath.Join(c.VerifDir, ".work", fmt.Sprintf("c15-vor-%d", os.Getpid()))
	defer os.RemoveAll(dir)
	ref, val := p.texts(dir)
	rref, rval := c15VoRRender(ref, p.X), c15VoRRender(val, p.X)
	templateFree := rref == ref && rval == val
	c.Nontrivial()
	c.Dist("vor:form:" + p.Build)
	c.Dist("vor:target:" + p.Op + "." + p.Field)
	switch {
	case p.Build == "struct" && ref != "":
		c.Dist("vor:immediate-value-with-Ref-populated")
	case (p.Build == "ref" || p.Build == "refval") && ref == "":
		c.Dist("vor:reference-that-is-empty")
	case (p.Build == "ref" || p.Build == "refval") && rref == "":
		c.Dist("vor:reference-whose-template-renders-to-nothing")
	}

	withCtx := func(f func(ctx pipeline.ActionContext)) (string, string) {
		return guard(func() {
			_ = c15WithCtx(c15VoRData(p.X, dir, p.Field == "File"), nil, func(ctx pipeline.ActionContext) error {
				f(ctx)
				return nil
			})
		})
	}
	// the value under test and its clone
	var orig, clone *pipeline.ValOrRef
	var origAct, cloneAct pipeline.Action
	var opType reflect.Type
	orig = c15VoRBuild(p.Build, ref, val)
	var before, after string
	tagged := false
	if p.Op == "" {
		before = c15Dump(reflect.ValueOf(orig), 0)
		out, txt := withCtx(func(ctx pipeline.ActionContext) { clone = orig.CloneWith(ctx) })
		if !c.Direct("no-panic", out == "ok", txt) {
			return
		}
		after = c15Dump(reflect.ValueOf(orig), 0)
	} else {
		oo, ok := c15VoROp(&p, orig, dir)
		if !ok {
			c.Dist("vor:no-such-field(skipped)")
			return
		}
		opType = oo.Type()
		if f, has := opType.Elem().FieldByName(p.Field); has {
			tagged = f.Tag.Get("clone") == "template"
		}
		origAct = c15Wrap(oo, p.Op, p.Wrap)
		before = c15Dump(reflect.ValueOf(origAct), 0)
		out, txt := withCtx(func(ctx pipeline.ActionContext) { cloneAct = origAct.CloneWith(ctx) })
		if !c.Direct("no-panic", out == "ok", txt) {
			return
		}
		after = c15Dump(reflect.ValueOf(origAct), 0)
		if !c.Direct("clone-not-nil", cloneAct != nil, nil) || !c.Direct("clone-same-type", reflect.TypeOf(cloneAct) == reflect.TypeOf(origAct), fmt.Sprintf("%T vs %T", cloneAct, origAct)) {
			return
		}
		co := c15Unwrap(cloneAct, p.Op, p.Wrap)
		if !c.Direct("clone-holds-the-operation", co.IsValid() && co.Kind() == reflect.Ptr && !co.IsNil() && co.Type() == opType, c15Dump(reflect.ValueOf(cloneAct), 0)) {
			return
		}
		clone, _ = co.Elem().FieldByName(p.Field).Interface().(*pipeline.ValOrRef)
	}
	c.Direct("original-untouched-by-clone", before == after, map[string]any{"before": before, "after": after})
	if !c.Direct("clone-carries-over-value-or-reference", clone != nil, map[string]any{"original": c15Dump(reflect.ValueOf(orig), 0)}) {
		return
	}
	// what the clone must be: the same construction from the RENDERED texts where the field is documented as a
	// template (clone:"template"); elsewhere the property fixes neither — the clone may hold the texts verbatim
	// or rendered, and whichever of the two it holds is expected (as in the clone cases).  The KIND of the value
	// is not a text: it is expected to be the original's either way.
	expected := c15VoRBuild(p.Build, rref, rval)
	if !tagged && !templateFree && clone.Ref == ref && clone.Val == val {
		expected = c15VoRBuild(p.Build, ref, val)
		c.Dist("vor:untagged-field-held-verbatim")
	}
	var expectedAct pipeline.Action
	if p.Op != "" {
		eo, _ := c15VoROp(&p, expected, dir)
		expectedAct = c15Wrap(eo, p.Op, p.Wrap)
		a, b := c15Dump(reflect.ValueOf(expectedAct), 0), c15Dump(reflect.ValueOf(cloneAct), 0)
		c.Direct("clone-deep-equal(whole value)", a == b, map[string]any{"expected": a, "clone": b})
	}
	// "carries over every configured field, rendering only template-bearing text fields": field by field, the
	// unexported kind flag included
	ev, cv := reflect.ValueOf(expected).Elem(), reflect.ValueOf(clone).Elem()
	for i := 0; i < ev.NumField(); i++ {
		a, b := c15Dump(ev.Field(i), 0), c15Dump(cv.Field(i), 0)
		c.Direct("value-or-reference-clone-field-by-field", a == b,
			map[string]any{"field": ev.Type().Field(i).Name, "expected": a, "clone": b, "original": c15Dump(reflect.ValueOf(orig), 0), "x": p.X})
	}
	if templateFree {
		// "With template-free fields the clone is structurally equal to the original"
		c.Dist("vor:template-free")
		c.Direct("clone-deep-equal(template-free)", reflect.DeepEqual(orig, clone),
			map[string]any{"original": c15Dump(reflect.ValueOf(orig), 0), "clone": c15Dump(reflect.ValueOf(clone), 0)})
	} else {
		c.Dist("vor:templated")
	}
	// the kind flag through its observable behaviour: what the value resolves to, on data where the path named
	// by Ref holds something else than Val
	var wantRes, gotRes string
	out, txt := withCtx(func(ctx pipeline.ActionContext) { wantRes, gotRes = expected.Resolve(ctx), clone.Resolve(ctx) })
	if c.Direct("no-panic(resolve)", out == "ok", txt) {
		c.Direct("value-or-reference-clone-resolves-like-original", wantRes == gotRes,
			map[string]any{"original": c15Dump(reflect.ValueOf(orig), 0), "clone": c15Dump(reflect.ValueOf(clone), 0), "x": p.X,
				"originalResolvesTo": wantRes, "cloneResolvesTo": gotRes})
	}
	// "executing it has the same effect on the data and produces the same log output as executing the original"
	if p.Op != "" && p.executable() {
		c.Dist("vor:executed")
		// the clone first: Do of some operations fills defaults into the value it runs on
		rc := c15VoRExec(cloneAct, p.X, dir, p.Field == "File")
		ro := c15VoRExec(expectedAct, p.X, dir, p.Field == "File")
		det := map[string]any{"original": ro, "clone": rc}
		c.Direct("exec-same-outcome", ro.Out == rc.Out, det)
		c.Direct("exec-same-files-written", canon(ro.Files) == canon(rc.Files), det)
		c.Direct("exec-same-logs", canon(ro.Logs) == canon(rc.Logs), det)
		c.Direct("exec-same-data", canon(ro.Data) == canon(rc.Data), det)
		if templateFree {
			// the original itself (not only the construction from rendered texts, which is the same thing here)
			r0 := c15VoRExec(origAct, p.X, dir, p.Field == "File")
			c.Direct("exec-same-files-written", r0.Out == rc.Out && canon(r0.Files) == canon(rc.Files) && canon(r0.Logs) == canon(rc.Logs),
				map[string]any{"original": r0, "clone": rc})
		}
	}
	if c.searchMode || p.Op == "" {
		return
	}
	pristine, _ := c15VoROp(&p, c15VoRBuild(p.Build, ref, val), dir)
	// scratch directory names differ from run to run; the model sees texts only, so any name does
	m := c.Model("clone", map[string]any{"v": c15CV(reflect.ValueOf(c15Wrap(pristine, p.Op, p.Wrap))), "x": p.X})
	c.Corr("cloneV", c15CV(reflect.ValueOf(cloneAct)), m)
}
