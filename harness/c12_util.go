package main

// Shared by C12 (pipeline control flow) and C14 (iteration and calls): the JSON form of pipeline
// programs (what a replay file holds and what the Lean model receives), their conversion to the real
// pipeline structs — directly and through generated YAML —, the recording listener / template engine /
// ext actions, and the execution of a program on the real executor.

import (
	"encoding/json"
	"errors"
	"fmt"
	"reflect"
	"sort"
	"strings"
	"sync"

	"github.com/rkosegi/yaml-toolkit/dom"
	"github.com/rkosegi/yaml-toolkit/pipeline"
	"gopkg.in/yaml.v3"
)

// ---------------------------------------------------------------- program JSON

type c12VoR struct {
	IsRef bool   `json:"isRef"`
	Ref   string `json:"ref"`
	Val   string `json:"val"`
}

// c12Op is one operation; K selects which fields matter (the others stay zero).
type c12Op struct {
	K string `json:"k"` // set template log abort ext forEach loop call define
	// set / template
	Data     W       `json:"data"`
	Path     string  `json:"path"`
	Strategy *string `json:"strategy"`
	Tmpl     string  `json:"tmpl"`
	Trim     bool    `json:"trim"`
	ParseAs  *string `json:"parseAs"`
	// log / abort
	Msg string `json:"msg"`
	// ext
	Fn string `json:"fn"`
	ID string `json:"id"`
	N  int    `json:"n"`
	// forEach
	Query *c12VoR   `json:"query"`
	Items *[]c12VoR `json:"items"`
	Var   *string   `json:"var"`
	Body  *c12Act   `json:"body"`
	// loop
	Init *c12Act `json:"init"`
	Test string  `json:"test"`
	Post *c12Act `json:"post"`
	// call / define
	Name     string  `json:"name"`
	ArgsPath *string `json:"argsPath"`
	Args     W       `json:"args"`
}

type c12Act struct {
	Name     string   `json:"name"`
	Order    int      `json:"order"`
	When     *string  `json:"when"`
	Ops      []c12Op  `json:"ops"`
	Children []c12Act `json:"children"`
}

func sp(s string) *string { return &s }

// norm makes the JSON form total (no null arrays, bodies present) so that the model's decoder and the
// shrinker's output agree on what a case means.
func (a *c12Act) norm() {
	if a.Ops == nil {
		a.Ops = []c12Op{}
	}
	if a.Children == nil {
		a.Children = []c12Act{}
	}
	for i := range a.Ops {
		a.Ops[i].norm()
	}
	for i := range a.Children {
		a.Children[i].norm()
	}
}

func (o *c12Op) norm() {
	switch o.K {
	case "forEach", "loop", "define":
		if o.Body == nil {
			o.Body = &c12Act{Name: "body"}
		}
	}
	for _, b := range []*c12Act{o.Body, o.Init, o.Post} {
		if b != nil {
			b.norm()
		}
	}
	if o.K == "call" && o.Args == nil {
		o.Args = map[string]any{"m": map[string]any{}}
	}
}

// ---------------------------------------------------------------- to pipeline structs

func c12MkVoR(v c12VoR) *pipeline.ValOrRef {
	if !v.IsRef {
		return &pipeline.ValOrRef{Val: v.Val}
	}
	// isRef is unexported: the only way to build a reference is the YAML decoder
	var out pipeline.ValOrRef
	b, _ := yaml.Marshal(map[string]any{"ref": v.Ref})
	if err := yaml.Unmarshal(b, &out); err != nil {
		panic(err)
	}
	return &out
}

func c12PlainMap(w W) map[string]interface{} {
	if w == nil {
		return nil
	}
	m, ok := wirePlain(w).(map[string]any)
	if !ok {
		return nil
	}
	return m
}

func (a *c12Act) spec() pipeline.ActionSpec {
	s := pipeline.ActionSpec{ActionMeta: pipeline.ActionMeta{Name: a.Name, Order: a.Order}}
	if a.When != nil {
		s.When = sp(*a.When)
	}
	for i := range a.Ops {
		a.Ops[i].into(&s.Operations)
	}
	if len(a.Children) > 0 {
		s.Children = pipeline.ChildActions{}
		for i := range a.Children {
			if _, dup := s.Children[a.Children[i].Name]; !dup {
				s.Children[a.Children[i].Name] = a.Children[i].spec()
			}
		}
	}
	return s
}

func c12OptSpec(a *c12Act) *pipeline.ActionSpec {
	if a == nil {
		return nil
	}
	s := a.spec()
	return &s
}

// action builds the operation as a stand-alone pipeline.Action (for Executor.Execute(op)).
func (o *c12Op) action() pipeline.Action {
	switch o.K {
	case "set":
		op := &pipeline.SetOp{Data: c12PlainMap(o.Data), Path: o.Path}
		if o.Strategy != nil {
			s := pipeline.SetStrategy(*o.Strategy)
			op.Strategy = &s
		}
		return op
	case "template":
		op := &pipeline.TemplateOp{Template: o.Tmpl, Path: o.Path}
		if o.Trim {
			t := true
			op.Trim = &t
		}
		if o.ParseAs != nil {
			p := pipeline.ParseTextAs(*o.ParseAs)
			op.ParseAs = &p
		}
		return op
	case "log":
		return &pipeline.LogOp{Message: o.Msg}
	case "abort":
		return &pipeline.AbortOp{Message: o.Msg}
	case "ext":
		return &pipeline.ExtOp{Function: o.Fn, Args: map[string]interface{}{"id": o.ID, "n": o.N}}
	case "forEach":
		op := &pipeline.ForEachOp{Action: o.Body.spec()}
		if o.Query != nil {
			op.Query = c12MkVoR(*o.Query)
		}
		if o.Items != nil {
			// an item that occurs twice in the list is ONE value referenced twice (the same Go object)
			sl := pipeline.ValOrRefSlice{}
			memo := map[c12VoR]*pipeline.ValOrRef{}
			for _, it := range *o.Items {
				v, seen := memo[it]
				if !seen {
					v = c12MkVoR(it)
					memo[it] = v
				}
				sl = append(sl, v)
			}
			op.Item = &sl
		}
		if o.Var != nil {
			op.Variable = sp(*o.Var)
		}
		return op
	case "loop":
		return &pipeline.LoopOp{Init: c12OptSpec(o.Init), Test: o.Test, Action: o.Body.spec(), PostAction: c12OptSpec(o.Post)}
	case "call":
		op := &pipeline.CallOp{Name: o.Name, Args: c12PlainMap(o.Args)}
		if o.ArgsPath != nil {
			op.ArgsPath = sp(*o.ArgsPath)
		}
		return op
	case "define":
		return &pipeline.DefineOp{Name: o.Name, Action: o.Body.spec()}
	}
	panic("c12: unknown op kind " + o.K)
}

// into stores the operation in its OpSpec field; the first operation of a kind wins (as in the model).
func (o *c12Op) into(s *pipeline.OpSpec) {
	switch x := o.action().(type) {
	case *pipeline.SetOp:
		if s.Set == nil {
			s.Set = x
		}
	case *pipeline.TemplateOp:
		if s.Template == nil {
			s.Template = x
		}
	case *pipeline.LogOp:
		if s.Log == nil {
			s.Log = x
		}
	case *pipeline.AbortOp:
		if s.Abort == nil {
			s.Abort = x
		}
	case *pipeline.ExtOp:
		if s.Ext == nil {
			s.Ext = x
		}
	case *pipeline.ForEachOp:
		if s.ForEach == nil {
			s.ForEach = x
		}
	case *pipeline.LoopOp:
		if s.Loop == nil {
			s.Loop = x
		}
	case *pipeline.CallOp:
		if s.Call == nil {
			s.Call = x
		}
	case *pipeline.DefineOp:
		if s.Define == nil {
			s.Define = x
		}
	}
}

// ---------------------------------------------------------------- to YAML

func c12VoRYaml(v c12VoR) any {
	if v.IsRef {
		return map[string]any{"ref": v.Ref}
	}
	return v.Val
}

func (a *c12Act) yamlMap() map[string]any {
	m := map[string]any{}
	if a.Name != "" {
		m["name"] = a.Name
	}
	if a.Order != 0 {
		m["order"] = a.Order
	}
	if a.When != nil {
		m["when"] = *a.When
	}
	seen := map[string]bool{}
	for i := range a.Ops {
		tag, body := a.Ops[i].yamlEntry()
		if !seen[tag] {
			seen[tag] = true
			m[tag] = body
		}
	}
	if len(a.Children) > 0 {
		steps := map[string]any{}
		for i := range a.Children {
			if _, dup := steps[a.Children[i].Name]; !dup {
				steps[a.Children[i].Name] = a.Children[i].yamlMap()
			}
		}
		m["steps"] = steps
	}
	return m
}

func (o *c12Op) yamlEntry() (string, map[string]any) {
	b := map[string]any{}
	switch o.K {
	case "set":
		if d := c12PlainMap(o.Data); d != nil {
			b["data"] = d
		}
		if o.Path != "" {
			b["path"] = o.Path
		}
		if o.Strategy != nil {
			b["strategy"] = *o.Strategy
		}
		return "set", b
	case "template":
		b["template"] = o.Tmpl
		b["path"] = o.Path
		if o.Trim {
			b["trim"] = true
		}
		if o.ParseAs != nil {
			b["parseAs"] = *o.ParseAs
		}
		return "template", b
	case "log":
		b["message"] = o.Msg
		return "log", b
	case "abort":
		b["message"] = o.Msg
		return "abort", b
	case "ext":
		b["func"] = o.Fn
		b["args"] = map[string]any{"id": o.ID, "n": o.N}
		return "ext", b
	case "forEach":
		if o.Query != nil {
			b["query"] = c12VoRYaml(*o.Query)
		}
		if o.Items != nil {
			l := []any{}
			for _, it := range *o.Items {
				l = append(l, c12VoRYaml(it))
			}
			b["item"] = l
		}
		if o.Var != nil {
			b["var"] = *o.Var
		}
		b["action"] = o.Body.yamlMap()
		return "forEach", b
	case "loop":
		if o.Init != nil {
			b["init"] = o.Init.yamlMap()
		}
		b["test"] = o.Test
		b["action"] = o.Body.yamlMap()
		if o.Post != nil {
			b["postAction"] = o.Post.yamlMap()
		}
		return "loop", b
	case "call":
		b["name"] = o.Name
		if o.ArgsPath != nil {
			b["argsPath"] = *o.ArgsPath
		}
		if d := c12PlainMap(o.Args); d != nil {
			b["args"] = d
		}
		return "call", b
	case "define":
		b["name"] = o.Name
		b["action"] = o.Body.yamlMap()
		return "define", b
	}
	panic("c12: unknown op kind " + o.K)
}

// specViaYAML renders the action as YAML text and decodes it with the library's own struct tags.
func (a *c12Act) specViaYAML() (pipeline.ActionSpec, string, error) {
	b, err := yaml.Marshal(a.yamlMap())
	if err != nil {
		return pipeline.ActionSpec{}, "", err
	}
	var s pipeline.ActionSpec
	err = yaml.Unmarshal(b, &s)
	return s, string(b), err
}

// opViaYAML decodes a single operation through an enclosing action document.
func (o *c12Op) opViaYAML() (pipeline.Action, error) {
	wrapAct := c12Act{Ops: []c12Op{*o}}
	s, _, err := wrapAct.specViaYAML()
	if err != nil {
		return nil, err
	}
	v := reflect.ValueOf(s.Operations)
	for i := 0; i < v.NumField(); i++ {
		if !v.Field(i).IsNil() {
			return v.Field(i).Interface().(pipeline.Action), nil
		}
	}
	return nil, fmt.Errorf("no operation decoded")
}

// ---------------------------------------------------------------- recording

type c12Rec struct {
	ev   [][]any // events in wire form; "a" events carry a placeholder, fixed up by finish()
	errs []error // error of each "a" event (nil entries for the others)
	snap []string
	// snapshots: canonical data at OnBefore / OnAfter of ActionSpec actions (parallel to ev; "" elsewhere)
	wantSnap bool
	ext      pipeline.ExtInterface
	// the data document the harness handed to WithData(): the recorder OBSERVES the document through the harness'
	// own reference to it — never through ctx.Data(), which is an access of its own (an observer that asks the
	// context for the document at every notification would stand between any two steps of the program under test)
	data dom.ContainerBuilder
}

func (r *c12Rec) doc(ctx pipeline.ActionContext) dom.Node {
	if r.data != nil {
		return r.data
	}
	return ctx.Data()
}

func (r *c12Rec) add(e []any, err error, snap string) {
	r.ev = append(r.ev, e)
	r.errs = append(r.errs, err)
	r.snap = append(r.snap, snap)
}

type c12ExtErr struct{ id string }

func (e *c12ExtErr) Error() string { return "ext failure " + e.id }

type c12ExtAct struct {
	fn, id string
	n      int
	rec    *c12Rec
}

func (x *c12ExtAct) String() string                                     { return "xact:" + x.fn + ":" + x.id }
func (x *c12ExtAct) CloneWith(_ pipeline.ActionContext) pipeline.Action { return x }
func (x *c12ExtAct) Do(ctx pipeline.ActionContext) error {
	x.rec.add([]any{"r", x.id}, nil, "")
	switch x.fn {
	case "fail":
		return &c12ExtErr{x.id}
	case "inc":
		cur := 0
		if n := ctx.Data().Lookup(x.id); n != nil && n.IsLeaf() {
			if v, ok := n.(dom.Leaf).Value().(int); ok && v > 0 {
				cur = v
			}
		}
		cur++
		ctx.Data().AddValue(x.id, dom.LeafNode(cur))
		ctx.Data().AddValue(x.id+"_go", dom.LeafNode(cur < x.n))
		ctx.Data().AddValue(x.id+"_end", dom.LeafNode(!(cur < x.n)))
	}
	return nil
}

type c12Factory struct {
	fn  string
	rec *c12Rec
}

func (f *c12Factory) NewForArgs(args map[string]interface{}) pipeline.Action {
	a := &c12ExtAct{fn: f.fn, rec: f.rec}
	if args != nil {
		if v, ok := args["id"]; ok {
			a.id = fmt.Sprint(v)
		}
		switch v := args["n"].(type) {
		case int:
			a.n = v
		case int64:
			a.n = int(v)
		case uint64:
			a.n = int(v)
		case float64:
			a.n = int(v)
		}
	}
	return a
}

func c12Label(a pipeline.Action) string {
	switch x := a.(type) {
	case pipeline.ActionSpec:
		return "act:" + x.Name
	case *pipeline.ActionSpec:
		return "act:" + x.Name
	case pipeline.OpSpec:
		return "ops"
	case pipeline.ChildActions:
		return "steps"
	case *pipeline.SetOp:
		return "set:" + x.Path
	case *pipeline.TemplateOp:
		return "template:" + x.Path
	case *pipeline.LogOp:
		return "log:" + x.Message
	case *pipeline.AbortOp:
		return "abort:" + x.Message
	case *pipeline.ExtOp:
		return "ext:" + x.Function
	case *pipeline.ForEachOp:
		if x.Variable != nil {
			return "forEach:" + *x.Variable
		}
		return "forEach:forEach"
	case *pipeline.LoopOp:
		return "loop"
	case *pipeline.CallOp:
		return "call:" + x.Name
	case *pipeline.DefineOp:
		return "define:" + x.Name
	case *c12ExtAct:
		return x.String()
	case *pipeline.PatchOp:
		return "patch:" + x.Path
	case *pipeline.ImportOp:
		return "import:" + x.Path
	case *pipeline.TemplateFileOp:
		return "templateFile:"
	case *pipeline.EnvOp:
		return "env:" + x.Path
	case *pipeline.ExecOp:
		return "exec:" + x.Program
	case *pipeline.ExportOp:
		return "export:"
	case *pipeline.Html2DomOp:
		return "html2Dom:" + x.To
	}
	return fmt.Sprintf("?%T", a)
}

func c12IsSpec(a pipeline.Action) bool {
	switch a.(type) {
	case pipeline.ActionSpec, *pipeline.ActionSpec:
		return true
	}
	return false
}

// c12Snap: the canonical text of the data document (nodeWire yields maps, slices and strings only, and the
// encoder sorts map keys: one pass is canonical already)
func c12Snap(n dom.Node) string {
	b, err := json.Marshal(nodeWire(n))
	if err != nil {
		return canon(nodeWire(n))
	}
	return string(b)
}

func (r *c12Rec) OnBefore(ctx pipeline.ActionContext) {
	r.ext = ctx.Ext()
	s := ""
	if r.wantSnap && c12IsSpec(ctx.Action()) {
		s = c12Snap(r.doc(ctx))
	}
	r.add([]any{"b", c12Label(ctx.Action())}, nil, s)
}

func (r *c12Rec) OnAfter(ctx pipeline.ActionContext, err error) {
	s := ""
	if r.wantSnap && c12IsSpec(ctx.Action()) {
		s = c12Snap(r.doc(ctx))
	}
	r.add([]any{"a", c12Label(ctx.Action()), nil}, err, s)
}

func (r *c12Rec) OnLog(_ pipeline.ActionContext, v ...interface{}) {
	// listenerLoggerAdapter.Log(v...) calls OnLog(ctx, v): the values arrive as ONE slice argument
	if len(v) == 1 {
		if inner, ok := v[0].([]interface{}); ok {
			v = inner
		}
	}
	r.add([]any{"l", fmt.Sprint(v...)}, nil, "")
}

// c12TE wraps the library's default template engine and records every EvalBool call.
type c12TE struct {
	inner pipeline.TemplateEngine
	rec   *c12Rec
}

func (t *c12TE) Render(tm string, d map[string]interface{}) (string, error) {
	return t.inner.Render(tm, d)
}
func (t *c12TE) RenderLenient(tm string, d map[string]interface{}) string {
	return t.inner.RenderLenient(tm, d)
}
func (t *c12TE) RenderMapLenient(in map[string]interface{}, d map[string]interface{}) map[string]interface{} {
	return t.inner.RenderMapLenient(in, d)
}
func (t *c12TE) EvalBool(tm string, d map[string]interface{}) (bool, error) {
	if len(t.rec.ev) > 200000 {
		// a loop that does not terminate would hang the harness: turn it into a reported panic
		panic("runaway execution: more than 200000 events")
	}
	b, err := t.inner.EvalBool(tm, d)
	if err != nil {
		t.rec.add([]any{"t", tm, nil}, nil, "")
	} else {
		t.rec.add([]any{"t", tm, b}, nil, "")
	}
	return b, err
}

var (
	c12TEOnce    sync.Once
	c12DefaultTE pipeline.TemplateEngine
)

type c12Capture struct{ te *pipeline.TemplateEngine }

func (c *c12Capture) OnBefore(ctx pipeline.ActionContext)          { *c.te = ctx.TemplateEngine() }
func (c *c12Capture) OnAfter(pipeline.ActionContext, error)        {}
func (c *c12Capture) OnLog(pipeline.ActionContext, ...interface{}) {}

// c12Engine returns the library's own default TemplateEngine (unexported type), captured from a context.
func c12Engine() pipeline.TemplateEngine {
	c12TEOnce.Do(func() {
		ex := pipeline.New(pipeline.WithListener(&c12Capture{te: &c12DefaultTE}))
		_ = ex.Execute(&pipeline.LogOp{Message: "x"})
	})
	return c12DefaultTE
}

func c12NewExecutor(rec *c12Rec, data dom.ContainerBuilder) pipeline.Executor {
	return c12NewExecutorFns(rec, data, refDefaultFns)
}

// c12NewExecutorFns: an executor of its own — own data, own recording listener, own ext action factories.
// fns maps an ext function NAME to the behaviour (trace | fail | inc) registered under it for this executor.
func c12NewExecutorFns(rec *c12Rec, data dom.ContainerBuilder, fns map[string]string) pipeline.Executor {
	reg := map[string]pipeline.ActionFactory{}
	for name, behaviour := range fns {
		reg[name] = &c12Factory{behaviour, rec}
	}
	return pipeline.New(
		pipeline.WithData(data),
		pipeline.WithListener(rec),
		pipeline.WithTemplateEngine(&c12TE{inner: c12Engine(), rec: rec}),
		pipeline.WithExtActions(reg))
}

// ---------------------------------------------------------------- errors → tags (mirror of Err.tag)

func c12SameErr(a, b error) (same bool) {
	defer func() {
		if recover() != nil {
			same = false
		}
	}()
	return a == b
}

// origin: label of the first after-event that carried this very error
func (r *c12Rec) origin(err error) string {
	for i, e := range r.ev {
		if e[0] == "a" && r.errs[i] != nil && c12SameErr(r.errs[i], err) {
			return e[1].(string)
		}
	}
	return ""
}

func (r *c12Rec) tag(err error) any {
	if err == nil {
		return nil
	}
	var xe *c12ExtErr
	if errors.As(err, &xe) {
		return "extFail:" + xe.id
	}
	o := r.origin(err)
	switch {
	case strings.HasPrefix(o, "abort:"):
		return "abort:" + strings.TrimPrefix(err.Error(), "abort: ")
	case strings.HasPrefix(o, "act:"), o == "loop":
		return "cond"
	case strings.HasPrefix(o, "ext:"):
		return "noFunc"
	case strings.HasPrefix(o, "call:"):
		return "undefined"
	case strings.HasPrefix(o, "define:"):
		return "redefined"
	case strings.HasPrefix(o, "template:"):
		switch {
		case errors.Is(err, pipeline.ErrTemplateEmpty):
			return "tmplEmpty"
		case errors.Is(err, pipeline.ErrPathEmpty):
			return "pathEmpty"
		case strings.HasPrefix(err.Error(), "unknown ParseAs"):
			return "badParseAs"
		}
		return "render"
	case strings.HasPrefix(o, "set:"):
		if errors.Is(err, pipeline.ErrNoDataToSet) {
			return "noData"
		}
		return "badStrategy"
	}
	return "?" + o
}

// finish fills in the error tags of the after-events and returns the trace in wire form.
func (r *c12Rec) finish() []any {
	out := make([]any, len(r.ev))
	for i, e := range r.ev {
		if e[0] == "a" {
			out[i] = []any{"a", e[1], r.tag(r.errs[i])}
		} else {
			out[i] = e
		}
	}
	return out
}

// ---------------------------------------------------------------- running

type c12RunRes struct {
	rec     *c12Rec
	data    dom.ContainerBuilder
	errs    []error // one per top-level Execute call
	outcome string  // ok | panic
	text    string
	tr      []any
}

// c12Exec executes the given top-level actions, one Execute call each, on one executor.
func c12Exec(data W, acts []pipeline.Action, wantSnap bool) *c12RunRes {
	return c12ExecFns(data, acts, wantSnap, refDefaultFns)
}

// c12ExecFns: as c12Exec, on a fresh executor with the given ext registrations.
func c12ExecFns(data W, acts []pipeline.Action, wantSnap bool, fns map[string]string) *c12RunRes {
	run := &c12RunRes{rec: &c12Rec{wantSnap: wantSnap}}
	run.outcome, run.text = guard(func() {
		run.data = wireContainer(data)
		run.rec.data = run.data
		ex := c12NewExecutorFns(run.rec, run.data, fns)
		for _, a := range acts {
			run.errs = append(run.errs, ex.Execute(a))
		}
	})
	run.tr = run.rec.finish()
	return run
}

func (r *c12RunRes) errTags() []any {
	out := make([]any, len(r.errs))
	for i, e := range r.errs {
		out[i] = r.rec.tag(e)
	}
	return out
}

func (r *c12RunRes) dataWire() W {
	if r.data == nil {
		return nil
	}
	return nodeWire(r.data)
}

// ---------------------------------------------------------------- trace predicates (implementation only)

// c12Node is the parse of a well-nested trace.
type c12TNode struct {
	label string
	err   error
	hasE  bool
	kids  []*c12TNode // nested before/after pairs
	leafs []any       // r / l / t events directly inside, in order (interleaving with kids not kept)
	seq   []any       // everything directly inside, in order: *c12TNode or event
	first int         // index of the before event
	last  int         // index of the after event
}

// c12Parse checks the Dyck property: every OnBefore(a) is closed by exactly one OnAfter(a, ·), properly nested.
func c12Parse(rec *c12Rec) (roots []*c12TNode, problem string) {
	var stack []*c12TNode
	for i, e := range rec.ev {
		switch e[0] {
		case "b":
			n := &c12TNode{label: e[1].(string), first: i}
			if len(stack) > 0 {
				p := stack[len(stack)-1]
				p.kids = append(p.kids, n)
				p.seq = append(p.seq, n)
			} else {
				roots = append(roots, n)
			}
			stack = append(stack, n)
		case "a":
			if len(stack) == 0 {
				return roots, fmt.Sprintf("event %d: OnAfter(%v) without an open OnBefore", i, e[1])
			}
			top := stack[len(stack)-1]
			if top.label != e[1].(string) {
				return roots, fmt.Sprintf("event %d: OnAfter(%v) closes OnBefore(%v)", i, e[1], top.label)
			}
			top.err, top.hasE, top.last = rec.errs[i], rec.errs[i] != nil, i
			stack = stack[:len(stack)-1]
		default:
			if len(stack) > 0 {
				p := stack[len(stack)-1]
				p.leafs = append(p.leafs, e)
				p.seq = append(p.seq, e)
			}
		}
	}
	if len(stack) > 0 {
		return roots, fmt.Sprintf("OnBefore(%v) never closed", stack[len(stack)-1].label)
	}
	return roots, ""
}

// c12FailFast: after the first after-event that carries an error, every event is an after-event carrying
// that same error; ret is what Execute returned.
func c12FailFast(rec *c12Rec, from, to int, ret error) string {
	first := -1
	for i := from; i < to; i++ {
		if rec.ev[i][0] == "a" && rec.errs[i] != nil {
			first = i
			break
		}
	}
	if first < 0 {
		if ret != nil {
			return "an error was returned but no OnAfter carried one"
		}
		return ""
	}
	if ret == nil {
		return fmt.Sprintf("OnAfter(%v) carried an error but Execute returned nil", rec.ev[first][1])
	}
	if !c12SameErr(rec.errs[first], ret) {
		return "the returned error is not the first failing operation's error"
	}
	for i := first + 1; i < to; i++ {
		if rec.ev[i][0] != "a" {
			return fmt.Sprintf("event %d %v happened after the failure of %v", i, rec.ev[i], rec.ev[first][1])
		}
		if rec.errs[i] == nil || !c12SameErr(rec.errs[i], ret) {
			return fmt.Sprintf("OnAfter(%v) after the failure does not carry the failure's error", rec.ev[i][1])
		}
	}
	return ""
}

// c12DeclaredOrder: "the fixed declared operation order" — the documented one (c12DocumentedOrder, a literal
// copy of the OpSpec field list at the pinned commit), NOT read from the OpSpec type under test: an order
// obtained by reflection would follow any change of the type and the clause could never fail.
func c12DeclaredOrder() []string { return c12DocumentedOrder }

// c12ReflectedOrder: what reflection on the type under test says (evidence only).
func c12ReflectedOrder() []string {
	var out []string
	for _, f := range reflect.VisibleFields(reflect.TypeOf(pipeline.OpSpec{})) {
		out = append(out, f.Name)
	}
	return out
}

var c12KindField = map[string]string{"set": "Set", "template": "Template", "log": "Log", "abort": "Abort", "ext": "Ext",
	"forEach": "ForEach", "loop": "Loop", "call": "Call", "define": "Define",
	// operations the program JSON has no form for (the "allops" cases build them directly)
	"patch": "Patch", "import": "Import", "templateFile": "TemplateFile", "env": "Env", "exec": "Exec", "export": "Export",
	"html2Dom": "Html2Dom"}

// c12OpsInOrder: the action's operation kinds (first of each kind) in declared order.
func c12OpsInOrder(a *c12Act) []string {
	present := map[string]bool{}
	for _, o := range a.Ops {
		present[c12KindField[o.K]] = true
	}
	var out []string
	for _, f := range c12DeclaredOrder() {
		if present[f] {
			out = append(out, f)
		}
	}
	return out
}

func c12LabelField(label string) string {
	k := label
	if i := strings.Index(label, ":"); i >= 0 {
		k = label[:i]
	}
	return c12KindField[k]
}

func c12ChildrenByOrder(a *c12Act) []string {
	cs := append([]c12Act{}, a.Children...)
	sort.SliceStable(cs, func(i, j int) bool { return cs[i].Order < cs[j].Order })
	out := make([]string, len(cs))
	for i, c := range cs {
		out[i] = "act:" + c.Name
	}
	return out
}

func c12Index(a *c12Act, into map[string]*c12Act) {
	into["act:"+a.Name] = a
	for i := range a.Children {
		c12Index(&a.Children[i], into)
	}
}

func c12IsPrefix(got, want []string) bool {
	if len(got) > len(want) {
		return false
	}
	for i := range got {
		if got[i] != want[i] {
			return false
		}
	}
	return true
}
