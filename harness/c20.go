package main

import (
	"bytes"
	"encoding/json"
	"fmt"
	"math/rand"
	"os"
	"os/exec"
	"path/filepath"
	"regexp"
	"sort"
	"strings"
	"time"

	"github.com/rkosegi/yaml-toolkit/dom"

	"verifharness/c20lib"
)

// C20 — reading a document never writes to it; concurrent readers are race-free.
//
// Case kinds:
//   api     the read methods this harness exercises are exactly the extractor's readApi, and every one
//           of them has a write-free closed summary (the table the theorems are about)
//   reads   one document (built / loaded / frommap / merged / cloned / sealed / overlay) and a sequence of
//           read calls, single-threaded: deep fingerprint unchanged after every call, observations stable
//   writer  builder operations: when the fingerprint of the receiver changes the closed summary of that
//           function must charge the receiver (validates the translator in the other direction)
//   race    the same kind of document read by 16 goroutines at once under the race detector (separate
//           program harness/race built with -race); observations equal the single-threaded ones

type c20Reads struct {
	Origin string        `json:"origin"`
	D1     W             `json:"d1"`
	D2     W             `json:"d2,omitempty"`
	More   []W           `json:"more,omitempty"` // origin layers: the layers after the second one
	Calls  []c20lib.Call `json:"calls"`
	Pre    []c20lib.Fail `json:"pre,omitempty"`  // serialisations of other documents that fail part-way, performed before (and once more after) the reads
	Pad    int           `json:"pad,omitempty"`  // > 0: D1 additionally holds a string leaf of this many bytes (c20lib.Padded)
	Long   int           `json:"long,omitempty"` // > 0: D1 additionally holds a list of this many items (c20lib.Lengthened)
}

// c20Pads: string leaves that make the serialised / loaded text just under, at and just over 512 B, 4 KiB, 64 KiB, 1 MiB.
var c20Pads = []int{470, 512, 530, 4050, 4096, 4120, 65490, 65536, 65560, 1<<20 - 60, 1 << 20, 1<<20 + 30}

type c20Writer struct {
	D1  W      `json:"d1"`
	Op  string `json:"op"`
	P   string `json:"p"`
	V   W      `json:"v,omitempty"`
	Idx int    `json:"idx,omitempty"`
}

func init() {
	register(&Prop{ID: "C20", Run: c20Run,
		Rule: "documents from the shared generator with empty containers / empty lists at every depth (PEmpty raised), lists of 0-7 and 10-13 items built by successive Append calls (so lengths 3, 5, 6, 7, 10-13 have spare capacity), one document in five with 1-3 COMPOSITE leaves (a leaf holding a []interface{} / map[string]interface{} / map[interface{}]interface{} value, nested in each other, put over an existing leaf or under a new key at any depth: a leaf may hold any Go value), obtained as freshly built, loaded via FromReader, FromMap, merged (both list strategies), cloned, sealed, as two-layer overlays whose upper layer is unrelated, a near copy of the lower one, or an addendum to it (below the same keys some lists overridden by 1-3 additional items, some scalars overridden), and as overlays of 3-5 layers generated together position by position (origin `layers`: below shared keys every layer independently holds nothing / null / a scalar / a list / a container, the containers several layers hold at one key generated together again, so the layers overlap and disagree in kind at every depth - null or leaf then container then container again, container then null then container, ... - with empty containers at every depth); the Search calls (container and overlay) pass a predicate with state of its own (it records every value it is shown in plain variables of the calling goroutine, the way callers collect matches - what it was shown is part of the observation); read calls drawn from the whole read API with paths that exist, paths that do not, and list-index paths (flattened paths of the document with [i] groups, small out-of-range indexes, and indexes far out of range that no earlier round of the run has used), Merged with the default and the ListsMergeAppend option, plus ContainerBuilder.Merge(other, opts) with the document as receiver and as `other` (both strategies; other = unrelated / near copy / addendum). reads: fingerprint (reflection incl. unexported fields, nil-vs-empty maps, slice len/cap and the backing array between len and cap) before/after every call; every view handed out (merged view, layer snapshot, clone, merge result) is retained and must be unchanged after all later reads; for overlays the fingerprint is also taken per layer, and after all reads every layer's snapshot content must equal that of the same layer of an identically built overlay nobody has read. race: 16 goroutines x 3-8 random read calls on a fresh instance per round under `go build -race` (200 rounds quick, 5000 thorough); the concurrent readers are the first to read the instance and the first in the process to use the round's paths / child names - the single-threaded reference observations are computed only afterwards, on another fresh instance - so anything a read path initialises or memoises lazily (in the document or in package-level state) is initialised under concurrency. identity: one Merge call in seven merges the document (or a container inside it) with ITSELF (receiver and other are one object). size: every fiftieth reads case and every fortieth race round the document additionally holds a string leaf of 470 B ... 1 MiB + 30 B (the text FromReader loads / Serialize writes is just under, at, just over 512 B, 4 KiB, 64 KiB, 1 MiB; multi-byte characters every few bytes). long lists: after the 200 (5000) race rounds come 8 (60) further rounds, and after everything else a few reads cases, whose document additionally holds a LIST of 20 ... 2500 and more items (ints, every 97th a small container, every 101st a nested list; c20lib.Lengthened) - an inventory, a table of records; the lengths grow from round to round (just over 16, 32, ... 2048, then a few items more each time), so that each of these rounds is the first in the process to read a list that long (whatever a read path sizes, caches or grows by list length or index is sized under concurrency, like the paths and child names above); every sequence of such a round may also address the list itself (items at its start, middle, end and past its end, Items / Size / AsSlice / Clone of it). failure first (every third reads case, every second race round): 1-3 serialisations of OTHER documents that fail part-way precede the reads / are performed after the 16 goroutines have been created and before they are released - a float leaf JSON cannot represent (NaN, +Inf, -Inf; put by the builder or loaded from YAML), a leaf whose own MarshalJSON / MarshalYAML reports an error (placed early, late or deep in the document), an io.Writer failing after 0 / 1 / a few / hundreds of bytes, through Container.Serialize or the single-layer OverlayDocument.Serialize, with both default encoders; in those cases every call sequence contains a Serialize of the document under test (both encoders), single-threaded observations must equal the ones an identically built instance gave before any serialisation had failed, and a failing Serialize leaves the fingerprint of its own document unchanged. Non-trivial: the document has at least one composite child. distinct = distinct canonical case JSON.",
		Assumptions: []string{"the race detector only observes the schedules that occur; the schedule quantifier is carried by the write-freedom theorem over the extracted effect table",
			"effect extractor rules (syntactic points-to, freshness, allow-list of external calls, caller-supplied callbacks do not write) are trusted and validated dynamically here",
			"Go memory model and runtime"}})
	evals["C20"] = c20Eval
	shrinkers["C20"] = c20Shrink
}

// ---------------------------------------------------------------- generation

func c20Gen() *DocGen {
	g := stdGen()
	g.PEmpty = 0.3
	g.MaxDepth = 4
	g.PLeaf = 0.5
	g.PList = 0.5
	// lists of 1-7 items (and the shared generator's 10-13): every list is built by successive
	// Append calls, so lengths 3, 5, 6, 7, 10-13 leave spare capacity in the backing array
	g.ListMax = 7
	return g
}

func c20GenCalls(r *rand.Rand, g *DocGen, origin string, d1, d2 W, n int, more ...W) []c20lib.Call {
	var paths, lists []string
	wirePaths(d1, "", &paths, &lists)
	if d2 != nil {
		wirePaths(d2, "", &paths, &lists)
	}
	for _, m := range more {
		wirePaths(m, "", &paths, &lists)
	}
	layerNames := []string{"zbase", "atop", "nolayer"}
	if origin == "layers" {
		layerNames = append(c20lib.LayerNames(2+len(more)), "nolayer")
	}
	paths = append(paths, "put.here", "put")
	anyPath := func() string {
		switch {
		case len(paths) > 0 && r.Intn(4) > 0:
			p := pick(r, paths)
			if r.Intn(6) == 0 {
				p += "." + pick(r, g.Keys)
			}
			if r.Intn(8) == 0 {
				p += fmt.Sprintf("[%d]", r.Intn(3))
			} else if r.Intn(10) == 0 {
				// an index far out of range: a child name no earlier round of this run has used
				p += fmt.Sprintf("[%d]", 100+r.Intn(1<<24))
			}
			return p
		case r.Intn(2) == 0:
			return pick(r, g.Keys)
		default:
			return pick(r, []string{"", "no.such.path", "a[9]", "a[0][0]", "x.", ".x"})
		}
	}
	out := make([]c20lib.Call, 0, n)
	for i := 0; i < n; i++ {
		if origin == "overlay" || origin == "layers" {
			c := c20lib.Call{M: pick(r, c20OverlayCalls), Path: anyPath(), Layer: pick(r, layerNames)}
			switch c.M {
			case "OverlayDocument.Merged(append)":
				c.M, c.Opt = "OverlayDocument.Merged", "append"
			case "OverlayDocument.Search":
				c.V = g.Scalar(r)
			case "OverlayDocument.Serialize":
				c.V = pick(r, []string{"yaml", "json"})
			}
			out = append(out, c)
			continue
		}
		c := c20lib.Call{M: pick(r, c20ContainerCalls)}
		switch c.M {
		case "ContainerBuilder.Merge":
			// the other operand: a near copy of the document (same lists under the same keys), or unrelated
			c.Opt = pick(r, []string{"", "append"})
			if r.Intn(7) == 0 {
				// the document (or a container inside it) merged with ITSELF: V absent
				if r.Intn(2) == 0 {
					c.Path = anyPath()
				}
				break
			}
			switch r.Intn(4) {
			case 0:
				c.V = g.Doc(r)
			case 1:
				c.Path = anyPath()
				c.V = g.Cont(r, 2)
			case 2:
				c.V = g.Mutate(r, d1)
			default:
				c.V = c20Addendum(r, g, d1)
			}
			if c.V != nil && c.Path == "" && r.Intn(2) == 0 {
				// the same merge again with another operand: the first result must survive it
				out = append(out, c)
				i++
				c.V = c20Addendum(r, g, d1)
			}
		case "Container.Child":
			c.Path = pick(r, g.Keys)
			if r.Intn(3) == 0 {
				c.Path = anyPath()
			}
		case "Container.Lookup":
			c.Path = anyPath()
		case "Container.Search":
			c.V = g.Scalar(r)
		case "Container.Serialize":
			c.V = pick(r, []string{"yaml", "json"})
		case "Container.Children", "Container.Flatten", "Container.AsMap":
		default:
			if r.Intn(3) > 0 {
				c.Path = anyPath()
			}
			if (c.M == "Node.Equals" || c.M == "Node.SameAs") && r.Intn(2) == 0 {
				c.V = g.Node(r, 2)
			}
		}
		out = append(out, c)
	}
	return out
}

// c20GenFails: 1-3 calls of the serialisation API that fail part-way, each on a document of its own: a float leaf
// JSON cannot represent (NaN / +Inf / -Inf, put by the builder or loaded from YAML .nan / .inf), a leaf whose own
// marshalling method reports an error (fails both default encoders, after what they had emitted before reaching it),
// or an io.Writer that fails after n bytes (0, 1, a few, hundreds).
func c20GenFails(r *rand.Rand, g *DocGen) []c20lib.Fail {
	var out []c20lib.Fail
	for n := 1 + r.Intn(3); n > 0; n-- {
		d := g.Doc(r)
		var paths, lists []string
		wirePaths(d, "", &paths, &lists)
		f := c20lib.Fail{D: d, Enc: pick(r, []string{"json", "yaml"}), Overlay: r.Intn(4) == 0,
			How: pick(r, []string{"NaN", "NaN", "+Inf", "-Inf", "marshaler", "marshaler", "writer", "writer"})}
		switch f.How {
		case "writer":
			f.N = pick(r, []int{0, 0, 1, 2, 7, 16, 100, 511, r.Intn(600)})
		case "marshaler":
		default:
			f.Enc = "json"
			f.Loaded = r.Intn(3) == 0
		}
		if f.How != "writer" {
			// early, late, or deep in the document
			f.P = pick(r, []string{"zz", "zz", "A0", pick(r, g.Keys), pick(r, g.Keys) + ".zz"})
			if len(paths) > 0 && r.Intn(3) == 0 {
				f.P = pick(r, paths)
			}
		}
		out = append(out, f)
	}
	return out
}

// c20WithSerialize: every sequence gets a Serialize call (both encoders occur), at a random position.
func c20WithSerialize(r *rand.Rand, origin string, seqs [][]c20lib.Call) {
	m := "Container.Serialize"
	if origin == "overlay" || origin == "layers" {
		m = "OverlayDocument.Serialize"
	}
	for i, seq := range seqs {
		c := c20lib.Call{M: m, V: pick(r, []string{"yaml", "json"})}
		at := r.Intn(len(seq) + 1)
		seq = append(seq, c)
		copy(seq[at+1:], seq[at:])
		seq[at] = c
		seqs[i] = seq
	}
}

var c20Origins = []string{"built", "loaded", "frommap", "merged", "merged-append", "cloned", "sealed", "overlay", "overlay", "layers", "layers"}

// c20GenStack: n layers generated TOGETHER, position by position.  Below a shared pool of keys every layer
// independently holds nothing, null, a scalar, a list or a container at a key, and the containers that several
// layers hold at one key are again generated together - so at every depth the layers overlap, agree and
// DISAGREE in kind (null / scalar / list in one layer, a container in the next, a container again in a later
// one, in every order), the way stacks of defaults / environment / override documents do.  Empty containers
// occur at every depth (a position where a layer rolled "container" and none of the keys below).
func c20GenStack(r *rand.Rand, g *DocGen, n, depth int) []W {
	ms := make([]map[string]any, n)
	for i := range ms {
		ms[i] = map[string]any{}
	}
	nk := 1 + r.Intn(3)
	if depth == 0 {
		nk = 2 + r.Intn(3)
	}
	for _, ki := range r.Perm(len(g.Keys))[:nk] {
		k := g.Keys[ki]
		var conts []int
		for i := 0; i < n; i++ {
			switch x := r.Intn(20); {
			case x < 5: // the layer does not define the key
			case x < 8:
				ms[i][k] = scalarWire(nil)
			case x < 10:
				ms[i][k] = g.Scalar(r)
			case x < 12:
				ms[i][k] = g.List(r, depth+2)
			default:
				conts = append(conts, i)
			}
		}
		if len(conts) == 0 {
			continue
		}
		if depth < 2 {
			for j, sub := range c20GenStack(r, g, len(conts), depth+1) {
				ms[conts[j]][k] = sub
			}
			continue
		}
		for _, i := range conts {
			ms[i][k] = g.Cont(r, g.MaxDepth-1)
		}
	}
	out := make([]W, n)
	for i := range ms {
		out[i] = map[string]any{"m": ms[i]}
	}
	return out
}

// c20GenDocs: the documents of a case of the given origin (d2 / more only where the origin has them).
func c20GenDocs(r *rand.Rand, g *DocGen, o string) (d1, d2 W, more []W) {
	if o == "layers" {
		st := c20GenStack(r, g, 3+r.Intn(3), 0)
		if r.Intn(5) == 0 {
			for i := range st {
				if r.Intn(2) == 0 {
					st[i] = c20WithComposite(r, st[i])
				}
			}
		}
		return st[0], st[1], st[2:]
	}
	d1 = g.Doc(r)
	if r.Intn(5) == 0 {
		d1 = c20WithComposite(r, d1)
	}
	if o == "merged" || o == "merged-append" || o == "overlay" {
		d2 = c20Second(r, g, d1)
	}
	return
}

// c20Composites: values of COMPOSITE leaves (wire type "composite", c20lib.CompositeFromText): "for all documents" -
// a leaf holds any Go value, and callers do put decoded fragments (a slice, a map, maps of the
// map[interface{}]interface{} kind older YAML decoders produce, nested in each other) into a leaf as they are.
// Reading such a document - conversion to plain values and serialisation in particular - must leave the value
// alone like everything else.
var c20Composites = []string{
	`[1,2,3]`, `[]`, `["a","b"]`, `[null]`, `[[1],[2,[3]]]`, `{"k":"v"}`, `{"k":[1,2],"n":{"x":true}}`, `{}`,
	`["a",{"k":"v"}]`, `[{"$if":{"a":1}}]`, `{"$if":{"a":1,"b":"x"}}`, `{"$if":{}}`, `{"$if":{"1":"one","b":[{"$if":{"c":true}}]}}`,
	`[1,[{"$if":{"k":[{"$if":{"d":null}}]}}],"z"]`, `{"list":[{"$if":{"host":"h","port":80}},{"$if":{"host":"i"}}]}`,
}

// c20WithComposite puts 1-3 composite leaves into a copy of d: over an existing leaf, under a new key, at the top or
// a few levels down (inside containers and lists).
func c20WithComposite(r *rand.Rand, d W) W {
	d = deepCopyW(d)
	leaf := func() W { return map[string]any{"t": "composite", "v": pick(r, c20Composites)} }
	for n := 1 + r.Intn(3); n > 0; n-- {
		cur := d
		for depth := 0; ; depth++ {
			if l, ok := cur.([]any); ok {
				if len(l) == 0 {
					break
				}
				i := r.Intn(len(l))
				if _, isLeaf := wireLeafT(l[i]); isLeaf || depth > 3 {
					l[i] = leaf()
					break
				}
				cur = l[i]
				continue
			}
			c, ok := wireCont(cur)
			if !ok {
				break
			}
			ks := sortedKeys(c)
			if len(ks) == 0 || r.Intn(3) == 0 {
				c[pick(r, []string{"cv", "cw", "a", "zz"})] = leaf()
				break
			}
			k := pick(r, ks)
			if _, isLeaf := wireLeafT(c[k]); isLeaf || depth > 3 {
				c[k] = leaf()
				break
			}
			cur = c[k]
		}
	}
	return d
}

// wireLeafT: the wire type of a leaf.
func wireLeafT(w W) (string, bool) {
	m, ok := w.(map[string]any)
	if !ok {
		return "", false
	}
	if _, isCont := m["m"]; isCont {
		return "", false
	}
	t, ok := m["t"].(string)
	return t, ok
}

// c20HasComposite: the document holds a composite leaf.
func c20HasComposite(w W) bool {
	switch x := w.(type) {
	case []any:
		for _, e := range x {
			if c20HasComposite(e) {
				return true
			}
		}
	case map[string]any:
		if c, ok := x["m"].(map[string]any); ok {
			for _, e := range c {
				if c20HasComposite(e) {
					return true
				}
			}
			return false
		}
		return x["t"] == "composite"
	}
	return false
}

// the calls drawn for an overlay: its read methods, Merged once per list strategy
var c20OverlayCalls = append(append([]string{}, c20lib.OverlayMethods...), "OverlayDocument.Merged(append)")

// the calls drawn for a plain document: the read interfaces' methods plus the auxiliary read-only uses
var c20ContainerCalls = append(append([]string{}, c20lib.ContainerMethods...), c20lib.AuxMethods...)

// c20SpareListPair: somewhere below keys that are containers on both sides, the two documents hold a
// list under the same key, the first with spare capacity when built by successive appends
// (len not a power of two) and the second non-empty and short enough to fit that capacity: the
// situation in which a list merge that re-used the first operand's backing array would write
// into the document.
func c20SpareListPair(a, b W) bool {
	ca, oka := wireCont(a)
	cb, okb := wireCont(b)
	if !oka || !okb {
		return false
	}
	for k, x := range ca {
		y, ok := cb[k]
		if !ok {
			continue
		}
		lx, okx := x.([]any)
		ly, oky := y.([]any)
		if okx && oky {
			capx := 1
			for capx < len(lx) {
				capx *= 2
			}
			if len(lx) > 0 && len(ly) > 0 && len(lx)+len(ly) <= capx {
				return true
			}
			continue
		}
		if c20SpareListPair(x, y) {
			return true
		}
	}
	return false
}

// c20Addendum derives an upper layer / merge operand from d the way overlays are used: below the
// same keys, some lists are overridden by a short list of additional items (1-3), some copied,
// some scalars overridden, some keys left out, now and then a new key.
func c20Addendum(r *rand.Rand, g *DocGen, d W) W {
	c, ok := wireCont(d)
	if !ok {
		return deepCopyW(d)
	}
	out := map[string]any{}
	for _, k := range sortedKeys(c) {
		switch x := c[k].(type) {
		case []any:
			switch r.Intn(6) {
			case 0:
			case 1:
				out[k] = deepCopyW(x)
			default:
				l := make([]any, 1+r.Intn(2)+r.Intn(2))
				for i := range l {
					l[i] = g.Node(r, g.MaxDepth-1)
				}
				out[k] = l
			}
		case map[string]any:
			if _, isCont := x["m"]; isCont {
				if r.Intn(4) > 0 {
					out[k] = c20Addendum(r, g, x)
				}
			} else if r.Intn(3) == 0 {
				out[k] = g.Scalar(r)
			}
		}
	}
	if r.Intn(3) == 0 {
		out[pick(r, g.Keys)] = g.Node(r, 2)
	}
	return map[string]any{"m": out}
}

// c20Second: the second document of a merged / overlay origin.
func c20Second(r *rand.Rand, g *DocGen, d1 W) W {
	switch r.Intn(4) {
	case 0:
		return g.Doc(r)
	case 1:
		return g.Mutate(r, d1)
	case 2:
		return g.Mutate(r, c20Addendum(r, g, d1))
	}
	return c20Addendum(r, g, d1)
}

// c20Shrink: the generic JSON shrinker, preceded by list truncations (a list's length decides
// the capacity of its backing array, so dropping one item at a time can get stuck).
func c20Shrink(kind string, raw []byte) [][]byte {
	var v any
	if err := json.Unmarshal(raw, &v); err != nil {
		return nil
	}
	var out [][]byte
	var walk func(x any, set func(any))
	walk = func(x any, set func(any)) {
		switch t := x.(type) {
		case []any:
			for _, n := range []int{1, 3, 5} {
				if len(t) > n {
					set(append([]any{}, t[:n]...))
					if b, err := json.Marshal(v); err == nil && len(b) < len(raw) {
						out = append(out, b)
					}
					set(t)
				}
			}
			for i := range t {
				i := i
				walk(t[i], func(n any) { t[i] = n })
			}
		case map[string]any:
			for _, k := range sortedKeys(t) {
				k := k
				walk(t[k], func(n any) { t[k] = n })
			}
		}
	}
	walk(v, func(n any) { v = n })
	if len(out) > 200 {
		out = out[:200]
	}
	// a shorter long list (candidates must be shorter as text: fewer digits)
	if m, ok := v.(map[string]any); ok {
		if f, ok := m["long"].(float64); ok && f >= 10 {
			var pre [][]byte
			for _, n := range []int{9, 99, 999, 9999} {
				if float64(n) < f {
					m["long"] = n
					if b, err := json.Marshal(v); err == nil && len(b) < len(raw) {
						pre = append(pre, b)
					}
				}
			}
			m["long"] = f
			out = append(pre, out...)
		}
	}
	return append(out, shrinkJSON(kind, raw)...)
}

func c20Run(c *Ctx) {
	r := c.Rng
	g := c20Gen()
	c.Do("api", map[string]any{})
	for i := 0; i < c.N(1500); i++ {
		c.Tick()
		o := pick(r, c20Origins)
		d1, d2, more := c20GenDocs(r, g, o)
		cs := c20Reads{Origin: o, D1: d1, D2: d2, More: more, Calls: c20GenCalls(r, g, o, d1, d2, 2+r.Intn(6), more...)}
		if i%50 == 7 {
			// a LARGE document: a long string leaf (the text read by FromReader / written by Serialize crosses a size threshold)
			cs.Pad = pick(r, c20Pads)
			seqs := [][]c20lib.Call{cs.Calls}
			c20WithSerialize(r, o, seqs)
			cs.Calls = seqs[0]
		}
		if i%3 == 2 {
			// reads that follow (and are followed by) serialisations of other documents that fail part-way
			cs.Pre = c20GenFails(r, g)
			seqs := [][]c20lib.Call{cs.Calls}
			c20WithSerialize(r, o, seqs)
			cs.Calls = seqs[0]
		}
		c.Do("reads", cs)
	}
	ops := []string{"AddValue", "AddValueAt", "AddContainer", "AddList", "Remove", "RemoveAt", "Merge", "ListAppend", "ListSet", "ListClear", "OverlayPut", "OverlayAdd", "Seal"}
	for i := 0; i < c.N(300); i++ {
		c.Tick()
		d1 := g.Doc(r)
		var paths, lists []string
		wirePaths(d1, "", &paths, &lists)
		p := pick(r, g.Keys)
		if len(paths) > 0 && r.Intn(2) == 0 {
			p = pick(r, paths)
		}
		op := pick(r, ops)
		if strings.HasPrefix(op, "List") {
			if len(lists) == 0 {
				continue
			}
			p = pick(r, lists)
		}
		c.Do("writer", c20Writer{D1: d1, Op: op, P: p, V: g.Node(r, 2), Idx: r.Intn(3)})
	}
	// race rounds: one batch through the -race program; any hit is re-run alone as a replayable case
	rounds := 200
	if c.Thorough() {
		rounds = 5000
	}
	if c.searchMode {
		rounds = 400
	}
	var batch []c20lib.Case
	for i := 0; i < rounds; i++ {
		o := pick(r, c20Origins)
		d1, d2, more := c20GenDocs(r, g, o)
		cs := c20lib.Case{Origin: o, D1: d1, D2: d2, More: more, Repeat: 2}
		for gi := 0; gi < 16; gi++ {
			cs.Seqs = append(cs.Seqs, c20GenCalls(r, g, o, d1, d2, 3+r.Intn(6), more...))
		}
		if i%40 == 10 {
			cs.Pad = pick(r, c20Pads)
		}
		if i%2 == 1 {
			// failure first: serialisations of other documents fail part-way before the readers are released, and
			// every reader serialises the document at some point of its sequence
			cs.Pre = c20GenFails(r, g)
			c20WithSerialize(r, o, cs.Seqs)
		}
		batch = append(batch, cs)
	}
	// long lists: further rounds (after the ordinary ones, which stay what they were) whose document holds a list
	// longer than any list read so far in the process
	nLong, long := 8, 0
	if c.Thorough() {
		nLong = 60
	}
	for k := 0; k < nLong; k++ {
		if k < len(c20LongLens) {
			long = c20LongLens[k] + r.Intn(c20LongLens[k]/4)
		} else {
			long += 1 + r.Intn(8)
		}
		o := pick(r, c20Origins)
		d1, d2, more := c20GenDocs(r, g, o)
		cs := c20lib.Case{Origin: o, D1: d1, D2: d2, More: more, Repeat: 2, Long: long}
		for gi := 0; gi < 16; gi++ {
			cs.Seqs = append(cs.Seqs, c20WithLongCalls(r, o, long, c20GenCalls(r, g, o, d1, d2, 3+r.Intn(6), more...)))
		}
		batch = append(batch, cs)
	}
	c.Tick()
	// a witness search (c.deadline set) is bounded: the batch gets what is left of its budget (at least 30 s)
	batchTimeout := 15 * time.Minute
	if !c.deadline.IsZero() {
		if batchTimeout = time.Until(c.deadline); batchTimeout < 30*time.Second {
			batchTimeout = 30 * time.Second
		}
	}
	res := c20RunRace(c, batch, batchTimeout)
	c.Dist(fmt.Sprintf("race:rounds=%d", rounds))
	if res.err != "" {
		c.Note("race program: %s", res.err)
		c.Do("race", c20lib.Case{Origin: "built", D1: map[string]any{"m": map[string]any{}}, Seqs: [][]c20lib.Call{{{M: "Container.Children"}}}})
		return
	}
	c.Dist(fmt.Sprintf("race:clean-rounds=%d", res.completed))
	for k, i := range res.flagged {
		if i >= 0 && i < len(batch) && k < 6 {
			cs := batch[i]
			cs.Repeat = 40
			if cs.Long > 0 {
				cs.Repeat = 10 // thousands of items under the race detector: keep the re-run (and its shrinking) affordable
			}
			c.Do("race", cs)
		}
	}
	if c.searchMode {
		// a witness search looks for a failing input only: nothing to sample
		return
	}
	// a sample of the rounds as individually evaluated (and counted) cases
	for i := 0; i < len(batch) && i < c.N(8) && i < 24; i++ {
		c.Tick()
		c.Do("race", batch[i])
	}
	// long lists, single-threaded: the fingerprint of a document with a list of hundreds of items around every read
	for i := 0; i < c.N(6); i++ {
		c.Tick()
		o := pick(r, c20Origins)
		d1, d2, more := c20GenDocs(r, g, o)
		n := pick(r, []int{17, 33, 130, 260, 600, 1030}) + r.Intn(40)
		c.Do("reads", c20Reads{Origin: o, D1: d1, D2: d2, More: more, Long: n,
			Calls: c20WithLongCalls(r, o, n, c20GenCalls(r, g, o, d1, d2, 2+r.Intn(6), more...))})
	}
}

// c20LongLens: the lengths of the long lists of the first rounds that have one (each plus up to a quarter).
var c20LongLens = []int{20, 40, 70, 130, 260, 520, 1030, 2050}

// c20WithLongCalls: the sequence, in two cases out of three with one or two calls that address the long list itself
// (c20lib.LongKey, n items) put in at random positions.
func c20WithLongCalls(r *rand.Rand, origin string, n int, seq []c20lib.Call) []c20lib.Call {
	for k := []int{0, 1, 2}[r.Intn(3)]; k > 0; k-- {
		idx := pick(r, []int{0, 1, n / 2, n - 1, n - 1, n, n + 1 + r.Intn(50)})
		p := fmt.Sprintf("%s[%d]", c20lib.LongKey, idx)
		var c c20lib.Call
		if origin == "overlay" || origin == "layers" {
			c = c20lib.Call{M: pick(r, []string{"OverlayDocument.LookupAny", "OverlayDocument.Lookup"}), Path: p, Layer: "zbase"}
		} else {
			switch r.Intn(4) {
			case 0:
				c = c20lib.Call{M: "Container.Lookup", Path: p}
			case 1:
				c = c20lib.Call{M: pick(r, []string{"List.Items", "List.Size", "List.AsSlice"}), Path: c20lib.LongKey}
			case 2:
				c = c20lib.Call{M: pick(r, []string{"Node.Clone", "Node.Equals"}), Path: c20lib.LongKey}
			default:
				c = c20lib.Call{M: "Container.Child", Path: c20lib.LongKey}
			}
		}
		at := r.Intn(len(seq) + 1)
		seq = append(seq, c)
		copy(seq[at+1:], seq[at:])
		seq[at] = c
	}
	return seq
}

// ---------------------------------------------------------------- the -race program

type c20RaceResult struct {
	err       string
	exit      int
	completed int
	flagged   []int // case indices with a race report or an observation mismatch
	report    string
	mismatch  []string
}

var c20RaceBin string

func c20BuildRace(c *Ctx) (string, error) {
	if c20RaceBin != "" {
		if _, err := os.Stat(c20RaceBin); err == nil {
			return c20RaceBin, nil
		}
	}
	work := filepath.Join(c.VerifDir, ".work")
	_ = os.MkdirAll(work, 0o755)
	out := filepath.Join(work, fmt.Sprintf("c20race.%d", os.Getpid()))
	args := []string{"build", "-race", "-tags", "verif", "-o", out}
	if repo := os.Getenv("YTK_REPO"); repo != "" && repo != "/repo" {
		if _, err := os.Stat(filepath.Join(c.VerifDir, "harness", "alt.mod")); err == nil {
			args = append(args, "-modfile=alt.mod")
		}
	}
	args = append(args, "./race")
	cmd := exec.Command("go", args...)
	cmd.Dir = filepath.Join(c.VerifDir, "harness")
	cmd.Env = append(os.Environ(), "GOFLAGS=-mod=mod", "GOPROXY=off")
	b, err := cmd.CombinedOutput()
	if err != nil {
		return "", fmt.Errorf("go build -race ./race: %v: %s", err, string(b))
	}
	c20RaceBin = out
	return out, nil
}

var c20CaseLine = regexp.MustCompile(`(?m)^CASE (\d+)$`)
var c20MismatchLine = regexp.MustCompile(`(?m)^MISMATCH (\d+) (\d+) .*$`)

func c20RunRace(c *Ctx, batch []c20lib.Case, timeout time.Duration) c20RaceResult {
	var res c20RaceResult
	bin, err := c20BuildRace(c)
	if err != nil {
		res.err = err.Error()
		return res
	}
	work := filepath.Join(c.VerifDir, ".work")
	f, err := os.CreateTemp(work, "c20cases-*.json")
	if err != nil {
		res.err = err.Error()
		return res
	}
	defer os.Remove(f.Name())
	b, _ := json.Marshal(batch)
	_, _ = f.Write(b)
	f.Close()
	cmd := exec.Command(bin, f.Name())
	cmd.Env = append(os.Environ(), "GORACE=halt_on_error=1 exitcode=66")
	var so, se bytes.Buffer
	cmd.Stdout, cmd.Stderr = &so, &se
	done := make(chan error, 1)
	if err := cmd.Start(); err != nil {
		res.err = err.Error()
		return res
	}
	go func() { done <- cmd.Wait() }()
	select {
	case err = <-done:
	case <-time.After(timeout):
		_ = cmd.Process.Kill()
		res.err = "race program timed out"
		return res
	}
	res.exit = cmd.ProcessState.ExitCode()
	out := so.String()
	cases := c20CaseLine.FindAllStringSubmatch(out, -1)
	res.completed = len(cases)
	seen := map[int]bool{}
	for _, m := range c20MismatchLine.FindAllStringSubmatch(out, -1) {
		var i int
		fmt.Sscan(m[1], &i)
		if !seen[i] {
			seen[i] = true
			res.flagged = append(res.flagged, i)
		}
		res.mismatch = append(res.mismatch, m[0])
	}
	if res.exit != 0 {
		res.report = se.String()
		if len(res.report) > 6000 {
			res.report = res.report[:6000]
		}
		last := -1
		if len(cases) > 0 {
			fmt.Sscan(cases[len(cases)-1][1], &last)
		}
		res.completed--
		if !seen[last] {
			res.flagged = append(res.flagged, last)
		}
		if res.exit != 66 && !strings.Contains(res.report, "DATA RACE") {
			res.err = fmt.Sprintf("race program exited %d: %s", res.exit, res.report)
		}
	}
	sort.Ints(res.flagged)
	return res
}

// ---------------------------------------------------------------- evaluation

func c20Eval(c *Ctx, kind string, raw []byte) {
	switch kind {
	case "api":
		c20EvalAPI(c)
	case "reads":
		var p c20Reads
		if err := json.Unmarshal(raw, &p); err != nil {
			panic(err)
		}
		c20EvalReads(c, p)
	case "writer":
		var p c20Writer
		if err := json.Unmarshal(raw, &p); err != nil {
			panic(err)
		}
		c20EvalWriter(c, p)
	case "race":
		var p c20lib.Case
		if err := json.Unmarshal(raw, &p); err != nil {
			panic(err)
		}
		c20EvalRace(c, p)
	}
}

type c20Summary struct {
	Method string `json:"method"`
	Fn     string `json:"fn"`
	Writes []int  `json:"writes"`
}

func c20ModelSummary(c *Ctx) []c20Summary {
	m := c.Model("summary", map[string]any{})
	b, _ := json.Marshal(m)
	var out []c20Summary
	_ = json.Unmarshal(b, &out)
	return out
}

func c20EvalAPI(c *Ctx) {
	if c.searchMode {
		return
	}
	c.Nontrivial()
	sum := c20ModelSummary(c)
	have := map[string]bool{}
	charged := []string{}
	for _, s := range sum {
		have[s.Method] = true
		for _, w := range s.Writes {
			if w < 1000 {
				charged = append(charged, s.Method+" via "+s.Fn)
				break
			}
		}
	}
	// every method the harness exercises is in the extractor's read API and vice versa
	// (c20lib.AuxMethods — ContainerBuilder.Merge — is exercised in addition; it is not a method of
	// the read interfaces and the extracted table makes no statement about it)
	mine := map[string]bool{}
	for _, m := range append(append([]string{}, c20lib.ContainerMethods...), c20lib.OverlayMethods...) {
		mine[m] = true
	}
	extra := map[string]bool{"diff.Diff": true, "patch.(Path).Eval": true} // exercised by C07 / C10
	var missing, unexercised []string
	for m := range mine {
		if !have[m] {
			missing = append(missing, m)
		}
	}
	for m := range have {
		if !mine[m] && !extra[m] {
			unexercised = append(unexercised, m)
		}
	}
	sort.Strings(missing)
	sort.Strings(unexercised)
	sort.Strings(charged)
	c.Corr("readApi-coverage", map[string]any{"missing": []string{}, "unexercised": []string{}},
		map[string]any{"missing": append([]string{}, missing...), "unexercised": append([]string{}, unexercised...)})
	// the table the theorems are about says: no read method writes through receiver / parameters
	c.Corr("readApi-summary-writeFree", []string{}, append([]string{}, charged...))
}

func c20EvalReads(c *Ctx, p c20Reads) {
	if wireSize(p.D1) > 2 {
		c.Nontrivial()
	}
	c.Dist("origin:" + p.Origin)
	if c20HasComposite(p.D1) || c20HasComposite(p.D2) || c20HasComposite(p.More) {
		c.Dist("reads:document-with-composite-leaf(slice / map value)")
	}
	if p.Pad > 0 {
		c.Dist(fmt.Sprintf("reads:large-document(string leaf of %d bytes)", p.Pad))
		p.D1 = c20lib.Padded(p.D1, p.Pad)
	}
	if p.Long > 0 {
		c.Dist("reads:document-with-long-list(" + c20LongBucket(p.Long) + " items)")
		p.D1 = c20lib.Lengthened(p.D1, p.Long)
	}
	out, txt := guard(func() {
		// failure first: what the calls observe on an identically built instance BEFORE any serialisation has failed,
		// then serialisations of other documents that fail part-way (a failed read does not write either: the
		// fingerprint of its document is unchanged)
		var asBefore []string
		failing := func(when string) {
			for _, f := range p.Pre {
				doc, ser := f.Build()
				fpBefore := c20lib.Fingerprint(doc)
				failed := f.RunOn(ser)
				c.Dist(fmt.Sprintf("failing-serialisation:%s/%s:failed=%v", f.How, f.Enc, failed))
				fpAfter := c20lib.Fingerprint(doc)
				c.Direct("fingerprint-unchanged(Serialize that fails)", fpBefore == fpAfter,
					map[string]any{"when": when, "call": f, "diff-at": c20FirstDiff(fpBefore, fpAfter)})
			}
		}
		if len(p.Pre) > 0 {
			s0 := c20lib.Build(p.Origin, p.D1, p.D2, p.More...)
			for _, call := range p.Calls {
				asBefore = append(asBefore, s0.Exec(call))
			}
			failing("before the reads")
		}
		s := c20lib.Build(p.Origin, p.D1, p.D2, p.More...)
		s.Keep = true
		subj := func() any {
			if s.O != nil {
				return s.O
			}
			return s.C
		}
		if s.O != nil && c20SpareListPair(p.D1, p.D2) {
			c.Dist("overlay:same-key-lists-first-with-spare-capacity")
			for _, call := range p.Calls {
				if call.M == "OverlayDocument.Merged" && call.Opt == "append" {
					c.Dist("overlay:Merged(append)-with-same-key-lists-first-with-spare-capacity")
					break
				}
			}
		}
		before := c20lib.Fingerprint(subj())
		var layersFP map[string]string
		if s.O != nil {
			layersFP = c20lib.LayerFingerprints(s.O)
			c.Dist(fmt.Sprintf("overlay-layers:%d", len(layersFP)))
			if p.Origin == "layers" && c20KindConflict(append([]W{p.D1, p.D2}, p.More...)) {
				c.Dist("layers:kind-conflict-then-container-again")
			}
		}
		for ci, call := range p.Calls {
			c.Dist("call:" + call.M)
			if call.Opt != "" {
				c.Dist("call:" + call.M + "(" + call.Opt + ")")
			}
			o1 := s.Exec(call)
			if ci < len(asBefore) {
				c.Direct("observation-after-failed-serialisations-of-other-documents==before("+call.M+")", o1 == asBefore[ci],
					map[string]any{"call": call, "before": c20Clip(asBefore[ci]), "after": c20Clip(o1)})
			}
			after := c20lib.Fingerprint(subj())
			if !c.Direct("fingerprint-unchanged("+call.M+")", before == after,
				map[string]any{"call": call, "before": c20Clip(before), "after": c20Clip(after), "diff-at": c20FirstDiff(before, after)}) && s.O != nil {
				// which layer of the overlay it was
				nowL := c20lib.LayerFingerprints(s.O)
				for _, ln := range sortedKeys(nowL) {
					if was, ok := layersFP[ln]; ok && was != nowL[ln] {
						c.Direct("layer-fingerprint-unchanged("+call.M+")", false,
							map[string]any{"call": call, "layer": ln, "diff-at": c20FirstDiff(was, nowL[ln])})
					}
				}
			}
			if s.O != nil {
				layersFP = c20lib.LayerFingerprints(s.O)
			}
			before = after
			o2 := s.Exec(call)
			c.Direct("observation-stable("+call.M+")", o1 == o2, map[string]any{"call": call, "first": c20Clip(o1), "second": c20Clip(o2)})
			// the repeated call is a read like the first one (and what it does is not charged to the next call)
			after = c20lib.Fingerprint(subj())
			c.Direct("fingerprint-unchanged("+call.M+")", before == after,
				map[string]any{"call": call, "repeated": true, "before": c20Clip(before), "after": c20Clip(after), "diff-at": c20FirstDiff(before, after)})
			if before != after && s.O != nil {
				layersFP = c20lib.LayerFingerprints(s.O)
			}
			before = after
			c.Direct("no-panic("+call.M+")", !strings.HasPrefix(o1, "panic:"), o1)
			if o1 != "nil" && o1 != "nil-target" && o1 != "not-applicable" {
				c.Dist("call-effective")
			}
		}
		// what a read handed out earlier (merged view, layer snapshot, clone, merge result) is an
		// observation too: no later read may have changed it
		changed := s.ChangedViews()
		c.Direct("returned-views-unchanged-by-later-reads", len(changed) == 0, map[string]any{"changed": changed, "views": s.Views()})
		if s.Views() > 1 {
			c.Dist("reads:several-views-retained")
		}
		// a second, identically built instance observes the same (content is a function of the input)
		s2 := c20lib.Build(p.Origin, p.D1, p.D2, p.More...)
		if s.O != nil {
			// every layer, as the overlay's own snapshot view reports it, still has the content of the same layer
			// of an identically built overlay that nobody has read yet
			got, want := c20lib.LayerTexts(s.O), c20lib.LayerTexts(s2.O)
			for _, ln := range sortedKeys(want) {
				c.Direct("layer-content-as-built-after-reads", got[ln] == want[ln], map[string]any{"layer": ln, "now": c20Clip(got[ln]), "as-built": c20Clip(want[ln])})
			}
		}
		if len(p.Pre) > 0 {
			// ... and once more between the reads above and the ones below
			failing("between the reads")
		}
		for ci, call := range p.Calls {
			a, b := s.Exec(call), s2.Exec(call)
			c.Direct("same-content-same-observation("+call.M+")", a == b, map[string]any{"call": call, "a": c20Clip(a), "b": c20Clip(b)})
			if ci < len(asBefore) {
				c.Direct("observation-after-failed-serialisations-of-other-documents==before("+call.M+")", a == asBefore[ci],
					map[string]any{"call": call, "before": c20Clip(asBefore[ci]), "after": c20Clip(a), "repeated": true})
			}
		}
	})
	c.Direct("no-panic", out == "ok", txt)
}

// c20KindConflict (input statistics only): at some key, at some depth below keys where the layers hold
// containers, the first two layers that define the key disagree in kind with a container among the two, and
// a later layer holds a container there again.
func c20KindConflict(layers []W) bool {
	keys := map[string]bool{}
	var cs []map[string]any
	for _, l := range layers {
		if c, ok := wireCont(l); ok {
			cs = append(cs, c)
			for k := range c {
				keys[k] = true
			}
		}
	}
	for k := range keys {
		var defs []W
		for _, c := range cs {
			if v, ok := c[k]; ok {
				defs = append(defs, v)
			}
		}
		var sub []W
		for _, v := range defs {
			if _, ok := wireCont(v); ok {
				sub = append(sub, v)
			}
		}
		if len(defs) >= 3 {
			_, c0 := wireCont(defs[0])
			_, c1 := wireCont(defs[1])
			if c0 != c1 {
				for _, v := range defs[2:] {
					if _, ok := wireCont(v); ok {
						return true
					}
				}
			}
		}
		if len(sub) >= 3 && c20KindConflict(sub) {
			return true
		}
	}
	return false
}

func c20LongBucket(n int) string {
	for _, t := range []int{16, 64, 256, 1024, 4096} {
		if n <= t {
			return fmt.Sprintf("<=%d", t)
		}
	}
	return ">4096"
}

func c20Clip(s string) string {
	if len(s) > 1500 {
		return s[:1500] + "…"
	}
	return s
}

func c20FirstDiff(a, b string) string {
	n := len(a)
	if len(b) < n {
		n = len(b)
	}
	i := 0
	for i < n && a[i] == b[i] {
		i++
	}
	lo := i - 80
	if lo < 0 {
		lo = 0
	}
	hiA, hiB := i+60, i+60
	if hiA > len(a) {
		hiA = len(a)
	}
	if hiB > len(b) {
		hiB = len(b)
	}
	return fmt.Sprintf("…%s⟦%s⟧ vs ⟦%s⟧", a[lo:i], a[i:hiA], b[i:hiB])
}

func c20EvalWriter(c *Ctx, p c20Writer) {
	c.Dist("writer:" + p.Op)
	var fn string
	var changed bool
	out, _ := guard(func() {
		cb := wireContainer(p.D1)
		var recv any = cb
		do := func() {}
		switch p.Op {
		case "AddValue":
			fn, do = "dom.(*containerBuilderImpl).AddValue", func() { cb.AddValue(p.P, wireNode(p.V)) }
		case "AddValueAt":
			fn, do = "dom.(*containerBuilderImpl).AddValueAt", func() { cb.AddValueAt(p.P, wireNode(p.V)) }
		case "AddContainer":
			fn, do = "dom.(*containerBuilderImpl).AddContainer", func() { cb.AddContainer(p.P) }
		case "AddList":
			fn, do = "dom.(*containerBuilderImpl).AddList", func() { cb.AddList(p.P) }
		case "Remove":
			fn, do = "dom.(*containerBuilderImpl).Remove", func() { cb.Remove(p.P) }
		case "RemoveAt":
			fn, do = "dom.(*containerBuilderImpl).RemoveAt", func() { cb.RemoveAt(p.P) }
		case "Merge":
			fn, do = "dom.(*containerBuilderImpl).Merge", func() {
				if o, ok := wireNode(p.V).(dom.Container); ok {
					cb.Merge(o)
				}
			}
		case "Seal":
			fn, do = "dom.(*containerBuilderImpl).Seal", func() { cb.Seal() }
		case "Walk":
			fn, do = "dom.(*containerBuilderImpl).Walk", func() { cb.Walk(dom.CompactFn) }
		case "ListAppend", "ListSet", "ListClear":
			n := cb.Lookup(p.P)
			lb, ok := n.(dom.ListBuilder)
			if !ok {
				return
			}
			recv = lb
			switch p.Op {
			case "ListAppend":
				fn, do = "dom.(*listBuilderImpl).Append", func() { lb.Append(wireNode(p.V)) }
			case "ListSet":
				fn, do = "dom.(*listBuilderImpl).Set", func() { lb.Set(uint(p.Idx), wireNode(p.V)) }
			default:
				fn, do = "dom.(*listBuilderImpl).Clear", func() { lb.Clear() }
			}
		case "OverlayPut", "OverlayAdd":
			o := dom.NewOverlayDocument()
			o.Add("l", cb)
			recv = o
			if p.Op == "OverlayPut" {
				fn, do = "dom.(*overlayDocument).Put", func() { o.Put("l", p.P, dom.LeafNode(1)) }
			} else {
				fn, do = "dom.(*overlayDocument).Add", func() { o.Add("m", wireContainer(p.D1)) }
			}
		}
		before := c20lib.Fingerprint(recv)
		do()
		changed = c20lib.Fingerprint(recv) != before
	})
	if out != "ok" || fn == "" || c.searchMode {
		return
	}
	c.Nontrivial()
	if !changed {
		c.Dist("writer:no-change")
		return
	}
	c.Dist("writer:changed")
	// the receiver's object graph changed, so the closed summary of that function must charge the receiver
	m := c.Model("writes", map[string]any{"fn": fn})
	charged := false
	if l, ok := m.([]any); ok {
		for _, x := range l {
			if f, ok := x.(float64); ok && f < 3 {
				charged = true
			}
		}
	}
	c.Corr("summary-charges-observed-write("+fn+")", true, charged)
}

func c20EvalRace(c *Ctx, p c20lib.Case) {
	if len(p.Seqs) == 0 {
		return
	}
	c.Nontrivial()
	c.Dist("race-case:" + p.Origin)
	if p.Repeat < 1 {
		p.Repeat = 1
	}
	if p.Pad > 0 {
		c.Dist("race-case:large-document")
	}
	if p.Long > 0 {
		c.Dist("race-case:long-list(" + c20LongBucket(p.Long) + " items)")
	}
	res := c20RunRace(c, []c20lib.Case{p}, 2*time.Minute)
	if res.err != "" && res.exit != 66 {
		c.Direct("race-program-runs", false, res.err)
		return
	}
	c.Direct("race-detector-silent", res.exit != 66, map[string]any{"report": res.report})
	c.Direct("observations-equal-single-threaded", len(res.mismatch) == 0, res.mismatch)
	// the same sequences single-threaded leave the fingerprint alone (ties the race to a write)
	if !c.probe {
		s := c20lib.Build(p.Origin, c20lib.Enlarged(p.D1, p.Pad, p.Long), p.D2, p.More...)
		var subj any = s.C
		if s.O != nil {
			subj = s.O
		}
		before := c20lib.Fingerprint(subj)
		for _, seq := range p.Seqs {
			for _, call := range seq {
				s.Exec(call)
			}
		}
		after := c20lib.Fingerprint(subj)
		c.Direct("fingerprint-unchanged(all sequences)", before == after, map[string]any{"diff-at": c20FirstDiff(before, after)})
	}
}
