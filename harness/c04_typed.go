package main

import (
	"fmt"
	"math/rand"
)

// C04 — "the same law observed end-to-end through fluent.ConfigHelper (defaults, then file overrides)": the defaults
// in every Go shape a caller hands to Add.
//
// ConfigHelper[T].Add takes `any`: a configuration struct (the very use of the type parameter), a pointer to one, a
// map of structs, a named map type, a map of typed maps or slices, a map[string]any of plain values, a dom.Container.
// Whatever the shape, the value stands for ONE document — the one its YAML encoding decodes to — and the law is about
// that document: where the defaults and an override both have a key, containers merge recursively, so an override
// file that sets one field of an entry leaves the entry's other default fields in place.  config cases with typed
// defaults hand the same entries over in one of these shapes and merge SPARSE overrides (a subset of the entries, a
// subset of the fields of each) over them; expected is the reference fold over the documents, as for every other
// config case, and the result must not depend on the shape.
//
// (A map[string]any whose values are structs is not among the shapes: the DOM decoder keeps such a value as one
// opaque leaf on the unchanged tree as well — its documented treatment of "any other value" —, so the document it
// stands for is not the YAML one.)

type c04Peer struct {
	Name   string `yaml:"name" json:"name"`
	Weight int    `yaml:"weight" json:"weight"`
}

type c04Srv struct {
	Host   string         `yaml:"host" json:"host"`
	Port   int            `yaml:"port" json:"port"`
	TLS    bool           `yaml:"tls" json:"tls"`
	Tags   []string       `yaml:"tags,omitempty" json:"tags,omitempty"`
	Limits map[string]int `yaml:"limits,omitempty" json:"limits,omitempty"`
	Peers  []c04Peer      `yaml:"peers,omitempty" json:"peers,omitempty"`
	Sub    *c04Srv        `yaml:"sub,omitempty" json:"sub,omitempty"`
}

type c04Servers map[string]c04Srv

type c04Values map[string]any

type c04Settings struct {
	Name    string            `yaml:"name"`
	Servers map[string]c04Srv `yaml:"servers"`
	First   c04Srv            `yaml:"first"`
}

type c04TypedDefaults struct {
	Shape   string            `json:"shape"`
	Entries map[string]c04Srv `json:"entries"`
}

var c04Shapes = []string{"map-of-struct", "map-of-struct", "named-map-of-struct", "map-of-ptr", "struct", "ptr-struct", "named-any-map", "map-of-map",
	"map-of-struct-slices", "any-map-of-typed-maps", "any-map"}

// value: the Go value handed to Add and the document it stands for (its YAML encoding, decoded).
func (t *c04TypedDefaults) value() (v any, doc map[string]any, ok bool) {
	if len(t.Entries) == 0 {
		return nil, nil, false
	}
	plainEntries := func() map[string]any {
		rt, err := c04YamlRT(t.Entries)
		if err != nil {
			return nil
		}
		m, _ := rt.(map[string]any)
		return m
	}
	switch t.Shape {
	case "map-of-struct":
		v = t.Entries
	case "named-map-of-struct":
		v = c04Servers(t.Entries)
	case "map-of-ptr":
		m := map[string]*c04Srv{}
		for k, e := range t.Entries {
			e := e
			m[k] = &e
		}
		v = m
	case "struct", "ptr-struct":
		s := c04Settings{Name: "n", Servers: t.Entries}
		for _, k := range sortedKeys(t.Entries) {
			s.First = t.Entries[k]
			break
		}
		if t.Shape == "struct" {
			v = s
		} else {
			v = &s
		}
	case "named-any-map":
		pe := plainEntries()
		if pe == nil {
			return nil, nil, false
		}
		v = c04Values(pe)
	case "any-map":
		pe := plainEntries()
		if pe == nil {
			return nil, nil, false
		}
		v = pe
	case "map-of-map":
		pe := plainEntries()
		m := map[string]map[string]any{}
		for k, e := range pe {
			em, isMap := e.(map[string]any)
			if !isMap {
				return nil, nil, false
			}
			m[k] = em
		}
		v = m
	case "map-of-struct-slices":
		m := map[string][]c04Peer{}
		for k, e := range t.Entries {
			m[k] = append([]c04Peer{{Name: k, Weight: e.Port}}, e.Peers...)
		}
		v = m
	case "any-map-of-typed-maps":
		// typed maps and slices of SCALARS inside a map[string]any: the DOM decoder's own territory
		m := map[string]any{}
		for k, e := range t.Entries {
			lim := map[string]int{"port": e.Port}
			for lk, lv := range e.Limits {
				lim[lk] = lv
			}
			m[k] = map[string]any{"limits": lim, "tags": append([]string{e.Host}, e.Tags...), "tls": e.TLS}
		}
		v = m
	default:
		return nil, nil, false
	}
	rt, err := c04YamlRT(v)
	if err != nil {
		return nil, nil, false
	}
	doc, ok = rt.(map[string]any)
	return v, doc, ok && doc != nil
}

func c04GenSrv(r *rand.Rand, depth int) c04Srv {
	s := c04Srv{Host: pick(r, []string{"", "h", "localhost", "10.0.0.1", "true", "8080"}), Port: pick(r, []int{0, 1, 80, 8080, -1}), TLS: r.Intn(2) == 0}
	if r.Intn(2) == 0 {
		for i, n := 0, 1+r.Intn(3); i < n; i++ {
			s.Tags = append(s.Tags, pick(r, []string{"a", "b", "", "x y"}))
		}
	}
	if r.Intn(2) == 0 {
		s.Limits = map[string]int{}
		for i, n := 0, 1+r.Intn(3); i < n; i++ {
			s.Limits[pick(r, []string{"a", "b", "c", "k1"})] = r.Intn(5)
		}
	}
	if r.Intn(3) == 0 {
		for i, n := 0, 1+r.Intn(3); i < n; i++ {
			s.Peers = append(s.Peers, c04Peer{Name: pick(r, []string{"p", "q", ""}), Weight: r.Intn(4)})
		}
	}
	if depth > 0 && r.Intn(3) == 0 {
		sub := c04GenSrv(r, depth-1)
		s.Sub = &sub
	}
	return s
}

// c04SparseOverride: a document that overrides PART of w — a subset of the members of every container it descends
// into (changed leaves, shorter or longer lists whose container items are again partial), now and then a member w
// does not have, a kind conflict, a null.
func c04SparseOverride(r *rand.Rand, g *DocGen, w W) W {
	switch x := w.(type) {
	case []any:
		n := len(x)
		switch r.Intn(3) {
		case 0:
			n = r.Intn(len(x) + 1)
		case 1:
			n = len(x) + r.Intn(2)
		}
		out := make([]any, 0, n)
		for i := 0; i < n; i++ {
			if i < len(x) && r.Intn(3) > 0 {
				out = append(out, c04SparseOverride(r, g, x[i]))
			} else {
				out = append(out, g.Node(r, 1))
			}
		}
		return out
	case map[string]any:
		cm, ok := x["m"].(map[string]any)
		if !ok {
			// a leaf: another scalar, now and then the same one or null
			switch r.Intn(6) {
			case 0:
				return deepCopyW(w)
			case 1:
				return scalarWire(nil)
			}
			return g.Scalar(r)
		}
		m := map[string]any{}
		for _, k := range sortedKeys(cm) {
			switch r.Intn(8) {
			case 0, 1, 2:
				continue // not overridden
			case 3:
				m[k] = g.Node(r, 1) // whatever: kind conflicts among them
			default:
				m[k] = c04SparseOverride(r, g, cm[k])
			}
		}
		if r.Intn(4) == 0 {
			m[pick(r, g.Keys)] = g.Node(r, 2)
		}
		return map[string]any{"m": m}
	}
	return g.Scalar(r)
}

// c04RunTyped: config cases whose defaults are handed over as typed Go values.
func c04RunTyped(c *Ctx, g *DocGen) {
	r := c.Rng
	for i := 0; i < c.N(240); i++ {
		c.Tick()
		td := &c04TypedDefaults{Shape: c04Shapes[i%len(c04Shapes)], Entries: map[string]c04Srv{}}
		for j, n := 0, 1+r.Intn(3); j < n; j++ {
			td.Entries[pick(r, g.Keys)] = c04GenSrv(r, 1)
		}
		_, doc, ok := td.value()
		if !ok {
			panic(fmt.Sprintf("harness: typed defaults of shape %s have no YAML document", td.Shape))
		}
		def := plainWire(doc)
		n := 1 + r.Intn(2)
		srcs := make([]c04Source, n)
		for j := range srcs {
			srcs[j] = c04Source{Via: pick(r, c04Vias), Doc: c04SparseOverride(r, g, def)}
		}
		c.Do("config", c04Config{Typed: td, Sources: srcs})
	}
}
