package main

import (
	"encoding/json"
	"fmt"
	"math/rand"
	"strconv"
	"strings"

	"github.com/rkosegi/yaml-toolkit/dom"
	"github.com/rkosegi/yaml-toolkit/patch"
	"github.com/rkosegi/yaml-toolkit/pipeline"
	"gopkg.in/yaml.v3"
)

// Heap-level tie, part 2 (C06 "heap-overlay", C09 "heap-patch", C13 "heap-patchop").
//
// The Lean model lean/YtkModel/{HeapOverlay,HeapPatch}.lean describes the overlay document, the JSON
// patch operations and pipeline.PatchOp on an explicit heap of cells.  Here a HISTORY of real calls
// is run on real objects; every node the history starts from (documents, values handed to Put / Add /
// patch add / the op's own value) is encoded as the initial heap by pointer identity (heap_share.go),
// every node the API hands out later (Layers() snapshots, Lookup results, Merged(), Path.Eval targets)
// becomes a REGISTER.  The executed history is sent to the model as a script (YtkDriver/HeapScript.lean)
// and, at the end, the SHARING MAPS of all registers (one numbering of the new objects over all of
// them, so aliasing between registers shows), their abstractions and the per-step outcomes are
// compared.  Direct predicates taken from the property texts are evaluated on the implementation alone.

// The generation rules of the heap-level kinds are added to the properties' evidence texts here (the
// property files keep only a one-line call each).
func init() {
	add := func(id, rule string, assumptions ...string) {
		if p := registry[id]; p != nil {
			p.Rule += " " + rule
			p.Assumptions = append(p.Assumptions, assumptions...)
		}
	}
	add("C06", "heap-overlay: histories of 4-17 steps over 3 layers and plain 1-3 component paths: Put of a leaf / list / list-free container node (the nodes are built up front in 7 ways: decoder, builder API, shared or own nil leaves, DAG), the SAME node handed in again, Add, Populate, Layers() snapshots at random points, Merged, in-place builder writes into a snapshot / into a node handed to Put or Add / into a node handed out by Lookup; always ends with a write into the overlay and two into snapshots; the real object graph is encoded as a heap by pointer identity and the executed history is replayed on the Lean heap model (lean/YtkModel/HeapOverlay.lean): outcomes, abstractions and the sharing maps of all handed-out nodes (layers' members, snapshots, Lookup results, merged views; one numbering of new objects) are compared; non-trivial: >= 2 overlay writes and a snapshot.",
		"heap-overlay: Put of a container value that holds a list is skipped (Flatten names list items k[i]: outside the heap model's plain-name domain; the value-level kind covers it)")
	add("C09", "heap-patch: a generated document (tree-shaped builds) and 6-19 operations from the seq generator, values prebuilt as nodes of their own; after every successful copy both the copy and the source are edited in place (probe writes through the builder API), after add / replace / move the attached node resp. the caller's value node; the executed history is replayed on the Lean heap model (lean/YtkModel/HeapPatch.lean): per-step outcomes, abstractions and sharing maps of the document and of every located node are compared; non-trivial: a step succeeds and one fails.",
		"heap-patch: documents are trees as far as containers and lists go (one object at two places of a document is the caller's aliasing: JSON Patch then edits both places at once and a move can close a cycle)")
	add("C13", "heap-patchop: a document and 2-6 pipeline PatchOps (add / replace / test / copy / move; immediate value decoded from YAML into the op's AnyVal, or valueFrom), each executed 1-3 times — the same op object again, a literal copy sharing the Value, CloneWith, or ONE forEach over 2-3 items with the item in the path — at different or equal locations; placed values are edited in place afterwards; replayed on the Lean heap model (patchOpDoH: Clone of the value source, then patch.Do): outcomes, abstractions, sharing maps. heap-setop: 1-3 SetOps (merge / replace) each executed 2-3 times (same object / literal copy sharing Data / CloneWith) at root, existing containers and new nested paths; replayed on setOpH (payload decoded anew per execution). Non-trivial: at least one re-execution.")
}

const hsMaxDepth = 64

// hsBudget bounds the number of nodes one case may visit while observing: a caller-made DAG or a bug-made
// cycle expands exponentially under a tree walk.  Exhausting it abandons the case (hsTooBig).
var hsBudget int

const hsTooBig = "heap-share: observation budget exhausted"

func hsSpend() {
	hsBudget--
	if hsBudget < 0 {
		panic(hsTooBig)
	}
}

// hsOnPath is the set of container / list objects on the current walk from the root: meeting one of them
// again is a cycle (a node stored below itself).
type hsOnPath map[uintptr]bool

// hsWire is nodeWire with cycle detection; ok=false when the document is not finite (cyclic).
func hsWire(n dom.Node, depth int, ok *bool) W { return hsWireP(n, depth, ok, hsOnPath{}) }

func hsWireP(n dom.Node, depth int, ok *bool, on hsOnPath) W {
	if n == nil {
		return nil
	}
	hsSpend()
	if n.IsLeaf() {
		return scalarWire(n.(dom.Leaf).Value())
	}
	id := nodeID(n)
	if on[id] || depth > hsMaxDepth {
		*ok = false
		return "<<cyclic: this node is stored below itself>>"
	}
	on[id] = true
	defer delete(on, id)
	if n.IsContainer() {
		m := map[string]any{}
		for k, e := range n.(dom.Container).Children() {
			m[k] = hsWireP(e, depth+1, ok, on)
		}
		return map[string]any{"m": m}
	}
	items := n.(dom.List).Items()
	l := make([]any, len(items))
	for i, e := range items {
		l[i] = hsWireP(e, depth+1, ok, on)
	}
	return l
}

// hsTree is sharer.tree with cycle detection.
func hsTree(s *sharer, n dom.Node, depth int, ok *bool) any { return hsTreeP(s, n, depth, ok, hsOnPath{}) }

func hsTreeP(s *sharer, n dom.Node, depth int, ok *bool, on hsOnPath) any {
	hsSpend()
	out := map[string]any{"id": s.label(n)}
	if n.IsLeaf() {
		return out
	}
	id := nodeID(n)
	if on[id] || depth > hsMaxDepth {
		*ok = false
		return "fuel"
	}
	on[id] = true
	defer delete(on, id)
	if n.IsContainer() {
		ch := n.(dom.Container).Children()
		m := map[string]any{}
		for _, k := range sortedKeys(ch) {
			m[k] = hsTreeP(s, ch[k], depth+1, ok, on)
		}
		out["m"] = m
		return out
	}
	items := n.(dom.List).Items()
	l := make([]any, len(items))
	for i, it := range items {
		l[i] = hsTreeP(s, it, depth+1, ok, on)
	}
	out["i"] = l
	return out
}

const hsFinite = "documents-finite(no node stored below itself)"

// hsMut is a mutable node (container / list object) below a register, with the way to it.
type hsMut struct {
	n   dom.Node
	nav []string
}

func hsMutables(n dom.Node, nav []string, seen map[uintptr]bool, depth int, out *[]hsMut) {
	if n == nil || n.IsLeaf() || depth > hsMaxDepth {
		return
	}
	id := nodeID(n)
	if seen[id] {
		return
	}
	seen[id] = true
	*out = append(*out, hsMut{n, append([]string{}, nav...)})
	if n.IsContainer() {
		ch := n.(dom.Container).Children()
		for _, k := range sortedKeys(ch) {
			hsMutables(ch[k], append(nav, k), seen, depth+1, out)
		}
		return
	}
	for i, it := range n.(dom.List).Items() {
		hsMutables(it, append(nav, strconv.Itoa(i)), seen, depth+1, out)
	}
}

// hsWorld runs a script on real objects and records it for the model.
type hsWorld struct {
	c     *Ctx
	enc   *heapEnc
	init  []int      // addresses of the initial registers
	regs  []dom.Node // nil = the API handed out nil
	steps []any
	outs  []any
	obs   []any
	ov    dom.OverlayDocument
	fin   bool // every observed document was finite
}

func newHsWorld(c *Ctx) *hsWorld {
	hsBudget = 400000
	return &hsWorld{c: c, enc: newHeapEnc(), ov: dom.NewOverlayDocument(), fin: true}
}

// addInit registers a node the history starts from.
func (w *hsWorld) addInit(n dom.Node) int {
	a := w.enc.add(n)
	w.init = append(w.init, a)
	w.regs = append(w.regs, n)
	w.emit(map[string]any{"s": "reg", "a": a})
	return len(w.regs) - 1
}

func (w *hsWorld) push(n dom.Node) int {
	w.regs = append(w.regs, n)
	return len(w.regs) - 1
}

func (w *hsWorld) emit(step map[string]any) { w.steps = append(w.steps, step) }

func (w *hsWorld) wire(n dom.Node) W { return hsWire(n, 0, &w.fin) }

// probe applies the in-place probe writes for one mutable node below register r (chosen by salt);
// false when there is none.
func (w *hsWorld) probe(r int, salt int) bool {
	if r < 0 || r >= len(w.regs) || w.regs[r] == nil {
		return false
	}
	var muts []hsMut
	hsMutables(w.regs[r], nil, map[uintptr]bool{}, 0, &muts)
	if len(muts) == 0 {
		return false
	}
	m := muts[salt%len(muts)]
	done := false
	for _, pw := range heapProbeWrites(m.n, salt/7) {
		if heapApplyWrite(m.n, pw) {
			w.emit(map[string]any{"s": "w", "r": r, "p": m.nav, "op": pw.Op, "name": pw.Name, "idx": pw.Idx})
			done = true
		}
	}
	return done
}

func (w *hsWorld) observe() {
	a := make([]any, len(w.regs))
	for i, n := range w.regs {
		a[i] = w.wire(n)
	}
	w.obs = append(w.obs, a)
	w.emit(map[string]any{"s": "obs"})
}

// finish compares everything with the model.
func (w *hsWorld) finish(op string) {
	c := w.c
	abs := make([]any, len(w.regs))
	share := make([]any, len(w.regs))
	sh := newSharer(w.enc)
	for i, n := range w.regs {
		if n == nil {
			continue
		}
		abs[i] = w.wire(n)
		share[i] = hsTree(sh, n, 0, &w.fin)
	}
	if !c.Direct(hsFinite, w.fin, nil) {
		return
	}
	args := map[string]any{"heap": w.enc.cells, "regs": []int{}, "steps": orEmpty(w.steps)}
	model := c.Model("heapScript", args)
	mm, _ := model.(map[string]any)
	part := func(impl map[string]any) (any, any) {
		if mm == nil || mm["model_error"] != nil {
			return impl, model
		}
		b := map[string]any{}
		for k := range impl {
			b[k] = mm[k]
		}
		return impl, b
	}
	ok := true
	a, b := part(map[string]any{"outs": orEmpty(w.outs), "layers": orEmpty(strsAny(w.ov.LayerNames()))})
	ok = c.Corr(op+".outcomes", a, b) && ok
	a, b = part(map[string]any{"abs": abs, "obs": orEmpty(w.obs)})
	ok = c.Corr(op+".abs", a, b) && ok
	a, b = part(map[string]any{"share": share})
	ok = c.Corr(op+".share", a, b) && ok
	if ok {
		c.Dist(op + ":model-agrees")
	} else {
		c.Dist(op + ":model-differs")
	}
}

func hsAbandoned(c *Ctx, out, txt string) bool {
	if out == "panic" && strings.Contains(txt, hsTooBig) {
		c.Dist("heap-share:abandoned(too big)")
		return true
	}
	return false
}

func hsFinish(c *Ctx, w *hsWorld, op string) {
	out, txt := guard(func() { w.finish(op) })
	if hsAbandoned(c, out, txt) {
		return
	}
	if out != "ok" {
		panic(txt)
	}
}

func orEmpty(xs []any) []any {
	if xs == nil {
		return []any{}
	}
	return xs
}

func strsAny(xs []string) []any {
	out := make([]any, len(xs))
	for i, x := range xs {
		out[i] = x
	}
	return out
}

// hsInit is a node the history starts from: wire form + how it is built (heapBuildModes).
type hsInit struct {
	W     W   `json:"w"`
	Build int `json:"build"`
}

func hsBuild(in hsInit, memo map[string]dom.Node) (dom.Node, bool) {
	if in.W == nil || in.Build < 0 || in.Build >= heapBuildModes {
		return nil, false
	}
	var n dom.Node
	out, _ := guard(func() { n = heapBuild(in.W, in.Build, memo) })
	return n, out == "ok" && n != nil
}

func wireListFree(w W) bool {
	switch x := w.(type) {
	case []any:
		return false
	case map[string]any:
		if c, ok := x["m"].(map[string]any); ok {
			for _, v := range c {
				if !wireListFree(v) {
					return false
				}
			}
		}
	}
	return true
}

var hsKeyRe = c09SafeTokRe

func hsPlainKeys(w W) bool {
	switch x := w.(type) {
	case []any:
		for _, e := range x {
			if !hsPlainKeys(e) {
				return false
			}
		}
	case map[string]any:
		if c, ok := x["m"].(map[string]any); ok {
			for k, v := range c {
				if !hsKeyRe.MatchString(k) || !hsPlainKeys(v) {
					return false
				}
			}
		}
	}
	return true
}

func hsPlainPath(p []string) bool {
	for _, t := range p {
		if !hsKeyRe.MatchString(t) {
			return false
		}
	}
	return true
}

// ------------------------------------------------------------------ C06: heap-overlay

type hoOp struct {
	Op   string   `json:"op"` // put | add | populate | snap | merged | wsnap | wval | wlook
	L    string   `json:"l,omitempty"`
	P    []string `json:"p,omitempty"`
	V    int      `json:"v,omitempty"` // index into Vals
	D    W        `json:"d,omitempty"` // populate data (container wire)
	Opt  string   `json:"opt,omitempty"`
	Salt int      `json:"salt,omitempty"`
}

type heapOverlayCase struct {
	Vals []hsInit `json:"vals"`
	Ops  []hoOp   `json:"ops"`
}

var hoLayers = []string{"base", "env", "local"}
var hoKeys = []string{"a", "b", "k1", "z_9"}

func heapOverlayGen(c *Ctx, n int) {
	r := c.Rng
	g := stdGen()
	g.Keys = hoKeys
	g.MaxDepth = 3
	g.MaxWidth = 3
	g.ListMax = 3
	g.PNull = 0.15
	gc := *g
	gc.PList = 0 // list-free containers (Put of a container value)
	path := func() []string {
		k := 1 + r.Intn(3)
		p := make([]string, k)
		for i := range p {
			p[i] = pick(r, hoKeys)
		}
		return p
	}
	for i := 0; i < n; i++ {
		c.Tick()
		var hc heapOverlayCase
		build := r.Intn(heapBuildModes)
		val := func(w W) int {
			b := build
			if r.Intn(3) == 0 {
				b = r.Intn(heapBuildModes)
			}
			hc.Vals = append(hc.Vals, hsInit{W: w, Build: b})
			return len(hc.Vals) - 1
		}
		steps := 4 + r.Intn(14)
		snaps := 0
		for j := 0; j < steps; j++ {
			l := pick(r, hoLayers)
			switch k := r.Intn(100); {
			case k < 4 && len(hc.Vals) > 0:
				// the SAME node handed to the overlay again (another path / layer)
				v := r.Intn(len(hc.Vals))
				if _, isC := wireCont(hc.Vals[v].W); isC && r.Intn(2) == 0 {
					hc.Ops = append(hc.Ops, hoOp{Op: "add", L: l, V: v})
				} else {
					hc.Ops = append(hc.Ops, hoOp{Op: "put", L: l, P: path(), V: v})
				}
			case k < 14:
				hc.Ops = append(hc.Ops, hoOp{Op: "put", L: l, P: path(), V: val(g.Scalar(r))})
			case k < 24:
				hc.Ops = append(hc.Ops, hoOp{Op: "put", L: l, P: path(), V: val(g.List(r, 1))})
			case k < 40:
				p := path()
				if r.Intn(4) == 0 {
					p = nil
				}
				hc.Ops = append(hc.Ops, hoOp{Op: "put", L: l, P: p, V: val(gc.Cont(r, 1))})
			case k < 50:
				hc.Ops = append(hc.Ops, hoOp{Op: "add", L: l, V: val(g.Cont(r, 1))})
			case k < 60:
				p := path()
				if r.Intn(3) == 0 {
					p = nil
				}
				hc.Ops = append(hc.Ops, hoOp{Op: "populate", L: l, P: p, D: g.Cont(r, 1)})
			case k < 74:
				hc.Ops = append(hc.Ops, hoOp{Op: "snap"})
				snaps++
			case k < 78:
				hc.Ops = append(hc.Ops, hoOp{Op: "merged", Opt: pick(r, []string{"meld", "append"})})
			case k < 86:
				hc.Ops = append(hc.Ops, hoOp{Op: "wsnap", Salt: r.Intn(1 << 16)})
			case k < 93:
				if len(hc.Vals) > 0 {
					hc.Ops = append(hc.Ops, hoOp{Op: "wval", V: r.Intn(len(hc.Vals)), Salt: r.Intn(1 << 16)})
				}
			default:
				pp := path()
				hc.Ops = append(hc.Ops, hoOp{Op: "wlook", L: l, P: pp[:1+r.Intn(len(pp))], Salt: r.Intn(1 << 16)})
			}
		}
		if snaps == 0 {
			k := r.Intn(len(hc.Ops) + 1)
			hc.Ops = append(hc.Ops[:k], append([]hoOp{{Op: "snap"}}, hc.Ops[k:]...)...)
		}
		// always end with writes after the last snapshot, into the overlay and into the snapshots
		hc.Ops = append(hc.Ops, hoOp{Op: "put", L: pick(r, hoLayers), P: path(), V: val(g.Scalar(r))},
			hoOp{Op: "wsnap", Salt: r.Intn(1 << 16)}, hoOp{Op: "wsnap", Salt: r.Intn(1 << 16)})
		c.Do("heap-overlay", hc)
	}
}

// hoDescendSafe: no proper prefix of comps (all prefixes when full) resolves, in layer l, to something
// that is not a container — ensurePath would panic there (outside the property's domain).
func hoDescendSafe(ov dom.OverlayDocument, l string, comps []string, full bool) bool {
	n := len(comps) - 1
	if full {
		n = len(comps)
	}
	for i := 1; i <= n; i++ {
		if x := ov.Lookup(l, strings.Join(comps[:i], ".")); x != nil && !x.IsContainer() {
			return false
		}
	}
	return true
}

func wireLeafPaths(w W, prefix []string, out *[][]string) {
	if c, ok := wireCont(w); ok {
		for _, k := range sortedKeys(c) {
			wireLeafPaths(c[k], append(append([]string{}, prefix...), k), out)
		}
		return
	}
	*out = append(*out, prefix)
}

// hoLeafPaths lists the member paths of the leaves of a container node; false when a list or a
// non-plain key occurs inside.
func hoLeafPaths(n dom.Node, prefix []string, depth int, out *[][]string) bool {
	if depth > hsMaxDepth || n.IsList() {
		return false
	}
	if !n.IsContainer() {
		*out = append(*out, prefix)
		return true
	}
	ch := n.(dom.Container).Children()
	for _, k := range sortedKeys(ch) {
		if !hsKeyRe.MatchString(k) || !hoLeafPaths(ch[k], append(append([]string{}, prefix...), k), depth+1, out) {
			return false
		}
	}
	return true
}

type hoSnap struct {
	reg    int
	layer  string
	expect string // canonical wire: as taken, updated by writes into the snapshot itself
	gen    int
}

func heapOverlayEval(c *Ctx, raw []byte) {
	var p heapOverlayCase
	if err := json.Unmarshal(raw, &p); err != nil {
		panic(err)
	}
	var w *hsWorld
	out, txt := guard(func() {
		w = newHsWorld(c)
		valReg := make([]int, len(p.Vals))
		for i, v := range p.Vals {
			valReg[i] = -1
			if !hsPlainKeys(v.W) {
				continue
			}
			// a memo per value: values share objects only where the history hands the SAME value twice
			if n, ok := hsBuild(v, map[string]dom.Node{}); ok {
				valReg[i] = w.addInit(n)
			}
		}
		var snaps []hoSnap
		gen := 0
		writes, snapWrites := 0, 0
		layerWire := func() string {
			ls := w.ov.Layers()
			m := map[string]any{}
			for k, v := range ls {
				m[k] = w.wire(v)
			}
			return canon(m)
		}
		checkSnaps := func(what string) {
			for _, s := range snaps {
				now := canon(w.wire(w.regs[s.reg]))
				c.Direct("snapshot-unaffected-by-later-writes("+what+")", now == s.expect,
					map[string]any{"layer": s.layer, "snapshot taken": json.RawMessage(s.expect), "snapshot now": json.RawMessage(now)})
			}
		}
		refresh := func() {
			for i := range snaps {
				snaps[i].expect = canon(w.wire(w.regs[snaps[i].reg]))
			}
		}
		for _, op := range p.Ops {
			switch op.Op {
			case "put":
				if op.V < 0 || op.V >= len(valReg) || valReg[op.V] < 0 || !hsPlainPath(op.P) || op.L == "" {
					continue
				}
				vw := p.Vals[op.V].W
				vn := w.regs[valReg[op.V]]
				if vn.IsContainer() {
					// the node as it is NOW (probe writes may have changed it since it was built)
					var lps [][]string
					if !hoLeafPaths(vn, nil, 0, &lps) {
						continue // a list inside (Flatten names list items k[i]) or a non-plain key: outside the heap model's domain
					}
					safe := true
					for _, lp := range lps {
						full := append(append([]string{}, op.P...), lp...)
						safe = safe && hoDescendSafe(w.ov, op.L, full, false)
					}
					if !safe {
						continue
					}
				} else if len(op.P) == 0 || !hoDescendSafe(w.ov, op.L, op.P, false) {
					continue
				}
				w.ov.Put(op.L, strings.Join(op.P, "."), w.regs[valReg[op.V]])
				w.emit(map[string]any{"s": "put", "l": op.L, "p": orEmpty(strsAny(op.P)), "v": valReg[op.V]})
				w.outs = append(w.outs, "ok")
				writes++
				c.Dist("heap-overlay:put-" + wireKind(vw))
				checkSnaps("Put")
			case "add":
				if op.V < 0 || op.V >= len(valReg) || valReg[op.V] < 0 || op.L == "" {
					continue
				}
				cv, isC := w.regs[valReg[op.V]].(dom.Container)
				if !isC {
					continue
				}
				w.ov.Add(op.L, cv)
				w.emit(map[string]any{"s": "add", "l": op.L, "v": valReg[op.V]})
				w.outs = append(w.outs, "ok")
				writes++
				c.Dist("heap-overlay:add")
				checkSnaps("Add")
			case "populate":
				dm, isC := wireCont(op.D)
				if !isC || !hsPlainKeys(op.D) || !hsPlainPath(op.P) || op.L == "" || !hoDescendSafe(w.ov, op.L, op.P, true) {
					continue
				}
				_ = dm
				data := wirePlain(op.D).(map[string]any)
				w.ov.Populate(op.L, strings.Join(op.P, "."), &data)
				w.emit(map[string]any{"s": "populate", "l": op.L, "p": orEmpty(strsAny(op.P)), "d": op.D})
				w.outs = append(w.outs, "ok")
				writes++
				c.Dist("heap-overlay:populate")
				checkSnaps("Populate")
			case "snap":
				before := layerWire()
				ls := w.ov.Layers()
				names := w.ov.LayerNames()
				gen++
				for _, n := range names {
					r := w.push(ls[n])
					snaps = append(snaps, hoSnap{reg: r, layer: n, expect: canon(w.wire(ls[n])), gen: gen})
				}
				w.emit(map[string]any{"s": "layers"})
				w.outs = append(w.outs, strsAny(names))
				c.Direct("Layers()-leaves-the-overlay-unchanged", layerWire() == before, nil)
				// "deep copies": the snapshot has no container / list object (and no children map)
				// in common with anything that existed before
				sh := newSharer(w.enc)
				for _, n := range names {
					var muts []hsMut
					hsMutables(ls[n], nil, map[uintptr]bool{}, 0, &muts)
					for _, m := range muts {
						lbl := sh.label(m.n)
						c.Direct("snapshot-is-a-deep-copy(no mutable object shared with the history's nodes)",
							strings.HasPrefix(lbl, "new:") && !strings.Contains(lbl, "+"),
							map[string]any{"layer": n, "at": m.nav, "is": lbl})
					}
				}
				c.Dist("heap-overlay:snap")
			case "merged":
				before := layerWire()
				var m dom.Node
				m = w.ov.Merged(c04Opts(op.Opt)...)
				w.push(m)
				w.emit(map[string]any{"s": "merged", "opt": op.Opt})
				// "a per-layer lookup sees only that layer's writes": reading the merged view is not a write
				c.Direct("layers-unchanged-by-reading-the-merged-view", layerWire() == before,
					map[string]any{"layers before": json.RawMessage(before), "layers after": json.RawMessage(layerWire())})
				checkSnaps("Merged")
			case "wsnap":
				if len(snaps) == 0 {
					continue
				}
				s := snaps[op.Salt%len(snaps)]
				before := layerWire()
				if w.probe(s.reg, op.Salt/3) {
					snapWrites++
					c.Direct("overlay-unaffected-by-writes-into-a-snapshot", layerWire() == before,
						map[string]any{"layers before": json.RawMessage(before), "layers after": json.RawMessage(layerWire())})
					// the other snapshots are copies of their own, too
					for i := range snaps {
						if snaps[i].reg == s.reg {
							snaps[i].expect = canon(w.wire(w.regs[s.reg]))
						}
					}
					checkSnaps("write into another snapshot")
				}
			case "wval":
				if op.V < 0 || op.V >= len(valReg) || valReg[op.V] < 0 {
					continue
				}
				if w.probe(valReg[op.V], op.Salt) {
					c.Dist("heap-overlay:write-into-value-node")
					checkSnaps("write into a node handed to Put/Add")
				}
			case "wlook":
				if !hsPlainPath(op.P) || len(op.P) == 0 {
					continue
				}
				n := w.ov.Lookup(op.L, strings.Join(op.P, "."))
				r := w.push(n)
				w.emit(map[string]any{"s": "lookup", "l": op.L, "p": strsAny(op.P)})
				if n != nil && w.probe(r, op.Salt) {
					c.Dist("heap-overlay:write-into-lookup-result")
					checkSnaps("write into a node handed out by Lookup")
				}
			}
			_ = refresh
		}
		// final observation: every layer's stored members (Lookup hands out the stored node itself)
		final := w.ov.Layers()
		for _, l := range w.ov.LayerNames() {
			for _, k := range sortedKeys(final[l].Children()) {
				if !hsKeyRe.MatchString(k) {
					continue
				}
				w.push(w.ov.Lookup(l, k))
				w.emit(map[string]any{"s": "lookup", "l": l, "p": []any{k}})
			}
		}
		w.observe()
		if writes >= 2 && len(snaps) > 0 {
			c.Nontrivial()
		}
		c.Dist(fmt.Sprintf("heap-overlay:writes=%d", bucket(writes)))
		c.Dist(fmt.Sprintf("heap-overlay:snapshot-writes=%d", bucket(snapWrites)))
	})
	if hsAbandoned(c, out, txt) || !c.Direct("no-panic", out == "ok", txt) {
		return
	}
	hsFinish(c, w, "heapOverlay")
}

// ------------------------------------------------------------------ C09: heap-patch

type heapPatchCase struct {
	Doc   W       `json:"doc"`
	Build int     `json:"build"`
	Ops   []c09Op `json:"ops"`
	Salt  int     `json:"salt"`
}

func heapPatchGen(c *Ctx, n int) {
	r := c.Rng
	g := c09Gen()
	for i := 0; i < n; i++ {
		c.Tick()
		s := c09GenSeq(r, g, 6+r.Intn(14), false)
		c.Do("heap-patch", heapPatchCase{Doc: s.Doc, Build: hsTreeBuild(r), Ops: s.Ops, Salt: r.Intn(1 << 16)})
	}
}

// hsTreeBuild: a build mode whose documents are trees as far as containers and lists go (mode 5 "dag"
// makes one object of equal subtrees: JSON Patch on such a document edits several locations at once and a
// move can close a cycle — the caller's aliasing, outside C09 / C13).
func hsTreeBuild(r *rand.Rand) int {
	for {
		if m := r.Intn(heapBuildModes); m != 5 {
			return m
		}
	}
}

func hsToks(p []string) any {
	if p == nil {
		return nil
	}
	return strsAny(p)
}

func hsHasPrefix(p, prefix []string) bool {
	if len(prefix) > len(p) {
		return false
	}
	for i := range prefix {
		if p[i] != prefix[i] {
			return false
		}
	}
	return true
}

func hsEval(root dom.ContainerBuilder, toks []string) dom.Node {
	var n dom.Node
	guard(func() {
		p, err := patch.ParsePath(c09Pointer(toks))
		if err == nil {
			_, n = p.Eval(root)
		}
	})
	return n
}

func heapPatchEval(c *Ctx, raw []byte) {
	var p heapPatchCase
	if err := json.Unmarshal(raw, &p); err != nil {
		panic(err)
	}
	if _, ok := wireCont(p.Doc); !ok || !hsPlainKeys(p.Doc) || p.Build < 0 || p.Build >= heapBuildModes || p.Build == 5 {
		return
	}
	var w *hsWorld
	out, txt := guard(func() {
		w = newHsWorld(c)
		memo := map[string]dom.Node{}
		dn, ok := hsBuild(hsInit{W: p.Doc, Build: p.Build}, memo)
		if !ok {
			w = nil
			return
		}
		root, isB := dn.(dom.ContainerBuilder)
		if !isB {
			w = nil
			return
		}
		w.addInit(root)
		okN, errN, probes := 0, 0, 0
		for i, o := range p.Ops {
			if !c09OpInScope(o) || (o.Path != nil && !hsPlainPath(o.Path)) || (o.From != nil && !hsPlainPath(o.From)) || o.ValueFrom != nil {
				continue
			}
			if o.Value != nil && !hsPlainKeys(o.Value) {
				continue
			}
			obj := &patch.OpObj{Op: patch.Op(o.Op)}
			step := map[string]any{"s": "patch", "r": 0, "op": o.Op, "path": hsToks(o.Path), "from": hsToks(o.From)}
			if o.Path != nil {
				obj.Path = patch.MustParsePath(c09Pointer(o.Path))
			}
			if o.From != nil {
				f := patch.MustParsePath(c09Pointer(o.From))
				obj.From = &f
			}
			vreg := -1
			if o.Value != nil {
				// a memo of its own: a value never shares an object with the document (the caller's
				// responsibility — add stores the value node itself)
				vb := (p.Build + i) % heapBuildModes
				if vb == 5 {
					vb = 1
				}
				vn, ok := hsBuild(hsInit{W: o.Value, Build: vb}, map[string]dom.Node{})
				if !ok {
					continue
				}
				// the value nodes are part of the INITIAL heap: they exist before the history runs
				// (registered lazily, which is the same since nothing refers to them earlier)
				vreg = w.addInitLate(vn)
				obj.Value = vn
				step["v"] = vreg
			}
			before := canon(w.wire(root))
			snapBefore := heapSnapshot([]dom.Node{root})
			var src dom.Node
			srcBefore := ""
			if o.Op == "copy" && o.From != nil {
				src = hsEval(root, o.From)
				if src != nil {
					srcBefore = canon(w.wire(src))
				}
			}
			var err error
			tag, ptxt := guard(func() { err = patch.Do(obj, root) })
			if tag == "ok" && err != nil {
				tag = "err"
			}
			w.emit(step)
			w.outs = append(w.outs, tag)
			c.Dist("heap-patch:" + c09OpName(o.Op) + "=" + tag)
			if !c.Direct("no-panic", tag != "panic", ptxt) {
				return
			}
			if tag == "err" {
				errN++
				after := canon(w.wire(root))
				c.Direct("document-exactly-as-before-after-failing-step", after == before,
					map[string]any{"op": o, "before": json.RawMessage(before), "after": json.RawMessage(after)})
				// … object for object, too (the property says "exactly as it was")
				c.Direct("document-exactly-as-before-after-failing-step(pointer level)", heapSnapshot([]dom.Node{root}) == snapBefore,
					map[string]any{"op": o})
				continue
			}
			okN++
			w.wire(root)
			if !c.Direct(hsFinite, w.fin, map[string]any{"after": o}) {
				return
			}
			switch o.Op {
			case "copy":
				tgt := hsEval(root, o.Path)
				if tgt == nil || src == nil {
					continue
				}
				rt := w.push(tgt)
				w.emit(map[string]any{"s": "eval", "r": 0, "p": strsAny(o.Path)})
				// where the source is now (an insertion below the same list may have shifted it)
				src2 := hsEval(root, o.From)
				rs := w.push(src2)
				w.emit(map[string]any{"s": "eval", "r": 0, "p": strsAny(o.From)})
				inside := hsHasPrefix(o.Path, o.From) // the copy was placed inside the source itself
				if !inside && src2 == src {
					// "a later edit inside a copied subtree never shows through at the source"
					if w.probe(rt, p.Salt+i) {
						probes++
						now := canon(w.wire(src))
						c.Direct("edit-inside-copied-subtree-never-shows-at-source", now == srcBefore,
							map[string]any{"op": o, "source before": json.RawMessage(srcBefore), "source after": json.RawMessage(now)})
					}
					// "copy producing an independent value": the other direction
					cp := canon(w.wire(tgt))
					if !hsHasPrefix(o.From, o.Path) && w.probe(rs, p.Salt+i+1) {
						probes++
						now := canon(w.wire(tgt))
						c.Direct("copy-is-independent-value(source edited afterwards)", now == cp,
							map[string]any{"op": o, "copy before": json.RawMessage(cp), "copy after": json.RawMessage(now)})
					}
				}
			case "move", "add", "replace":
				tgt := hsEval(root, o.Path)
				if tgt == nil {
					continue
				}
				rt := w.push(tgt)
				w.emit(map[string]any{"s": "eval", "r": 0, "p": strsAny(o.Path)})
				if (p.Salt+i)%2 == 0 && w.probe(rt, p.Salt+i) {
					probes++
				}
				if vreg >= 0 && (p.Salt+i)%3 == 0 && w.probe(vreg, p.Salt+i) {
					probes++ // the caller's node is the stored node (documented): the model says what shows where
				}
			}
		}
		w.observe()
		if okN > 0 && errN > 0 {
			c.Nontrivial()
		}
		c.Dist(fmt.Sprintf("heap-patch:probes=%d", bucket(probes)))
		c.Dist("heap-patch:build=" + heapBuildNames[p.Build])
	})
	if w == nil {
		return
	}
	if hsAbandoned(c, out, txt) || !c.Direct("no-panic", out == "ok", txt) {
		return
	}
	hsFinish(c, w, "heapPatch")
}

// addInitLate registers a node of the initial heap after steps have run: sound because the node
// is new to the history (nothing executed so far can refer to it) — unless it shares objects with
// nodes already encoded, which the encoder resolves by identity.
func (w *hsWorld) addInitLate(n dom.Node) int { return w.addInit(n) }

// ------------------------------------------------------------------ C13: heap-patchop

type hpRun struct {
	Path []string `json:"path"`          // location of this execution
	Via  string   `json:"via,omitempty"` // "" same op object again | "literal" new PatchOp sharing Value | "clone" CloneWith
}

type hpOp struct {
	Op        string   `json:"op"`
	From      []string `json:"from,omitempty"`
	Value     W        `json:"value,omitempty"`
	ValueFrom []string `json:"valueFrom,omitempty"`
	Runs      []hpRun  `json:"runs"`
	Each      []string `json:"each,omitempty"` // non-empty: ONE forEach over these items, path = Runs[0].Path + item
}

type heapPatchOpCase struct {
	Doc   W      `json:"doc"`
	Build int    `json:"build"`
	Ops   []hpOp `json:"ops"`
	Salt  int    `json:"salt"`
}

func hsAnyVal(v W) (*pipeline.AnyVal, error) {
	b, err := yaml.Marshal(wirePlain(v))
	if err != nil {
		return nil, err
	}
	var av pipeline.AnyVal
	if err := yaml.Unmarshal(b, &av); err != nil {
		return nil, err
	}
	return &av, nil
}

func heapPatchOpGen(c *Ctx, n int) {
	r := c.Rng
	g := c09Gen()
	g.Types = []string{"string"}
	g.PNull = 0
	g.Strings = []string{"s", "t", "1", "true", "a b", "x.y"}
	for i := 0; i < n; i++ {
		c.Tick()
		doc := g.Doc(r)
		cur := deepCopyW(doc)
		var ops []hpOp
		for j := 0; j < 2+r.Intn(5); j++ {
			var locs []c09Loc
			c09Locs(cur, nil, &locs)
			var conts, all [][]string
			for _, l := range locs {
				all = append(all, l.p)
				if l.kind == "cont" || l.kind == "list" {
					conts = append(conts, l.p)
				}
			}
			target := func() []string {
				// a new or existing member of an existing container / a position of an existing list
				var base []string
				if len(conts) > 0 && r.Intn(4) > 0 {
					base = c09Clone(pick(r, conts))
				}
				if v, ok := c09RefGet(cur, base); ok {
					if l, isL := v.([]any); isL {
						return append(base, strconv.Itoa(r.Intn(len(l)+1)))
					}
				}
				return append(base, pick(r, append([]string{"n1", "n2", "n3"}, g.Keys[:4]...)))
			}
			o := hpOp{Op: pick(r, []string{"add", "add", "add", "replace", "test", "copy", "move"})}
			switch o.Op {
			case "copy", "move":
				if len(all) == 0 {
					continue
				}
				o.From = pick(r, all)
			default:
				if r.Intn(3) == 0 && len(all) > 0 {
					vf := pick(r, all)
					if hsPlainPath(vf) {
						o.ValueFrom = vf
					}
				}
				if o.ValueFrom == nil {
					o.Value = g.Node(r, 1+r.Intn(2))
				}
			}
			nRuns := 2 + r.Intn(2)
			if o.Op == "move" || o.Op == "test" {
				nRuns = 1
			}
			if o.Op == "add" && r.Intn(4) == 0 && len(conts) > 0 {
				// forEach: the body is cloned per item, every clone shares the op's value
				base := c09Clone(pick(r, conts))
				if v, ok := c09RefGet(cur, base); ok {
					if _, isC := wireCont(v); isC {
						o.Runs = []hpRun{{Path: base}}
						o.Each = []string{"e1", "e2", "e3"}[:2+r.Intn(2)]
					}
				}
			}
			if o.Each == nil {
				for k := 0; k < nRuns; k++ {
					run := hpRun{Path: target(), Via: pick(r, []string{"", "", "literal", "clone"})}
					if k > 0 && r.Intn(3) == 0 {
						run.Path = c09Clone(o.Runs[0].Path) // the same location again
					}
					o.Runs = append(o.Runs, run)
				}
			}
			ops = append(ops, o)
			// evolve the reference document
			for _, run := range o.Runs {
				paths := [][]string{run.Path}
				if o.Each != nil {
					paths = nil
					for _, it := range o.Each {
						paths = append(paths, append(c09Clone(run.Path), it))
					}
				}
				for _, pth := range paths {
					ro := c09Op{Op: o.Op, Path: pth, From: o.From, Value: o.Value, ValueFrom: o.ValueFrom}
					if nd, err := c09RefApply(cur, c09Resolve(cur, ro)); err == nil {
						cur = nd
					}
				}
			}
		}
		c.Do("heap-patchop", heapPatchOpCase{Doc: doc, Build: hsTreeBuild(r), Ops: ops, Salt: r.Intn(1 << 16)})
	}
}

// hsDottedPlain: the valueFrom location as a dotted path — only through containers (plain names).
func hsDottedPlain(root dom.Container, toks []string) (string, bool) {
	return strings.Join(toks, "."), true
}

func heapPatchOpEval(c *Ctx, raw []byte) {
	var p heapPatchOpCase
	if err := json.Unmarshal(raw, &p); err != nil {
		panic(err)
	}
	if _, ok := wireCont(p.Doc); !ok || !hsPlainKeys(p.Doc) || p.Build < 0 || p.Build >= heapBuildModes || p.Build == 5 {
		return
	}
	if dc, _ := wireCont(p.Doc); dc != nil {
		if _, in := dc[c13ItemVar]; in {
			return
		}
	}
	var w *hsWorld
	out, txt := guard(func() {
		w = newHsWorld(c)
		dn, ok := hsBuild(hsInit{W: p.Doc, Build: p.Build}, map[string]dom.Node{})
		root, isB := dn.(dom.ContainerBuilder)
		if !ok || !isB {
			w = nil
			return
		}
		w.addInit(root)
		reruns := 0
		for i, o := range p.Ops {
			if len(o.Runs) == 0 || (o.From != nil && (!hsPlainPath(o.From) || len(o.From) == 0)) {
				continue
			}
			var av *pipeline.AnyVal
			vreg := -1
			opValueBefore := ""
			if o.Value != nil {
				if !hsPlainKeys(o.Value) {
					continue
				}
				a, err := hsAnyVal(o.Value)
				if err != nil || a.Value() == nil {
					continue
				}
				av = a
				vreg = w.addInitLate(av.Value())
				opValueBefore = canon(w.wire(av.Value()))
			}
			var vfStr *string
			if o.ValueFrom != nil {
				if !hsPlainPath(o.ValueFrom) || len(o.ValueFrom) == 0 {
					continue
				}
				s, ok := hsDottedPlain(root, o.ValueFrom)
				if !ok {
					continue
				}
				vfStr = &s
			}
			base := &pipeline.PatchOp{Op: patch.Op(o.Op), Value: av, ValueFrom: vfStr}
			if o.From != nil {
				base.From = c09Pointer(o.From)
			}
			type placed struct {
				reg  int
				path []string
			}
			var placedRegs []placed
			exec := func(po *pipeline.PatchOp, pth []string, via string) (string, bool) {
				if !hsPlainPath(pth) || len(pth) == 0 {
					return "", false
				}
				step := map[string]any{"s": "patchOp", "r": 0, "op": o.Op, "path": strsAny(pth), "from": hsToks(o.From)}
				if vreg >= 0 {
					step["v"] = vreg
				} else if o.ValueFrom != nil {
					step["vf"] = strsAny(o.ValueFrom)
				}
				before := canon(w.wire(root))
				if !c.Direct(hsFinite, w.fin, map[string]any{"before": o}) {
					return "", false // PatchOp.Do takes a Snapshot() first: unbounded recursion on a cyclic document
				}
				var src dom.Node
				if o.ValueFrom != nil {
					src = root.Lookup(*vfStr)
				}
				var tag, ptxt string
				if via == "clone" {
					tag, ptxt = c13ExecVia(root, po, "clone")
				} else {
					tag, ptxt = c13Exec(root, po)
				}
				w.emit(step)
				w.outs = append(w.outs, tag)
				c.Dist("heap-patchop:" + c09OpName(o.Op) + "=" + tag)
				if !c.Direct("no-panic", tag != "panic", ptxt) {
					return tag, false
				}
				w.wire(root)
				if !c.Direct(hsFinite, w.fin, map[string]any{"after": o, "path": pth}) {
					return tag, false
				}
				if tag == "err" {
					after := canon(w.wire(root))
					c.Direct("document-unchanged-after-failing-patch-op", after == before, map[string]any{"op": o, "path": pth})
					return tag, true
				}
				if o.Op == "add" || o.Op == "replace" || o.Op == "copy" {
					tgt := hsEval(root, pth)
					if tgt != nil {
						r := w.push(tgt)
						w.emit(map[string]any{"s": "eval", "r": 0, "p": strsAny(pth)})
						placedRegs = append(placedRegs, placed{r, pth})
						if src != nil && !hsHasPrefix(pth, o.ValueFrom) {
							// the value read via valueFrom must not share state with the data tree
							hpIndependent(c, w, "valueFrom-value-shares-no-mutable-object-with-its-source", tgt, src, o)
						}
						if av != nil {
							hpIndependent(c, w, "placed-value-shares-no-mutable-object-with-the-op's-own-value", tgt, av.Value(), o)
						}
					}
				}
				return tag, true
			}
			if o.Each != nil {
				// one forEach over the items; the body's path is rendered per item
				parent := o.Runs[0].Path
				if par := hsEval(root, parent); len(parent) == 0 || par == nil || !par.IsContainer() {
					continue
				}
				if o.ValueFrom != nil && hsHasPrefix(parent, o.ValueFrom) {
					continue // adding a location's value below that location, repeatedly: kept to single executions
				}
				if o.ValueFrom != nil {
					// the same by object identity: if an earlier execution left the document aliased, the
					// destination may lie inside the source along another path; a second iteration would then
					// run on a cyclic document (the pipeline's own Snapshot() recursion is not recoverable)
					if src := root.Lookup(*vfStr); src != nil && hsReaches(src, hsEval(root, parent), map[uintptr]bool{}) {
						continue
					}
				}
				w.wire(root)
				if !c.Direct(hsFinite, w.fin, map[string]any{"before": o}) {
					return
				}
				po := *base
				po.Path = c09Pointer(parent) + "/{{ ." + c13ItemVar + " }}"
				items := pipeline.ValOrRefSlice{}
				for _, it := range o.Each {
					if !hsKeyRe.MatchString(it) {
						items = nil
						break
					}
					items = append(items, &pipeline.ValOrRef{Val: it})
				}
				if len(items) == 0 {
					continue
				}
				variable := c13ItemVar
				fe := &pipeline.ForEachOp{Item: &items, Variable: &variable, Action: pipeline.ActionSpec{Operations: pipeline.OpSpec{Patch: &po}}}
				tag, ptxt := c13Exec(root, fe)
				if !c.Direct("no-panic", tag != "panic", ptxt) {
					return
				}
				if tag != "ok" {
					// which item failed is not observable from outside: not compared
					c.Dist("heap-patchop:forEach-failed")
					w = nil
					return
				}
				for _, it := range o.Each {
					pth := append(c09Clone(parent), it)
					step := map[string]any{"s": "patchOp", "r": 0, "op": o.Op, "path": strsAny(pth), "from": hsToks(o.From)}
					if vreg >= 0 {
						step["v"] = vreg
					} else if o.ValueFrom != nil {
						step["vf"] = strsAny(o.ValueFrom)
					}
					w.emit(step)
					w.outs = append(w.outs, "ok")
					if tgt := hsEval(root, pth); tgt != nil {
						r := w.push(tgt)
						w.emit(map[string]any{"s": "eval", "r": 0, "p": strsAny(pth)})
						placedRegs = append(placedRegs, placed{r, pth})
					}
				}
				c.Dist("heap-patchop:forEach")
			} else {
				for k, run := range o.Runs {
					po := base
					switch run.Via {
					case "literal", "clone":
						cp := *base
						po = &cp
					}
					po.Path = c09Pointer(run.Path)
					if _, cont := exec(po, run.Path, run.Via); !cont {
						return
					}
					if k > 0 {
						reruns++
					}
				}
			}
			// "documented effect and only that effect": the patch operation's effect is that of the JSON
			// Patch operation — a value placed by one execution is not changed by editing the value
			// placed by another execution of the same op, nor is the op's own value changed by either
			for a := 0; a < len(placedRegs); a++ {
				for b := 0; b < len(placedRegs); b++ {
					if a == b || hsHasPrefix(placedRegs[a].path, placedRegs[b].path) || hsHasPrefix(placedRegs[b].path, placedRegs[a].path) {
						continue
					}
					na, nb := w.regs[placedRegs[a].reg], w.regs[placedRegs[b].reg]
					if hsEval(root, placedRegs[a].path) != na || hsEval(root, placedRegs[b].path) != nb {
						continue // displaced by a later execution (list shifting, replaced member)
					}
					hpIndependent(c, w, "values-placed-by-re-executions-share-no-mutable-object", na, nb, o)
				}
			}
			for a := range placedRegs {
				nb := canon(w.wire(root))
				_ = nb
				if (p.Salt+i+a)%2 == 0 && hsEval(root, placedRegs[a].path) == w.regs[placedRegs[a].reg] {
					others := map[int]string{}
					for b := range placedRegs {
						if b != a && !hsHasPrefix(placedRegs[a].path, placedRegs[b].path) && !hsHasPrefix(placedRegs[b].path, placedRegs[a].path) &&
							hsEval(root, placedRegs[b].path) == w.regs[placedRegs[b].reg] {
							others[b] = canon(w.wire(w.regs[placedRegs[b].reg]))
						}
					}
					if w.probe(placedRegs[a].reg, p.Salt+i+a) {
						for b, was := range others {
							now := canon(w.wire(w.regs[placedRegs[b].reg]))
							c.Direct("edit-below-one-placed-value-changes-only-that-location", now == was,
								map[string]any{"op": o, "edited": placedRegs[a].path, "changed too": placedRegs[b].path})
						}
						if av != nil {
							now := canon(w.wire(av.Value()))
							c.Direct("op's-own-value-unchanged-by-edits-of-the-data-document", now == opValueBefore,
								map[string]any{"op": o, "value before": json.RawMessage(opValueBefore), "value now": json.RawMessage(now)})
						}
					}
				}
			}
		}
		w.observe()
		if reruns > 0 {
			c.Nontrivial()
		}
		c.Dist(fmt.Sprintf("heap-patchop:reruns=%d", bucket(reruns)))
	})
	if w == nil {
		return
	}
	if hsAbandoned(c, out, txt) || !c.Direct("no-panic", out == "ok", txt) {
		return
	}
	hsFinish(c, w, "heapPatchOp")
}

// hsReaches: target is the node from, or an object below it.
func hsReaches(from, target dom.Node, seen map[uintptr]bool) bool {
	if from == nil || target == nil || from.IsLeaf() {
		return false
	}
	id := nodeID(from)
	if id == nodeID(target) {
		return true
	}
	if seen[id] {
		return false
	}
	seen[id] = true
	if from.IsContainer() {
		for _, ch := range from.(dom.Container).Children() {
			if hsReaches(ch, target, seen) {
				return true
			}
		}
		return false
	}
	for _, it := range from.(dom.List).Items() {
		if hsReaches(it, target, seen) {
			return true
		}
	}
	return false
}

// hpIndependent: two subtrees have no container / list object in common.
func hpIndependent(c *Ctx, w *hsWorld, clause string, a, b dom.Node, o hpOp) {
	var ma, mb []hsMut
	hsMutables(a, nil, map[uintptr]bool{}, 0, &ma)
	hsMutables(b, nil, map[uintptr]bool{}, 0, &mb)
	ids := map[uintptr][]string{}
	for _, m := range mb {
		ids[nodeID(m.n)] = m.nav
	}
	for _, m := range ma {
		if nav, shared := ids[nodeID(m.n)]; shared {
			c.Direct(clause, false, map[string]any{"op": o, "at": m.nav, "is the other's": nav})
			return
		}
	}
	c.Direct(clause, true, nil)
}

// ------------------------------------------------------------------ C13: heap-setop

type hsSetRun struct {
	Path []string `json:"path"`          // dotted path components ([] = root)
	Via  string   `json:"via,omitempty"` // "" same op object again | "literal" new SetOp sharing Data | "clone" CloneWith
}

type hsSetOp struct {
	Payload  W          `json:"payload"`
	Strategy string     `json:"strategy"` // merge | replace
	Runs     []hsSetRun `json:"runs"`
}

type heapSetOpCase struct {
	Doc   W         `json:"doc"`
	Build int       `json:"build"`
	Ops   []hsSetOp `json:"ops"`
	Salt  int       `json:"salt"`
}

func heapSetOpGen(c *Ctx, n int) {
	r := c.Rng
	g := c09Gen()
	g.Keys = []string{"a", "b", "c", "k1", "x-y", "z_9"}
	for i := 0; i < n; i++ {
		c.Tick()
		doc := g.Doc(r)
		var conts [][]string
		var walk func(w W, p []string)
		walk = func(w W, p []string) {
			if m, ok := wireCont(w); ok {
				conts = append(conts, p)
				for _, k := range sortedKeys(m) {
					walk(m[k], append(append([]string{}, p...), k))
				}
			}
		}
		walk(doc, nil)
		var ops []hsSetOp
		for j := 0; j < 1+r.Intn(3); j++ {
			o := hsSetOp{Payload: g.Cont(r, 1+r.Intn(2)), Strategy: pick(r, []string{"merge", "merge", "replace"})}
			for k := 0; k < 2+r.Intn(2); k++ {
				base := c09Clone(pick(r, conts))
				var p []string
				switch r.Intn(5) {
				case 0:
					p = base // an existing container (merge meets it), or the root
				default:
					p = append(base, pick(r, []string{"n1", "n2", "n3", "a", "b"}))
					if r.Intn(4) == 0 {
						p = append(p, pick(r, []string{"d1", "d2"}))
					}
				}
				o.Runs = append(o.Runs, hsSetRun{Path: p, Via: pick(r, []string{"", "", "literal", "clone"})})
			}
			ops = append(ops, o)
		}
		c.Do("heap-setop", heapSetOpCase{Doc: doc, Build: hsTreeBuild(r), Ops: ops, Salt: r.Intn(1 << 16)})
	}
}

func hsLookupPlain(root dom.Container, comps []string) dom.Node {
	var cur dom.Node = root
	for _, t := range comps {
		if cur == nil || !cur.IsContainer() {
			return nil
		}
		cur = cur.(dom.Container).Children()[t]
	}
	return cur
}

func heapSetOpEval(c *Ctx, raw []byte) {
	var p heapSetOpCase
	if err := json.Unmarshal(raw, &p); err != nil {
		panic(err)
	}
	if _, ok := wireCont(p.Doc); !ok || !hsPlainKeys(p.Doc) || p.Build < 0 || p.Build >= heapBuildModes || p.Build == 5 {
		return
	}
	var w *hsWorld
	out, txt := guard(func() {
		w = newHsWorld(c)
		dn, ok := hsBuild(hsInit{W: p.Doc, Build: p.Build}, map[string]dom.Node{})
		root, isB := dn.(dom.ContainerBuilder)
		if !ok || !isB {
			w = nil
			return
		}
		w.addInit(root)
		reruns := 0
		for i, o := range p.Ops {
			pm, isC := wireCont(o.Payload)
			if !isC || !hsPlainKeys(o.Payload) || (o.Strategy != "merge" && o.Strategy != "replace") {
				continue
			}
			_ = pm
			data := wirePlain(o.Payload).(map[string]any)
			dataBefore := canon(plainWire(data))
			st := pipeline.SetStrategy(o.Strategy)
			base := &pipeline.SetOp{Data: data, Strategy: &st}
			type placed struct {
				reg  int
				path []string
			}
			var placedRegs []placed
			for k, run := range o.Runs {
				if !hsPlainPath(run.Path) {
					continue
				}
				op := base
				if run.Via == "literal" || run.Via == "clone" {
					cp := *base
					op = &cp
				}
				op.Path = strings.Join(run.Path, ".")
				w.wire(root)
				if !c.Direct(hsFinite, w.fin, map[string]any{"before": o}) {
					return
				}
				var tag, ptxt string
				if run.Via == "clone" {
					tag, ptxt = c13ExecVia(root, op, "clone")
				} else {
					tag, ptxt = c13Exec(root, op)
				}
				w.emit(map[string]any{"s": "setOp", "r": 0, "merge": o.Strategy == "merge", "p": orEmpty(strsAny(run.Path)), "d": o.Payload})
				w.outs = append(w.outs, tag)
				c.Dist("heap-setop:" + o.Strategy + "=" + tag)
				if !c.Direct("no-panic", tag != "panic", ptxt) || !c.Direct("set-no-error", tag == "ok", ptxt) {
					return
				}
				if k > 0 {
					reruns++
				}
				if len(run.Path) > 0 {
					if tgt := hsLookupPlain(root, run.Path); tgt != nil {
						r := w.push(tgt)
						w.emit(map[string]any{"s": "eval", "r": 0, "p": strsAny(run.Path)})
						placedRegs = append(placedRegs, placed{r, run.Path})
					}
				}
			}
			// "Each operation changes only its target location": what one execution placed shares no
			// container / list object with what another execution of the same op placed, and an edit
			// below one location shows nowhere else — nor in the op's Data
			for a := 0; a < len(placedRegs); a++ {
				for b := a + 1; b < len(placedRegs); b++ {
					if hsHasPrefix(placedRegs[a].path, placedRegs[b].path) || hsHasPrefix(placedRegs[b].path, placedRegs[a].path) {
						continue
					}
					na, nb := w.regs[placedRegs[a].reg], w.regs[placedRegs[b].reg]
					if hsLookupPlain(root, placedRegs[a].path) != na || hsLookupPlain(root, placedRegs[b].path) != nb {
						continue
					}
					if o.Strategy == "replace" {
						hsSetIndependent(c, "payloads-placed-by-re-executions-share-no-mutable-object", na, nb, o)
					}
				}
			}
			for a := range placedRegs {
				if (p.Salt+i+a)%2 != 0 || hsLookupPlain(root, placedRegs[a].path) != w.regs[placedRegs[a].reg] {
					continue
				}
				others := map[int]string{}
				for b := range placedRegs {
					if b != a && !hsHasPrefix(placedRegs[a].path, placedRegs[b].path) && !hsHasPrefix(placedRegs[b].path, placedRegs[a].path) &&
						hsLookupPlain(root, placedRegs[b].path) == w.regs[placedRegs[b].reg] {
						others[b] = canon(w.wire(w.regs[placedRegs[b].reg]))
					}
				}
				if w.probe(placedRegs[a].reg, p.Salt+i+a) {
					for b, was := range others {
						now := canon(w.wire(w.regs[placedRegs[b].reg]))
						c.Direct("edit-below-one-set-location-changes-only-that-location", now == was,
							map[string]any{"op": o, "edited": placedRegs[a].path, "changed too": placedRegs[b].path})
					}
					c.Direct("op's-Data-unchanged-by-edits-of-the-data-document", canon(plainWire(data)) == dataBefore, map[string]any{"op": o})
				}
			}
			c.Direct("op's-Data-unchanged-by-execution", canon(plainWire(data)) == dataBefore, map[string]any{"op": o})
		}
		w.observe()
		if reruns > 0 {
			c.Nontrivial()
		}
		c.Dist(fmt.Sprintf("heap-setop:reruns=%d", bucket(reruns)))
	})
	if w == nil {
		return
	}
	if hsAbandoned(c, out, txt) || !c.Direct("no-panic", out == "ok", txt) {
		return
	}
	hsFinish(c, w, "heapSetOp")
}

func hsSetIndependent(c *Ctx, clause string, a, b dom.Node, o hsSetOp) {
	var ma, mb []hsMut
	hsMutables(a, nil, map[uintptr]bool{}, 0, &ma)
	hsMutables(b, nil, map[uintptr]bool{}, 0, &mb)
	ids := map[uintptr][]string{}
	for _, m := range mb {
		ids[nodeID(m.n)] = m.nav
	}
	for _, m := range ma {
		if nav, shared := ids[nodeID(m.n)]; shared {
			c.Direct(clause, false, map[string]any{"op": o, "at": m.nav, "is the other's": nav})
			return
		}
	}
	c.Direct(clause, true, nil)
}

var _ = rand.Int
