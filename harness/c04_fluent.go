package main

import (
	"bytes"
	"encoding/json"
	"fmt"
	"os"
	"path/filepath"
	"strings"

	"github.com/rkosegi/yaml-toolkit/common"
	"github.com/rkosegi/yaml-toolkit/dom"
	"github.com/rkosegi/yaml-toolkit/fluent"
	"github.com/rkosegi/yaml-toolkit/utils"
	"gopkg.in/yaml.v3"
)

// C04 — fluent.ConfigHelper as a state machine: Add (map, dom container, struct) / Load (file) / Mutate (builder calls) in
// any order, the accumulated document observed after every call through Mutate's builder (no codec involved), Result into
// a map and into a struct, Save.  Model: lean/YtkModel/Fluent.lean (driver op "fluent").

type c04flEdit struct {
	Op   string `json:"op"` // addvalue | addcontainer | remove (root level) | addvalueat | removeat (paths)
	Path string `json:"path"`
	V    W      `json:"v,omitempty"`
}

type c04flStep struct {
	Via   string      `json:"via"` // map | dom | struct | yaml | yml | json | missing | broken | txt | mutate
	Doc   W           `json:"doc,omitempty"`
	Edits []c04flEdit `json:"edits,omitempty"`
}

type c04flCase struct {
	Steps []c04flStep `json:"steps"`
	Typ   string      `json:"typ"`  // result type: map | struct
	Save  string      `json:"save"` // "" | .yaml | .yml | .json | .txt | nodir
}

// c04flT: a small typed configuration; the inline map keeps every other key.
type c04flT struct {
	A    any            `yaml:"a"`
	B    any            `yaml:"b"`
	Rest map[string]any `yaml:",inline"`
}

func c04flStruct(doc W) c04flT {
	m, _ := wirePlain(doc).(map[string]any)
	t := c04flT{Rest: map[string]any{}}
	for k, v := range m {
		switch k {
		case "a":
			t.A = v
		case "b":
			t.B = v
		default:
			t.Rest[k] = v
		}
	}
	return t
}

func c04flRun(c *Ctx) {
	r := c.Rng
	g := c04Gen()
	vias := []string{"map", "map", "dom", "dom", "struct", "yaml", "yaml", "json", "yml", "mutate", "mutate", "mutate"}
	for i := 0; i < c.N(420); i++ {
		c.Tick()
		prev := g.Doc(r)
		var steps []c04flStep
		for j, n := 0, 1+r.Intn(5); j < n; j++ {
			via := pick(r, vias)
			if r.Intn(25) == 0 {
				via = pick(r, []string{"missing", "broken", "txt"})
			}
			if via == "mutate" {
				var es []c04flEdit
				m, _ := wireCont(prev)
				for k, e := 0, 1+r.Intn(3); k < e; k++ {
					key := pick(r, g.Keys)
					if len(m) > 0 && r.Intn(2) == 0 {
						key = pick(r, sortedKeys(m))
					}
					switch r.Intn(6) {
					case 0:
						es = append(es, c04flEdit{Op: "remove", Path: key})
					case 1:
						es = append(es, c04flEdit{Op: "addcontainer", Path: key})
					case 2:
						es = append(es, c04flEdit{Op: "addvalueat", Path: key + "." + pick(r, g.Keys), V: g.Node(r, g.MaxDepth-1)})
					case 3:
						es = append(es, c04flEdit{Op: "removeat", Path: key + "." + pick(r, g.Keys)})
					default:
						es = append(es, c04flEdit{Op: "addvalue", Path: key, V: g.Node(r, g.MaxDepth-1)})
					}
				}
				steps = append(steps, c04flStep{Via: via, Edits: es})
				continue
			}
			doc := prev
			if r.Intn(3) == 0 {
				doc = g.Doc(r)
			} else {
				for k, e := 0, 1+r.Intn(3); k < e; k++ {
					doc = g.Mutate(r, doc)
				}
			}
			prev = doc
			steps = append(steps, c04flStep{Via: via, Doc: doc})
		}
		c.Do("fluent", c04flCase{Steps: steps, Typ: pick(r, []string{"map", "map", "struct"}),
			Save: pick(r, []string{"", ".yaml", ".json", ".yml", ".txt", "nodir"})})
	}
}

type c04flObs struct {
	acc      []W      // the accumulated document after every step (nodeWire of the builder Mutate hands out)
	panicked []bool   // the step's call panicked
	texts    []string // panic texts
	result   any      // *h.Result(), or nil when it panicked
	resTag   string
	result2  any
	accAfter W // accumulated document after Result / Save
	saveTag  string
	saved    []byte
	savedOK  bool // the file exists after Save
	reload   any  // a new helper's Result after Load(saved file)
	relTag   string
}

// c04flDrive runs the case on a helper with result type T.
func c04flDrive[T any](steps []c04flStep, files []string, inputs []any, saveFile string) c04flObs {
	var o c04flObs
	h := fluent.NewConfigHelper[T]()
	observe := func() W {
		var w W
		h.Mutate(func(b dom.ContainerBuilder) { w = nodeWire(b) })
		return w
	}
	for i, s := range steps {
		out, txt := guard(func() {
			switch s.Via {
			case "map", "dom", "struct":
				h = h.Add(inputs[i])
			case "mutate":
				h = h.Mutate(func(b dom.ContainerBuilder) {
					for _, e := range s.Edits {
						switch e.Op {
						case "addvalue":
							b.AddValue(e.Path, wireNode(e.V))
						case "addvalueat":
							b.AddValueAt(e.Path, wireNode(e.V))
						case "addcontainer":
							b.AddContainer(e.Path)
						case "remove":
							b.Remove(e.Path)
						case "removeat":
							b.RemoveAt(e.Path)
						}
					}
				})
			default:
				h = h.Load(files[i])
			}
		})
		o.panicked = append(o.panicked, out != "ok")
		o.texts = append(o.texts, txt)
		o.acc = append(o.acc, observe())
	}
	o.resTag, _ = guard(func() { o.result = *h.Result() })
	if o.resTag == "ok" {
		// whatever is done with the first result, a second one is what the first was
		if m, ok := o.result.(map[string]any); ok {
			cp, _ := c04YamlRT(m)
			o.result = cp
			c01Scribble(m)
		}
		_, _ = guard(func() { o.result2 = *h.Result() })
	}
	if saveFile != "" {
		o.saveTag, _ = guard(func() { h = h.Save(saveFile) })
		if data, err := os.ReadFile(saveFile); err == nil {
			o.saved, o.savedOK = data, true
		}
		if o.saveTag == "ok" {
			o.relTag, _ = guard(func() { o.reload = *fluent.NewConfigHelper[T]().Load(saveFile).Result() })
		}
	}
	o.accAfter = observe()
	return o
}

// c04flNorm: a value through yaml.v3 into a map (the helper's own codec; struct results become their map form).
func c04flNorm(v any) W {
	rt, err := c04YamlRT(v)
	if err != nil {
		return map[string]any{"yaml-error": err.Error()}
	}
	if rt == nil {
		rt = map[string]any{}
	}
	return plainWireK(rt)
}

func c04flRootEdit(op string) bool { return op == "addvalue" || op == "addcontainer" || op == "remove" }

func c04flEval(c *Ctx, raw []byte) {
	var p c04flCase
	if err := json.Unmarshal(raw, &p); err != nil {
		panic(err)
	}
	if len(p.Steps) == 0 {
		return
	}
	for _, s := range p.Steps {
		if s.Via == "mutate" {
			for _, e := range s.Edits {
				if e.Path == "" || ((e.Op == "addvalue" || e.Op == "addvalueat") && e.V == nil) || (c04flRootEdit(e.Op) && strings.ContainsAny(e.Path, ".[]")) {
					return
				}
			}
			continue
		}
		if s.Via != "missing" && wireKind(s.Doc) != "cont" {
			return
		}
	}
	dir := filepath.Join(c.VerifDir, ".work", fmt.Sprintf("c04fl-%d", os.Getpid()))
	if err := os.MkdirAll(dir, 0o755); err != nil {
		panic(err)
	}
	defer os.RemoveAll(dir)

	// the sources as the helper receives them, what each one should contribute (control decoders / the value itself), and
	// the file system as the model sees it
	n := len(p.Steps)
	files := make([]string, n)
	inputs := make([]any, n)
	docs := make([]W, n) // nil: the step contributes nothing (mutate, or a Load that must fail)
	mustFail := make([]bool, n)
	var rows []any
	var ops []any
	var domBefore []W
	for i, s := range p.Steps {
		c.Dist("fluent:via=" + s.Via)
		switch s.Via {
		case "mutate":
			es := []any{}
			for _, e := range s.Edits {
				es = append(es, map[string]any{"op": e.Op, "path": e.Path, "v": e.V})
			}
			ops = append(ops, map[string]any{"k": "mutate", "edits": es})
		case "map":
			inputs[i] = wirePlain(s.Doc)
			docs[i] = s.Doc
			ops = append(ops, map[string]any{"k": "map", "doc": s.Doc})
		case "dom":
			inputs[i] = wireContainer(s.Doc)
			docs[i] = s.Doc
			ops = append(ops, map[string]any{"k": "dom", "doc": s.Doc})
		case "struct":
			t := c04flStruct(s.Doc)
			inputs[i] = t
			rt, err := c04YamlRT(t)
			if err != nil || plainHasNonStringKeys(rt) {
				c.Dist("fluent:unencodable")
				return
			}
			docs[i] = plainWire(rt)
			ops = append(ops, map[string]any{"k": "other", "via": docs[i]})
		default:
			ext := map[string]string{"yaml": ".yaml", "yml": ".yml", "json": ".json", "txt": ".txt", "missing": ".yaml", "broken": ".json"}[s.Via]
			if ext == "" {
				return
			}
			files[i] = filepath.Join(dir, fmt.Sprintf("src%d%s", i, ext))
			var data []byte
			var err error
			var ctl map[string]any
			switch s.Via {
			case "missing":
			case "broken":
				data = []byte("{\"a\": [1, 2}\n]]")
			case "json":
				if data, err = json.Marshal(wirePlain(s.Doc)); err == nil {
					err = json.Unmarshal(data, &ctl)
				}
			default:
				if data, err = yaml.Marshal(wirePlain(s.Doc)); err == nil {
					err = yaml.Unmarshal(data, &ctl)
				}
			}
			if err != nil || plainHasNonStringKeys(ctl) {
				c.Dist("fluent:unencodable")
				return
			}
			if s.Via != "missing" {
				if err := os.WriteFile(files[i], data, 0o644); err != nil {
					panic(err)
				}
			}
			switch s.Via {
			case "missing", "broken", "txt":
				mustFail[i] = true
			default:
				if ctl == nil {
					ctl = map[string]any{}
				}
				docs[i] = plainWire(ctl)
			}
			// the library's opener / suffix switch / decoder on this file: the model's parameters
			row := map[string]any{"name": files[i], "ext": filepath.Ext(files[i]), "open": false, "dec": nil}
			if fh, err := utils.FileOpener(files[i]); err == nil {
				row["open"] = true
				if dec := common.DefaultFileDecoderProvider(files[i]); dec != nil {
					root := map[string]any{}
					var derr error
					if o, _ := guard(func() { derr = dec(fh, &root) }); o == "ok" && derr == nil {
						row["dec"] = plainWireK(root)
					}
				}
				_ = fh.Close()
			}
			rows = append(rows, row)
			ops = append(ops, map[string]any{"k": "load", "file": files[i]})
		}
	}
	for i := range p.Steps {
		if cb, ok := inputs[i].(dom.ContainerBuilder); ok {
			domBefore = append(domBefore, nodeWire(cb))
		} else {
			domBefore = append(domBefore, nil)
		}
	}
	mapBefore := make([]string, n)
	for i := range p.Steps {
		if m, ok := inputs[i].(map[string]any); ok {
			mapBefore[i] = canon(plainWire(m))
		}
	}
	saveFile := ""
	switch p.Save {
	case "":
	case "nodir":
		saveFile = filepath.Join(dir, "no", "such", "dir", "out.yaml")
	default:
		saveFile = filepath.Join(dir, "out"+p.Save)
	}
	var o c04flObs
	out, txt := guard(func() {
		if p.Typ == "struct" {
			o = c04flDrive[c04flT](p.Steps, files, inputs, saveFile)
		} else {
			o = c04flDrive[map[string]any](p.Steps, files, inputs, saveFile)
		}
	})
	if !c.Direct("fluent:no-panic-outside-the-documented-ones", out == "ok", txt) {
		return
	}
	c.Dist("fluent:result-type=" + p.Typ)

	// per step: Add / Load merge the source over the accumulated document (later wins unless null; lists meld); a failing
	// Load panics and leaves the helper as it was; Mutate's edits are there
	var prev W = map[string]any{"m": map[string]any{}}
	nested := false
	shared := false
	for i, s := range p.Steps {
		switch {
		case s.Via == "mutate":
			c.Direct("fluent:mutate-does-not-panic", !o.panicked[i], o.texts[i])
			am, _ := wireCont(o.acc[i])
			for j, e := range s.Edits {
				last := true // a later edit of the same step may touch the same place again
				for _, l := range s.Edits[j+1:] {
					if strings.SplitN(l.Path, ".", 2)[0] == strings.SplitN(e.Path, ".", 2)[0] {
						last = false
					}
				}
				if !c04flRootEdit(e.Op) {
					nested = true
				}
				if !last {
					continue
				}
				switch e.Op {
				case "addvalue":
					c.Direct("fluent:mutate-edit-is-visible", canon(am[e.Path]) == canon(e.V), map[string]any{"edit": e, "after": o.acc[i]})
				case "addcontainer":
					c.Direct("fluent:mutate-edit-is-visible", canon(am[e.Path]) == canon(map[string]any{"m": map[string]any{}}), map[string]any{"edit": e, "after": o.acc[i]})
				case "remove":
					_, has := am[e.Path]
					c.Direct("fluent:mutate-edit-is-visible", !has, map[string]any{"edit": e, "after": o.acc[i]})
				case "addvalueat":
					ks := strings.Split(e.Path, ".")
					sub, _ := wireCont(am[ks[0]])
					c.Direct("fluent:mutate-edit-is-visible", sub != nil && canon(sub[ks[1]]) == canon(e.V), map[string]any{"edit": e, "after": o.acc[i]})
				}
			}
		case mustFail[i]:
			c.Direct("fluent:load-of-unreadable-file-panics", o.panicked[i], map[string]any{"step": i, "via": s.Via})
			c.Direct("fluent:failed-load-leaves-helper-unchanged", canon(o.acc[i]) == canon(prev), map[string]any{"before": prev, "after": o.acc[i]})
		default:
			if !c.Direct("fluent:add/load-does-not-panic", !o.panicked[i], map[string]any{"step": i, "via": s.Via, "text": o.texts[i]}) {
				return
			}
			if c04Stats(c, prev, docs[i], true) {
				c.Nontrivial()
				shared = true
			}
			ref := c04RefDoc(prev, docs[i], false)
			c.Direct("fluent:accumulated-is-merge-of-previous-and-source", canon(o.acc[i]) == canon(ref),
				map[string]any{"step": i, "via": s.Via, "previous": prev, "source": docs[i], "impl": o.acc[i], "expected": ref})
		}
		prev = o.acc[i]
	}
	_ = shared
	// the whole history of adds (no Mutate in between): the left fold of Merge from the empty document
	onlyAdds := true
	var fold W = map[string]any{"m": map[string]any{}}
	for i, s := range p.Steps {
		if s.Via == "mutate" {
			onlyAdds = false
			break
		}
		if docs[i] != nil {
			fold = c04RefDoc(fold, docs[i], false)
		}
	}
	if onlyAdds {
		c.Dist("fluent:adds-only")
		c.Direct("fluent:adds-are-left-fold-of-Merge", canon(o.acc[n-1]) == canon(fold), map[string]any{"impl": o.acc[n-1], "expected": fold})
	}
	// inputs untouched: maps always; dom containers as long as no edit below the root went through shared subtrees
	for i := range p.Steps {
		if m, ok := inputs[i].(map[string]any); ok {
			c.Direct("fluent:map-input-untouched", canon(plainWire(m)) == mapBefore[i], map[string]any{"step": i, "after": plainWire(m)})
		}
		if cb, ok := inputs[i].(dom.ContainerBuilder); ok {
			if !nested {
				c.Direct("fluent:dom-input-untouched", canon(nodeWire(cb)) == canon(domBefore[i]), map[string]any{"step": i, "before": domBefore[i], "after": nodeWire(cb)})
			} else {
				c.Dist("fluent:dom-input-not-compared-after-nested-edit")
			}
		}
	}
	// Result: the accumulated document through the YAML codec; reading does not change the helper
	final := o.acc[n-1]
	c.Direct("fluent:result/save-leave-helper-unchanged", canon(o.accAfter) == canon(final), map[string]any{"before": final, "after": o.accAfter})
	expRes := c04flNorm(wirePlain(final))
	if p.Typ == "struct" {
		var t c04flT
		data, _ := yaml.Marshal(wirePlain(final))
		if err := yaml.Unmarshal(data, &t); err != nil {
			c.Direct("fluent:result-panics-iff-decoding-fails", o.resTag != "ok", err.Error())
			return
		}
		expRes = c04flNorm(t)
	}
	if c.Direct("fluent:result-does-not-panic", o.resTag == "ok", o.resTag) {
		c.Direct("fluent:result-is-document-through-yaml", canon(c04flNorm(o.result)) == canon(expRes), map[string]any{"impl": c04flNorm(o.result), "expected": expRes})
		c.Direct("fluent:result-twice-equal", canon(c04flNorm(o.result2)) == canon(c04flNorm(o.result)), map[string]any{"first": c04flNorm(o.result), "second": c04flNorm(o.result2)})
	}
	// Save
	if saveFile != "" {
		c.Dist("fluent:save=" + p.Save)
		switch p.Save {
		case "nodir":
			c.Direct("fluent:save-into-missing-directory-panics", o.saveTag != "ok" && !o.savedOK, o.saveTag)
		case ".txt":
			c.Direct("fluent:save-with-unrecognised-suffix-panics", o.saveTag != "ok", o.saveTag)
		default:
			if c.Direct("fluent:save-does-not-panic", o.saveTag == "ok" && o.savedOK, o.saveTag) {
				var back map[string]any
				var err error
				if p.Save == ".json" {
					err = json.Unmarshal(o.saved, &back)
				} else {
					err = yaml.Unmarshal(o.saved, &back)
				}
				if back == nil {
					back = map[string]any{}
				}
				format := "yaml"
				if p.Save == ".json" {
					format = "json"
				}
				want, werr := c13Normalise(format, wirePlain(final))
				if err == nil && werr == nil && !plainHasNonStringKeys(back) {
					c.Direct("fluent:saved-file-parses-to-the-document", canon(plainWire(back)) == canon(plainWire(want)), map[string]any{"file": string(o.saved), "document": plainWire(want)})
				} else {
					c.Direct("fluent:saved-file-parses", err == nil, fmt.Sprint(err))
				}
				if o.relTag == "ok" && o.resTag == "ok" {
					c.Direct("fluent:save-then-load-gives-the-same-result", canon(c04flNorm(o.reload)) == canon(c04flNorm(o.result)), map[string]any{"reloaded": c04flNorm(o.reload), "result": c04flNorm(o.result)})
				}
			}
		}
	}
	// the model
	args := map[string]any{"ops": ops, "fs": rows}
	if rows == nil {
		args["fs"] = []any{}
	}
	if saveFile != "" {
		args["save"] = map[string]any{"ext": filepath.Ext(saveFile), "open": p.Save != "nodir"}
	}
	m, _ := c.Model("fluent", args).(map[string]any)
	if m == nil {
		c.Corr("fluent", "model answered", m)
		return
	}
	implSteps := []any{}
	for i := range p.Steps {
		implSteps = append(implSteps, map[string]any{"panic": o.panicked[i], "doc": o.acc[i]})
	}
	c.Corr("fluent.steps", implSteps, m["steps"])
	if o.resTag == "ok" && p.Typ == "map" {
		c.Corr("fluent.result", c04flNorm(o.result), c04flNorm(wirePlain(m["result"])))
	}
	if saveFile != "" {
		sv, _ := m["saved"].(map[string]any)
		impl := map[string]any{"panic": o.saveTag != "ok", "opened": o.savedOK}
		mod := map[string]any{"panic": sv["panic"], "opened": sv["opened"]}
		if o.saveTag == "ok" && sv["val"] != nil {
			var buf bytes.Buffer
			if enc := common.DefaultFileEncoderProvider(saveFile); enc != nil {
				_ = enc(&buf, wirePlain(sv["val"]))
			}
			impl["text"], mod["text"] = string(o.saved), buf.String()
		}
		c.Corr("fluent.save", impl, mod)
	}
}
