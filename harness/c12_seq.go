package main

// C12, case kind "seq": several actions executed one after the other by ONE executor on ONE data document —
// every Execute call is made, whatever the earlier ones returned.  Each call, on its own, must satisfy the
// property ("the observed trace of executed operations, the returned error and the final data equal those of
// a reference interpreter"), and the FINAL DATA clause is what ties the calls together: what a run leaves in
// the document — a failed run included: the first failing operation stops the run, but whatever it and the
// operations before it wrote stays — is what the next action's conditions and templates read.  A later action
// whose condition reads the path an earlier (possibly failed) template operation wrote to takes the branch the
// reference takes only if the earlier run left exactly what the reference leaves there.

import (
	"encoding/json"
	"fmt"
	"math/rand"
	"strings"

	"github.com/rkosegi/yaml-toolkit/dom"
	"github.com/rkosegi/yaml-toolkit/pipeline"
)

type c12Seq struct {
	Data  W        `json:"data"`
	Roots []c12Act `json:"roots"`
	// THE CALLER EDITS THE DATA DOCUMENT BETWEEN TWO RUNS ("exec.d — the single mutable data document all actions
	// read and write": the container the caller handed to WithData() is the caller's as well): before run Before
	// (>= 1) the value at Path (a top-level key or a dotted path of plain keys) is replaced by Val, or removed when
	// Val is absent — through the container the harness holds, not through the executor.  The run that follows reads
	// the document as it is THEN: its conditions, messages and templates equal the reference's on the edited data.
	Edits []c12Edit `json:"edits,omitempty"`
}

type c12Edit struct {
	Before int    `json:"before"`
	Path   string `json:"path"`
	Val    W      `json:"val,omitempty"`
}

// c12EditsBefore: the edits the caller makes before run i, in order; only edits of plain dotted paths count
func (p *c12Seq) editsBefore(i int) []c12Edit {
	var out []c12Edit
	for _, e := range p.Edits {
		if e.Before != i || i < 1 || e.Path == "" {
			continue
		}
		plain := true
		for _, seg := range strings.Split(e.Path, ".") {
			if !refKeyRe.MatchString(seg) {
				plain = false
			}
		}
		if plain {
			out = append(out, e)
		}
	}
	return out
}

// c12ApplyEditsWire: the edits on a document in wire form (value semantics: a fresh document)
func c12ApplyEditsWire(doc W, edits []c12Edit) W {
	if len(edits) == 0 {
		return doc
	}
	root, ok := wireCont(deepCopyW(doc))
	if !ok {
		return doc
	}
	for _, e := range edits {
		if e.Val == nil {
			refRemoveAt(root, e.Path)
		} else {
			refAddAt(root, e.Path, e.Val)
		}
	}
	return map[string]any{"m": root}
}

// c12ApplyEditsDom: the same edits made by the caller on the container it handed to WithData()
func c12ApplyEditsDom(doc dom.ContainerBuilder, edits []c12Edit) {
	for _, e := range edits {
		if e.Val == nil {
			doc.RemoveAt(e.Path)
		} else {
			doc.AddValueAt(e.Path, wireNode(e.Val))
		}
	}
}

// c12GenEdits: what a caller does between two runs: flips one of the flags the conditions read, takes away what the
// template / set operations of the earlier runs left (so that the next run starts from a clean slate), puts a
// boolean where a later condition reads a template's result
func c12GenEdits(r *rand.Rand, n int, tpls []string) []c12Edit {
	var out []c12Edit
	for i := 1; i < n; i++ {
		if r.Intn(2) == 0 {
			continue
		}
		for j, m := 0, 1+r.Intn(2); j < m; j++ {
			switch x := r.Intn(8); {
			case x < 2:
				out = append(out, c12Edit{Before: i, Path: "flagT", Val: plainWire(false)})
			case x < 4:
				out = append(out, c12Edit{Before: i, Path: "flagF", Val: plainWire(true)})
			case x == 4:
				out = append(out, c12Edit{Before: i, Path: pick(r, []string{"t", "w", "keep.y"})})
			case x == 5 && len(tpls) > 0:
				out = append(out, c12Edit{Before: i, Path: "t." + pick(r, tpls), Val: plainWire(pick(r, []string{"true", "false", "x"}))})
			default:
				out = append(out, c12Edit{Before: i, Path: pick(r, []string{"flagT", "flagF"}), Val: plainWire(r.Intn(2) == 0)})
			}
		}
	}
	return out
}

// template texts that parse and fail while being executed, after having produced output (see c12TemplateText)
var c12ExecFailTemplates = []string{
	"true{{ .keep.y.z }}", "{{ .flagT }}{{ .keep.x.q }}", "1{{ index .nokey 0 }}", "T{{ template \"nope\" }}", "true{{ fail \"boom\" }}-tail",
	"P-{{ .keep.y.z }}", "{{ .keep.y }}:{{ fail \"boom\" }}",
}

// texts that do not parse (see c12TemplateText): the operation fails, nothing is stored but the empty text
var c12NoParseTemplates = []string{"true{{ .flagT", "{{", "T-{{ .flagT }", "}} {{ .flagT", "true{{ end }}", "{{ .flagT }}{{ nosuchfunc }}"}

// c12SeqBasics: the smallest sequences first (so that a failure is reported on a minimal one): a template
// operation — one that renders a boolean, one that renders something else, each of the templates that fail at
// execution time — at the top of the first action or two levels down, followed by an action whose condition
// reads its path and by a third action that reads it through a template of its own.
func c12SeqBasics() []c12Seq {
	var out []c12Seq
	texts := append([]string{"{{ .flagT }}", "{{ .flagF }}", " true ", "{{ .flagT }}-a", "{{ .nokey }}"}, c12ExecFailTemplates...)
	texts = append(texts, c12NoParseTemplates...)
	for _, t := range texts {
		for _, deep := range []bool{false, true} {
			first := c12Act{Name: "a", Ops: []c12Op{{K: "template", Tmpl: t, Path: "t.a"}, {K: "log", Msg: "after-template"}}}
			if deep {
				// the template operation two levels down, with a sibling that must not run after the failure
				first = c12Act{Name: "a", Ops: []c12Op{{K: "set", Data: plainWire(map[string]any{"v": "a", "on": true}), Path: "w.a"}},
					Children: []c12Act{
						{Name: "a1", Order: 2, Ops: []c12Op{{K: "log", Msg: "a1"}}},
						{Name: "a0", Order: 1, Children: []c12Act{{Name: "a00", Ops: []c12Op{{K: "template", Tmpl: t, Path: "t.a"}}}}}}}
			}
			second := c12Act{Name: "b", When: sp("{{ .t.a }}"), Ops: []c12Op{{K: "log", Msg: "b-ran:{{ .t.a }}"},
				{K: "set", Data: plainWire(map[string]any{"v": "b", "on": true}), Path: "w.b"}}}
			third := c12Act{Name: "c", Ops: []c12Op{{K: "template", Tmpl: "[{{ .t.a }}]", Path: "t.c"}, {K: "log", Msg: "c:{{ .t.a }}"}}}
			out = append(out, c12Seq{Data: c12Data(), Roots: []c12Act{first, second, third}})
		}
	}
	// the smallest sequences in which the CALLER edits the document between two runs of one action: a guarded
	// child whose condition reads a flag the caller flips (the run before ended with a log / with a set operation)
	for _, flag := range []string{"flagT", "flagF"} {
		for _, last := range []string{"log", "set"} {
			guarded := c12Act{Name: "g", Order: 1, When: sp("{{ ." + flag + " }}"), Ops: []c12Op{c12MkOp("set", "g")}}
			tail := c12Act{Name: "z", Order: 2, Ops: []c12Op{c12MkOp(last, "z")}}
			root := c12Act{Name: "r", Ops: []c12Op{c12MkOp("log", "r")}, Children: []c12Act{tail, guarded}}
			out = append(out, c12Seq{Data: c12Data(), Roots: []c12Act{root, root},
				Edits: []c12Edit{{Before: 1, Path: "w"}, {Before: 1, Path: flag, Val: plainWire(flag == "flagF")}}})
		}
	}
	return out
}

func c12GenSeq(r *rand.Rand) c12Seq {
	var others, tpls []string
	p := c12Seq{Data: c12Data()}
	n := 2 + r.Intn(2)
	for i := 0; i < n; i++ {
		before := len(tpls)
		root := c12RandTree(r, []string{"r", "s", "u"}[i], 0, 1+r.Intn(2), 1+r.Intn(3), &others, &tpls)
		if i == 0 && len(tpls) == 0 {
			// the sequence is about what a run leaves behind: at least one template operation in the first action
			root.Ops = append(root.Ops, c12Op{K: "template", Tmpl: c12TemplateText(r, root.Name), Path: "t." + root.Name})
			tpls = append(tpls, root.Name)
		}
		if i > 0 && before > 0 && r.Intn(2) == 0 {
			// a condition that reads what a template operation of an EARLIER action left at its path
			tgt := &root
			if len(root.Children) > 0 && r.Intn(3) == 0 {
				tgt = &root.Children[r.Intn(len(root.Children))]
			}
			tgt.When = sp("{{ .t." + tpls[r.Intn(before)] + " }}")
		}
		p.Roots = append(p.Roots, root)
	}
	if r.Intn(5) == 0 {
		// REPEATED USE: an action of the sequence executed once more, by the same executor, on what the others left
		again := p.Roots[r.Intn(len(p.Roots))]
		var cp c12Act
		b, _ := json.Marshal(again)
		_ = json.Unmarshal(b, &cp)
		p.Roots = append(p.Roots, cp)
	}
	if r.Intn(3) == 0 {
		// the caller edits the document between the runs
		p.Edits = c12GenEdits(r, len(p.Roots), tpls)
	}
	return p
}

func c12EvalSeq(c *Ctx, raw []byte) {
	var p c12Seq
	if err := json.Unmarshal(raw, &p); err != nil {
		panic(err)
	}
	if len(p.Roots) > 6 {
		p.Roots = p.Roots[:6]
	}
	if p.Roots == nil {
		p.Roots = []c12Act{}
	}
	acts, ops := 0, 0
	for i := range p.Roots {
		p.Roots[i].norm()
		a, o := c12Count(&p.Roots[i])
		acts, ops = acts+a, ops+o
	}
	if _, ok := wireCont(p.Data); !ok {
		p.Data = map[string]any{"m": map[string]any{}}
	}
	if len(p.Roots) >= 2 && ops >= 1 {
		c.Nontrivial()
	}
	c.Dist(fmt.Sprintf("seq:actions-executed-in-sequence:%d", len(p.Roots)))
	c12ForEachOp(&c12Act{Children: p.Roots}, func(o *c12Op) {
		if o.K == "template" && c12FailsAtExecution(o.Tmpl) {
			c.Dist("seq:template-failing-at-execution")
		}
		if o.K == "template" && c12DoesNotParse(o.Tmpl) {
			c.Dist("seq:template-that-does-not-parse")
		}
	})

	// the model: one exec per action, each on the data the previous one left
	mtr, merrs := []any{}, []any{}
	var mdata any = p.Data
	if !c.searchMode {
		for i := range p.Roots {
			mdata = c12ApplyEditsWire(mdata, p.editsBefore(i))
			m, ok := c.Model("exec", map[string]any{"data": mdata, "root": p.Roots[i], "fuel": c12Fuel}).(map[string]any)
			if !ok || m["model_error"] != nil {
				mtr, merrs, mdata = []any{"model-error", m}, nil, nil
				break
			}
			tr, _ := m["tr"].([]any)
			mtr, merrs, mdata = append(mtr, tr...), append(merrs, m["err"]), m["data"]
		}
	}
	// the document the flags are read from, per run: the initial one with the caller's edits so far
	flagsAt := make([]W, len(p.Roots))
	nEdits := 0
	for i, cur := 0, p.Data; i < len(p.Roots); i++ {
		cur = c12ApplyEditsWire(cur, p.editsBefore(i))
		flagsAt[i] = cur
		nEdits += len(p.editsBefore(i))
	}
	if nEdits > 0 {
		c.Dist("seq:the-caller-edits-the-document-between-runs")
	}
	ref := refExecActsEdited(p.Data, p.Roots, refDefaultFns, 20000, p.editsBefore)
	for _, variant := range []string{"struct", "yaml"} {
		var specs []pipeline.Action
		decoded := true
		for i := range p.Roots {
			// an action that occurs twice in the sequence is ONE value (its operations are the same Go objects)
			// executed twice; every other action of the struct variant is passed as a pointer
			same := -1
			for j := 0; j < i; j++ {
				if canon(p.Roots[j]) == canon(p.Roots[i]) {
					same = j
					break
				}
			}
			if same >= 0 && len(specs) > same {
				specs = append(specs, specs[same])
				c.Dist("seq:same-action-value-executed-again")
				continue
			}
			if variant == "struct" {
				sv := p.Roots[i].spec()
				if i%2 == 1 {
					specs = append(specs, &sv)
				} else {
					specs = append(specs, sv)
				}
				continue
			}
			s, txt, err := p.Roots[i].specViaYAML()
			if !c.Direct("yaml-decodes", err == nil, map[string]any{"yaml": txt, "err": fmt.Sprint(err)}) {
				decoded = false
				break
			}
			specs = append(specs, s)
		}
		if !decoded {
			continue
		}
		run := c12ExecEdited(p.Data, specs, true, p.editsBefore)
		if strings.HasPrefix(run.text, "runaway") {
			if !c.searchMode {
				c.Direct("terminates("+variant+")", false, run.text)
			}
			continue
		}
		if !c.Direct("no-panic("+variant+")", run.outcome == "ok" && len(run.errs) == len(specs), run.text) {
			continue
		}
		v := "(" + variant + ")"
		roots, problem := c12Parse(run.rec)
		if !c.Direct("well-nested"+v, problem == "" && len(roots) == len(specs), map[string]any{"problem": problem, "trace": run.tr}) {
			continue
		}
		failed := false
		for i, rt := range roots {
			vv := v
			if i > 0 {
				vv = "(" + variant + ",later-action-on-the-same-executor)"
			}
			c12DirectRoot(c, flagsAt[i], &p.Roots[i], run, rt, run.errs[i], vv)
			if run.errs[i] != nil {
				failed = true
			}
		}
		if failed {
			c.Dist("seq:result:some-run-failed")
		} else {
			c.Dist("seq:result:all-ok")
		}
		c12RefDirect(c, ref, run, 0, v)
		if !c.searchMode {
			c.Corr("execSeq"+v, map[string]any{"tr": run.tr, "errs": run.errTags(), "data": run.dataWire()},
				map[string]any{"tr": mtr, "errs": merrs, "data": mdata})
		}
	}
}

// c12FailsAtExecution: the template text contains one of the actions that fail while the template is executed
// (evidence only: counts how many generated programs exercise that path).
func c12FailsAtExecution(t string) bool {
	for _, bad := range []string{".keep.y.", ".keep.x.", ".flagT.", "index .", "template \"", "fail \""} {
		if strings.Contains(t, bad) {
			return true
		}
	}
	return false
}

// c12DoesNotParse: the template text is one of the generated unparsable ones (evidence only).
func c12DoesNotParse(t string) bool {
	if refUnclosed(t) {
		return true
	}
	for _, bad := range []string{"{{ end }}", "{{ if }}", "{{ nosuchfunc }}", "{{ else }}", "{{ range }}"} {
		if strings.Contains(t, bad) {
			return true
		}
	}
	return false
}

// c12ExecEdited: as c12Exec — one Execute call per action on ONE executor — with the caller's edits (if any) made
// on the data container between the calls.
func c12ExecEdited(data W, acts []pipeline.Action, wantSnap bool, editsBefore func(i int) []c12Edit) *c12RunRes {
	run := &c12RunRes{rec: &c12Rec{wantSnap: wantSnap}}
	run.outcome, run.text = guard(func() {
		run.data = wireContainer(data)
		run.rec.data = run.data
		ex := c12NewExecutorFns(run.rec, run.data, refDefaultFns)
		for i, a := range acts {
			if editsBefore != nil {
				c12ApplyEditsDom(run.data, editsBefore(i))
			}
			run.errs = append(run.errs, ex.Execute(a))
		}
	})
	run.tr = run.rec.finish()
	return run
}

// refExecActsEdited: the reference for it (see refExecActs), with an event budget of its own
func refExecActsEdited(data W, roots []c12Act, fns map[string]string, budget int, editsBefore func(i int) []c12Edit) (res *refRes) {
	res = &refRes{}
	defer func() {
		if r := recover(); r != nil {
			u, ok := r.(refUnsupported)
			if !ok {
				panic(r)
			}
			res.OK, res.Why = false, u.why
		}
	}()
	root, ok := wireCont(deepCopyW(data))
	if !ok {
		refOut("data is not a container")
	}
	s := &refRun{data: root, defs: map[string]*c12Act{}, fns: fns, budget: budget}
	errs := make([]any, 0, len(roots))
	for i := range roots {
		if editsBefore != nil {
			for _, e := range editsBefore(i) {
				if e.Val == nil {
					refRemoveAt(s.data, e.Path)
				} else {
					refAddAt(s.data, e.Path, e.Val)
				}
			}
		}
		errs = append(errs, s.execAct(&roots[i]))
	}
	res.Errs, res.Ev, res.Data, res.OK = errs, s.ev, map[string]any{"m": s.data}, true
	if res.Ev == nil {
		res.Ev = [][]any{}
	}
	return res
}
