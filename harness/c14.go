package main

import (
	"encoding/json"
	"fmt"
	"math/rand"
	"sort"
	"strconv"
	"strings"

	"github.com/rkosegi/yaml-toolkit/pipeline"
	"gopkg.in/yaml.v3"
)

// C14 — iteration and calls: forEach per-item execution, scoped variables / arguments, loop order,
// define / call registry.
//
// The cases with direct predicates are PARAMETER records; the program is derived from the parameters
// (c14FEProg, c14LoopProg, c14CallProg, c14DefsProg) and so is the expected trace, in closed form, without
// any interpreter.  "rand" cases are free-form nested programs compared with the model.

func init() {
	register(&Prop{ID: "C14", Run: c14Run,
		Rule: "item texts (VALUE RANGE; foreach, callrep and nest records): plain words and — one item in three — texts with leading / trailing / inner white space (space, tab, NBSP, NEL, CR, line ends), white-space-only and empty texts, letter-case twins, non-ASCII incl. supplementary-plane characters and U+FFFD, characters that look like syntax ({ } ( ) [ ] = : # ! \\ / . ~ -), digit strings beyond 64 bits and at 2^53+1, boolean / null spellings: the variable is bound to the item AS IT IS (texts yaml.v3 cannot carry through the generated-YAML entry point are left out; keys of a queried container stay path-safe, with letter-case twins). foreach: item source {literal items, list query, dotted list query, query of a list inside a list (`nest[1]`), query of a SPARSE list the program itself fills through indexed paths (`xs[3]`; the slots in between are padding), leaf query, container query, list of containers, missing path} x NULL entries (YAML nulls, never-written slots, a null leaf; one, several, all of them — a null entry is an item) x variable {default, named} x body {ext trace, log, both} + logging child + failing position {none, top-level abort/ext-fail (first item), conditional child at the first flagged item, non-boolean condition}, x the body WRITES INTO THE LIST IT ITERATES OVER (sources list, deep, nested, sparse, clist: a template operation overwrites one slot in place on every pass — a slot visited later, the current one, one visited before, the slot after the last —: the items are the entries the list had when the loop started) x a child of the body logs a template that FAILS WHILE IT IS EXECUTED after having produced output (the line is the text as it stands, the lines rendered after it are what they are without it) x the same forEach operation VALUE executed twice (the second run does what the first did) x a log operation after the forEach / after the call that reads the variable / the arguments through a TEMPLATE (gone for the template engine's snapshot as for Lookup), with the direct predicates closed-form trace AND number of passes through the body == number of items (counted on listener events, whatever the body prints) AND final data == data at loop start except for the written slot; first the smallest such records, then random ones; loop: bound n in 0..6 x failure in iteration k (body or post) x counter written by post or body x with/without init; call: argsPath {default, single key, dotted 2 and 3, templated} x static (a text of the value range above, passed as it is) / templated argument x an argument (top-level and nested) whose template fails while it is executed after having produced output (it is passed as the text it is, the others rendered) x nested callee with its own argsPath x failure {none, inner, outer} x pre-existing data at the path's parent; callrep: ONE call operation that runs m = 0..5 times with argument templates (top-level and nested) whose input changes between the runs — in a loop body (input = counter), in a forEach body (input = item; call directly among the body's operations or in a `steps` child; literal items / list query) or as the same operation value passed to Execute repeatedly — x argsPath x failure from the k-th run on: the m-th run must see the arguments rendered against the data of the m-th run (closed-form trace); defs: all sequences of length<=4 over {define f=first, define f=second, define g, call f, call g, call undefined}; nest: 1..3 iteration mechanisms nested in each other — forEach (literal items / list query whose list may hold null entries, default or custom variable) / loop (bound 0..3) / call, each holding the next one among its body's OPERATIONS or in a `steps` child — whose innermost body reads every variable in scope when it runs (call arguments, or a template operation printed by a callable), x optional ext trace per body x failure from the k-th innermost run on: closed-form trace = product of the layers' items in order up to the failure, variables and arguments gone, nothing else disturbed; rand: random nested programs (texts now and then hold a template that fails while it is executed or does not parse; forEach in forEach — also over lists with null entries and over a null leaf —, loops and calls inside bodies, set/template bodies — some template operations write into a slot of one of the lists the program iterates over —, conditions that may be blank, depth<=3) compared with the model and with the independent Go reference interpreter of c12_ref.go (direct predicate; the reference answers inside its domain: plain dotted key paths, container queries with at most one key). foreach, ROUND 6: VARIABLE NAMES THAT LOOK LIKE SYNTAX — a dotted path whose first segment is a leaf of the document (`other.item`), the list being iterated (`xs.cur`), a container (`keep.it`, `keep.x.y`), the queried container / leaf, or nothing (`fresh.v`); leading / trailing / doubled separators; a JSON pointer, a glob, k=v, a printf verb, a placeholder, an escape sequence, digits only, `-` — x every item source x failure position (first a fixed table: every name x literal items / list query x completes / aborts): the item is bound under exactly that key, the key is gone afterwards and the document after the loop is the document before it (the bodies of these records print a fixed text where the others print the item: no field chain can spell such a name). Every program runs twice (Go structs, generated YAML). Non-trivial: at least one iteration / call actually executes. Distinct = distinct canonical case JSON.",
		Assumptions: []string{
			"template semantics owned by the model: literal text and {{ .a.b }} field chains of scalars; strconv.ParseBool; trimming (template operations with trim, conditions) strips what strings.TrimSpace strips — unicode.IsSpace, NBSP and NEL included: the model's `trim` lists the same characters",
			"loop counters are written by the harness' own ext action `inc` (data[id]++, data[id_go] := data[id] < n, data[id_end] := !(data[id] < n)), mirrored by the model",
			"container queries: Go map order is unspecified, so traces are compared as multisets and bodies have per-item disjoint effects",
			"variable names / argument paths are not otherwise present in the data as a key (the property's domain) and hold no index group; bodies do not write below the loop variable",
			"item source of a list query = the entries the list has when the forEach starts (a body that overwrites or appends slots of that list does not change which items the running loop visits)",
		}})
	evals["C14"] = c14Eval
	shrinkers["C14"] = shrinkJSON
}

const c14Fuel = 100000

// ---------------------------------------------------------------- foreach

type c14FE struct {
	Source string   `json:"source"` // items | list | deep | nested | sparse | leaf | cont | clist | missing
	Items  []string `json:"items"`  // item texts (clist: the n fields; cont: the keys)
	// per item: the entry of the queried list (list, deep, nested, sparse) / the queried leaf is a NULL.  A null
	// entry is an item like any other: the body runs for it, with the variable bound to a null.
	//   list, deep  the data holds the list, YAML nulls included
	//   nested      the list sits inside another list (query `nest[1]`)
	//   sparse      the list does not exist at first: the program's own leading operations write the non-null
	//               items through indexed paths (`xs[3]`), the slots in between are the padding that leaves
	Null  []bool  `json:"null,omitempty"`
	Bad   []bool  `json:"bad"` // clist: per item, whether the failing child's condition holds
	Var   *string `json:"var"`
	Ext   bool    `json:"ext"`   // body has `ext trace E`
	Log   bool    `json:"log"`   // body has `log L:<item>`
	Child bool    `json:"child"` // body has a child (order 5) logging C:<item>
	Fail  string  `json:"fail"`  // "" | abort | extfail (top level, every item) | cabort | cext (child, order 1, conditional) | cond (child with non-boolean condition)
	When  string  `json:"when"`  // condition of the failing child for non-clist sources: "" (none) | true | false
	// > 0: the body WRITES INTO THE ITEM SOURCE while it is being iterated (sources list, deep, nested, sparse, clist): every
	// pass overwrites slot Write-1 of the queried list IN PLACE — a template operation whose path is the indexed path
	// of that slot (`xs[2]`); Write-1 == number of items is the slot after the last one (the list grows).  The slot may
	// have been visited already, be the current one, or be still to come.  The items of the loop are the entries the
	// list had WHEN THE LOOP STARTED: the pass for slot j is bound to the original entry, not to what an earlier pass
	// put there, and there are exactly as many passes as there were items.
	Write int `json:"write,omitempty"`
	// the body has one more child (order 0, before the others) that logs a template which PARSES and FAILS WHILE IT
	// IS BEING EXECUTED, after it has produced output (a field of a scalar): rendering a message is lenient — the line
	// is the text as it stands — and every line rendered afterwards is what it is without that neighbour
	Noise bool `json:"noise,omitempty"`
	// the forEach operation VALUE is executed twice by the executor (never together with Write): the second run
	// does what the first one did
	Twice bool `json:"twice,omitempty"`
	// the forEach is followed by a log operation that READS THE VARIABLE THROUGH A TEMPLATE (the data snapshot the
	// template engine gets — another route than Lookup): gone means gone there too
	After bool `json:"after,omitempty"`
	// source items only — LITERAL ITEMS THAT ARE NOT PLAIN TEXTS ("item sources: literal items …" — an entry of the
	// item list is a text, a TEMPLATE of the data or a REFERENCE to a leaf of the data) whose value depends on what
	// the BODY itself writes: per item "" (the text Items[i] as it is) | "tmpl" (the item is the template
	// `{{ .acc }}` followed by Items[i]) | "ref" (the item is a reference to the leaf `acc`).  With any of them the
	// data holds acc = "s0" and the body's first operation is a template operation that stores `A-<item>` at `acc`.
	// "forEach runs its body once per item, in item order, with the loop variable bound to that item": the i-th pass
	// is bound to the i-th item as it is WHEN ITS TURN COMES — the linked-list walk `item: [{ref: next}, {ref: next}]`
	// visits a node, then the node the body found there —, so the item of pass i is rendered from the `acc` pass i-1
	// left (closed form: c14FE.resolved).
	Dyn []string `json:"dyn,omitempty"`
}

// dyn: some item of the list is a template of / a reference to the leaf the body writes
func (p *c14FE) dyn() bool {
	if p.Source != "items" {
		return false
	}
	for i := range p.Items {
		if i < len(p.Dyn) && (p.Dyn[i] == "tmpl" || p.Dyn[i] == "ref") {
			return true
		}
	}
	return false
}

// resolved: the items of a record with dynamic items, in closed form: acc_0 = "s0"; item_i = Items[i] | acc_i + Items[i]
// | acc_i; acc_(i+1) = "A-" + item_i
func (p *c14FE) resolved() []string {
	acc := "s0"
	out := make([]string, len(p.Items))
	for i, it := range p.Items {
		switch {
		case i < len(p.Dyn) && p.Dyn[i] == "tmpl":
			out[i] = acc + it
		case i < len(p.Dyn) && p.Dyn[i] == "ref":
			out[i] = acc
		default:
			out[i] = it
		}
		acc = "A-" + out[i]
	}
	return out
}

const c14NoiseMsg = "N-{{ .other.nope }}-{{ .keep.x }}"

func (p *c14FE) writable() bool {
	switch p.Source {
	case "list", "deep", "nested", "sparse", "clist":
		return true
	}
	return false
}

// the path of the queried list (sources with a list)
func (p *c14FE) listPath() string {
	switch p.Source {
	case "deep":
		return "deep.er.xs"
	case "nested":
		return "nest[1]"
	}
	return "xs"
}

func c14VarName(v *string) string {
	if v == nil {
		return "forEach"
	}
	return *v
}

func (p *c14FE) ref() string {
	if !c14PlainVar(p.Var) {
		return c14OpaqueRef // a name no field chain can spell: the body's texts do not read the variable (c14LookVars)
	}
	if p.Source == "clist" {
		return "{{ ." + c14VarName(p.Var) + ".n }}"
	}
	return "{{ ." + c14VarName(p.Var) + " }}"
}

func (p *c14FE) nullable() bool {
	switch p.Source {
	case "list", "deep", "nested", "sparse", "leaf":
		return true
	}
	return false
}

func (p *c14FE) isNull(i int) bool { return p.nullable() && i < len(p.Null) && p.Null[i] }

// what the templates of the body print for item i
func (p *c14FE) text(i int) string {
	if !c14PlainVar(p.Var) {
		return c14OpaqueRef
	}
	if p.isNull(i) {
		return "<no value>"
	}
	if p.dyn() {
		return p.resolved()[i]
	}
	return p.Items[i]
}

// norm brings a (possibly shrunk) record back into the domain
func (p *c14FE) norm() {
	if !c14PlainVar(p.Var) {
		// a variable name that looks like syntax of another notation (c14LookVars): the body's texts cannot read it
		// through a field chain, so the records keep to what does not need to — no slot written from the item, no
		// condition over a field of the item, no template reading the variable afterwards
		p.Write, p.After = 0, false
		if p.Source == "clist" {
			p.Fail = ""
		}
		if strings.ContainsAny(*p.Var, "[]") || strings.Contains(*p.Var, "{{") || *p.Var == "" {
			p.Var = sp("it") // (an index group in a name is path syntax of AddValue itself: outside the domain)
		}
	}
	if p.Source != "items" || !c14PlainVar(p.Var) || c14VarName(p.Var) == "acc" {
		p.Dyn = nil
	}
	if len(p.Dyn) > len(p.Items) {
		p.Dyn = p.Dyn[:len(p.Items)]
	}
	for i := range p.Dyn {
		// (an item text that holds template syntax of its own stays a plain item)
		if p.Dyn[i] != "ref" && (p.Dyn[i] != "tmpl" || strings.Contains(p.Items[i], "{{") || strings.Contains(p.Items[i], "}}")) {
			p.Dyn[i] = ""
		}
	}
	if p.dyn() {
		p.Twice = false // (the second run would start from the `acc` the first one left)
	}
	defer func() {
		// after the items are settled: the written slot is one of the list's, or the one after the last
		if !p.writable() || p.Write < 0 || len(p.Items) == 0 {
			p.Write = 0
		}
		if p.Write > len(p.Items)+1 {
			p.Write = len(p.Items) + 1
		}
		if p.Write > 0 {
			p.Twice = false
		}
	}()
	if !p.nullable() {
		p.Null = nil
	}
	if len(p.Null) > len(p.Items) {
		p.Null = p.Null[:len(p.Items)]
	}
	if p.Source == "sparse" {
		// written by template operations: an empty text cannot be written; nothing pads beyond the last written slot
		for len(p.Null) < len(p.Items) {
			p.Null = append(p.Null, false)
		}
		for i, it := range p.Items {
			if it == "" || strings.Contains(it, "{{") {
				p.Null[i] = true
			}
		}
		for len(p.Items) > 0 && p.Null[len(p.Items)-1] {
			p.Items, p.Null = p.Items[:len(p.Items)-1], p.Null[:len(p.Items)-1]
		}
	}
}

// data: the document the executor starts with; atLoop = the document as it is when the forEach starts (differs
// for the sparse source, whose list the program itself writes)
func (p *c14FE) data() W { return p.dataAt(false) }

func (p *c14FE) dataAt(atLoop bool) W { return p.dataWith(atLoop, 0) }

// dataAfter: the document after a loop whose body started `passes` times: as it was when the loop started, except
// for the slot the body writes into (which holds what the LAST pass put there)
func (p *c14FE) dataAfter(passes int) W { return p.dataWith(true, passes) }

func (p *c14FE) dataWith(atLoop bool, passes int) W {
	d := map[string]any{"keep": map[string]any{"x": 1}, "other": "o"}
	items := []any{}
	for i, s := range p.Items {
		if p.isNull(i) {
			items = append(items, nil)
		} else {
			items = append(items, s)
		}
	}
	written := func(l []any) []any {
		if p.Write > 0 && passes > 0 && len(l) > 0 {
			v := "W-" + p.text(passes-1)
			if p.Write-1 < len(l) {
				l[p.Write-1] = v
			} else {
				l = append(l, v)
			}
		}
		return l
	}
	if p.Source != "clist" {
		items = written(items)
	}
	if p.dyn() {
		// the leaf the body writes and the dynamic items read: "s0" at first, `A-<item>` after a pass
		d["acc"] = "s0"
		if passes > 0 {
			d["acc"] = "A-" + p.resolved()[passes-1]
		}
	}
	switch p.Source {
	case "list":
		d["xs"] = items
	case "sparse":
		if atLoop && len(items) > 0 {
			d["xs"] = items
		}
	case "deep":
		d["deep"] = map[string]any{"er": map[string]any{"xs": items}}
	case "nested":
		d["nest"] = []any{"pad", items, nil}
	case "leaf":
		if len(p.Items) > 0 {
			d["x"] = items[0]
		}
	case "cont":
		m := map[string]any{}
		for i, s := range p.Items {
			m[s] = i
		}
		d["m"] = m
	case "clist":
		l := []any{}
		for i, s := range p.Items {
			l = append(l, map[string]any{"n": s, "bad": i < len(p.Bad) && p.Bad[i]})
		}
		d["xs"] = written(l)
	}
	return plainWire(d)
}

func (p *c14FE) prog() []c12Op {
	op := c12Op{K: "forEach", Var: p.Var}
	switch p.Source {
	case "items":
		its := []c12VoR{}
		for i, s := range p.Items {
			switch {
			case i < len(p.Dyn) && p.Dyn[i] == "tmpl" && p.dyn():
				its = append(its, c12VoR{Val: "{{ .acc }}" + s})
			case i < len(p.Dyn) && p.Dyn[i] == "ref" && p.dyn():
				its = append(its, c12VoR{IsRef: true, Ref: "acc"})
			default:
				its = append(its, c12VoR{Val: s})
			}
		}
		op.Items = &its
	case "list", "clist", "sparse":
		op.Query = &c12VoR{Val: "xs"}
	case "deep":
		op.Query = &c12VoR{Val: "deep.er.xs"}
	case "nested":
		op.Query = &c12VoR{Val: "nest[1]"}
	case "leaf":
		op.Query = &c12VoR{Val: "x"}
	case "cont":
		op.Query = &c12VoR{Val: "m"}
	default:
		op.Query = &c12VoR{Val: "no.such.path"}
	}
	body := &c12Act{Name: "body"}
	if p.dyn() {
		body.Ops = append(body.Ops, c12Op{K: "template", Tmpl: "A-" + p.ref(), Path: "acc"})
	}
	if p.Write > 0 {
		body.Ops = append(body.Ops, c12Op{K: "template", Tmpl: "W-" + p.ref(), Path: fmt.Sprintf("%s[%d]", p.listPath(), p.Write-1)})
	}
	if p.Log {
		body.Ops = append(body.Ops, c12Op{K: "log", Msg: "L:" + p.ref()})
	}
	if p.Ext {
		body.Ops = append(body.Ops, c12Op{K: "ext", Fn: "trace", ID: "E"})
	}
	switch p.Fail {
	case "abort":
		body.Ops = append(body.Ops, c12Op{K: "abort", Msg: "boom " + p.ref()})
	case "extfail":
		if !p.Ext {
			body.Ops = append(body.Ops, c12Op{K: "ext", Fn: "fail", ID: "F"})
		}
	case "cabort", "cext", "cond":
		fc := c12Act{Name: "failing", Order: 1}
		switch {
		case p.Fail == "cond":
			fc.When = sp("not-a-bool " + p.ref())
		case p.Source == "clist":
			fc.When = sp("{{ ." + c14VarName(p.Var) + ".bad }}")
		case p.When != "":
			fc.When = sp(p.When)
		}
		if p.Fail == "cext" {
			fc.Ops = []c12Op{{K: "ext", Fn: "fail", ID: "F"}}
		} else {
			fc.Ops = []c12Op{{K: "abort", Msg: "child boom"}}
		}
		body.Children = append(body.Children, fc)
	}
	if p.Child {
		body.Children = append([]c12Act{{Name: "tail", Order: 5, Ops: []c12Op{{K: "log", Msg: "C:" + p.ref()}}}}, body.Children...)
	}
	if p.Noise {
		body.Children = append(body.Children, c12Act{Name: "noise", Order: 0, Ops: []c12Op{{K: "log", Msg: c14NoiseMsg}}})
	}
	op.Body = body
	var out []c12Op
	if p.Source == "sparse" {
		// the list is filled through indexed paths, highest index first when there is an even number of items
		for j := range p.Items {
			i := j
			if len(p.Items)%2 == 0 {
				i = len(p.Items) - 1 - j
			}
			if !p.isNull(i) {
				out = append(out, c12Op{K: "template", Tmpl: p.Items[i], Path: fmt.Sprintf("xs[%d]", i)})
			}
		}
	}
	if p.Twice {
		out = append(out, op) // made one and the same operation value by the evaluation (share)
	}
	out = append(out, op)
	if p.After {
		out = append(out, c12Op{K: "log", Msg: "Z:" + p.ref()})
	}
	return out
}

// expected (r / l / t) events, in closed form; failed = the run must return an error; iterations = how often
// the body must have started: once per item — nulls included — up to and including the failing one
func (p *c14FE) expect() (evs [][]any, failed bool, iterations int) {
	items := make([]string, len(p.Items))
	for i := range p.Items {
		items[i] = p.text(i)
	}
	switch p.Source {
	case "leaf":
		if len(items) > 1 {
			items = items[:1]
		}
	case "missing":
		items = nil
	}
	for i, it := range items {
		iterations++
		if p.Ext {
			evs = append(evs, []any{"r", "E"})
		} else if p.Fail == "extfail" {
			evs = append(evs, []any{"r", "F"})
			return evs, true, iterations
		}
		if p.Log {
			evs = append(evs, []any{"l", "L:" + it})
		}
		if p.Fail == "abort" {
			return evs, true, iterations
		}
		if p.Noise {
			// the message cannot be rendered: the line is the text as it stands
			evs = append(evs, []any{"l", c14NoiseMsg})
		}
		switch p.Fail {
		case "cond":
			evs = append(evs, []any{"t", "not-a-bool " + p.ref(), nil})
			return evs, true, iterations
		case "cabort", "cext":
			fire := true
			if p.Source == "clist" {
				fire = i < len(p.Bad) && p.Bad[i]
				evs = append(evs, []any{"t", "{{ ." + c14VarName(p.Var) + ".bad }}", fire})
			} else if p.When != "" {
				fire = p.When == "true"
				evs = append(evs, []any{"t", p.When, fire})
			}
			if fire {
				if p.Fail == "cext" {
					evs = append(evs, []any{"r", "F"})
				}
				return evs, true, iterations
			}
			if p.Source != "clist" && p.When == "" {
				// second evaluation of an absent condition: nothing
			}
		}
		if p.Child {
			evs = append(evs, []any{"l", "C:" + it})
		}
	}
	return evs, false, iterations
}

// ---------------------------------------------------------------- loop

type c14Loop struct {
	N       int    `json:"n"`       // bound: the test holds while i < n
	K       int    `json:"k"`       // 0: no failure; else the failing child fires in iteration k (1-based)
	FailPos string `json:"failPos"` // body | post
	IncIn   string `json:"incIn"`   // post | body : who writes the counter
	Init    bool   `json:"init"`    // counter initialised by the loop's init action (else present in the data)
	NoPost  bool   `json:"noPost"`  // no post action at all (then the body writes the counter)
}

func (p *c14Loop) incInBody() bool { return p.IncIn == "body" || p.NoPost }

func (p *c14Loop) data() W {
	d := map[string]any{"keep": map[string]any{"x": 1}}
	if !p.Init {
		d["i"], d["i_go"], d["i_end"] = 0, 0 < p.N, !(0 < p.N)
	}
	return plainWire(d)
}

func (p *c14Loop) prog() []c12Op {
	op := c12Op{K: "loop", Test: "{{ .i_go }}"}
	if p.Init {
		op.Init = &c12Act{Name: "init", Ops: []c12Op{{K: "set", Data: plainWire(map[string]any{"i": 0, "i_go": 0 < p.N, "i_end": !(0 < p.N)})},
			{K: "log", Msg: "init"}}}
	}
	failing := c12Act{Name: "failing", Order: 2, When: sp("{{ .j_end }}"), Ops: []c12Op{{K: "abort", Msg: "stop at {{ .j }}"}}}
	countJ := c12Act{Name: "countj", Order: 1, Ops: []c12Op{{K: "ext", Fn: "inc", ID: "j", N: p.K}}}
	body := &c12Act{Name: "body", Ops: []c12Op{{K: "log", Msg: "body:{{ .i }}"}}}
	post := &c12Act{Name: "post", Ops: []c12Op{{K: "log", Msg: "post:{{ .i }}"}}}
	inc := c12Op{K: "ext", Fn: "inc", ID: "i", N: p.N}
	if p.incInBody() {
		body.Ops = append(body.Ops, inc)
	} else {
		post.Ops = append(post.Ops, inc)
	}
	if p.K > 0 {
		if p.FailPos == "post" && !p.NoPost {
			post.Children = []c12Act{failing, countJ}
		} else {
			body.Children = []c12Act{failing, countJ}
		}
	}
	op.Body = body
	if !p.NoPost {
		op.Post = post
	}
	return []c12Op{op}
}

// expected (r / l / t) events: init, (test, body, post)^n, test — cut at the failure
func (p *c14Loop) expect() (evs [][]any, failed bool, iterations int) {
	if p.Init {
		evs = append(evs, []any{"l", "init"})
	}
	i := 0
	failHere := func(m int) bool {
		evs = append(evs, []any{"r", "j"}, []any{"t", "{{ .j_end }}", m >= p.K})
		return m >= p.K
	}
	for m := 1; ; m++ {
		evs = append(evs, []any{"t", "{{ .i_go }}", i < p.N})
		if !(i < p.N) {
			return evs, false, iterations
		}
		iterations++
		// body: Ext is declared before Log
		if p.incInBody() {
			evs = append(evs, []any{"r", "i"})
			i++
		}
		evs = append(evs, []any{"l", "body:" + strconv.Itoa(i)})
		if p.K > 0 && (p.FailPos != "post" || p.NoPost) && failHere(m) {
			return evs, true, iterations
		}
		if !p.NoPost {
			if !p.incInBody() {
				evs = append(evs, []any{"r", "i"})
				i++
			}
			evs = append(evs, []any{"l", "post:" + strconv.Itoa(i)})
			if p.K > 0 && p.FailPos == "post" && failHere(m) {
				return evs, true, iterations
			}
		}
	}
}

// ---------------------------------------------------------------- call

type c14Call struct {
	ArgsPath *string `json:"argsPath"` // nil (default "args") | p | p.q | p.q.r | {{ .where }}
	Tmpl     bool    `json:"tmpl"`     // the argument value is a template of the data
	Nested   bool    `json:"nested"`   // f calls g (from a child action) with its own argsPath
	Inner    *string `json:"inner"`    // g's argsPath
	Fail     string  `json:"fail"`     // "" | inner | outer
	Sibling  bool    `json:"sibling"`  // data already holds another key under the path's parent
	// one more argument whose template PARSES and FAILS WHILE IT IS EXECUTED after having produced output (a field of
	// a scalar): rendering the arguments is lenient — that argument is the text as it stands, the others are
	// rendered as they are without it
	BadArg bool `json:"badArg,omitempty"`
	// the call is followed by a log operation that READS THE ARGUMENTS THROUGH A TEMPLATE (the data snapshot the
	// template engine gets — another route than Lookup): gone means gone there too
	After bool `json:"after,omitempty"`
	// the static argument text (used when the argument is no template; "" = "V"): the value range of a text — the
	// callable sees the argument AS IT IS (white space around it, case, non-ASCII, syntax look-alikes, long digit strings)
	Val string `json:"val,omitempty"`
	// THE CALLABLE'S BODY WRITES AT ITS OWN ARGUMENTS PATH ("for all callable bodies"): a set operation — the first
	// thing the body does — that fills in a default next to the arguments it was given:
	//   path     set {dflt: D} at the arguments path (default strategy: merged into the arguments)
	//   merge    the same with the strategy spelled out and a payload that holds a map of its own
	//   root     set at the ROOT of the document, the payload spelling out the arguments path as nested maps
	//            ({p: {q: {dflt: D}}}): merged key by key down to the arguments
	// The arguments stay readable inside (the trace is the same), and when the call finishes — normally or with an
	// error — the arguments are gone: all of them, what the body added to them included.
	SetArgs string `json:"setArgs,omitempty"`
}

// the static argument of a call record
func (p *c14Call) static() string {
	if p.Val == "" || strings.Contains(p.Val, "{{") {
		return "V"
	}
	return p.Val
}

const c14BadArg = "B-{{ .name.nope }}-{{ .keep.x }}"

func (p *c14Call) path() string {
	if p.ArgsPath == nil {
		return "args"
	}
	if strings.Contains(*p.ArgsPath, "{{") {
		return "dyn.z"
	}
	return *p.ArgsPath
}

func (p *c14Call) innerPath() string {
	if p.Inner == nil {
		return "args"
	}
	return *p.Inner
}

func (p *c14Call) data() W {
	d := map[string]any{"name": "N", "where": "dyn.z", "keep": map[string]any{"x": 1}}
	if p.Sibling {
		segs := strings.Split(p.path(), ".")
		if len(segs) >= 2 {
			// parent container exists and holds something else
			cur := d
			for _, s := range segs[:len(segs)-1] {
				nx := map[string]any{}
				cur[s] = nx
				cur = nx
			}
			cur["sibling"] = "stays"
		}
	}
	return plainWire(d)
}

func (p *c14Call) prog() []c12Op {
	ap, ip := p.path(), p.innerPath()
	f := &c12Act{Name: "f", Ops: []c12Op{{K: "log", Msg: "f:{{ ." + ap + ".x }}/{{ ." + ap + ".sub.z }}/{{ ." + ap + ".n }}"}}}
	if p.BadArg {
		f.Ops[0].Msg += "/{{ ." + ap + ".bad }}/{{ ." + ap + ".sub.bad }}"
	}
	switch p.SetArgs {
	case "path":
		f.Ops = append(f.Ops, c12Op{K: "set", Path: ap, Data: plainWire(map[string]any{"dflt": "D"})})
	case "merge":
		f.Ops = append(f.Ops, c12Op{K: "set", Path: ap, Strategy: sp("merge"), Data: plainWire(map[string]any{"dflt": "D", "more": map[string]any{"k": 1}})})
	case "root":
		var payload any = map[string]any{"dflt": "D"}
		segs := strings.Split(ap, ".")
		for i := len(segs) - 1; i >= 0; i-- {
			payload = map[string]any{segs[i]: payload}
		}
		f.Ops = append(f.Ops, c12Op{K: "set", Data: plainWire(payload)})
	}
	if p.Nested {
		f.Children = append(f.Children, c12Act{Name: "inner", Order: 1, Ops: []c12Op{
			{K: "call", Name: "g", ArgsPath: p.Inner, Args: plainWire(map[string]any{"y": "{{ ." + ap + ".x }}!"})}}})
	}
	if p.Fail == "outer" {
		f.Children = append(f.Children, c12Act{Name: "fail", Order: 2, Ops: []c12Op{{K: "abort", Msg: "outer"}}})
	}
	f.Children = append(f.Children, c12Act{Name: "tail", Order: 3, Ops: []c12Op{{K: "log", Msg: "f-tail"}}})
	g := &c12Act{Name: "g", Ops: []c12Op{{K: "log", Msg: "g:{{ ." + ip + ".y }}"}}}
	if p.Fail == "inner" {
		g.Children = []c12Act{{Name: "fail", Order: 1, Ops: []c12Op{{K: "ext", Fn: "fail", ID: "G"}}}}
	}
	val := p.static()
	if p.Tmpl {
		val = "{{ .name }}-{{ .keep.x }}"
	}
	args := map[string]any{"x": val, "n": 5, "sub": map[string]any{"z": "{{ .name }}"}}
	if p.BadArg {
		args["bad"] = c14BadArg
		args["sub"] = map[string]any{"z": "{{ .name }}", "bad": c14BadArg}
	}
	out := []c12Op{
		{K: "define", Name: "g", Body: g},
		{K: "define", Name: "f", Body: f},
		{K: "call", Name: "f", ArgsPath: p.ArgsPath, Args: plainWire(args)},
	}
	if p.After {
		out = append(out, c12Op{K: "log", Msg: "Z:{{ ." + ap + ".x }}/{{ ." + ip + ".y }}"})
	}
	return out
}

func (p *c14Call) expect() (evs [][]any, failed bool) {
	val := p.static()
	if p.Tmpl {
		val = "N-1"
	}
	if p.BadArg {
		// the value of the argument that could not be rendered is its text (a value is printed, not rendered again)
		evs = append(evs, []any{"l", "f:" + val + "/N/5/" + c14BadArg + "/" + c14BadArg})
	} else {
		evs = append(evs, []any{"l", "f:" + val + "/N/5"})
	}
	if p.Nested {
		evs = append(evs, []any{"l", "g:" + val + "!"})
		if p.Fail == "inner" {
			evs = append(evs, []any{"r", "G"})
			return evs, true
		}
	}
	if p.Fail == "outer" {
		return evs, true
	}
	evs = append(evs, []any{"l", "f-tail"})
	return evs, false
}

// what the log operation after the call prints: the arguments are gone, for the template engine too
const c14CallAfter = "Z:<no value>/<no value>"

// ---------------------------------------------------------------- repeated calls

// c14CallRep: ONE call operation that runs several times while its argument templates' inputs change
// between the runs — inside a loop (counter), inside a forEach (item; directly in the body's operations,
// which are cloned per item, or in a `steps` child, which is not), or by executing the same operation
// value repeatedly.  "call runs the named callable with its rendered arguments visible at the arguments
// path" holds for EVERY run: the m-th run sees the arguments rendered against the data of the m-th run.
type c14CallRep struct {
	Mode     string   `json:"mode"`     // loop | foreach | exec
	Place    string   `json:"place"`    // ops | child : where the call sits in the loop / forEach body
	N        int      `json:"n"`        // loop: bound; exec: number of Execute(call) calls
	Items    []string `json:"items"`    // foreach: the items
	Query    bool     `json:"query"`    // foreach: items come from a list query instead of literal items
	Var      *string  `json:"var"`      // foreach: variable
	ArgsPath *string  `json:"argsPath"` // nil | p | p.q | {{ .where }}
	Nested   bool     `json:"nested"`   // the changing input is also used inside a nested argument map
	Const    bool     `json:"const"`    // a constant argument next to the templated one
	Log      bool     `json:"log"`      // the body also logs the changing input itself
	K        int      `json:"k"`        // 0: no failure; else the callable fails from its k-th run on
}

func (p *c14CallRep) path() string {
	c := c14Call{ArgsPath: p.ArgsPath}
	return c.path()
}

// the changing input as a template
func (p *c14CallRep) in() string {
	if p.Mode == "foreach" {
		return "{{ ." + c14VarName(p.Var) + " }}"
	}
	return "{{ .i }}"
}

func (p *c14CallRep) data() W {
	d := map[string]any{"where": "dyn.z", "keep": map[string]any{"x": 1}}
	if p.Mode == "foreach" {
		if p.Query {
			items := []any{}
			for _, s := range p.Items {
				items = append(items, s)
			}
			d["xs"] = items
		}
	} else {
		d["i"], d["i_go"], d["i_end"] = 0, 0 < p.N, !(0 < p.N)
	}
	return plainWire(d)
}

func (p *c14CallRep) prog() []c12Op {
	ap := p.path()
	msg := "f:{{ ." + ap + ".n }}"
	args := map[string]any{"n": p.in()}
	if p.Nested {
		msg += "/{{ ." + ap + ".sub.z }}"
		args["sub"] = map[string]any{"z": "s" + p.in() + "."}
	}
	if p.Const {
		msg += "/{{ ." + ap + ".c }}"
		args["c"] = "C"
	}
	f := &c12Act{Name: "f", Ops: []c12Op{{K: "log", Msg: msg}}}
	if p.K > 0 {
		f.Children = []c12Act{
			{Name: "failing", Order: 2, When: sp("{{ .j_end }}"), Ops: []c12Op{{K: "abort", Msg: "stop at {{ .j }}"}}},
			{Name: "countj", Order: 1, Ops: []c12Op{{K: "ext", Fn: "inc", ID: "j", N: p.K}}}}
	}
	call := c12Op{K: "call", Name: "f", ArgsPath: p.ArgsPath, Args: plainWire(args)}
	body := &c12Act{Name: "body"}
	if p.Log && p.Mode != "exec" {
		body.Ops = append(body.Ops, c12Op{K: "log", Msg: "L:" + p.in()})
	}
	if p.Place == "child" {
		body.Children = []c12Act{{Name: "docall", Order: 1, Ops: []c12Op{call}}}
	} else {
		body.Ops = append(body.Ops, call)
	}
	out := []c12Op{{K: "define", Name: "f", Body: f}}
	switch p.Mode {
	case "loop":
		out = append(out, c12Op{K: "loop", Test: "{{ .i_go }}", Body: body,
			Post: &c12Act{Name: "post", Ops: []c12Op{{K: "ext", Fn: "inc", ID: "i", N: p.N}}}})
	case "foreach":
		op := c12Op{K: "forEach", Var: p.Var, Body: body}
		if p.Query {
			op.Query = &c12VoR{Val: "xs"}
		} else {
			its := []c12VoR{}
			for _, s := range p.Items {
				its = append(its, c12VoR{Val: s})
			}
			op.Items = &its
		}
		out = append(out, op)
	default: // exec: the SAME call operation executed n times, the counter advanced in between
		for m := 0; m < p.N; m++ {
			out = append(out, call, c12Op{K: "ext", Fn: "inc", ID: "i", N: p.N})
		}
	}
	return out
}

// expected (r / l / t) events and, per top-level Execute call, whether it returns an error — in closed form
func (p *c14CallRep) expect() (evs [][]any, errs []bool, runs int) {
	// the m-th run (1-based) of the callable with input text v; true = it fails
	inv := func(m int, v string) bool {
		runs++
		msg := "f:" + v
		if p.Nested {
			msg += "/s" + v + "."
		}
		if p.Const {
			msg += "/C"
		}
		evs = append(evs, []any{"l", msg})
		if p.K > 0 {
			evs = append(evs, []any{"r", "j"}, []any{"t", "{{ .j_end }}", m >= p.K})
			return m >= p.K
		}
		return false
	}
	// one pass through the loop / forEach body; Call is declared before Log in the operation set
	body := func(m int, v string) bool {
		if p.Log && p.Place == "child" {
			evs = append(evs, []any{"l", "L:" + v})
		}
		if inv(m, v) {
			return true
		}
		if p.Log && p.Place != "child" {
			evs = append(evs, []any{"l", "L:" + v})
		}
		return false
	}
	errs = []bool{false} // define
	switch p.Mode {
	case "loop":
		for i := 0; ; i++ {
			evs = append(evs, []any{"t", "{{ .i_go }}", i < p.N})
			if !(i < p.N) {
				return evs, append(errs, false), runs
			}
			if body(i+1, strconv.Itoa(i)) {
				return evs, append(errs, true), runs
			}
			evs = append(evs, []any{"r", "i"})
		}
	case "foreach":
		for m, it := range p.Items {
			if body(m+1, it) {
				return evs, append(errs, true), runs
			}
		}
		return evs, append(errs, false), runs
	default:
		for m := 0; m < p.N; m++ {
			errs = append(errs, inv(m+1, strconv.Itoa(m)), false)
			evs = append(evs, []any{"r", "i"})
		}
		return evs, errs, runs
	}
}

// the counters written by the harness' own `inc` action (not by the mechanism under test)
func c14StripCounters(w W) W {
	m, ok := wireCont(deepCopyW(w))
	if !ok {
		return w
	}
	for _, k := range []string{"i", "i_go", "i_end", "j", "j_go", "j_end"} {
		delete(m, k)
	}
	return map[string]any{"m": m}
}

// ---------------------------------------------------------------- define / call sequences

type c14Defs struct {
	Seq []string `json:"seq"` // d1 (define f = first) | d2 (define f = second) | dg (define g) | cf | cg | cn (call undefined)
}

func (p *c14Defs) prog() []c12Op {
	logAct := func(name, msg string) *c12Act { return &c12Act{Name: name, Ops: []c12Op{{K: "log", Msg: msg}}} }
	var out []c12Op
	for _, s := range p.Seq {
		switch s {
		case "d1":
			out = append(out, c12Op{K: "define", Name: "f", Body: logAct("f1", "first")})
		case "d2":
			out = append(out, c12Op{K: "define", Name: "f", Body: logAct("f2", "second")})
		case "dg":
			out = append(out, c12Op{K: "define", Name: "g", Body: logAct("g", "gee")})
		case "cf":
			out = append(out, c12Op{K: "call", Name: "f"})
		case "cg":
			out = append(out, c12Op{K: "call", Name: "g", ArgsPath: sp("ga.rgs")})
		case "cn":
			out = append(out, c12Op{K: "call", Name: "nope", Args: plainWire(map[string]any{"x": 1})})
		}
	}
	return out
}

// expected: per step whether it errs, and the log lines — by the registry rule "first definition wins"
func (p *c14Defs) expect() (errs []bool, logs []string) {
	f, g := "", false
	for _, s := range p.Seq {
		switch s {
		case "d1", "d2":
			if f != "" {
				errs = append(errs, true)
			} else {
				f = map[string]string{"d1": "first", "d2": "second"}[s]
				errs = append(errs, false)
			}
		case "dg":
			errs = append(errs, g)
			g = true
		case "cf":
			errs = append(errs, f == "")
			if f != "" {
				logs = append(logs, f)
			}
		case "cg":
			errs = append(errs, !g)
			if g {
				logs = append(logs, "gee")
			}
		case "cn":
			errs = append(errs, true)
		default:
			continue
		}
	}
	return
}

// ---------------------------------------------------------------- random nested programs (model comparison)

type c14Rand struct {
	Data W       `json:"data"`
	Prog []c12Op `json:"prog"`
}

type c14Gen struct {
	r     *rand.Rand
	id    int
	vars  []string // loop variables in scope (leaf-valued)
	defs  int      // callables f0..f(defs-1) are defined
	inDef bool     // generating the body of a define: no nested defines (keeps "f_i only calls f_j, j<i")
}

func (g *c14Gen) fresh(prefix string) string {
	g.id++
	return fmt.Sprintf("%s%d", prefix, g.id)
}

// refs that are guaranteed to hit a scalar or nothing
func (g *c14Gen) ref() string {
	r := g.r
	if r.Intn(14) == 0 {
		// a template that cannot be rendered: it fails while it is executed (a field of a scalar; in a message,
		// after the output of what precedes it), or it does not parse (an unclosed action).  Where rendering is
		// lenient the text stays as it is; a template operation fails.
		return pick(r, []string{"{{ .name.nope }}", "{{ .name.nope }}", "{{ .name"})
	}
	pool := []string{"{{ .name }}", "{{ .keep.x }}", "{{ .nokey }}", "{{ .flagT }}", "{{ .cfg.mode }}", "{{ .args.x }}", "{{ .no.such }}", "lit"}
	for _, v := range g.vars {
		pool = append(pool, "{{ ."+v+" }}", "{{ ."+v+" }}")
	}
	return pick(r, pool)
}

func (g *c14Gen) simpleOps(allowFail bool) []c12Op {
	r := g.r
	var ops []c12Op
	if r.Intn(3) > 0 {
		ops = append(ops, c12Op{K: "log", Msg: g.fresh("m") + ":" + g.ref() + ":" + g.ref()})
	}
	if r.Intn(3) == 0 {
		ops = append(ops, c12Op{K: "ext", Fn: pick(r, []string{"trace", "trace", "trace", "nosuch"}), ID: g.fresh("e")})
	}
	if r.Intn(3) == 0 {
		path := pick(r, []string{"out.a", "out.b", "out." + g.ref(), "res", ""})
		var strat *string
		if r.Intn(3) == 0 {
			strat = sp(pick(r, []string{"merge", "replace", "replace", "bogus"}))
		}
		ops = append(ops, c12Op{K: "set", Path: path, Strategy: strat,
			Data: plainWire(map[string]any{pick(r, []string{"u", "v"}): r.Intn(3), "w": map[string]any{pick(r, []string{"p", "q"}): "s"}})})
	}
	if r.Intn(4) == 0 {
		path := pick(r, []string{"tp.a", "tp." + g.ref(), "single"})
		if r.Intn(6) == 0 {
			// a slot of one of the lists the program's forEach operations iterate over (written in place; the last
			// two are slots after the last one: the list grows)
			path = pick(r, []string{"xs[1]", "xs[3]", "ns[2]", "deep.er.xs[2]", "xs[4]", "ns[5]"})
		}
		ops = append(ops, c12Op{K: "template", Tmpl: pick(r, []string{"T" + g.ref(), " pad " + g.ref() + " ", g.ref()}),
			Path: path, Trim: r.Intn(2) == 0})
	}
	if allowFail && r.Intn(9) == 0 {
		ops = append(ops, c12Op{K: "abort", Msg: "ab " + g.ref()})
	}
	return ops
}

func (g *c14Gen) act(depth int) *c12Act {
	r := g.r
	a := &c12Act{Name: g.fresh("a")}
	if r.Intn(5) == 0 {
		a.When = sp(pick(r, []string{"true", "false", "{{ .flagT }}", "{{ .flagF }}", "{{ .nokey }}", "true", "false", "{{ .flagT }}", "{{ .flagF }}", "", "  "}))
	}
	a.Ops = g.simpleOps(true)
	if depth > 0 && r.Intn(2) == 0 {
		a.Ops = append(a.Ops, g.compound(depth-1))
	}
	if depth > 0 {
		n := r.Intn(3)
		perm := r.Perm(5)
		for i := 0; i < n; i++ {
			c := g.act(depth - 1)
			c.Order = perm[i] - 2
			a.Children = append(a.Children, *c)
		}
	}
	// at most one operation per OpSpec field
	seen := map[string]bool{}
	var ops []c12Op
	for _, o := range a.Ops {
		if !seen[o.K] {
			seen[o.K] = true
			ops = append(ops, o)
		}
	}
	r.Shuffle(len(ops), func(i, j int) { ops[i], ops[j] = ops[j], ops[i] })
	a.Ops = ops
	return a
}

func (g *c14Gen) compound(depth int) c12Op {
	r := g.r
	switch k := r.Intn(10); {
	case k < 4: // forEach
		v := g.fresh("v")
		var vp *string
		if r.Intn(4) > 0 {
			vp = sp(v)
		} else {
			v = "forEach"
		}
		op := c12Op{K: "forEach", Var: vp}
		switch r.Intn(6) {
		case 0:
			its := []c12VoR{}
			for i, n := 0, r.Intn(4); i < n; i++ {
				switch r.Intn(4) {
				case 0:
					its = append(its, c12VoR{IsRef: true, Ref: pick(r, []string{"name", "keep.x", "nokey", "xs", "tmplv", "padded", "blank"})})
				case 1:
					its = append(its, c12VoR{Val: g.ref()})
				default:
					it := g.fresh("i")
					if r.Intn(4) == 0 {
						it = pick(r, []string{" " + it, it + " ", it + "\n", "\u00a0" + it, " ", strings.ToUpper(it)}) // the item as it is
					}
					its = append(its, c12VoR{Val: it})
				}
			}
			op.Items = &its
		case 1:
			op.Query = &c12VoR{Val: pick(r, []string{"xs", "xs", "ns"})}
		case 2:
			op.Query = &c12VoR{Val: pick(r, []string{"name", "keep.x", "nokey", "deep.er.xs", "empty", "nul"})}
		case 3:
			op.Query = &c12VoR{IsRef: true, Ref: pick(r, []string{"qpath", "nokey", "keep"})}
		case 4:
			op.Query = &c12VoR{Val: "one"} // container with a single key: order cannot matter
		default:
			op.Query = &c12VoR{Val: "{{ .qpath }}"}
		}
		g.vars = append(g.vars, v)
		op.Body = g.act(depth)
		g.vars = g.vars[:len(g.vars)-1]
		return op
	case k < 6: // loop
		ctr := g.fresh("c")
		n := r.Intn(4)
		op := c12Op{K: "loop", Test: "{{ ." + ctr + "_go }}"}
		op.Init = &c12Act{Name: g.fresh("init"), Ops: []c12Op{{K: "set", Data: plainWire(map[string]any{ctr: 0, ctr + "_go": 0 < n})}}}
		g.vars = append(g.vars, ctr)
		op.Body = g.act(depth)
		g.vars = g.vars[:len(g.vars)-1]
		op.Post = &c12Act{Name: g.fresh("post"), Ops: []c12Op{{K: "ext", Fn: "inc", ID: ctr, N: n}}}
		if r.Intn(4) == 0 {
			op.Post.Ops = append(op.Post.Ops, c12Op{K: "log", Msg: "post:{{ ." + ctr + " }}"})
		}
		return op
	case k < 8 && g.defs > 0: // call an already defined callable (only lower indices: no recursion)
		name := fmt.Sprintf("f%d", r.Intn(g.defs))
		if r.Intn(8) == 0 {
			name = "undefined"
		}
		var ap *string
		if r.Intn(3) > 0 {
			ap = sp(pick(r, []string{"p", "p.q", "args", "q.r.s", "{{ .where }}", "keep.args"}))
		}
		return c12Op{K: "call", Name: name, ArgsPath: ap,
			Args: plainWire(map[string]any{"x": g.ref(), "n": r.Intn(3), "sub": map[string]any{"z": g.ref()}, "l": []any{"{{ .name }}"}})}
	case g.inDef:
		return c12Op{K: "log", Msg: g.fresh("m") + ":" + g.ref()}
	default: // define (possibly a name that exists already)
		idx := g.defs
		if g.defs > 0 && r.Intn(4) == 0 {
			idx = r.Intn(g.defs)
		}
		saved := g.defs
		g.defs = idx // the body may only call lower callables
		g.inDef = true
		body := g.act(depth)
		g.inDef = false
		g.defs = saved
		if idx == g.defs {
			g.defs++
		}
		return c12Op{K: "define", Name: fmt.Sprintf("f%d", idx), Body: body}
	}
}

func c14RandData() W {
	return plainWire(map[string]any{"name": "N", "flagT": true, "flagF": false, "keep": map[string]any{"x": 1}, "where": "dyn.z",
		"cfg": map[string]any{"mode": "m1"}, "xs": []any{"a", 2, true, "d"}, "deep": map[string]any{"er": map[string]any{"xs": []any{"p", nil, "q"}}},
		"qpath": "xs", "empty": []any{}, "one": map[string]any{"only": 1}, "tmplv": "{{ .name }}",
		// lists with null entries (items like any other) and a null leaf
		"ns": []any{nil, "u", nil, false}, "nul": nil,
		// leaves whose text has white space around it / is nothing but white space (items given by reference)
		"padded": "  p \n", "blank": " "})
}

// ---------------------------------------------------------------- run

// c14ItemTexts: the VALUE RANGE of an item (literal items, entries of a queried list, a queried leaf, the field
// of a container entry; call arguments rendered from them).  "with the loop variable bound to that item": the item
// as it is — leading / trailing / inner white space (space, tab, NBSP, line end) and white-space-only texts, the
// empty text, letter-case twins of other items, non-ASCII (supplementary plane included) and U+FFFD, characters
// that look like syntax, digit strings beyond 64 bits, boolean / null spellings — not a cleaned-up form of it.
// (None starts with a tab AND holds a line end: yaml.v3 cannot read back the block scalar it writes for those.)
var c14ItemTexts = []string{" a", "b ", " c ", " ", "  ", "\td", "e\n", "\n", " \n", "x\n\n", "\r", "\u0085", "\u00a0f", "g\u00a0", "h\r\n", " i\t", "A", "a b", "ZZ", "Zz",
	"\U0001F680", "\U0001D6FCx", "\ufffd", "é ", "{x}", "}", "(y)", "[0]", "k=v", "k: v", "- x", "#c", "!t", "\\", "a/b", "a//b", "./a", "a/", "a.b", ".a", "a.", "~", "",
	"12345678901234567890123", "9223372036854775808", "18446744073709551616", "9007199254740993", "true", "T", "f", "0", "-0", "1.0", "null", "nil"}

// c12YamlCarries: yaml.v3 reads back, from the text it writes for s, exactly s (it does not for every string: a
// text that starts with a tab and holds a line end, a text that is nothing but line ends).  The harness' second
// entry point — the program decoded from generated YAML — can only be fed texts the codec carries.
func c12YamlCarries(s string) bool {
	b, err := yaml.Marshal(map[string]any{"k": []any{s}})
	if err != nil {
		return false
	}
	var back map[string][]string
	return yaml.Unmarshal(b, &back) == nil && len(back["k"]) == 1 && back["k"][0] == s
}

func init() {
	var ok []string
	for _, s := range c14ItemTexts {
		if c12YamlCarries(s) {
			ok = append(ok, s)
		}
	}
	c14ItemTexts = ok
}

// c14PickItems: n item texts: distinct entries of the plain pool, each replaced — one time in three — by a text of
// the value range (cont: the items are KEYS of a container: path-safe ones only, with letter-case twins)
func c14PickItems(r *rand.Rand, strs []string, n int, source string) []string {
	pool := strs
	if source == "cont" {
		pool = append(append([]string{}, strs...), "A", "Zz", "ZZ", "G")
	}
	for j := len(pool); j < n; j++ {
		pool = append(append([]string{}, pool...), fmt.Sprintf("w%d", j)) // lists longer than the pool (two-digit indices)
	}
	perm := r.Perm(len(pool))
	var out []string
	for j := 0; j < n && j < len(perm); j++ {
		it := pool[perm[j]]
		if source != "cont" && r.Intn(3) == 0 {
			it = pick(r, c14ItemTexts)
		}
		out = append(out, it)
	}
	return out
}

func c14Run(c *Ctx) {
	r := c.Rng
	strs := []string{"a", "b", "c", "d", "e", "zz", "f7", "g", "h9"}
	// the smallest records first (so that a failure is reported on a minimal one): a body that writes into the list
	// it iterates over — a slot visited later, the current one, one visited before, the slot after the last —, a body
	// that logs a template failing at execution, the same forEach value executed twice
	for _, src := range []string{"list", "deep", "nested", "sparse", "clist"} {
		for w := 1; w <= 4; w++ {
			c.Do("foreach", c14FE{Source: src, Items: []string{"a", "b", "c"}, Bad: []bool{false, false, false}, Log: true, Var: sp("it"), Write: w})
		}
	}
	// the smallest records with items that are not plain words: surrounded by white space, white space only, empty,
	// a letter-case twin of the neighbour
	for _, src := range []string{"items", "list", "leaf", "clist"} {
		c.Do("foreach", c14FE{Source: src, Items: []string{" a ", " ", "", "A", "a"}, Bad: []bool{false, false, false, false, false}, Log: true})
	}
	for _, src := range []string{"items", "list", "leaf", "cont"} {
		c.Do("foreach", c14FE{Source: src, Items: []string{"a", "b"}, Bad: []bool{false, false}, Log: true, Child: true, Noise: true})
		c.Do("foreach", c14FE{Source: src, Items: []string{"a", "b"}, Bad: []bool{false, false}, Log: true, Ext: true, Twice: true})
	}
	// the smallest records with literal items that are templates of / references to the leaf the body writes
	for _, dyn := range [][]string{{"", "tmpl"}, {"", "ref"}, {"ref", "ref", "ref"}, {"", "tmpl", "tmpl"}, {"tmpl", "", "ref"}} {
		c.Do("foreach", c14FE{Source: "items", Items: []string{"a", "b", "c"}[:len(dyn)], Bad: []bool{false, false, false}[:len(dyn)], Log: true, Dyn: dyn})
	}
	for i := 0; i < c.N(900); i++ {
		c.Tick()
		p := c14FE{Source: pick(r, []string{"items", "list", "list", "deep", "nested", "sparse", "leaf", "cont", "clist", "clist", "missing"}),
			Ext: r.Intn(2) == 0, Log: r.Intn(4) > 0, Child: r.Intn(2) == 0}
		n := r.Intn(5)
		if r.Intn(8) == 0 {
			n = pick(r, []int{5, 6, 7, 9, 10, 11, 12}) // lists whose backing array has / has no spare capacity when the body appends; two-digit indices
		}
		p.Items = c14PickItems(r, strs, n, p.Source)
		for j := 0; j < n; j++ {
			p.Bad = append(p.Bad, false)
		}
		if n >= 2 && p.Source != "cont" && r.Intn(8) == 0 {
			p.Items[n-1] = p.Items[0] // an item may occur twice (literal items: one value referenced twice)
		}
		if p.nullable() && n > 0 && r.Intn(2) == 0 {
			// null entries: YAML nulls in the list, never-written slots of a sparse list, a null leaf
			p.Null = make([]bool, n)
			switch r.Intn(4) {
			case 0:
				for j := range p.Null { // nothing but nulls
					p.Null[j] = true
				}
			default:
				p.Null[r.Intn(n)] = true
				for j := range p.Null {
					if r.Intn(3) == 0 {
						p.Null[j] = true
					}
				}
			}
		}
		if r.Intn(3) > 0 {
			p.Var = sp(pick(r, []string{"it", "item", "v_1", "forEach", "X", "Keep", "OTHER", "xS"})) // incl. letter-case twins of keys the data holds
		}
		switch p.Source {
		case "clist":
			p.Fail = pick(r, []string{"", "cabort", "cext", "cabort", "cond"})
			if n > 0 && r.Intn(4) > 0 {
				p.Bad[r.Intn(n)] = true
			}
			if n > 1 && r.Intn(4) == 0 {
				p.Bad[r.Intn(n)] = true
			}
		default:
			p.Fail = pick(r, []string{"", "", "", "abort", "extfail", "cabort", "cext", "cond"})
			p.When = pick(r, []string{"", "true", "false"})
		}
		if p.writable() && n > 0 && r.Intn(3) == 0 {
			p.Write = 1 + r.Intn(n+1) // any slot of the list, or the one after the last
		}
		p.Noise = r.Intn(6) == 0
		p.Twice = p.Write == 0 && r.Intn(8) == 0
		p.After = r.Intn(3) == 0
		if p.Source == "items" && n > 0 && r.Intn(2) == 0 {
			// literal items that are templates of / references to the leaf the body writes
			p.Dyn = make([]string, n)
			for j := range p.Dyn {
				p.Dyn[j] = pick(r, []string{"", "tmpl", "ref"})
			}
		}
		c.Do("foreach", p)
	}
	for i := 0; i < c.N(500); i++ {
		c.Tick()
		p := c14Loop{N: r.Intn(7), FailPos: pick(r, []string{"body", "post"}), IncIn: pick(r, []string{"post", "post", "body"}),
			Init: r.Intn(2) == 0, NoPost: r.Intn(6) == 0}
		if r.Intn(3) == 0 {
			p.K = 1 + r.Intn(7)
		}
		c.Do("loop", p)
	}
	paths := []*string{nil, sp("p"), sp("p.q"), sp("p.q.r"), sp("{{ .where }}"), sp("args"), sp("a_b.c9")}
	// the smallest records first: a callable that fills in a default at its own arguments path (single key / dotted;
	// the call completes / the callable fails afterwards)
	for _, ap := range []*string{nil, sp("p.q")} {
		for _, how := range []string{"path", "merge", "root"} {
			for _, fail := range []string{"", "outer"} {
				c.Do("call", c14Call{ArgsPath: ap, Inner: sp("in"), SetArgs: how, Fail: fail})
			}
		}
	}
	for i := 0; i < c.N(500); i++ {
		c.Tick()
		p := c14Call{ArgsPath: pick(r, paths), Tmpl: r.Intn(2) == 0, Nested: r.Intn(2) == 0,
			Fail: pick(r, []string{"", "", "inner", "outer"}), Sibling: r.Intn(3) == 0, BadArg: r.Intn(5) == 0, After: r.Intn(3) == 0}
		if r.Intn(3) == 0 {
			p.SetArgs = pick(r, []string{"path", "merge", "root"})
		}
		p.Inner = pick(r, []*string{sp("in"), sp("in.ner"), sp("x.y.z"), sp("p2")})
		if !p.Tmpl && r.Intn(2) == 0 {
			p.Val = pick(r, c14ItemTexts)
		}
		c.Do("call", p)
	}
	// the smallest records first (so that a failure is reported on a minimal one), then random ones
	for _, mode := range []string{"loop", "foreach", "exec"} {
		for _, place := range []string{"ops", "child"} {
			for n := 0; n <= 3; n++ {
				p := c14CallRep{Mode: mode, Place: place, N: n}
				if mode == "foreach" {
					p.N, p.Items = 0, strs[:n]
				}
				c.Do("callrep", p)
			}
		}
	}
	for i := 0; i < c.N(500); i++ {
		c.Tick()
		p := c14CallRep{Mode: pick(r, []string{"loop", "loop", "foreach", "foreach", "exec"}), Place: pick(r, []string{"ops", "child"}),
			N: r.Intn(5), ArgsPath: pick(r, []*string{nil, nil, sp("p"), sp("p.q"), sp("{{ .where }}"), sp("a_b.c9")}),
			Nested: r.Intn(2) == 0, Const: r.Intn(2) == 0, Log: r.Intn(3) == 0}
		if p.Mode == "foreach" {
			p.N = 0
			p.Items = c14PickItems(r, strs, r.Intn(5), "items")
			if len(p.Items) > 0 && r.Intn(5) == 0 { // an item may occur twice
				p.Items = append(p.Items, p.Items[0])
			}
			p.Query = r.Intn(2) == 0
			if r.Intn(3) > 0 {
				p.Var = sp(pick(r, []string{"it", "item", "v_1", "forEach"}))
			}
		}
		if r.Intn(4) == 0 {
			p.K = 1 + r.Intn(4)
		}
		c.Do("callrep", p)
	}
	for _, p := range c14NestBasics() {
		c.Tick()
		c.Do("nest", p)
	}
	for i := 0; i < c.N(700); i++ {
		c.Tick()
		c.Do("nest", c14GenNest(r))
	}
	alphabet := []string{"d1", "d2", "dg", "cf", "cg", "cn"}
	if c.Thorough() && !c.searchMode {
		// all sequences of length <= 4
		var rec func(prefix []string, left int)
		rec = func(prefix []string, left int) {
			c.Do("defs", c14Defs{Seq: append([]string{}, prefix...)})
			if left == 0 {
				return
			}
			for _, a := range alphabet {
				rec(append(prefix, a), left-1)
			}
		}
		rec(nil, 4)
	} else {
		for i := 0; i < c.N(300); i++ {
			c.Tick()
			var seq []string
			for j, n := 0, 1+r.Intn(5); j < n; j++ {
				seq = append(seq, pick(r, alphabet))
			}
			c.Do("defs", c14Defs{Seq: seq})
		}
	}
	for i := 0; i < c.N(1200); i++ {
		c.Tick()
		g := &c14Gen{r: r}
		var prog []c12Op
		for j, n := 0, 1+r.Intn(4); j < n; j++ {
			prog = append(prog, g.compound(1+r.Intn(3)))
		}
		c.Do("rand", c14Rand{Data: c14RandData(), Prog: prog})
	}
	c14RunLookVars(c, strs)
}

// c14LookVars: VARIABLE NAMES THAT LOOK LIKE SYNTAX of a neighbouring notation.  A variable name is a name: the
// item is bound under exactly that top-level key and the key is gone afterwards, whatever the name looks like — a
// dotted path whose first segment is a leaf of the document (`other.item`), the list being iterated (`xs.cur`), a
// container (`keep.it`, `keep.x.y`: the second segment a leaf), the queried container or leaf (`m.k`, `x.y`) or
// nothing at all (`fresh.v`); a name with a leading / trailing / doubled separator; a JSON pointer, a glob, a
// k=v selector, a printf verb, a placeholder, an escape sequence, digits only, the end-of-list token.  None of
// them is present in the data as a key (the property's domain), none holds an index group (path syntax of
// AddValue itself).  "… the variable is gone and the mechanism itself has disturbed no other data": the
// document after the loop is the document before it.  No field chain can spell such a name, so the bodies of
// these records print a fixed text in its place (c14OpaqueRef) and the trace shows passes and order only.
var c14LookVars = []string{"other.item", "xs.cur", "keep.it", "keep.x.y", "fresh.v", "m.k", "x.y", "deep.er.xs.v", "nest.v", "other.a.b",
	".it", "it.", "a..b", "/it", "/other/item", "a/b", "*", "it?", "k=v", "%s", "$it", "it\\n", "0", "-", "~it", "other", "xs"}

const c14OpaqueRef = "(the item)"

// c14PlainVar: the name is one a template field chain can spell (or the default).
func c14PlainVar(v *string) bool { return v == nil || c14IdentRe.MatchString(*v) }

func c14RunLookVars(c *Ctx, strs []string) {
	r := c.Rng
	// the smallest records first: every such name x a loop that completes / a body that aborts
	for _, vn := range c14LookVars {
		for _, src := range []string{"items", "list"} {
			if (vn == "other") || (vn == "xs" && src == "list") {
				continue // present in the data as a key: outside the domain
			}
			c.Do("foreach", c14FE{Source: src, Items: []string{"a", "b"}, Bad: []bool{false, false}, Log: true, Var: sp(vn)})
			c.Do("foreach", c14FE{Source: src, Items: []string{"a", "b"}, Bad: []bool{false, false}, Ext: true, Fail: "abort", Var: sp(vn)})
		}
	}
	for i := 0; i < c.N(250); i++ {
		c.Tick()
		p := c14FE{Source: pick(r, []string{"items", "list", "list", "deep", "nested", "sparse", "leaf", "cont", "clist", "missing"}),
			Ext: r.Intn(2) == 0, Log: r.Intn(4) > 0, Child: r.Intn(2) == 0}
		n := r.Intn(4)
		p.Items = c14PickItems(r, strs, n, p.Source)
		for j := 0; j < n; j++ {
			p.Bad = append(p.Bad, false)
		}
		if p.nullable() && n > 0 && r.Intn(3) == 0 {
			p.Null = make([]bool, n)
			p.Null[r.Intn(n)] = true
		}
		p.Var = sp(pick(r, c14LookVars))
		// the name is not a key of the data (the property's domain)
		if dc, ok := wireCont(p.dataAt(true)); ok {
			if _, has := dc[*p.Var]; has {
				p.Var = sp("other.item")
			}
		}
		if p.Source != "clist" {
			p.Fail = pick(r, []string{"", "", "", "abort", "extfail", "cabort", "cext", "cond"})
			p.When = pick(r, []string{"", "true", "false"})
		}
		p.Noise = r.Intn(6) == 0
		p.Twice = r.Intn(6) == 0
		c.Do("foreach", p)
	}
}

// ---------------------------------------------------------------- evaluation

// c14Project keeps the (item, operation) trace: ext-ran, log and EvalBool events.
func c14Project(tr []any) [][]any {
	var out [][]any
	for _, e := range tr {
		ev := e.([]any)
		switch ev[0] {
		case "r", "l", "t":
			out = append(out, ev)
		}
	}
	return out
}

func c14SortedEvents(tr []any) []string {
	out := make([]string, len(tr))
	for i, e := range tr {
		out[i] = canon(e)
	}
	sort.Strings(out)
	return out
}

func c14FlatWire(w W) string {
	return canon(flattenWire(wireContainer(w)))
}

func c14Eval(c *Ctx, kind string, raw []byte) {
	var (
		data   W
		prog   []c12Op
		direct func(run *c12RunRes, v string)
		// compare traces as multisets (container query: Go map order)
		multiset bool
		skipTr   bool
		// makes several top-level entries one and the same operation value
		share func(acts []pipeline.Action)
	)
	switch kind {
	case "foreach":
		var p c14FE
		if err := json.Unmarshal(raw, &p); err != nil {
			panic(err)
		}
		for len(p.Bad) < len(p.Items) {
			p.Bad = append(p.Bad, false)
		}
		if p.Source == "cont" {
			// keys of a map: distinct
			seen := map[string]bool{}
			var it []string
			for _, s := range p.Items {
				if !seen[s] {
					seen[s] = true
					it = append(it, s)
				}
			}
			p.Items = it
		}
		p.norm()
		data, prog = p.data(), p.prog()
		atLoop := p.dataAt(true)
		want, failed, iters := p.expect()
		if iters > 0 {
			c.Nontrivial()
		}
		c.Dist("foreach:source:" + p.Source)
		c.Dist("foreach:fail:" + p.Fail)
		c.Dist(fmt.Sprintf("foreach:iterations:%d", iters))
		nulls := 0
		for i := range p.Items {
			if p.isNull(i) {
				nulls++
			}
		}
		if nulls > 0 {
			c.Dist("foreach:null-items:" + p.Source)
			if nulls == len(p.Items) {
				c.Dist("foreach:null-items:all-of-them")
			}
		}
		if !c14PlainVar(p.Var) {
			c.Dist("foreach:variable-name-looks-like-syntax")
			if top, _, dotted := strings.Cut(*p.Var, "."); dotted {
				if dc, ok := wireCont(atLoop); ok {
					switch n, has := dc[top]; {
					case !has:
						c.Dist("foreach:variable-name-looks-like-a-path:first-segment-absent")
					case wireKind(n) == "cont":
						c.Dist("foreach:variable-name-looks-like-a-path:first-segment-is-a-container")
					default:
						c.Dist("foreach:variable-name-looks-like-a-path:first-segment-is-a-" + wireKind(n))
					}
				}
			}
		}
		multiset = p.Source == "cont"
		skipTr = multiset && failed && len(p.Items) > 1 // which key is visited first is unspecified
		vname := c14VarName(p.Var)
		nprog := len(prog)
		// the forEach operation(s): the last entry of the program — the last two, one and the same operation value,
		// when it is executed twice
		nfe, tail := 1, 0
		if p.After {
			tail = 1
		}
		last := nprog - tail - 1 // index of the (last) forEach
		if p.Twice {
			nfe = 2
			c.Dist("foreach:same-operation-value-executed-twice")
			if len(want) > 0 {
				want = append(append([][]any{}, want...), want...)
			}
			share = func(acts []pipeline.Action) { acts[last] = acts[last-1] }
		}
		if p.After {
			// the variable is gone: the template engine prints what it prints for a key that is not there
			c.Dist("foreach:variable-read-through-a-template-afterwards")
			want = append(want, []any{"l", "Z:<no value>"})
		}
		if p.Write > 0 {
			c.Dist("foreach:body-writes-into-the-item-source:" + p.Source)
			switch {
			case p.Write-1 >= len(p.Items):
				c.Dist("foreach:body-writes-into-the-item-source:slot-after-the-last")
			case p.Write-1 >= 1:
				c.Dist("foreach:body-writes-into-the-item-source:slot-visited-later")
			}
		}
		if p.Noise {
			c.Dist("foreach:body-logs-a-template-that-fails-at-execution")
		}
		if p.dyn() {
			c.Dist("foreach:literal-items-that-are-templates-or-references-of-what-the-body-writes")
			if iters >= 2 {
				c.Dist("foreach:literal-items-that-are-templates-or-references-of-what-the-body-writes:two-or-more-passes")
			}
		}
		// what the loop leaves behind: the document as it was when the loop started, except for the slot the
		// body writes into (these bodies have no other data effects)
		final := p.dataAfter(iters)
		direct = func(run *c12RunRes, v string) {
			if len(run.errs) != nprog {
				return
			}
			// the operations that come before the forEach (sparse source: the indexed writes) are not under test
			for _, e := range run.errs[:last+1-nfe] {
				if e != nil {
					c.Dist("foreach:setup-failed(skipped)")
					return
				}
			}
			feErr := run.errs[last]
			// "forEach runs its body once per item": as often as the item source has items — a null entry, a slot
			// that was never written, an entry of a list inside a list are items —, counted on the listener's
			// events alone (every pass through the body ends with the body's `steps`, or with the operation
			// that failed), whatever the body prints
			if roots, problem := c12Parse(run.rec); problem == "" && len(roots) == nprog {
				for _, rt := range roots[last+1-nfe : last+1] {
					passes := 0
					kids := rt.kids
					for i, k := range kids {
						if k.label == "steps" || (i == len(kids)-1 && k.hasE) {
							passes++
						}
					}
					c.Direct("forEach-body-once-per-item"+v, passes == iters,
						map[string]any{"bodyStarted": passes, "items(up to the failing one)": iters, "source": p.Source, "items": atLoop, "trace": run.tr})
				}
			}
			if p.Twice {
				c.Direct("forEach-error-iff-failure"+v, (run.errs[last-1] != nil) == failed, fmt.Sprint(run.errs[last-1]))
			}
			got := c14Project(run.tr)
			if !multiset {
				// "the trace of (item, operation) pairs equals items x body in order up to the failure"
				c.Direct("forEach-trace"+v, canon(got) == canon(want), map[string]any{"got": got, "want": want})
			} else if !failed {
				// "container query = each key exactly once in unspecified order"
				g, w := []any{}, []any{}
				for _, e := range got {
					g = append(g, e)
				}
				for _, e := range want {
					w = append(w, e)
				}
				c.Direct("forEach-container-each-key-once"+v, canon(c14SortedEvents(g)) == canon(c14SortedEvents(w)),
					map[string]any{"got": got, "want(any order)": want})
			}
			c.Direct("forEach-error-iff-failure"+v, (feErr != nil) == failed, fmt.Sprint(feErr))
			// "when either finishes, normally or with an error, the variable … [is] gone"
			_, stillThere := run.data.Children()[vname]
			c.Direct("forEach-variable-gone"+v, run.data.Lookup(vname) == nil && !stillThere, map[string]any{"var": vname, "data": run.dataWire()})
			// "… and the mechanism itself has disturbed no other data" (these bodies have no data effects)
			c.Direct("forEach-no-other-data-disturbed"+v, canon(run.dataWire()) == canon(final),
				map[string]any{"after": run.dataWire(), "expected": final})
		}
	case "loop":
		var p c14Loop
		if err := json.Unmarshal(raw, &p); err != nil {
			panic(err)
		}
		if p.N < 0 || p.N > 50 {
			p.N = 3
		}
		data, prog = p.data(), p.prog()
		want, failed, iters := p.expect()
		if iters > 0 {
			c.Nontrivial()
		}
		c.Dist(fmt.Sprintf("loop:n:%d", p.N))
		c.Dist(fmt.Sprintf("loop:failed:%v", failed))
		direct = func(run *c12RunRes, v string) {
			got := c14Project(run.tr)
			// "observed sequence is init, (test, body, post)^n, test" / "stops at the first false test or error"
			c.Direct("loop-sequence"+v, canon(got) == canon(want), map[string]any{"got": got, "want": want})
			c.Direct("loop-error-iff-failure"+v, (run.errs[0] != nil) == failed, fmt.Sprint(run.errs[0]))
		}
	case "call":
		var p c14Call
		if err := json.Unmarshal(raw, &p); err != nil {
			panic(err)
		}
		switch p.SetArgs {
		case "", "path", "merge", "root":
		default:
			p.SetArgs = "path"
		}
		data, prog = p.data(), p.prog()
		want, failed := p.expect()
		if p.After {
			want = append(want, []any{"l", c14CallAfter})
			c.Dist("call:arguments-read-through-a-template-afterwards")
		}
		ncall := 3
		if p.After {
			ncall = 4
		}
		c.Nontrivial()
		c.Dist("call:path:" + p.path())
		c.Dist("call:fail:" + p.Fail)
		if p.SetArgs != "" {
			c.Dist("call:the-callable-writes-at-its-own-arguments-path:" + p.SetArgs)
		}
		if p.BadArg {
			c.Dist("call:an-argument-template-fails-at-execution")
		}
		direct = func(run *c12RunRes, v string) {
			got := c14Project(run.tr)
			// "call runs the named callable with its rendered arguments visible at the arguments path"
			c.Direct("call-arguments-readable-inside"+v, canon(got) == canon(want), map[string]any{"got": got, "want": want})
			c.Direct("call-error-iff-failure"+v, len(run.errs) == ncall && run.errs[0] == nil && run.errs[1] == nil && (run.errs[2] != nil) == failed,
				fmt.Sprint(run.errs))
			// "when [it] finishes, normally or with an error, … the arguments are gone"
			c.Direct("call-arguments-gone"+v, run.data.Lookup(p.path()) == nil, map[string]any{"path": p.path(), "data": run.dataWire()})
			if p.Nested {
				c.Direct("call-inner-arguments-gone"+v, run.data.Lookup(p.innerPath()) == nil, map[string]any{"path": p.innerPath(), "data": run.dataWire()})
			}
			// "… and the mechanism itself has disturbed no other data": every leaf as before, none added
			c.Direct("call-no-other-data-disturbed"+v, c14FlatWire(run.dataWire()) == c14FlatWire(data),
				map[string]any{"before": data, "after": run.dataWire()})
		}
	case "callrep":
		var p c14CallRep
		if err := json.Unmarshal(raw, &p); err != nil {
			panic(err)
		}
		if p.N < 0 || p.N > 20 {
			p.N = 3
		}
		if p.K < 0 {
			p.K = 0
		}
		switch p.Mode {
		case "loop", "foreach", "exec":
		default:
			p.Mode = "exec"
		}
		data, prog = p.data(), p.prog()
		want, wantErrs, runs := p.expect()
		if runs >= 2 {
			c.Nontrivial()
		}
		c.Dist("callrep:mode:" + p.Mode + "/" + p.Place)
		c.Dist(fmt.Sprintf("callrep:runs:%d", runs))
		c.Dist("callrep:path:" + p.path())
		if p.Mode == "exec" {
			// one operation VALUE executed repeatedly (the model has no notion of identity: equal entries)
			share = func(acts []pipeline.Action) {
				first := -1
				for i := range prog {
					if prog[i].K != "call" {
						continue
					}
					if first < 0 {
						first = i
					} else {
						acts[i] = acts[first]
					}
				}
			}
		}
		direct = func(run *c12RunRes, v string) {
			got := c14Project(run.tr)
			// "call runs the named callable with its rendered arguments visible at the arguments path" — every time it runs
			c.Direct("call-rendered-arguments-every-run"+v, canon(got) == canon(want), map[string]any{"got": got, "want": want})
			var gotErrs []bool
			for _, e := range run.errs {
				gotErrs = append(gotErrs, e != nil)
			}
			c.Direct("call-error-iff-failure"+v, canon(gotErrs) == canon(wantErrs), map[string]any{"got": gotErrs, "want": wantErrs, "errs": fmt.Sprint(run.errs)})
			c.Direct("call-arguments-gone"+v, run.data.Lookup(p.path()) == nil, map[string]any{"path": p.path(), "data": run.dataWire()})
			if p.Mode == "foreach" {
				c.Direct("forEach-variable-gone"+v, run.data.Lookup(c14VarName(p.Var)) == nil, map[string]any{"var": c14VarName(p.Var), "data": run.dataWire()})
			}
			c.Direct("call-no-other-data-disturbed"+v, c14FlatWire(c14StripCounters(run.dataWire())) == c14FlatWire(c14StripCounters(data)),
				map[string]any{"before": data, "after": run.dataWire()})
		}
	case "nest":
		var p c14Nest
		if err := json.Unmarshal(raw, &p); err != nil {
			panic(err)
		}
		p.norm()
		data, prog = p.data(), p.prog()
		want, failed, runs := p.expect()
		if runs >= 2 && len(p.Layers) >= 2 {
			c.Nontrivial()
		}
		shape := ""
		for k, l := range p.Layers {
			shape += "/" + l.Kind
			if k > 0 && l.Kind == "foreach" && l.Var != nil && l.Place == "ops" {
				c.Dist("nest:forEach-with-custom-variable-as-operation-of:" + p.Layers[k-1].Kind)
			}
		}
		c.Dist("nest:kinds:" + shape)
		c.Dist("nest:read:" + p.Read + ":" + p.Place)
		c.Dist(fmt.Sprintf("nest:reader-runs:%d", min(runs, 10)))
		direct = func(run *c12RunRes, v string) {
			got := c14Project(run.tr)
			// "forEach runs its body once per item, in item order, with the loop variable bound to that item" — at
			// every level of nesting: "the trace of (item, operation) pairs equals items x body in order up to the failure"
			c.Direct("nested-trace-equals-items-x-body"+v, canon(got) == canon(want), map[string]any{"got": got, "want": want})
			var gotErrs, wantErrs []bool
			for i, e := range run.errs {
				gotErrs = append(gotErrs, e != nil)
				wantErrs = append(wantErrs, failed && i == len(run.errs)-1)
			}
			c.Direct("nested-error-iff-failure"+v, canon(gotErrs) == canon(wantErrs), map[string]any{"got": gotErrs, "want": wantErrs, "errs": fmt.Sprint(run.errs)})
			// "when either finishes, normally or with an error, the variable or the arguments are gone"
			for k, l := range p.Layers {
				switch l.Kind {
				case "foreach":
					c.Direct("forEach-variable-gone"+v, run.data.Lookup(c14VarName(l.Var)) == nil, map[string]any{"var": c14VarName(l.Var), "data": run.dataWire()})
				case "call":
					c.Direct("call-arguments-gone"+v, run.data.Lookup(fmt.Sprintf("cl%d", k)) == nil, map[string]any{"path": fmt.Sprintf("cl%d", k), "data": run.dataWire()})
				}
			}
			c.Direct("call-arguments-gone"+v, run.data.Lookup("args") == nil, map[string]any{"path": "args", "data": run.dataWire()})
			// "… and the mechanism itself has disturbed no other data"
			c.Direct("nested-no-other-data-disturbed"+v, c14FlatWire(p.strip(run.dataWire())) == c14FlatWire(p.strip(data)),
				map[string]any{"before": data, "after": run.dataWire()})
		}
	case "defs":
		var p c14Defs
		if err := json.Unmarshal(raw, &p); err != nil {
			panic(err)
		}
		var seq []string
		for _, s := range p.Seq {
			switch s {
			case "d1", "d2", "dg", "cf", "cg", "cn":
				seq = append(seq, s)
			}
		}
		p.Seq = seq
		data, prog = plainWire(map[string]any{"keep": map[string]any{"x": 1}}), p.prog()
		wantErrs, wantLogs := p.expect()
		if len(p.Seq) >= 2 {
			c.Nontrivial()
		}
		direct = func(run *c12RunRes, v string) {
			var gotErrs []bool
			for _, e := range run.errs {
				gotErrs = append(gotErrs, e != nil)
			}
			var gotLogs []string
			for _, e := range c14Project(run.tr) {
				if e[0] == "l" {
					gotLogs = append(gotLogs, e[1].(string))
				}
			}
			// "Defining a name twice or calling an undefined name is an error" / "first definition kept"
			c.Direct("define-call-errors"+v, canon(gotErrs) == canon(wantErrs), map[string]any{"seq": p.Seq, "got": gotErrs, "want": wantErrs})
			c.Direct("first-definition-kept"+v, canon(gotLogs) == canon(wantLogs), map[string]any{"seq": p.Seq, "got": gotLogs, "want": wantLogs})
			c.Direct("registry-leaves-data-alone"+v, c14FlatWire(run.dataWire()) == c14FlatWire(data), run.dataWire())
		}
	case "rand":
		var p c14Rand
		if err := json.Unmarshal(raw, &p); err != nil {
			panic(err)
		}
		data, prog = p.Data, p.Prog
		if _, ok := wireCont(data); !ok {
			data = map[string]any{"m": map[string]any{}}
		}
		direct = func(run *c12RunRes, v string) {
			if len(run.tr) > 6 {
				c.Nontrivial()
			}
			// generic clauses: nesting and fail-fast of every top-level Execute
			roots, problem := c12Parse(run.rec)
			if !c.Direct("well-nested"+v, problem == "" && len(roots) == len(run.errs), map[string]any{"problem": problem}) {
				return
			}
			for i, rt := range roots {
				ff := c12FailFast(run.rec, rt.first, rt.last+1, run.errs[i])
				c.Direct("fail-fast"+v, ff == "", map[string]any{"problem": ff, "step": i})
			}
			// top-level forEach variables are gone afterwards
			for _, o := range prog {
				if o.K == "forEach" {
					c.Direct("forEach-variable-gone"+v, run.data.Lookup(c14VarName(o.Var)) == nil, c14VarName(o.Var))
				}
			}
		}
	default:
		return
	}
	if prog == nil {
		prog = []c12Op{}
	}
	for i := range prog {
		prog[i].norm()
	}
	var model any
	if !c.searchMode {
		model = c.Model("seq", map[string]any{"data": data, "prog": prog, "fuel": c14Fuel})
	}
	// the independent Go reference interpreter (c12_ref.go): items x body in order, scoped variables and
	// arguments, loop order, registry rules — answers only inside its domain
	ref := refExecSeq(data, prog, refDefaultFns)
	for _, variant := range []string{"struct", "yaml"} {
		acts := make([]pipeline.Action, 0, len(prog))
		ok := true
		for i := range prog {
			if variant == "struct" {
				acts = append(acts, prog[i].action())
			} else {
				a, err := prog[i].opViaYAML()
				if !c.Direct("yaml-decodes", err == nil, fmt.Sprint(err)) {
					ok = false
					break
				}
				acts = append(acts, a)
			}
		}
		if !ok {
			continue
		}
		if share != nil {
			share(acts)
		}
		run := c12Exec(data, acts, false)
		if strings.HasPrefix(run.text, "runaway") {
			if c.searchMode {
				continue // a neighbour produced by the shrinker (e.g. a loop without its counter): outside the domain
			}
			// kept apart from no-panic so that shrinking a panic cannot drift into a non-terminating program
			c.Direct("terminates("+variant+")", false, run.text)
			continue
		}
		if !c.Direct("no-panic("+variant+")", run.outcome == "ok", run.text) {
			continue
		}
		direct(run, "("+variant+")")
		c12RefDirect(c, ref, run, 0, "("+variant+")")
		mm, _ := model.(map[string]any)
		switch {
		case c.searchMode:
		case skipTr:
			c.Corr("seq("+variant+")", map[string]any{"errs": c14DropAbortText(run.errTags()), "data": run.dataWire()},
				map[string]any{"errs": c14DropAbortText(mm["errs"]), "data": mm["data"]})
		case multiset:
			mtr, _ := mm["tr"].([]any)
			c.Corr("seq("+variant+")", map[string]any{"tr": c14SortedEvents(run.tr), "errs": run.errTags(), "data": run.dataWire()},
				map[string]any{"tr": c14SortedEvents(mtr), "errs": mm["errs"], "data": mm["data"]})
		default:
			c.Corr("seq("+variant+")", map[string]any{"tr": run.tr, "errs": run.errTags(), "data": run.dataWire()},
				map[string]any{"tr": mm["tr"], "errs": mm["errs"], "data": mm["data"]})
		}
	}
}

// for a failing container query only the error class is order independent (the abort text names the item)
func c14DropAbortText(v any) any {
	l, ok := v.([]any)
	if !ok {
		return v
	}
	out := make([]any, len(l))
	for i, e := range l {
		if s, ok := e.(string); ok && strings.HasPrefix(s, "abort:") {
			out[i] = "abort"
		} else {
			out[i] = e
		}
	}
	return out
}
