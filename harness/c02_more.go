package main

import (
	"encoding/json"
	"fmt"
	"math/rand"
	"reflect"
	"runtime"
	"sort"
	"strings"

	"github.com/rkosegi/yaml-toolkit/dom"
)

// C02, two more case kinds.  Both are instances of the property's own quantifiers:
//
//	searchseq   "Search returns exactly the flattened paths whose value satisfies the predicate" — for EVERY call, not only
//	            the first one a process makes: a history of Search calls over two or three documents, with predicates of
//	            every behaviour a caller's function can have (total ones; ones that type-assert and therefore panic on a
//	            value of another type, the caller recovering; one that gives up after n values; one that itself searches
//	            another document), interleaved with removals.  Each call that returns is compared with the filter of
//	            what Flatten says about the document at that moment.
//	bigrebuild  "re-inserting every flattened (path, leaf) pair, in any order, into an empty document reproduces the same
//	            flattened view" for documents with LONG lists (a little over 10^3, 10^4, 10^5 items: a fixed handful per run, not scaled
//	            with the case budget; no model involved), inserted in descending or in shuffled order.

type c02SStep struct {
	Doc  int    `json:"doc"`           // index into Docs (modulo)
	Op   string `json:"op"`            // search | remove
	Pred string `json:"pred"`          // search: all | none | is-string | is-nil | equal | str-prefix | int-positive | give-up-after | found-in
	V    W      `json:"v,omitempty"`   // equal: the value (a leaf in wire form)
	N    int    `json:"n,omitempty"`   // give-up-after: the predicate panics on its N-th call; found-in: the other document
	Key  string `json:"key,omitempty"` // remove: member of the root
	Note string `json:"-"`
}

type c02SearchSeq struct {
	Docs  []W        `json:"docs"`
	Steps []c02SStep `json:"steps"`
}

type c02BigRebuild struct {
	N     int    `json:"n"`     // list length
	Shape string `json:"shape"` // scalars: a.l[i] | conts: l[i].k | lists: l[i][0]
	Order string `json:"order"` // descending | shuffle
	Seed  int64  `json:"seed"`  // shuffle: seed of the permutation
}

func c02RunMore(c *Ctx) {
	r := c.Rng
	g := c02Gen()
	g.MaxDepth = 3
	preds := []string{"all", "all", "none", "is-string", "is-nil", "equal", "equal", "str-prefix", "str-prefix", "int-positive", "give-up-after", "found-in"}
	for i := 0; i < c.N(150); i++ {
		c.Tick()
		p := c02SearchSeq{}
		for k, n := 0, 2+r.Intn(2); k < n; k++ {
			p.Docs = append(p.Docs, g.Doc(r))
		}
		for k, n := 0, 3+r.Intn(6); k < n; k++ {
			st := c02SStep{Doc: r.Intn(len(p.Docs)), Op: "search", Pred: pick(r, preds)}
			if r.Intn(8) == 0 {
				st.Op, st.Pred = "remove", ""
				st.Key = pick(r, g.Keys)
			}
			switch st.Pred {
			case "equal":
				st.V = g.Scalar(r)
			case "give-up-after":
				st.N = 1 + r.Intn(4)
			case "found-in":
				st.N = r.Intn(len(p.Docs))
			}
			p.Steps = append(p.Steps, st)
		}
		c.Do("searchseq", p)
	}
	if !c.searchMode || c.Thorough() {
		// AddValueAt walks the list up to the index it is given, so a rebuild costs ~ n^2/2 steps: 10^5 items is what
		// fits the quick tier (~15 s); the thorough tier adds 2^17
		shapes := []string{"scalars", "conts", "lists"}
		bigs := []c02BigRebuild{
			{N: 1000 + 1 + r.Intn(64), Shape: pick(r, shapes), Order: "descending"},
			{N: 10000 + 1 + r.Intn(64), Shape: pick(r, shapes), Order: "shuffle", Seed: r.Int63n(1 << 30)},
			// the longest one highest index first: the order in which a single insertion has to make the list grow most
			{N: 100000 + 1 + r.Intn(5000), Shape: "scalars", Order: "descending"},
		}
		if c.Thorough() {
			bigs = append(bigs, c02BigRebuild{N: 1<<17 + r.Intn(64), Shape: "scalars", Order: "shuffle", Seed: r.Int63n(1 << 30)})
		}
		for _, b := range bigs {
			c.Tick()
			c.Do("bigrebuild", b)
		}
	}
}

// c02Pred: the predicate of a step as handed to Search (`impl`), and a reference version of it that is total and
// consults nothing but plain values (`ref`; ok=false: the predicate does not return for that value).
func c02Pred(st c02SStep, docs []dom.ContainerBuilder) (impl dom.SearchValueFunc, ref func(v any) (bool, bool), calls *int) {
	n := 0
	calls = &n
	switch st.Pred {
	case "all":
		return func(any) bool { return true }, func(any) (bool, bool) { return true, true }, calls
	case "is-string":
		f := func(v any) bool { _, ok := v.(string); return ok }
		return f, func(v any) (bool, bool) { return f(v), true }, calls
	case "is-nil":
		return func(v any) bool { return v == nil }, func(v any) (bool, bool) { return v == nil, true }, calls
	case "equal":
		want := wireNode(st.V)
		var val any
		if l, ok := want.(dom.Leaf); ok {
			val = l.Value()
		}
		return dom.SearchEqual(val), func(v any) (bool, bool) { return dom.SearchEqual(val)(v), true }, calls
	case "str-prefix": // what a caller who knows "my values are strings" writes
		return func(v any) bool { return strings.HasPrefix(v.(string), "s") }, func(v any) (bool, bool) {
			s, ok := v.(string)
			return ok && strings.HasPrefix(s, "s"), ok
		}, calls
	case "int-positive":
		return func(v any) bool { return v.(int) > 0 }, func(v any) (bool, bool) {
			i, ok := v.(int)
			return ok && i > 0, ok
		}, calls
	case "give-up-after":
		return func(any) bool {
			n++
			if n >= st.N {
				panic("predicate gives up")
			}
			return true
		}, nil, calls
	case "found-in": // the value occurs in another document (the predicate searches that one)
		other := docs[st.N%len(docs)]
		vals := []any{}
		for _, l := range other.Flatten() {
			vals = append(vals, l.Value())
		}
		return func(v any) bool { return len(other.Search(dom.SearchEqual(v))) > 0 }, func(v any) (bool, bool) {
			for _, o := range vals {
				if reflect.DeepEqual(o, v) {
					return true, true
				}
			}
			return false, true
		}, calls
	default: // none
		return func(any) bool { return false }, func(any) (bool, bool) { return false, true }, calls
	}
}

func c02EvalMore(c *Ctx, kind string, raw []byte) bool {
	switch kind {
	case "searchseq":
		var p c02SearchSeq
		if err := json.Unmarshal(raw, &p); err != nil {
			panic(err)
		}
		if len(p.Docs) == 0 {
			return true
		}
		for _, d := range p.Docs {
			if wireKind(d) != "cont" {
				return true
			}
		}
		c.Nontrivial()
		// a case's verdict must be a function of the case alone (a replay has to reproduce it): objects the runtime
		// recycles between calls (sync.Pool) are dropped by two collections, so whatever earlier cases left there is gone
		runtime.GC()
		runtime.GC()
		out, txt := guard(func() {
			docs := make([]dom.ContainerBuilder, len(p.Docs))
			for i, d := range p.Docs {
				docs[i] = wireContainer(d)
			}
			for i, st := range p.Steps {
				if st.Doc < 0 {
					st.Doc = -st.Doc
				}
				if st.N < 0 {
					st.N = -st.N
				}
				d := docs[st.Doc%len(docs)]
				if st.Op == "remove" {
					d.Remove(st.Key)
					continue
				}
				if st.Pred == "equal" && (st.V == nil || wireKind(st.V) != "leaf") {
					continue
				}
				fl := d.Flatten()
				impl, ref, _ := c02Pred(st, docs)
				// what the call must return, if it returns
				returns := true
				var want []string
				if ref == nil { // give-up-after n: the call cannot return once n values have been offered
					returns = len(fl) < st.N
					for q := range fl {
						want = append(want, q)
					}
				} else {
					for q, l := range fl {
						hit, ok := ref(l.Value())
						if !ok {
							returns = false
						}
						if hit {
							want = append(want, q)
						}
					}
				}
				sort.Strings(want)
				var got []string
				o, t := guard(func() { got = d.Search(impl) })
				c.Dist("searchseq:" + st.Pred + ":" + map[bool]string{true: "returns", false: "predicate-panics"}[returns])
				if !returns {
					continue // the caller recovered from its own predicate's panic; nothing is claimed about that call
				}
				if !c.Direct("searchseq:no-panic", o == "ok", map[string]any{"step": i, "panic": t}) {
					return
				}
				sort.Strings(got)
				if !c.Direct("search==filter of flatten (every call of a history of searches)", reflect.DeepEqual(got, want) || (len(got) == 0 && len(want) == 0),
					map[string]any{"step": i, "predicate": st.Pred, "document": nodeWire(d), "got": got, "want": want}) {
					return
				}
			}
		})
		c.Direct("no-panic", out == "ok", txt)
	case "bigrebuild":
		var p c02BigRebuild
		if err := json.Unmarshal(raw, &p); err != nil {
			panic(err)
		}
		if p.N < 1 || p.N > 1<<18 {
			return true
		}
		c.Nontrivial()
		c.Dist(fmt.Sprintf("bigrebuild:%s:%s:>=2^%d", p.Shape, p.Order, bitLen(p.N)-1))
		out, txt := guard(func() {
			items := make([]any, p.N)
			for i := range items {
				switch p.Shape {
				case "conts":
					items[i] = map[string]any{"k": i}
				case "lists":
					items[i] = []any{fmt.Sprintf("v%d", i)}
				default:
					items[i] = i
				}
			}
			var plain map[string]any
			if p.Shape == "conts" || p.Shape == "lists" {
				plain = map[string]any{"l": items, "z": "tail"}
			} else {
				plain = map[string]any{"a": map[string]any{"l": items}, "z": "tail"}
			}
			cb := dom.Builder().FromMap(plain)
			fl := cb.Flatten()
			if !c.Direct("flatten-size==scalar-positions", len(fl) == p.N+1, map[string]any{"flatten": len(fl), "scalars": p.N + 1}) {
				return
			}
			keys := sortedKeys(fl)
			// numeric order of the indices: shorter paths first, then by text
			sort.SliceStable(keys, func(i, j int) bool {
				if len(keys[i]) != len(keys[j]) {
					return len(keys[i]) < len(keys[j])
				}
				return keys[i] < keys[j]
			})
			if p.Order == "shuffle" {
				rand.New(rand.NewSource(p.Seed)).Shuffle(len(keys), func(i, j int) { keys[i], keys[j] = keys[j], keys[i] })
			} else {
				for i, j := 0, len(keys)-1; i < j; i, j = i+1, j-1 {
					keys[i], keys[j] = keys[j], keys[i]
				}
			}
			nb := dom.Builder().Container()
			for _, k := range keys {
				nb.AddValueAt(k, dom.LeafNode(fl[k].Value()))
			}
			fl2 := nb.Flatten()
			var missing, extra, differ []string
			for k, l := range fl {
				if l2, ok := fl2[k]; !ok {
					missing = append(missing, k)
				} else if !reflect.DeepEqual(l.Value(), l2.Value()) {
					differ = append(differ, k)
				}
			}
			for k := range fl2 {
				if _, ok := fl[k]; !ok {
					extra = append(extra, k)
				}
			}
			few := func(s []string) []string {
				sort.Strings(s)
				if len(s) > 6 {
					return append(s[:6:6], fmt.Sprintf("... (%d)", len(s)))
				}
				return s
			}
			c.Direct("rebuild(any order) gives the same flattened view", len(missing)+len(extra)+len(differ) == 0,
				map[string]any{"original_paths": len(fl), "rebuilt_paths": len(fl2), "first_inserted": keys[0],
					"missing_from_rebuilt": few(missing), "only_in_rebuilt": few(extra), "other_value_in_rebuilt": few(differ)})
		})
		c.Direct("no-panic", out == "ok", txt)
	default:
		return false
	}
	return true
}

func bitLen(n int) int {
	b := 0
	for ; n > 0; n >>= 1 {
		b++
	}
	return b
}

// c02Shrink: shrinkJSON, except for the big rebuilds (one evaluation takes seconds; the case is five numbers already).
func c02Shrink(kind string, raw []byte) [][]byte {
	if kind == "bigrebuild" {
		return nil
	}
	return shrinkJSON(kind, raw)
}
