package main

import (
	"bytes"
	"encoding/json"
	"fmt"
	"io"
	"math/rand"
	"strings"
	"testing/iotest"

	"github.com/rkosegi/yaml-toolkit/common"
	"github.com/rkosegi/yaml-toolkit/dom"
	"gopkg.in/yaml.v3"
)

// C01, further case kinds.  All of them are instances of the property's quantifiers ("for all generic values",
// "for all texts", "Serialize(d) byte-identical across calls", "for every prefix length n at which the
// writer/reader fails") that a generator of fresh trees and one-shot calls never reaches:
//
//	afterfail  a call that FAILS part-way (writer failing after n bytes for several n incl. 0, a value the encoder
//	           rejects, a reader failing after n bytes, unparsable text) — on another document — precedes an
//	           ordinary call: the ordinary call must produce exactly what it produced before anything failed
//	shared     generic values in which ONE Go map / slice object occurs at several positions (a DAG, not a tree)
//	big        texts just under / at / over 512 B, 4 KiB, 64 KiB, 1 MiB, optionally with a multi-byte UTF-8
//	           character straddling that offset; reader variants (whole, one byte at a time, chunked) must agree
//	serhist    a document that was serialised, edited in place, serialised again (domhist.go)

type c01AfterFail struct {
	M    W      `json:"m"`    // the document whose call fails
	M2   W      `json:"m2"`   // the document of the ordinary call that follows
	Fmt  string `json:"fmt"`  // encoder of the failing call
	Fmt2 string `json:"fmt2"` // encoder of the ordinary call
	Fail string `json:"fail"` // write | encode | read | parse
	Ns   []int  `json:"ns"`   // write / read: the prefix lengths after which the stream fails (taken modulo the output length)
}

type c01Shared struct {
	M  W       `json:"m"`
	S  W       `json:"s"`  // the shared value: a map or a list
	At [][]any `json:"at"` // positions below M that all hold the very same Go object built from S
}

type c01Big struct {
	Fmt   string `json:"fmt"`   // yaml | json
	Size  int    `json:"size"`  // the threshold
	Delta int    `json:"delta"` // total length = Size + Delta (MB == 0)
	MB    int    `json:"mb"`    // 2, 3, 4: a character of that many UTF-8 bytes starts at offset Size-1; 0: ASCII only
	Shape string `json:"shape"` // string | list | map
}

type c01SerHist struct {
	M     W        `json:"m"`
	Edits []dhEdit `json:"edits"`
}

func c01RunMore(c *Ctx) {
	r := c.Rng
	g := c01Gen()
	gs := stdGen()
	gs.MaxDepth = 3
	fmts := []string{"yaml", "json", "file.yaml", "file.json"}
	for i := 0; i < c.N(120); i++ {
		c.Tick()
		a := c01AfterFail{M: gs.Doc(r), M2: gs.Doc(r), Fmt: pick(r, fmts), Fmt2: pick(r, fmts),
			Fail: pick(r, []string{"write", "write", "write", "encode", "read", "parse"})}
		a.Ns = []int{0, 1, 1 + r.Intn(40), 1 + r.Intn(400), -1, -2 - r.Intn(20)}
		c.Do("afterfail", a)
	}
	for i := 0; i < c.N(400); i++ {
		c.Tick()
		c.Do("shared", c01GenShared(r, g))
	}
	for i := 0; i < c.N(200); i++ {
		c.Tick()
		m := g.Doc(r)
		c.Do("serhist", c01SerHist{M: m, Edits: dhGenEdits(r, g, m, 1+r.Intn(5))})
	}
	if !c.searchMode || c.Thorough() {
		i := 0
		for _, size := range []int{512, 4096, 65536, 1 << 20} {
			for fi, f := range []string{"yaml", "json"} {
				vs := [][2]int{{-1, 0}, {0, 0}, {1, 0}, {0, 2}, {0, 3}, {0, 4}}
				if size > 65536 && !c.Thorough() {
					// the 1 MiB texts are the expensive ones: three per format, together all six variants
					vs = [][2]int{vs[fi], vs[2+fi], vs[4+fi]}
				}
				for _, v := range vs {
					c.Tick()
					shape := []string{"string", "list", "map"}[i%3]
					if size > 65536 || (size == 65536 && i%2 == 0 && !c.Thorough()) {
						shape = "string" // one long scalar: the bytes cross the threshold, the node count stays small
					}
					i++
					c.Do("big", c01Big{Fmt: f, Size: size, Delta: v[0], MB: v[1], Shape: shape})
				}
			}
		}
	}
}

// ------------------------------------------------------------------ shared Go objects

func c01GenShared(r *rand.Rand, g *DocGen) c01Shared {
	m := g.Doc(r)
	var s W
	if r.Intn(3) == 0 {
		s = g.List(r, 2)
	} else {
		s = g.Cont(r, 2)
	}
	// candidate positions: every existing position, and new keys of existing containers
	var ps []dhPos
	dhPositions(m, []any{}, &ps)
	var cands [][]any
	for _, p := range ps {
		if p.kind == "cont" {
			for _, k := range p.keys {
				cands = append(cands, append(append([]any{}, p.at...), k))
			}
			cands = append(cands, append(append([]any{}, p.at...), pick(r, g.Keys)), append(append([]any{}, p.at...), pick(r, g.Keys)))
		} else {
			for i := 0; i < p.n; i++ {
				cands = append(cands, append(append([]any{}, p.at...), i))
			}
		}
	}
	out := c01Shared{M: m, S: s}
	for i, n := 0, 2+r.Intn(2); i < n; i++ {
		out.At = append(out.At, pick(r, cands))
	}
	return out
}

// c01PlaceShared puts `shared` (the same object every time) at the positions; the same is done on the wire
// value with copies of sw.  A position whose parent does not exist, or lies inside an occurrence placed
// earlier (that would make the value cyclic), is skipped.  Returns how many occurrences were placed.
func c01PlaceShared(plain map[string]any, wire W, shared any, sw W, at [][]any) (W, int) {
	var placed []string
	n := 0
	for _, p := range at {
		if len(p) == 0 {
			continue
		}
		parentKey := dhPosKey(p[:len(p)-1])
		inside := false
		for _, q := range placed {
			if parentKey == q || strings.HasPrefix(parentKey, q+"\x00") {
				inside = true
			}
		}
		if inside {
			continue
		}
		key, idx, isIdx, ok := dhStep(p[len(p)-1])
		if !ok {
			continue
		}
		// the plain value
		var cur any = plain
		good := true
		for _, s := range p[:len(p)-1] {
			k, i, isI, ok := dhStep(s)
			if !ok {
				good = false
				break
			}
			switch x := cur.(type) {
			case map[string]any:
				next, has := x[k]
				good = !isI && has
				cur = next
			case []any:
				good = isI && i < len(x)
				if good {
					cur = x[i]
				}
			default:
				good = false
			}
			if !good {
				break
			}
		}
		if !good {
			continue
		}
		switch x := cur.(type) {
		case map[string]any:
			if isIdx || idxSuffixRe.MatchString(key) {
				continue
			}
			x[key] = shared
		case []any:
			if !isIdx || idx >= len(x) {
				continue
			}
			x[idx] = shared
		default:
			continue
		}
		w2, ok := dhUpdate(wire, p[:len(p)-1], func(w W) (W, bool) {
			if l, isList := w.([]any); isList {
				nl := append([]any{}, l...)
				nl[idx] = deepCopyW(sw)
				return nl, true
			}
			cm, _ := wireCont(w)
			m := map[string]any{}
			for k, v := range cm {
				m[k] = v
			}
			m[key] = deepCopyW(sw)
			return map[string]any{"m": m}, true
		})
		if !ok {
			panic("harness: wire and plain value disagree about a position")
		}
		wire = w2
		// occurrences placed earlier below this position are gone
		self := dhPosKey(p)
		kept := placed[:0]
		for _, q := range placed {
			if q == self || strings.HasPrefix(q, self+"\x00") {
				n--
				continue
			}
			kept = append(kept, q)
		}
		placed = append(kept, self)
		n++
	}
	return wire, n
}

// ------------------------------------------------------------------ big texts

// c01BigText builds the text of a c01Big case (a pure function of the case).
func c01BigText(p c01Big) []byte {
	mbChar := map[int]string{2: "é", 3: "€", 4: "𝄞"}[p.MB]
	var sb bytes.Buffer
	room := p.Size - 200 // the bulk ends well before the threshold
	switch p.Fmt {
	case "json":
		sb.WriteString("{")
		switch p.Shape {
		case "list":
			sb.WriteString(`"bulk":[`)
			for i := 0; sb.Len() < room; i++ {
				if i > 0 {
					sb.WriteString(",")
				}
				fmt.Fprintf(&sb, `%d,null,"v%d",[%d],{"k":%d}`, i, i, i, i)
			}
			sb.WriteString(`],`)
		case "map":
			sb.WriteString(`"bulk":{`)
			for i := 0; sb.Len() < room; i++ {
				if i > 0 {
					sb.WriteString(",")
				}
				fmt.Fprintf(&sb, `"key%d":[%d,null],"m%d":{"x":null}`, i, i, i)
			}
			sb.WriteString(`},`)
		}
		sb.WriteString(`"zpad":"`)
		tail := `","tail":[1,null,"x",[],{}]}` + "\n"
		c01BigPad(&sb, p, mbChar, len(tail))
		sb.WriteString(tail)
	default:
		switch p.Shape {
		case "list":
			sb.WriteString("bulk:\n")
			for i := 0; sb.Len() < room; i++ {
				fmt.Fprintf(&sb, "  - %d\n  - null\n  - v%d\n  - [%d]\n  - {k: %d}\n", i, i, i, i)
			}
		case "map":
			sb.WriteString("bulk:\n")
			for i := 0; sb.Len() < room; i++ {
				fmt.Fprintf(&sb, "  key%d: [%d, null]\n  m%d:\n    x: null\n", i, i, i)
			}
		}
		sb.WriteString(`zpad: "`)
		tail := "\"\ntail: [1, null, x, [], {}]\n"
		c01BigPad(&sb, p, mbChar, len(tail))
		sb.WriteString(tail)
	}
	return sb.Bytes()
}

// c01BigPad fills the string scalar so that either the multi-byte character starts at offset Size-1 (MB > 0),
// or the whole text is Size+Delta bytes long.
func c01BigPad(sb *bytes.Buffer, p c01Big, mbChar string, tailLen int) {
	if p.MB > 0 {
		for sb.Len() < p.Size-1 {
			sb.WriteByte('a')
		}
		sb.WriteString(mbChar)
		sb.WriteString("bbbbbbbb")
		return
	}
	for sb.Len()+tailLen < p.Size+p.Delta {
		sb.WriteByte('a')
	}
}

// chunkReader hands out at most n bytes per Read call.
type chunkReader struct {
	data []byte
	n    int
}

func (r *chunkReader) Read(p []byte) (int, error) {
	if len(r.data) == 0 {
		return 0, io.EOF
	}
	k := r.n
	if k > len(p) {
		k = len(p)
	}
	if k > len(r.data) {
		k = len(r.data)
	}
	copy(p, r.data[:k])
	r.data = r.data[k:]
	return k, nil
}

// ------------------------------------------------------------------ evaluation

// c01Unencodable is a value both default encoders reject with an error (a Marshaler that fails).
type c01BadValue struct{}

func (c01BadValue) MarshalYAML() (interface{}, error) { return nil, errInjected }
func (c01BadValue) MarshalJSON() ([]byte, error)      { return nil, errInjected }

var c01Unencodable = c01BadValue{}

func c01Decoder(f string) dom.DecoderFunc {
	switch f {
	case "yaml":
		return dom.DefaultYamlDecoder
	case "json":
		return dom.DefaultJsonDecoder
	default:
		return common.DefaultFileDecoderProvider(f)
	}
}

func c01IsJSON(f string) bool { return strings.HasSuffix(f, "json") }

func c01EvalMore(c *Ctx, kind string, raw []byte) bool {
	switch kind {
	case "afterfail":
		var p c01AfterFail
		if err := json.Unmarshal(raw, &p); err != nil {
			panic(err)
		}
		if wireKind(p.M) != "cont" || wireKind(p.M2) != "cont" || c01Encoder(p.Fmt) == nil || c01Encoder(p.Fmt2) == nil {
			return true
		}
		c.Nontrivial()
		c.Dist("afterfail:" + p.Fail)
		out, txt := guard(func() {
			victim := dom.Builder().FromMap(wirePlain(p.M).(map[string]any))
			other := dom.Builder().FromMap(wirePlain(p.M2).(map[string]any))
			enc, enc2 := c01Encoder(p.Fmt), c01Encoder(p.Fmt2)
			ser := func(d dom.Container, e dom.EncoderFunc) []byte {
				var buf bytes.Buffer
				if err := d.Serialize(&buf, dom.DefaultNodeEncoderFn, e); err != nil {
					c.Direct("afterfail:serialize-no-error", false, fmt.Sprint(err))
				}
				return buf.Bytes()
			}
			// what the ordinary calls produce before anything fails
			base2 := ser(other, enc2)
			base1 := ser(victim, enc)
			dec2 := c01Decoder(p.Fmt2)
			load := func() W {
				cb, err := dom.Builder().FromReader(bytes.NewReader(base2), dec2)
				if err != nil {
					return map[string]any{"error": err.Error()}
				}
				return nodeWire(cb)
			}
			loaded := load()
			after := func(what string, n int) bool {
				got2 := ser(other, enc2)
				if !c.Direct("afterfail:serialize-byte-identical-after-a-failed-call", bytes.Equal(got2, base2),
					map[string]any{"failed_call": what, "fail_after_bytes": n, "before": string(base2), "after": string(got2)}) {
					return false
				}
				got1 := ser(victim, enc)
				if !c.Direct("afterfail:serialize-byte-identical-after-a-failed-call", bytes.Equal(got1, base1),
					map[string]any{"failed_call": what, "fail_after_bytes": n, "before": string(base1), "after": string(got1)}) {
					return false
				}
				return c.Direct("afterfail:load-identical-after-a-failed-call", canon(load()) == canon(loaded),
					map[string]any{"failed_call": what, "fail_after_bytes": n})
			}
			norm := func(n, size int) int {
				if size == 0 {
					return 0
				}
				n %= size
				if n < 0 {
					n += size
				}
				return n
			}
			switch p.Fail {
			case "write":
				for _, n0 := range p.Ns {
					n := norm(n0, len(base1))
					w := &failAfterWriter{n: n}
					err := victim.Serialize(w, dom.DefaultNodeEncoderFn, enc)
					if w.hit && !c.Direct("afterfail:write-failure-surfaces", err != nil, map[string]any{"fail_after_bytes": n, "of": len(base1)}) {
						return
					}
					if !after("Serialize into a writer that fails", n) {
						return
					}
				}
			case "encode":
				// the same document with one more member, which the encoder rejects after having encoded the rest
				bad := wirePlain(p.M).(map[string]any)
				bad["zzzz"] = []any{"last", c01Unencodable}
				bd := dom.Builder().FromMap(bad)
				for i := 0; i < 3; i++ {
					var buf bytes.Buffer
					err := bd.Serialize(&buf, dom.DefaultNodeEncoderFn, enc)
					if !c.Direct("afterfail:unencodable-value-is-an-error", err != nil, buf.String()) {
						return
					}
					if !after("Serialize of a value the encoder rejects", buf.Len()) {
						return
					}
				}
			case "read":
				dec := c01Decoder(p.Fmt)
				for _, n0 := range p.Ns {
					n := norm(n0, len(base1))
					rd := &failAfterReader{data: append([]byte(nil), base1[:n]...)}
					_, err := dom.Builder().FromReader(rd, dec)
					if rd.hit && !c.Direct("afterfail:read-failure-surfaces", err != nil, map[string]any{"fail_after_bytes": n, "of": len(base1)}) {
						return
					}
					if !after("FromReader from a reader that fails", n) {
						return
					}
				}
			default: // parse: text the decoder rejects part-way
				dec := c01Decoder(p.Fmt)
				for _, junk := range []string{"\x00", "{{", ": : :\n\t- [", "]"} {
					text := append(append([]byte(nil), base1[:len(base1)/2]...), junk...)
					_, err := dom.Builder().FromReader(bytes.NewReader(text), dec)
					if err == nil {
						c.Dist("afterfail:junk-parsed")
					}
					if !after("FromReader of unparsable text", len(text)) {
						return
					}
				}
			}
		})
		c.Direct("afterfail:no-panic", out == "ok", txt)
	case "shared":
		var p c01Shared
		if err := json.Unmarshal(raw, &p); err != nil {
			panic(err)
		}
		if wireKind(p.M) != "cont" || wireKind(p.S) == "leaf" {
			return true
		}
		c.Nontrivial()
		out, txt := guard(func() {
			plain := wirePlain(p.M).(map[string]any)
			shared := wirePlain(p.S)
			exp, n := c01PlaceShared(plain, deepCopyW(p.M), shared, p.S, p.At)
			c.Dist(fmt.Sprintf("shared:occurrences=%d", n))
			c.Dist("shared:" + wireKind(p.S))
			cb := dom.Builder().FromMap(plain)
			c01CheckDom(c, "shared", exp, cb)
			c.Direct("shared:input-untouched", canon(plainWire(plain)) == canon(exp), nil)
			// the same value built from distinct objects serialises to the same bytes
			distinct := dom.Builder().FromMap(wirePlain(exp).(map[string]any))
			c.Direct("shared:dom-equals-dom-of-distinct-objects", cb.Equals(distinct) && distinct.Equals(cb), nil)
			if has, _ := wireIdxKeys(exp); !has && c01Encodable(exp) {
				for _, f := range []string{"yaml", "json"} {
					var a, b bytes.Buffer
					e1 := cb.Serialize(&a, dom.DefaultNodeEncoderFn, c01Encoder(f))
					e2 := distinct.Serialize(&b, dom.DefaultNodeEncoderFn, c01Encoder(f))
					c.Direct("shared:serialize-equals-serialize-of-distinct-objects", e1 == nil && e2 == nil && bytes.Equal(a.Bytes(), b.Bytes()),
						map[string]any{"shared": a.String(), "distinct": b.String(), "fmt": f})
				}
			}
		})
		c.Direct("shared:no-panic", out == "ok", txt)
	case "serhist":
		var p c01SerHist
		if err := json.Unmarshal(raw, &p); err != nil {
			panic(err)
		}
		if wireKind(p.M) != "cont" || !c05KeysOK(p.M) {
			return true
		}
		for _, e := range p.Edits {
			if e.V != nil && !c05KeysOK(e.V) {
				return true
			}
		}
		c.Nontrivial()
		out, txt := guard(func() {
			d := dhNew(p.M, nil)
			for i := 0; ; i++ {
				o := dhReadOpts{Serialize: c01Encodable(d.exp)}
				if !dhReport(c, "serhist:", i, d.reads(o)) {
					return
				}
				// FromMap of what AsMap hands out is the document again (both directions of the conversion)
				back := dom.Builder().FromMap(d.root.AsMap())
				c.Direct("serhist:FromMap(AsMap(d))==d", canon(nodeWire(back)) == canon(d.exp), map[string]any{"after_edits": i, "dom": nodeWire(back), "expected": d.exp})
				if i >= len(p.Edits) {
					break
				}
				st := d.apply(p.Edits[i])
				c.Dist("serhist:edit=" + p.Edits[i].Op + ":" + st)
				if st != "skip" && !c.Direct("serhist:edit-executes", st == "ok", map[string]any{"edit": p.Edits[i], "result": st}) {
					return
				}
			}
		})
		c.Direct("serhist:no-panic", out == "ok", txt)
	case "big":
		var p c01Big
		if err := json.Unmarshal(raw, &p); err != nil {
			panic(err)
		}
		if p.Size < 256 || p.Size > 1<<21 || p.Delta < -64 || p.Delta > 64 {
			return true
		}
		c.Nontrivial()
		c.Dist(fmt.Sprintf("big:%s:%d", p.Fmt, p.Size))
		text := c01BigText(p)
		dec := dom.DefaultYamlDecoder
		if p.Fmt == "json" {
			dec = dom.DefaultJsonDecoder
		}
		ctl := map[string]any{}
		var ctlErr error
		if p.Fmt == "yaml" {
			ctlErr = yaml.NewDecoder(bytes.NewReader(text)).Decode(&ctl)
		} else {
			ctlErr = json.NewDecoder(bytes.NewReader(text)).Decode(&ctl)
		}
		if ctlErr != nil {
			panic("harness: generated big text does not decode: " + ctlErr.Error())
		}
		det := map[string]any{"text_bytes": len(text)}
		out, txt := guard(func() {
			want := canon(plainWire(ctl))
			cb, err := dom.Builder().FromReader(bytes.NewReader(text), dec)
			if !c.Direct("big:loads", err == nil, fmt.Sprint(err)) {
				return
			}
			c.Direct("big:AsMap(FromReader(t))==decode(t)", canon(plainWire(cb.AsMap())) == want && canon(nodeWire(cb)) == want, det)
			// reader variants must agree: one byte at a time, chunks that end exactly at / one short of the threshold
			variants := map[string]io.Reader{
				"chunks of Size":   &chunkReader{data: text, n: p.Size},
				"chunks of Size-1": &chunkReader{data: text, n: p.Size - 1},
				"chunks of 511":    &chunkReader{data: text, n: 511},
			}
			if len(text) <= 1<<15 || c.Thorough() {
				variants["one byte at a time"] = iotest.OneByteReader(bytes.NewReader(text))
			}
			for _, name := range sortedKeys(variants) {
				cb2, err2 := dom.Builder().FromReader(variants[name], dec)
				c.Direct("big:reader-variants-agree", err2 == nil && canon(nodeWire(cb2)) == want, map[string]any{"variant": name, "err": fmt.Sprint(err2), "text_bytes": len(text)})
			}
			// a reader that fails exactly at / around the threshold
			for _, n := range []int{p.Size - 1, p.Size, p.Size + 1} {
				if n < len(text) {
					rd := &failAfterReader{data: append([]byte(nil), text[:n]...)}
					_, err3 := dom.Builder().FromReader(rd, dec)
					if rd.hit {
						c.Direct("big:read-failure-surfaces", err3 != nil, map[string]any{"fail_after_bytes": n, "of": len(text)})
					}
				}
			}
			// serialise (both encoders): twice the same bytes, loads back to the same document, failing writer surfaces
			for _, f := range []string{"yaml", "json"} {
				var a, b bytes.Buffer
				e1 := cb.Serialize(&a, dom.DefaultNodeEncoderFn, c01Encoder(f))
				e2 := cb.Serialize(&b, dom.DefaultNodeEncoderFn, c01Encoder(f))
				if !c.Direct("big:serialize-byte-identical", e1 == nil && e2 == nil && bytes.Equal(a.Bytes(), b.Bytes()), map[string]any{"fmt": f, "len1": a.Len(), "len2": b.Len()}) {
					continue
				}
				// what was written loads back: equal to the control decode of those bytes, and (same format: scalars keep
				// their types) to the document itself
				back, err4 := dom.Builder().FromReader(bytes.NewReader(a.Bytes()), c01Decoder(f))
				ctl2 := map[string]any{}
				var ctlErr2 error
				if f == "yaml" {
					ctlErr2 = yaml.NewDecoder(bytes.NewReader(a.Bytes())).Decode(&ctl2)
				} else {
					ctlErr2 = json.NewDecoder(bytes.NewReader(a.Bytes())).Decode(&ctl2)
				}
				okBack := err4 == nil && ctlErr2 == nil && canon(nodeWire(back)) == canon(plainWire(ctl2)) && (f != p.Fmt || canon(nodeWire(back)) == want)
				c.Direct("big:load(serialize(d))==d", okBack, map[string]any{"fmt": f, "err": fmt.Sprint(err4), "control_err": fmt.Sprint(ctlErr2), "serialized_bytes": a.Len()})
				for _, n := range []int{p.Size - 1, p.Size, p.Size + 1, a.Len() - 1} {
					if n >= 0 && n < a.Len() {
						w := &failAfterWriter{n: n}
						err5 := cb.Serialize(w, dom.DefaultNodeEncoderFn, c01Encoder(f))
						if w.hit {
							c.Direct("big:write-failure-surfaces", err5 != nil, map[string]any{"fmt": f, "fail_after_bytes": n, "of": a.Len()})
						}
					}
				}
				var again bytes.Buffer
				e6 := cb.Serialize(&again, dom.DefaultNodeEncoderFn, c01Encoder(f))
				c.Direct("big:serialize-byte-identical-after-a-failed-call", e6 == nil && bytes.Equal(a.Bytes(), again.Bytes()), map[string]any{"fmt": f, "len_before": a.Len(), "len_after": again.Len()})
			}
		})
		c.Direct("big:no-panic", out == "ok", txt)
	default:
		return false
	}
	return true
}

// c01Encodable: both default encoders accept the value (JSON has no encoding for infinities; yaml.v3 and
// encoding/json both render time.Time, but a uint64 beyond int64 or 1e21 are fine for both).
func c01Encodable(w W) bool {
	switch x := w.(type) {
	case []any:
		for _, e := range x {
			if !c01Encodable(e) {
				return false
			}
		}
	case map[string]any:
		if c, ok := x["m"].(map[string]any); ok {
			for _, e := range c {
				if !c01Encodable(e) {
					return false
				}
			}
			return true
		}
		if x["t"] == "float64" {
			s, _ := x["v"].(string)
			return !strings.Contains(s, "Inf") && !strings.Contains(s, "NaN")
		}
	}
	return true
}
