package main

import (
	"encoding/json"
	"fmt"
	"math/rand"
	"strings"

	"github.com/rkosegi/yaml-toolkit/pipeline"
)

// C12 — pipeline control flow: operations then ordered children, conditions, fail-fast, nested listener events.

type c12Case struct {
	Data W      `json:"data"`
	Root c12Act `json:"root"`
}

const c12Fuel = 100000

func init() {
	register(&Prop{ID: "C12", Run: c12Run,
		Rule: "action trees whose nodes carry subsets of {set, template, log, ext trace, abort} (each op tagged with its node's unique name), a condition from {none, \"true\", \"false\", {{ .flagT }}, {{ .flagF }}, \"\" (present but blank)} (random trees also: other boolean spellings, constant texts that are no boolean, blank and white-space-only texts — a non-nil pointer to \"\" / `when: \"\"`, `when: \"  \"` — at any depth, a flag written by ANOTHER action's set, which is a missing-field error when that action has not run, and the text ANOTHER action's template operation stores) and distinct sibling orders (children listed in shuffled order). Set operations of random trees (VALUE RANGE): mostly the standard payload at the action's own path, also data that is present but EMPTY (`data: {}`: legal — nothing to merge at the root, an empty container created or kept at a path; the run goes on), data that is ABSENT (the one case in which set fails), payloads holding empty-but-present values (empty map, empty list, \"\", null), the root or an existing container as target, an explicit strategy (merge, replace, unknown ones — an error); boolean literals in every spelling of strconv.ParseBool's table (1 t T TRUE true True 0 f F FALSE false False, white space around them). Log and abort messages of random trees: now and then with white space around them, a final line end, other letter case, non-ASCII text, a `}}` before the first action, empty. Template operations of random trees render a non-boolean text, a boolean, or PARSE AND FAIL WHILE EXECUTING after having produced output (field of a scalar, index of a missing key, undefined associated template, sprig's fail), or DO NOT PARSE at all (an opening `{{` that no `}}` follows, after any text — rendered actions and a stray `}}` included —, a block keyword on its own, an undefined function): the failing operation stops the run and the final data of the failed run are compared like any other. 'enum' cases: the scope root(16 op subsets of size<=2 x 6 conditions) x 0..2 children (6 op subsets of size<=1 x 6 conditions each) — sampled in the quick tier, exhaustive in the thorough tier; 'tree' cases: random trees, depth<=5, fan-out<=4 (thorough: depth 3 trees drawn from the full per-node alphabet in addition). 'seq' cases: 2..3 actions executed one after the other by ONE executor on one data document (every call is made): each call must equal the reference on the data the earlier calls — failed ones included — left behind; later actions have conditions and templates that read the path an earlier template operation wrote to (first the minimal sequences: every kind of template text x top level / two levels down, then random ones). 'mixed' cases: nodes carrying subsets of ALL operation kinds the program form knows (also call, define, forEach, loop) on the same node — every pair of kinds on one node, then random trees; 'allops' cases (no model): one action carrying a subset of all sixteen OpSpec fields (patch, import, templateFile, env, exec, export, html2Dom included), each configured to succeed or to fail — every pair of fields, then random subsets — the operations that ran must be the fields present in the DOCUMENTED order (a literal copy of the field list at the pinned commit, not reflection on the type under test) up to the first failing one; 'hist' cases (HISTORY): one ActionSpec value executed 2..4 times, each time by a fresh executor with its own data, listener and ext registrations (a function name may trace in one run, fail in the next, be absent in a third): every run must equal the reference for THAT run. EQUIVALENT ENTRY POINTS: each enum / tree / mixed case is executed three times — built as Go structs and passed to Execute by value, the same passed as a pointer (Execute(&spec)), decoded from generated YAML; hist runs alternate between the spec value and a pointer to it, seq sequences pass every other struct-built action as a pointer and execute an action that occurs twice in the sequence as ONE value (the same Go objects) twice. 'seq' cases, also: THE CALLER EDITS THE DOCUMENT BETWEEN TWO RUNS (flips a flag the conditions read, takes away or replaces what the earlier runs left — through the container it handed to WithData()): the next run reads the document as it is then (first the minimal ones: one action executed twice, a guarded child whose flag the caller flips in between, the first run ending with a log / a set operation). 'mixed' cases, also: TEMPORARIES READ FROM OUTSIDE THEIR SCOPE — a log / abort message (now and then a condition) that reads the forEach variable or the call arguments of the node's own operations (Log and Abort are declared after Call and ForEach) or of a node that ran earlier: gone by then, for the template engine's view of the data too. EQUIVALENT SPELLINGS of a condition that reads data (random trees and sequences at the end of the run): two in three of the data-reading conditions are written {{ $.a.b }} (the root variable), {{ index . \"k\" }} or {{ index $ \"k\" }} (the index function with one key — the way to reach a key that is no identifier) instead of the field chain {{ .a.b }}, and one in eight of the unconditional actions gets a never-written flag in such a spelling: the same value, the same control flow. LARGE cases (a few per run, no model: reference interpreter and trace predicates only): 'long' — ONE executor, one document, a pool of 3..4 actions (one or two failing a few levels down: abort, failing ext action, condition without a boolean value) executed 100..300 times in a random order, every call equal to the reference on the data it finds, every call's notifications well nested on their own; 'deep' — a chain of 60..300 nested actions, one level in eight carrying an operation, a small random tree at the bottom: every level entered, operations in nesting order. The recording listener reads the data document through the harness' own reference to the container it handed to WithData(), never through ctx.Data() (an observer must not be an access). Besides the model comparison every run is compared (direct predicate) with an independent Go reference interpreter (c12_ref.go: documented operation order, per-run ext registrations; a condition that is present must evaluate to a boolean — blank texts are no boolean —; rendering yields all of the text or none). Non-trivial: at least 2 actions and at least one operation (hist: at least 2 runs and an ext operation; allops: at least 2 fields; seq: at least 2 actions in sequence). Distinct = distinct canonical case JSON.",
		Assumptions: []string{
			"template semantics owned by the model: literal text and data references to scalars only — the field chain {{ .a.b }}, the same on the root variable {{ $.a.b }}, the index function with one identifier key on dot or on $ ({{ index $ \"k\" }}), all read as the chain; strconv.ParseBool table applied to the rendered text with the white space strings.TrimSpace strips taken off (unicode.IsSpace: NBSP, NEL, U+2003 … included — the model's `trim` lists the same characters); any other action makes the rendering fail in the model — of those the generators use only actions that fail in text/template on every data once the template is executed ({{ template \"nope\" }} with no associated template defined, sprig's {{ fail \"…\" }}, {{ index .k N }} of a key that no generated operation writes) and texts that text/template rejects when it parses them, whatever else they hold (an opening `{{` that no `}}` follows; {{ end }}, {{ else }}, {{ if }}, {{ range }} on their own; {{ nosuchfunc }})",
			"sibling order values are distinct and small (no overflow in the a.Order-b.Order comparator)",
			"EvalBool calls are observed through a TemplateEngine wrapper that delegates to the library's own default engine",
			"error identity: the returned error is compared with == against the errors passed to OnAfter; error texts are not compared (except the rendered abort message)",
			"the fixed declared operation order is the documented one: the OpSpec field list at the pinned commit (c12DocumentedOrder); a change of that order is a violation, whatever the regenerated table says",
			"allops: /bin/true-like program `true` on PATH for the exec operation (the field is left out otherwise); temp files under .work",
			"seq: the model is applied once per action, each time to the data it computed for the previous one (the actions of these cases define no callables, so the data document is all the state that is carried over)",
		}})
	evals["C12"] = c12Eval
	shrinkers["C12"] = shrinkJSON
}

var c12OpKinds = []string{"set", "template", "log", "ext", "abort"}

func c12MkOp(kind, name string) c12Op {
	switch kind {
	case "set":
		return c12Op{K: "set", Data: plainWire(map[string]any{"v": name, "on": true}), Path: "w." + name}
	case "template":
		return c12Op{K: "template", Tmpl: "{{ .flagT }}-" + name, Path: "t." + name}
	case "log":
		return c12Op{K: "log", Msg: "L-" + name + "-{{ .flagF }}"}
	case "ext":
		return c12Op{K: "ext", Fn: "trace", ID: name}
	case "abort":
		return c12Op{K: "abort", Msg: "A-" + name + "-{{ .flagT }}"}
	}
	panic(kind)
}

// the last one is PRESENT but blank: no boolean, the action must fail
var c12Conds = []*string{nil, sp("true"), sp("false"), sp("{{ .flagT }}"), sp("{{ .flagF }}"), sp("")}

func c12Data() W {
	return plainWire(map[string]any{"flagT": true, "flagF": false, "keep": map[string]any{"x": 1, "y": "s"}})
}

// subsets of the op kinds of size <= k, in a fixed order
func c12Subsets(k int) [][]string {
	out := [][]string{{}}
	for i := range c12OpKinds {
		out = append(out, []string{c12OpKinds[i]})
	}
	if k >= 2 {
		for i := range c12OpKinds {
			for j := i + 1; j < len(c12OpKinds); j++ {
				// listed in REVERSE of the declared order on purpose: the declared order must come from OpSpec
				out = append(out, []string{c12OpKinds[j], c12OpKinds[i]})
			}
		}
	}
	return out
}

func c12Node(name string, ops []string, cond *string, order int) c12Act {
	a := c12Act{Name: name, Order: order, When: cond, Ops: []c12Op{}, Children: []c12Act{}}
	for _, k := range ops {
		a.Ops = append(a.Ops, c12MkOp(k, name))
	}
	return a
}

// c12EnumCase decodes index i of the enumerated scope (see Rule).
func c12EnumCase(i int, orders [][2]int) (c12Case, bool) {
	rootSubs, kidSubs := c12Subsets(2), c12Subsets(1)
	nRoot := len(rootSubs) * len(c12Conds)
	nKid := len(kidSubs) * len(c12Conds)
	total := nRoot * (1 + nKid + nKid*nKid)
	if i >= total {
		return c12Case{}, false
	}
	r := i % nRoot
	i /= nRoot
	root := c12Node("r", rootSubs[r%len(rootSubs)], c12Conds[r/len(rootSubs)], 0)
	kid := func(code int, name string, order int) c12Act {
		return c12Node(name, kidSubs[code%len(kidSubs)], c12Conds[code/len(kidSubs)], order)
	}
	switch {
	case i == 0:
	case i < 1+nKid:
		root.Children = []c12Act{kid(i-1, "r0", 3)}
	default:
		j := i - 1 - nKid
		o := orders[j%len(orders)]
		// the map key order is the names'; the execution order must be the order values'
		root.Children = []c12Act{kid(j%nKid, "r0", o[0]), kid(j/nKid, "r1", o[1])}
	}
	return c12Case{Data: c12Data(), Root: root}, true
}

func c12EnumTotal() int {
	nRoot := len(c12Subsets(2)) * len(c12Conds)
	nKid := len(c12Subsets(1)) * len(c12Conds)
	return nRoot * (1 + nKid + nKid*nKid)
}

// conditions that are present but blank
var c12BlankConds = []string{"", "", " ", "  ", "\t", " \n "}

// c12TemplateText: the text of a template operation.  Mostly text that renders (to something that is no
// boolean, or to a boolean a later condition can read); sometimes a template that PARSES but fails while it is
// being EXECUTED, after it has already produced output: a field of a scalar, an index of something that is not
// there, an associated template nobody defined, sprig's fail.  The operation fails (and stops the run); what it
// leaves at its path is part of the final data of the failed run.
func c12TemplateText(r *rand.Rand, name string) string {
	switch x := r.Intn(24); {
	case x < 9:
		return "{{ .flagT }}-" + name
	case x < 12:
		return pick(r, []string{"{{ .flagT }}", "{{ .flagF }}", "true", " {{ .flagT }} "})
	case x < 14:
		return pick(r, []string{"{{ .nokey }}", "{{ .keep.x }}{{ .keep.y }}", name})
	case x >= 20:
		// a text that DOES NOT PARSE: an opening `{{` that no `}}` follows (wherever it sits), a block keyword on
		// its own, a function nobody defined.  No template, so nothing is rendered: the operation fails.
		pre := pick(r, []string{"P-" + name + "-", "{{ .flagT }}", "true", "", "}} ", "{{ .keep.y }}:", " "})
		return pre + pick(r, c12NoParseTails)
	}
	pre := pick(r, []string{"P-" + name + "-", "{{ .flagT }}", "true", "1", "{{ .keep.y }}:", " "})
	bad := pick(r, []string{"{{ .keep.y.z }}", "{{ .keep.x.q }}", "{{ .flagT.on }}", "{{ index .nokey 0 }}", "{{ index .keep.missing 1 }}",
		"{{ template \"nope\" }}", "{{ fail \"boom\" }}"})
	post := pick(r, []string{"", "", "-tail", "{{ .flagF }}"})
	return pre + bad + post
}

// c12SetVariant: the VALUE RANGE of a set operation.  Mostly the standard payload at the action's own path; sometimes
// data that is PRESENT BUT EMPTY (`data: {}` — legal: nothing to merge at the root, an empty container created or
// kept at a path; the operation succeeds and the run goes on), data that is ABSENT (nil / no `data:` key — the
// one case in which the operation fails, and stops the run), a payload that itself holds empty-but-present values
// (empty map, empty list, "", null), the root as target (no path), and an explicit strategy (merge, replace, or
// one that does not exist — an error).
func c12SetVariant(r *rand.Rand, name string, o *c12Op) {
	switch x := r.Intn(50); {
	case x < 29:
	case x < 35:
		o.Data = plainWire(map[string]any{}) // present but empty
	case x < 38:
		o.Data = nil // absent
	case x < 43:
		o.Data = plainWire(map[string]any{"v": name, "on": true, "e": map[string]any{}, "l": []any{}, "s": "", "z": nil})
	case x < 46:
		o.Path = "" // the root: the payload's keys are merged into the document itself
		o.Data = plainWire(map[string]any{"w_" + name: map[string]any{"v": name}, "root_" + name: pick(r, []any{"", " ", name, 0, false})})
	case x < 48:
		o.Path = ""
		o.Data = plainWire(map[string]any{})
	default:
		o.Path = "keep" // an existing container: merged into (or replaced, by strategy)
		o.Data = plainWire(pick(r, []map[string]any{{}, {"x": name}, {"n": map[string]any{}}}))
	}
	switch x := r.Intn(16); {
	case x < 11:
	case x < 13:
		o.Strategy = sp("merge")
	case x < 15:
		o.Strategy = sp("replace")
	default:
		o.Strategy = sp(pick(r, []string{"bogus", "", "Merge"}))
	}
}

// c12NoParseTails: what makes a text unparsable, to be put after any text (nothing that follows closes the action)
var c12NoParseTails = []string{"{{ .flagT", "{{", "{{ .flagT }", "{{ .keep.x }-tail", "{{ .flagT }}{{", "{{ end }}", "{{ if }}-tail",
	"{{ nosuchfunc }}{{ .flagF }}", "{{ else }}", "{{ range }}"}

// c12RandTree: others = names of actions that carry a set operation; tpls (may be nil: template operations keep
// their standard text) = names of actions that carry a template operation, both in generation order.
func c12RandTree(r *rand.Rand, name string, depth, maxDepth, maxFan int, others *[]string, tpls *[]string) c12Act {
	var ops []string
	for _, k := range c12OpKinds {
		p := 0.35
		if k == "abort" {
			p = 0.08
		}
		if r.Float64() < p {
			ops = append(ops, k)
		}
	}
	r.Shuffle(len(ops), func(i, j int) { ops[i], ops[j] = ops[j], ops[i] })
	var cond *string
	switch x := r.Intn(12); {
	case x < 5:
	case x < 7:
		cond = sp(pick(r, []string{"true", "1", "T", " true ", "True", "t", "TRUE", "T\n", " t\t", "\u00a0T", "true\u0085"})) // (white space = unicode.IsSpace: NBSP and NEL included)
	case x == 7:
		cond = sp(pick(r, []string{"false", "0", "F", "f", "FALSE", "False", " f ", "0\u00a0", "\u2003false"}))
	case x == 8:
		cond = sp("{{ .flagT }}")
	case x == 9:
		cond = sp("{{ .flagF }}")
	case x == 10 && len(*others) > 0:
		// a flag some other action's set operation writes: true if that action already ran,
		// otherwise a missing-field evaluation error (which must stop the run)
		cond = sp("{{ .w." + pick(r, *others) + ".on }}")
	default:
		cond = sp(pick(r, []string{"{{ .keep.y }}", "{{ .nokey }}", "maybe"})) // not booleans: EvalBool error
		if r.Intn(3) > 0 {
			cond = nil
		}
	}
	if r.Intn(14) == 0 {
		// a condition that is PRESENT but blank (struct: non-nil pointer to ""; YAML: `when: ""`, `when: "  "`):
		// no boolean — the action must fail, at whatever depth it sits
		cond = sp(pick(r, c12BlankConds))
	}
	if tpls != nil && len(*tpls) > 0 && r.Intn(12) == 0 {
		// the text some other action's template operation stores: a boolean for some templates, none for others,
		// nothing at all ("<no value>") when that action has not run
		cond = sp("{{ .t." + pick(r, *tpls) + " }}")
	}
	a := c12Node(name, ops, cond, 0)
	for i := range a.Ops {
		if a.Ops[i].K == "template" {
			if tpls != nil {
				a.Ops[i].Tmpl = c12TemplateText(r, name)
				*tpls = append(*tpls, name)
			}
		}
		if a.Ops[i].K == "set" && tpls != nil {
			c12SetVariant(r, name, &a.Ops[i])
		}
		if (a.Ops[i].K == "log" || a.Ops[i].K == "abort") && tpls != nil && r.Intn(4) == 0 {
			// the VALUE RANGE of a message: logged / carried by the error as rendered, not cleaned up — white space
			// around it, a final line end, letter case, non-ASCII, a `}}` before the first action, the empty text
			tag := strings.ToUpper(a.Ops[i].K[:1]) + "-" + name
			if m := pick(r, []string{" " + tag + " ", tag + "-{{ .flagF }}\n", "\t" + tag, strings.ToLower(tag) + "-{{ .flagT }}", tag + "-\U0001F680-{{ .keep.y }}\u00a0",
				tag + " }} {{ .flagT }}", "{\"a\":{\"b\":1}} " + tag + " {{ .flagF }}", tag + ".", "", " "}); c12YamlCarries(m) {
				a.Ops[i].Msg = m
			}
		}
	}
	for _, k := range ops {
		if k == "set" {
			*others = append(*others, name)
		}
	}
	if depth < maxDepth {
		n := r.Intn(maxFan + 1)
		if depth == 0 && n == 0 {
			n = 1
		}
		orders := r.Perm(2*maxFan + 1)
		for i := 0; i < n; i++ {
			c := c12RandTree(r, fmt.Sprintf("%s%d", name, i), depth+1, maxDepth, maxFan, others, tpls)
			c.Order = orders[i] - maxFan
			a.Children = append(a.Children, c)
		}
		r.Shuffle(len(a.Children), func(i, j int) { a.Children[i], a.Children[j] = a.Children[j], a.Children[i] })
	}
	return a
}

func c12Run(c *Ctx) {
	r := c.Rng
	orders := [][2]int{{1, 2}, {2, 1}, {-1, 0}, {5, -3}}
	total := c12EnumTotal()
	if c.Thorough() && !c.searchMode {
		c.Note("exhaustive scope: %d trees (root: 16 op subsets x %d conditions; 0..2 children: 6 op subsets x %d conditions each)", total, len(c12Conds), len(c12Conds))
		for i := 0; i < total; i++ {
			c.Tick()
			cs, _ := c12EnumCase(i, orders)
			c.Do("enum", cs)
		}
	} else {
		for i := 0; i < c.N(2500); i++ {
			c.Tick()
			cs, _ := c12EnumCase(r.Intn(total), orders)
			c.Do("enum", cs)
		}
	}
	for i := 0; i < c.N(1500); i++ {
		c.Tick()
		var others []string
		maxDepth := 1 + r.Intn(5)
		maxFan := 1 + r.Intn(4)
		if maxDepth >= 4 && maxFan > 2 {
			maxFan = 2
		}
		var tpls []string
		root := c12RandTree(r, "r", 0, maxDepth, maxFan, &others, &tpls)
		c.Do("tree", c12Case{Data: c12Data(), Root: root})
	}
	// SEQUENCES: several actions executed one after the other by ONE executor on one data document
	for _, cs := range c12SeqBasics() {
		c.Tick()
		c.Do("seq", cs)
	}
	for i := 0; i < c.N(600); i++ {
		c.Tick()
		c.Do("seq", c12GenSeq(r))
	}
	// every kind of operation the program form knows, several of them on the same node
	for _, cs := range c12MixedPairs(r) {
		c.Tick()
		c.Do("mixed", cs)
	}
	for i := 0; i < c.N(500); i++ {
		c.Tick()
		var defined []string
		root := c12MixedTree(r, "r", 0, 1+r.Intn(3), 1+r.Intn(3), &defined)
		c.Do("mixed", c12Case{Data: c12Data(), Root: root})
	}
	// all sixteen OpSpec fields: every pair on one action, then random subsets with failing members
	for i := range c12DocumentedOrder {
		for j := i + 1; j < len(c12DocumentedOrder); j++ {
			c.Tick()
			c.Do("allops", c12All{Fields: []string{c12DocumentedOrder[j], c12DocumentedOrder[i]}})
		}
	}
	for i := 0; i < c.N(150); i++ {
		c.Tick()
		c.Do("allops", c12GenAll(r))
	}
	// HISTORY: one spec value, several executors
	for i := 0; i < c.N(500); i++ {
		c.Tick()
		c.Do("hist", c12GenHist(r))
	}
	// the LARGE cases, a few per run (direct predicates only): one executor used for hundreds of runs, failing ones
	// among them; chains of hundreds of nested actions
	for i := 0; i < c.N(4); i++ {
		c.Tick()
		c.Do("long", c12GenLong(r))
	}
	for i := 0; i < c.N(4); i++ {
		c.Tick()
		c.Do("deep", c12GenDeep(r))
	}
	// EQUIVALENT SPELLINGS of a condition that reads data: random trees whose data-reading conditions are written as
	// {{ $.k }}, {{ index . "k" }}, {{ index $ "k" }} instead of {{ .k }} (c12_spell.go), alone and in sequences
	for i := 0; i < c.N(300); i++ {
		c.Tick()
		var others, tpls []string
		root := c12RandTree(r, "r", 0, 1+r.Intn(3), 1+r.Intn(3), &others, &tpls)
		c12RespellConds(r, &root)
		c.Do("tree", c12Case{Data: c12Data(), Root: root})
	}
	for i := 0; i < c.N(100); i++ {
		c.Tick()
		p := c12GenSeq(r)
		for j := range p.Roots {
			c12RespellConds(r, &p.Roots[j])
		}
		c.Do("seq", p)
	}
}

func c12Count(a *c12Act) (acts, ops int) {
	acts, ops = 1, len(a.Ops)
	for i := range a.Children {
		x, y := c12Count(&a.Children[i])
		acts += x
		ops += y
	}
	return
}

func c12Depth(a *c12Act) int {
	d := 0
	for i := range a.Children {
		if x := c12Depth(&a.Children[i]); x > d {
			d = x
		}
	}
	return d + 1
}

func c12Eval(c *Ctx, kind string, raw []byte) {
	switch kind {
	case "hist":
		c12EvalHist(c, raw)
		return
	case "allops":
		c12EvalAll(c, raw)
		return
	case "seq":
		c12EvalSeq(c, raw)
		return
	case "long":
		c12EvalLong(c, raw)
		return
	case "deep":
		c12EvalDeep(c, raw)
		return
	}
	var p c12Case
	if err := json.Unmarshal(raw, &p); err != nil {
		panic(err)
	}
	p.Root.norm()
	if _, ok := wireCont(p.Data); !ok {
		p.Data = map[string]any{"m": map[string]any{}}
	}
	acts, ops := c12Count(&p.Root)
	if acts >= 2 && ops >= 1 {
		c.Nontrivial()
	}
	c.Dist(fmt.Sprintf("actions:%d", min(acts, 12)))
	c.Dist(fmt.Sprintf("depth:%d", c12Depth(&p.Root)))
	c12DistSpellings(c, &p.Root)

	var model any
	if !c.searchMode {
		model = c.Model("exec", map[string]any{"data": p.Data, "root": p.Root, "fuel": c12Fuel})
	}
	c12ForEachOp(&p.Root, func(o *c12Op) {
		if o.K == "template" && c12FailsAtExecution(o.Tmpl) {
			c.Dist("template-failing-at-execution")
		}
		if o.K == "template" && c12DoesNotParse(o.Tmpl) {
			c.Dist("template-that-does-not-parse")
		}
	})
	ref := refExec(p.Data, &p.Root, refDefaultFns)
	// EQUIVALENT ENTRY POINTS: the action built as Go structs and passed by value, the same passed as a POINTER
	// (Execute(&spec): *ActionSpec is an Action as well), and the action decoded from generated YAML
	for _, variant := range []string{"struct", "struct,pointer", "yaml"} {
		var spec pipeline.ActionSpec
		if variant != "yaml" {
			spec = p.Root.spec()
		} else {
			s, txt, err := p.Root.specViaYAML()
			if !c.Direct("yaml-decodes", err == nil, map[string]any{"yaml": txt, "err": fmt.Sprint(err)}) {
				continue
			}
			spec = s
		}
		var act pipeline.Action = spec
		if variant == "struct,pointer" {
			act = &spec
		}
		// (data snapshots at every before/after event are what costs most: taken for the other two variants)
		run := c12Exec(p.Data, []pipeline.Action{act}, variant != "struct,pointer")
		if strings.HasPrefix(run.text, "runaway") {
			if c.searchMode {
				continue // a neighbour produced by the shrinker (e.g. a loop without its counter): outside the domain
			}
			c.Direct("terminates("+variant+")", false, run.text)
			continue
		}
		if !c.Direct("no-panic("+variant+")", run.outcome == "ok", run.text) {
			continue
		}
		ret := run.errs[0]
		c12Direct(c, &p, run, ret, variant)
		if ret != nil {
			c.Dist("result:error:" + strings.SplitN(fmt.Sprint(run.rec.tag(ret)), ":", 2)[0])
		} else {
			c.Dist("result:ok")
		}
		c12RefDirect(c, ref, run, 0, "("+variant+")")
		c.Corr("exec("+variant+")", map[string]any{"tr": run.tr, "err": run.rec.tag(ret), "data": run.dataWire()},
			c12ModelView(model))
	}
}

// c12RefDirect: "the observed trace of executed operations, the returned error and the final data equal those
// of a reference interpreter" — the independent Go reference of c12_ref.go (documented operation order, the
// ext registrations of THIS run), evaluated on the implementation's observations alone.  from = index of the
// first event of this run in the recording.
func c12RefDirect(c *Ctx, ref *refRes, run *c12RunRes, from int, v string) {
	if !ref.OK {
		c.Dist("reference:outside-its-domain")
		why := ref.Why
		if i := strings.IndexAny(why, "\"("); i > 0 {
			why = strings.TrimSpace(why[:i])
		}
		c.Dist("reference:outside-its-domain:" + why)
		return
	}
	c.Dist("reference:compared")
	got := c12ProjectOps(run.tr[from:])
	c.Direct("operations-trace-equals-reference"+v, canon(got) == canon(ref.Ev), map[string]any{"got": got, "reference": ref.Ev})
	c.Direct("returned-error-equals-reference"+v, canon(run.errTags()) == canon(ref.Errs), map[string]any{"got": run.errTags(), "reference": ref.Errs})
	c.Direct("final-data-equals-reference"+v, canon(run.dataWire()) == canon(ref.Data), map[string]any{"got": run.dataWire(), "reference": ref.Data})
}

func c12ModelView(m any) any {
	mm, ok := m.(map[string]any)
	if !ok {
		return m
	}
	return map[string]any{"tr": mm["tr"], "err": mm["err"], "data": mm["data"]}
}

// c12Direct evaluates the property's clauses on the implementation's observations alone.
func c12Direct(c *Ctx, p *c12Case, run *c12RunRes, ret error, variant string) {
	rec := run.rec
	v := "(" + variant + ")"
	// "Listener before/after notifications are properly nested and balanced"
	roots, problem := c12Parse(rec)
	if !c.Direct("well-nested"+v, problem == "" && len(roots) == 1, map[string]any{"problem": problem, "trace": run.tr}) {
		return
	}
	c12DirectRoot(c, p.Data, &p.Root, run, roots[0], ret, v)
	// a run in which nothing executed (root skipped) leaves the data as it was
	if known, val := c12KnownCond(p.Root.When, p.Data); known && !val {
		c.Direct("skipped-root-data-unchanged"+v, canon(run.dataWire()) == canon(p.Data), run.dataWire())
	}
}

// c12DirectRoot: the clauses for ONE top-level Execute(act) call, whose before/after pair is root.  flags = the
// document that holds the two flags no generated operation writes.
func c12DirectRoot(c *Ctx, flags W, act *c12Act, run *c12RunRes, root *c12TNode, ret error, v string) {
	rec := run.rec
	// "… the after-notification carrying the action's error": the root's is what Execute returned
	c.Direct("after-carries-error"+v, c12SameErr(root.err, ret) && root.label == "act:"+act.Name,
		map[string]any{"trace": run.tr, "returned": fmt.Sprint(ret)})
	// "the first failing operation stops the whole run, its error is returned and nothing after it executes"
	ff := c12FailFast(rec, root.first, root.last+1, ret)
	c.Direct("fail-fast"+v, ff == "", map[string]any{"problem": ff, "trace": run.tr})

	index := map[string]*c12Act{}
	c12Index(act, index)
	var walk func(n *c12TNode)
	walk = func(n *c12TNode) {
		a := index[n.label]
		if a == nil {
			for _, k := range n.kids {
				walk(k)
			}
			return
		}
		// the condition, as the harness itself knows it for constants and the two never-written flags
		class := c12CondClass(a.When, flags)
		known, val := class == "none" || class == "true" || class == "false", class != "false"
		// the EvalBool results observed directly inside this action
		var tests []any
		for _, e := range n.leafs {
			if ev := e.([]any); ev[0] == "t" {
				tests = append(tests, ev[2])
			}
		}
		var kidLabels []string
		for _, k := range n.kids {
			kidLabels = append(kidLabels, k.label)
		}
		if class == "error" {
			// a condition that is present must evaluate to a boolean: a constant text that is none (blank texts
			// included) fails the action — "its error is returned and nothing after it executes": neither the
			// action's operations nor its children run, and the run carries an error from here on
			c.Dist("cond:constant-not-boolean")
			if strings.TrimSpace(*a.When) == "" {
				c.Dist("cond:blank")
			}
			c.Direct("condition-without-boolean-value-fails"+v, len(n.kids) == 0 && n.hasE && ret != nil,
				map[string]any{"action": a.Name, "when": *a.When, "inside": kidLabels, "afterCarriesError": n.hasE, "returned": fmt.Sprint(ret), "trace": run.tr})
			c.Direct("failed-condition-changes-nothing"+v, rec.snap[n.first] == rec.snap[n.last],
				map[string]any{"action": a.Name, "when": *a.When, "before": json.RawMessage(rec.snap[n.first]), "after": json.RawMessage(rec.snap[n.last])})
			return
		}
		if known && !val {
			// "An action whose condition evaluates to false runs neither its operations nor its children and changes nothing"
			c.Direct("when-false-skips"+v, len(n.kids) == 0 && !n.hasE,
				map[string]any{"action": a.Name, "inside": kidLabels, "trace": run.tr})
			c.Direct("when-false-changes-nothing"+v, rec.snap[n.first] == rec.snap[n.last],
				map[string]any{"action": a.Name, "before": json.RawMessage(rec.snap[n.first]), "after": json.RawMessage(rec.snap[n.last])})
			c.Dist("cond:false")
			return
		}
		if len(tests) > 0 && tests[0] == false {
			// any condition observed false (data-dependent ones included)
			c.Direct("when-false-skips"+v, len(n.kids) == 0 && !n.hasE, map[string]any{"action": a.Name, "inside": kidLabels})
			c.Direct("when-false-changes-nothing"+v, rec.snap[n.first] == rec.snap[n.last], map[string]any{"action": a.Name})
			return
		}
		if a.When != nil && len(tests) > 0 && tests[0] == nil {
			c.Dist("cond:error")
			c.Direct("cond-error-stops"+v, len(n.kids) == 0 && n.hasE, map[string]any{"action": a.Name, "inside": kidLabels})
			return
		}
		if known && val || a.When == nil {
			c.Dist("cond:true-or-none")
			// "runs its own operations first … and then its child actions"
			want := []string{"ops", "steps"}
			c.Direct("ops-then-children"+v, c12IsPrefix(kidLabels, want) && (n.hasE || len(kidLabels) == 2),
				map[string]any{"action": a.Name, "inside": kidLabels})
		}
		for _, k := range n.kids {
			var got []string
			for _, g := range k.kids {
				got = append(got, g.label)
			}
			switch k.label {
			case "ops":
				// "in the fixed declared operation order": the documented order (a literal, see c12DocumentedOrder)
				var gotF []string
				for _, l := range got {
					gotF = append(gotF, c12LabelField(l))
				}
				want := c12OpsInOrder(a)
				c.Direct("declared-op-order"+v, c12IsPrefix(gotF, want) && (k.hasE || len(gotF) == len(want)),
					map[string]any{"action": a.Name, "ran": gotF, "declared": want})
			case "steps":
				// "then its child actions in ascending order value"
				want := c12ChildrenByOrder(a)
				c.Direct("children-ascending"+v, c12IsPrefix(got, want) && (k.hasE || len(got) == len(want)),
					map[string]any{"action": a.Name, "ran": got, "byOrder": want})
				for _, g := range k.kids {
					walk(g)
				}
			}
		}
	}
	walk(root)
}

// c12CondClass: what the harness knows about a condition without evaluating any template engine:
//
//	none    no condition
//	true    a boolean literal (strconv.ParseBool's table, white space around it ignored) or the flag the
//	false   initial data holds and no generated operation writes
//	error   a constant text (no template action in it) that is no boolean literal — empty and white-space-only
//	        texts included: the condition is present, so it has to evaluate to a boolean, and it cannot
//	""      data dependent: not known here
func c12CondClass(w *string, data W) string {
	if w == nil {
		return "none"
	}
	flag := func(k, want string) bool {
		m, _ := wireCont(data)
		return canon(m[k]) == canon(map[string]any{"t": "bool", "v": want})
	}
	switch t := c12CanonRead(strings.TrimSpace(*w)); t {
	case "true", "1", "T", "True", "TRUE", "t":
		return "true"
	case "false", "0", "F", "False", "FALSE", "f":
		return "false"
	case "{{ .flagT }}":
		if flag("flagT", "true") {
			return "true"
		}
		return ""
	case "{{ .flagF }}":
		if flag("flagF", "false") {
			return "false"
		}
		return ""
	default:
		if !strings.Contains(t, "{{") && !strings.Contains(t, "}}") {
			return "error"
		}
	}
	return ""
}

// c12KnownCond: conditions whose boolean value the harness knows (see c12CondClass).
func c12KnownCond(w *string, data W) (known, val bool) {
	switch c12CondClass(w, data) {
	case "none", "true":
		return true, true
	case "false":
		return true, false
	}
	return false, false
}
