package main

import (
	"math/rand"
	"os"
	"path/filepath"
	"strings"
	"syscall"
)

// C13 — SYNTAX LOOK-ALIKES, rare SHAPES and a legal ENVIRONMENT (round 6).
//
// Keys.  The property's domain is "path-safe" keys: keys the dotted notation can address — no '.', no index
// group.  Such a key may still LOOK LIKE syntax of a neighbouring notation: a JSON pointer ("/metrics", "/a",
// "a/b"), a pointer escape ("~0", "~1x"), a glob ("*", "a?"), a printf verb ("%s"), a k=v selector ("k=v"), an
// escape sequence ("\\n"), a placeholder ("$x"), the pointer's end-of-list token ("-"), an index ("0", "1").  A
// dotted path is a dotted path whatever its first component looks like: valueFrom "/a" names the member "/a" of
// the root, path "/~1a" is the pointer to that same member.  The stream c13RunLook draws documents over a pool
// in which every such name stands NEXT TO its plain twin ("/a" next to "a", "a/b" next to "a" holding "b"), so
// that reading the name as another notation finds either nothing or the WRONG node, and runs
//
//	patch      the operations of the main stream (value / valueFrom / from; pointers with ~0 / ~1 escapes)
//	set        payloads and target paths over those names
//	roundtrip  export -> import of subtrees whose keys are such names
//	template / import (text, binary) / env  target paths over those names, contents that look like other notations
//
// through the same evaluations (all predicates, the RFC 6902 reference, the model) as every other case.
//
// Shapes: documents of this stream hold, more often than the standard ones, lists directly inside lists three
// levels deep with unequal lengths, empty collections FOLLOWED by more content, and single-member containers.
//
// Environment.  "Exporting a subtree as YAML or JSON and importing that file at another path yields an equal
// subtree" is stated for files, wherever the process keeps its temporary files: the directory for temporary
// files ($TMPDIR) on ANOTHER FILE SYSTEM than the export target is a legal configuration (a tmpfs /tmp or
// /dev/shm next to a disk volume).  A handful of roundtrip / export cases per run (field `tmp`) are executed
// while TMPDIR points to a fresh directory on another device than the case's own directory — /dev/shm, /run/shm,
// /tmp, /var/tmp: the first one that is writable and on another device; when there is none the flag is ignored
// — and restored afterwards.  Nothing but that directory is created there, and it is removed afterwards.

// c13LookKeys: path-safe keys that look like syntax, each next to its plain twin.
var c13LookKeys = []string{"a", "/a", "b", "/b", "a/b", "~0", "~1a", "~a", "k=v", "*", "a?", "%s", "\\n", "$x", "-", "0", "1", "/metrics", "metrics", "//", "/"}

func c13LookGen(r *rand.Rand) *DocGen {
	g := c13Gen()
	// six to eight names per document, the twins "a" / "/a" always among them
	perm := r.Perm(len(c13LookKeys) - 2)
	keys := []string{"a", "/a"}
	for _, i := range perm[:4+r.Intn(3)] {
		keys = append(keys, c13LookKeys[2+i])
	}
	g.Keys = keys
	if r.Intn(3) == 0 { // rare shapes: lists in lists, empty collections in the middle, narrow containers
		g.PList, g.PEmpty, g.PLeaf, g.MaxWidth = 0.6, 0.25, 0.4, 3
	}
	return g
}

// c13EscTok writes a member name into a pointer string (RFC 6901: '~' as ~0, '/' as ~1).
func c13EscTok(t string) string {
	return strings.ReplaceAll(strings.ReplaceAll(t, "~", "~0"), "/", "~1")
}

// c13GenPatchCase: one patch case of the main stream's kind over generator g.
func c13GenPatchCase(r *rand.Rand, g *DocGen) c13Patch {
	ops := []string{"add", "add", "remove", "replace", "move", "copy", "test"}
	data := g.Doc(r)
	cp := c13Patch{Data: data, Op: pick(r, ops), Path: c13Pointer(c13Target(r, g, data)), Via: c13PickVia(r)}
	switch r.Intn(5) {
	case 0:
		cp.Value = c13PlainTree(r, 1)
	case 1, 2, 3: // the value is read from the document
		cp.ValueFrom = strp(c13Target(r, g, data))
		var paths, lists []string
		wirePaths(data, "", &paths, &lists)
		if len(paths) > 0 && r.Intn(3) > 0 {
			cp.ValueFrom = strp(pick(r, paths)) // something that is there
		}
		if r.Intn(2) == 0 && (cp.Op == "move" || cp.Op == "copy" || cp.Op == "remove") {
			cp.Op = pick(r, []string{"add", "replace", "test"})
		}
	}
	if cp.Op == "test" && r.Intn(2) == 0 {
		tp := c13Target(r, g, data)
		cp.Path, cp.Value, cp.ValueFrom = c13Pointer(tp), nil, strp(tp)
	}
	if cp.Op == "move" || cp.Op == "copy" {
		cp.From = c13Pointer(c13Target(r, g, data))
	}
	return cp
}

func c13RunLook(c *Ctx) {
	r := c.Rng
	// the smallest cases first (so that a failure is reported on a minimal one): a member whose name begins with
	// the pointer separator, alone and next to its plain twin, as the source of a value
	leaf := func(v any) W { return scalarWire(v) }
	cont := func(m map[string]any) W { return map[string]any{"m": m} }
	for _, data := range []W{
		cont(map[string]any{"/a": leaf("by-slash-name")}),
		cont(map[string]any{"/a": leaf("by-slash-name"), "a": leaf("by-plain-name")}),
		cont(map[string]any{"/a": cont(map[string]any{"b": leaf("in-slash-name")}), "a": cont(map[string]any{"b": leaf("in-plain-name")})}),
		cont(map[string]any{"a/b": leaf("one-name"), "a": cont(map[string]any{"b": leaf("two-names")})}),
		cont(map[string]any{"~0": leaf("tilde-zero"), "~": leaf("tilde"), "~1a": leaf("tilde-one-a"), "/a": leaf("slash-a")}),
	} {
		dc, _ := wireCont(data)
		for _, k := range sortedKeys(dc) {
			for _, op := range []string{"add", "replace", "test"} {
				c.Do("patch", c13Patch{Data: data, Op: op, Path: "/" + c13EscTok(k), ValueFrom: strp(k)})
				c.Do("patch", c13Patch{Data: data, Op: op, Path: "/t", ValueFrom: strp(k)})
			}
			if _, isC := wireCont(dc[k]); isC {
				c.Do("patch", c13Patch{Data: data, Op: "add", Path: "/t", ValueFrom: strp(k + ".b")})
			}
		}
	}
	for i := 0; i < c.N(700); i++ {
		c.Tick()
		c.Do("patch", c13GenPatchCase(r, c13LookGen(r)))
	}
	strategies := []*string{nil, strp("merge"), strp("replace")}
	for i := 0; i < c.N(300); i++ {
		c.Tick()
		g := c13LookGen(r)
		data := g.Doc(r)
		cs := c13Set{Data: data, Strategy: pick(r, strategies), Via: c13PickVia(r), Payload: g.Cont(r, 1), Path: c13Target(r, g, data)}
		if conts := c13ContPaths(data); len(conts) > 0 && r.Intn(3) == 0 {
			cs.Path = pick(r, conts)
		}
		if r.Intn(8) == 0 {
			cs.Path = ""
		}
		c.Do("set", cs)
	}
	for i := 0; i < c.N(150); i++ {
		c.Tick()
		g := c13LookGen(r)
		g.PLeaf = 0.4
		data := g.Doc(r)
		cr := c13Round{Data: data, Format: pick(r, []string{"yaml", "json"}), Dst: pick(r, []string{"imp", "imp.q", "/imp", "n1./n2"}), Pre: r.Intn(2) == 0, Via: c13PickVia(r)}
		if conts := c13ContPaths(data); len(conts) == 0 || r.Intn(3) == 0 {
			cr.Whole = true
		} else {
			cr.Src = pick(r, conts)
		}
		c.Do("roundtrip", cr)
	}
	// template / import / env: target paths over such names (what is stored is stored at exactly that path)
	for i := 0; i < c.N(120); i++ {
		c.Tick()
		g := c13LookGen(r)
		data := g.Doc(r)
		ct := c13Template{Data: data, Path: c13Target(r, g, data), Via: c13PickVia(r), ParseAs: pick(r, []*string{nil, strp("none"), strp("yaml")}),
			Parts: []c13Part{{Lit: pick(r, []string{"text", "/a", "a: 1", "k=v", "- 1\n- 2", "%s", "[section]", "*"})}}}
		if r.Intn(2) == 0 {
			ct.Parts = []c13Part{{Yaml: c13PlainTree(r, 0)}}
			ct.ParseAs = strp("yaml")
		}
		c.Do("template", ct)
	}
	for i := 0; i < c.N(120); i++ {
		c.Tick()
		g := c13LookGen(r)
		data := g.Doc(r)
		ci := c13Import{Data: data, Mode: pick(r, []string{"", "text", "binary"}), Path: c13Target(r, g, data), Via: c13PickVia(r),
			Content: []byte(pick(r, []string{"", "/a/b", "k=v", "[section]\nname=value", "no final line end", "%d %s\n", "a.b[0]: x\n", "*.yaml\n?", "\\n\\t"}))}
		c.Do("import", ci)
	}
	for i := 0; i < c.N(80); i++ {
		c.Tick()
		g := c13LookGen(r)
		data := g.Doc(r)
		ce := c13Env{Data: data, Include: pick(r, []*string{nil, strp("^YTKV_")}), Exclude: pick(r, []*string{nil, strp("B")}), Via: c13PickVia(r),
			Env: [][2]string{{"YTKV_A", pick(r, []string{"1", "/a/b", "k=v", "%s", "*", "[x]", "a.b[0]"})}, {"YTKV_B", "x y"}, {"OTHER", "o"}}}
		if r.Intn(3) > 0 {
			ce.Path = c13Target(r, g, data)
		}
		c.Do("env", ce)
	}
	// the directory for temporary files on another file system than the export target
	gb := stdGen()
	gb.PLeaf = 0.4
	for i := 0; i < c.N(24); i++ {
		c.Tick()
		data := gb.Doc(r)
		cr := c13Round{Data: data, Format: pick(r, []string{"yaml", "json"}), Dst: pick(r, []string{"imp", "imp.q"}), Pre: r.Intn(2) == 0, Via: c13PickVia(r), Tmp: true}
		if conts := c13ContPaths(data); len(conts) == 0 || r.Intn(3) == 0 {
			cr.Whole = true
		} else {
			cr.Src = pick(r, conts)
		}
		if i < 2 { // the smallest ones first
			cr = c13Round{Data: cont(map[string]any{"c": cont(map[string]any{"k": leaf("v")})}), Src: "c", Dst: "imp", Format: []string{"yaml", "json"}[i], Tmp: true}
		}
		c.Do("roundtrip", cr)
	}
	g := c13Gen()
	for i := 0; i < c.N(24); i++ {
		c.Tick()
		data := g.Doc(r)
		ce := c13Export{Data: data, Format: pick(r, []string{"yaml", "json", "properties", "text", "xml"}), Path: c13Target(r, g, data), Pre: r.Intn(2) == 0, Via: c13PickVia(r), Tmp: true}
		if r.Intn(6) == 0 {
			ce.NilPath = true
		}
		c.Do("export", ce)
	}
}

// ------------------------------------------------------------------ TMPDIR elsewhere

func c13DevOf(path string) (uint64, bool) {
	var st syscall.Stat_t
	if err := syscall.Stat(path, &st); err != nil {
		return 0, false
	}
	return uint64(st.Dev), true
}

// c13TmpElsewhere points TMPDIR to a fresh directory on another device than dir; restore undoes it (and removes
// the directory).  ok = false: the machine offers no such place (nothing was changed).
func c13TmpElsewhere(dir string) (restore func(), ok bool) {
	mine, ok := c13DevOf(dir)
	if !ok {
		return func() {}, false
	}
	for _, cand := range []string{"/dev/shm", "/run/shm", "/tmp", "/var/tmp"} {
		dev, ok := c13DevOf(cand)
		if !ok || dev == mine {
			continue
		}
		d, err := os.MkdirTemp(cand, "ytk-verif-c13-")
		if err != nil {
			continue
		}
		if dev2, ok := c13DevOf(d); !ok || dev2 == mine {
			_ = os.RemoveAll(d)
			continue
		}
		old, had := os.LookupEnv("TMPDIR")
		_ = os.Setenv("TMPDIR", d)
		return func() {
			if had {
				_ = os.Setenv("TMPDIR", old)
			} else {
				_ = os.Unsetenv("TMPDIR")
			}
			_ = os.RemoveAll(d)
		}, true
	}
	return func() {}, false
}

// c13MaybeTmpElsewhere: for a case with the `tmp` flag.
func c13MaybeTmpElsewhere(c *Ctx, flag bool, dir string) func() {
	if !flag {
		return func() {}
	}
	restore, ok := c13TmpElsewhere(filepath.Clean(dir))
	if ok {
		c.Dist("tmpdir-on-another-file-system-than-the-export-target")
	} else {
		c.Dist("tmpdir-on-another-file-system:not-available-on-this-machine(flag ignored)")
	}
	return restore
}

const c13RuleLook = " ROUND 6 (c13_look.go): SYNTAX LOOK-ALIKES — a stream of patch (value / valueFrom / from; pointer strings with ~0 / ~1 escapes), set, roundtrip, template, import (text / binary; contents such as `[section]`, `name=value`, a last line without line end) and env cases runs on documents whose keys are path-safe (no dot, no index group) but LOOK LIKE another notation, each next to its plain twin: `/a` next to `a`, `/metrics`, `a/b` next to a.b, `~0`, `~1a`, `~a`, `k=v`, `*`, `a?`, `%s`, `\\n`, `$x`, `-`, `0`, `1`, `//`, `/` — a dotted path is a dotted path whatever its first component looks like (valueFrom `/a` names the member `/a`), preceded by a fixed table of the smallest such documents x add / replace / test with valueFrom; a third of these documents have rare SHAPES (lists directly in lists, empty collections followed by more content, narrow containers). ENVIRONMENT — a handful of roundtrip and export cases per run are executed while TMPDIR names a fresh directory on ANOTHER FILE SYSTEM than the export target (/dev/shm, /run/shm, /tmp, /var/tmp: the first writable one on another device; ignored when there is none; restored and removed afterwards): the export clause is stated for files, wherever the process keeps its temporary files."
