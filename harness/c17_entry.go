package main

import (
	"bytes"
	"crypto/sha256"
	"encoding/json"
	"errors"
	"fmt"
	"io"
	"math/rand"
	"os"
	"path/filepath"
	"sort"
	"strings"
	"unicode/utf8"

	"github.com/rkosegi/yaml-toolkit/k8s"
	"gopkg.in/yaml.v3"
)

// C17, the three ENTRY POINTS and manifest SIZE.
//
// "Loading any Secret or ConfigMap manifest and writing it back preserves every field outside the data sections and
// every data item exactly": any manifest - also one of 511 bytes, 4 KiB, 64 KiB or more than 1 MiB - and any of the
// three ways to load it.  One case = one manifest body of an EXACT size in bytes (just under / at / just over 512 B,
// 4 KiB, 64 KiB, 1 MiB; 0 = the natural size of the generated manifest), the bulk being one long text item, many
// text items, one long binary item, or a long field outside the data sections, optionally made of multi-byte UTF-8
// characters with one of them lying ACROSS the threshold offset.  The same bytes are loaded through
// ManifestFromBytes, ManifestFromFile and ManifestFromReader (the reader hands the bytes out whole, in chunks of n
// bytes, one byte at a time, or returns the last chunk together with io.EOF); the three manifests must show the
// generated items, the same items as each other, write byte-identical bodies that reload (through the reader entry
// point again) to the same items and keep the fields outside the data sections; the same after facade edits.
//
// Failure first (buffers / state left behind by a failed call): the load through the reader is preceded by loads from
// readers that FAIL after n bytes (n = 0, in the middle, one byte short) - each must report an error and no manifest -
// and the first WriteTo is preceded by WriteTo calls into writers that fail after n bytes - each must report the
// error - after which the successful call must give exactly what a manifest that never saw a failure gives.
//
// Direct predicates only (the model is not consulted: bodies of a megabyte are slow through the JSON pipe, and the
// model has no notion of entry points).

type c17Entry struct {
	Kind      string    `json:"kind"`
	Extra     W         `json:"extra"`
	Text      []c17Item `json:"text"`
	Bin       []c17Bin  `json:"bin"`
	Size      int       `json:"size"`            // exact size of the body in bytes (0: natural size)
	Fill      string    `json:"fill,omitempty"`  // item | items | bin | field: where the bulk goes
	Unit      string    `json:"unit,omitempty"`  // what the bulk text repeats
	Cut       int       `json:"cut,omitempty"`   // > 0: a multi-byte character of the bulk is to lie across this byte offset
	Reader    string    `json:"reader"`          // whole | chunk | one | dataeof
	Chunk     int       `json:"chunk,omitempty"` // bytes per Read of a chunked reader
	FailRead  []int     `json:"failRead"`        // permille of the body after which a preceding reader fails (0: at once, 1000: one byte short)
	FailWrite []int     `json:"failWrite"`       // permille of the written body after which a preceding writer fails
	Edits     []c17Edit `json:"edits"`
}

var c17Thresholds = []int{512, 4096, 65536, 1 << 20}

func c17GenEntry(r *rand.Rand, size, cut int) c17Entry {
	kind := pick(r, []string{"Secret", "ConfigMap"})
	cs := c17Entry{Kind: kind, Extra: c17GenExtra(r, kind), Text: c17GenItems(r, c17Keys, 4, false), Bin: c17GenBins(r, 3),
		Size: size, Reader: pick(r, []string{"whole", "whole", "chunk", "chunk", "one", "dataeof"}), FailRead: []int{}, FailWrite: []int{},
		Edits: c17GenEdits(r, r.Intn(4))}
	if size > 0 {
		cs.Fill = pick(r, []string{"item", "item", "items", "bin", "field"})
		cs.Unit = pick(r, []string{"ab", "x", "é", "日", "ü日", "0123456789"})
		if size <= 1024 {
			// room for the bulk
			cs.Extra, cs.Text, cs.Bin = map[string]any{"m": map[string]any{}}, c17GenItems(r, c17Keys, 1, true), []c17Bin{}
		}
		if cut > 0 && r.Intn(3) > 0 {
			cs.Fill, cs.Cut, cs.Unit = pick(r, []string{"item", "field"}), cut, pick(r, []string{"é", "日", "ü日"})
		}
	}
	cs.Chunk = pick(r, []int{1, 7, 512, 4096, 65536, 1 << 20})
	if size > 65536 && (cs.Reader == "one" || cs.Chunk < 512) {
		cs.Reader, cs.Chunk = "chunk", pick(r, []int{512, 4096, 65536, 1 << 20})
	}
	for n := r.Intn(3); n > 0; n-- {
		cs.FailRead = append(cs.FailRead, pick(r, []int{0, 0, 1, 500, 999, 1000, r.Intn(1001)}))
	}
	for n := r.Intn(3); n > 0; n-- {
		cs.FailWrite = append(cs.FailWrite, pick(r, []int{0, 0, 1, 500, 999, 1000, r.Intn(1001)}))
	}
	return cs
}

// c17EntryCases: the schedule of one run - every threshold just under / at / just over / well over, then natural sizes.
func c17EntryCases(c *Ctx) {
	r := c.Rng
	for rep := 0; rep < c.N(1); rep++ {
		for _, t := range c17Thresholds {
			for i, size := range []int{t - 1, t, t + 1, t + 2 + r.Intn(40), t + 100 + r.Intn(t/4)} {
				c.Tick()
				cut := 0
				if i >= 3 {
					cut = t // the bulk reaches across the threshold offset: a multi-byte character may lie across it
				}
				c.Do("entry", c17GenEntry(r, size, cut))
			}
		}
	}
	for i := 0; i < c.N(200); i++ {
		c.Tick()
		c.Do("entry", c17GenEntry(r, 0, 0))
	}
}

// ---------------------------------------------------------------- readers and writers

var errC17Injected = errors.New("injected i/o failure")

// c17Reader hands out data in chunks; failAt >= 0: an error instead of the byte at that offset.
type c17Reader struct {
	data    []byte
	pos     int
	chunk   int  // 0: as much as fits
	dataEOF bool // the last chunk comes together with io.EOF
	failAt  int  // < 0: never
}

func (r *c17Reader) Read(p []byte) (int, error) {
	if len(p) == 0 {
		return 0, nil
	}
	end := len(r.data)
	if r.failAt >= 0 && r.failAt < end {
		end = r.failAt
	}
	if r.pos >= end {
		if r.failAt >= 0 {
			return 0, errC17Injected
		}
		return 0, io.EOF
	}
	n := end - r.pos
	if n > len(p) {
		n = len(p)
	}
	if r.chunk > 0 && n > r.chunk {
		n = r.chunk
	}
	copy(p, r.data[r.pos:r.pos+n])
	r.pos += n
	if r.dataEOF && r.failAt < 0 && r.pos == len(r.data) {
		return n, io.EOF
	}
	return n, nil
}

// c17Writer accepts budget bytes, then fails.
type c17Writer struct {
	budget int
	got    int
	failed bool
}

func (w *c17Writer) Write(p []byte) (int, error) {
	if w.got+len(p) > w.budget {
		n := w.budget - w.got
		w.got = w.budget
		w.failed = true
		return n, errC17Injected
	}
	w.got += len(p)
	return len(p), nil
}

// ---------------------------------------------------------------- the body of an exact size

type c17Built struct {
	body  []byte
	text  []c17Item // all text items (generated + bulk)
	bin   []c17Bin
	extra W
	exact bool // the body has the size the case asks for
	cross bool // a multi-byte character lies across the Cut offset
}

// c17EntryBuild assembles the manifest of the case; deterministic in the case.
func c17EntryBuild(cs c17Entry) c17Built {
	marshal := func(extra W, text []c17Item, bin []c17Bin) []byte {
		b, err := yaml.Marshal(c17Root(cs.Kind, extra, text, bin, false))
		if err != nil {
			panic(err)
		}
		return b
	}
	unit := cs.Unit
	if unit == "" || strings.ContainsAny(unit, " \n\t:#") {
		unit = "x"
	}
	seen := map[string]bool{}
	var text []c17Item
	for _, it := range cs.Text {
		if !seen[it.K] && it.K != "zz-bulk" && it.K != "zz-pad" && !strings.HasPrefix(it.K, "k0") {
			seen[it.K] = true
			text = append(text, it)
		}
	}
	var bin []c17Bin
	seenB := map[string]bool{}
	for _, it := range cs.Bin {
		if !seenB[it.K] && it.K != "zz-bulk" {
			seenB[it.K] = true
			bin = append(bin, it)
		}
	}
	extra := deepCopyW(cs.Extra)
	if _, ok := wireCont(extra); !ok {
		extra = map[string]any{"m": map[string]any{}}
	}
	if cs.Size <= 0 {
		return c17Built{body: marshal(extra, text, bin), text: text, bin: bin, extra: extra, exact: true}
	}
	// with(lead, n, pad): the manifest whose bulk is lead x's followed by n units, plus a text item of 1 + pad p's
	// (the last bytes up to the exact size are made up there: one byte of body per p)
	with := func(lead, n, pad int) ([]c17Item, []c17Bin, W) {
		s := strings.Repeat("x", lead) + strings.Repeat(unit, n)
		t, b, e := append([]c17Item{}, text...), append([]c17Bin{}, bin...), extra
		switch cs.Fill {
		case "bin":
			raw := make([]int, 0, len(s))
			for _, x := range []byte(s) {
				raw = append(raw, int(x))
			}
			b = append(b, c17Bin{K: "zz-bulk", B: raw})
		case "field":
			e = deepCopyW(extra)
			m, _ := wireCont(e)
			m["zz-note"] = scalarWire("n" + s)
		case "items":
			// many items of about 40 bytes of value each (480 in a big manifest: yaml.v3 checks the keys of a mapping for
			// duplicates pairwise, so tens of thousands of keys cost seconds per load), the remainder in a last one
			per := 40
			if cs.Size > 100000 {
				per = 480
			}
			for i := 0; len(s) > per; i++ {
				cutAt := per
				for cutAt > 0 && !utf8.RuneStart(s[cutAt]) {
					cutAt--
				}
				t = append(t, c17Item{K: fmt.Sprintf("k%06d", i), V: scalarWire("v" + s[:cutAt])})
				s = s[cutAt:]
			}
			t = append(t, c17Item{K: "zz-bulk", V: scalarWire("v" + s)})
		default:
			t = append(t, c17Item{K: "zz-bulk", V: scalarWire("v" + s)})
		}
		t = append(t, c17Item{K: "zz-pad", V: scalarWire("p" + strings.Repeat("p", pad))})
		return t, b, e
	}
	size := func(lead, n, pad int) int {
		t, b, e := with(lead, n, pad)
		return len(marshal(e, t, b))
	}
	multi := len(unit) != len([]rune(unit))
	best := c17Built{}
	for lead := 0; lead < 4; lead++ {
		s0 := size(lead, 0, 0)
		if s0 > cs.Size {
			break
		}
		// growth per 4096 units measured, the number of units by a few secant steps, the rest by the pad
		const cal = 4096
		g := size(lead, cal, 0) - s0
		n := 0
		if g > 0 {
			n = int(int64(cs.Size-s0) * cal / int64(g))
			for it := 0; it < 4; it++ {
				d := cs.Size - size(lead, n, 0)
				if d >= 0 && d <= g/cal+64 {
					break
				}
				step := int(int64(d) * cal / int64(g))
				if step == 0 {
					step = -1
				}
				if n += step; n < 0 {
					n = 0
				}
			}
			for n > 0 && size(lead, n, 0) > cs.Size {
				n--
			}
		}
		pad := 0
		for tries := 0; tries < 4; tries++ {
			d := cs.Size - size(lead, n, pad)
			if d == 0 {
				break
			}
			if pad += d; pad < 0 {
				pad = 0
				break
			}
		}
		t, b, e := with(lead, n, pad)
		out := c17Built{body: marshal(e, t, b), text: t, bin: b, extra: e}
		out.exact = len(out.body) == cs.Size
		if cs.Cut > 0 && cs.Cut < len(out.body) {
			out.cross = !utf8.RuneStart(out.body[cs.Cut])
		}
		if best.body == nil || (out.exact && !best.exact) || (out.exact == best.exact && out.cross && !best.cross) {
			best = out
		}
		if best.exact && (cs.Cut <= 0 || best.cross || !multi || (cs.Fill != "item" && cs.Fill != "field")) {
			break
		}
	}
	if best.body == nil {
		return c17Built{body: marshal(extra, text, bin), text: text, bin: bin, extra: extra}
	}
	return best
}

// ---------------------------------------------------------------- evaluation

// c17Digest: item maps compared without printing megabytes.
func c17Digest(it c17Items) string {
	h := sha256.New()
	total := 0
	for _, k := range sortedKeys(it.Str) {
		fmt.Fprintf(h, "s %q %d\n%s\n", k, len(it.Str[k]), it.Str[k])
		total += len(it.Str[k])
	}
	for _, k := range sortedKeys(it.Bin) {
		b := c17ToBytes(it.Bin[k])
		fmt.Fprintf(h, "b %q %d\n", k, len(b))
		h.Write(b)
		total += len(b)
	}
	fmt.Fprintf(h, "%q %q", it.StrList, it.BinList)
	return fmt.Sprintf("%d text + %d binary items, %d bytes, sha256 %x", len(it.Str), len(it.Bin), total, h.Sum(nil)[:8])
}

// c17ItemsDiff: a short description of where two item maps differ.
func c17ItemsDiff(a, b c17Items) string {
	clip := func(s string) string {
		if len(s) > 60 {
			i, j := 24, len(s)-24
			for i > 0 && !utf8.RuneStart(s[i]) {
				i--
			}
			for j < len(s) && !utf8.RuneStart(s[j]) {
				j++
			}
			return fmt.Sprintf("%q…(%d bytes)…%q", s[:i], len(s), s[j:])
		}
		return fmt.Sprintf("%q", s)
	}
	var out []string
	keys := map[string]bool{}
	for k := range a.Str {
		keys[k] = true
	}
	for k := range b.Str {
		keys[k] = true
	}
	ks := sortedKeys(keys)
	missingA, missingB := 0, 0
	for _, k := range ks {
		x, okx := a.Str[k]
		y, oky := b.Str[k]
		switch {
		case !okx:
			missingA++
			if missingA <= 2 {
				out = append(out, fmt.Sprintf("text item %q only in the second (%s)", k, clip(y)))
			}
		case !oky:
			missingB++
			if missingB <= 2 {
				out = append(out, fmt.Sprintf("text item %q only in the first (%s)", k, clip(x)))
			}
		case x != y && len(out) < 6:
			out = append(out, fmt.Sprintf("text item %q: %s vs %s", k, clip(x), clip(y)))
		}
	}
	if missingA+missingB > 0 {
		out = append(out, fmt.Sprintf("%d text items only in the first, %d only in the second", missingB, missingA))
	}
	for _, k := range sortedKeys(a.Bin) {
		if y, ok := b.Bin[k]; !ok {
			out = append(out, fmt.Sprintf("binary item %q only in the first", k))
		} else if !bytes.Equal(c17ToBytes(a.Bin[k]), c17ToBytes(y)) {
			out = append(out, fmt.Sprintf("binary item %q: %d vs %d bytes", k, len(a.Bin[k]), len(y)))
		}
	}
	for _, k := range sortedKeys(b.Bin) {
		if _, ok := a.Bin[k]; !ok {
			out = append(out, fmt.Sprintf("binary item %q only in the second", k))
		}
	}
	if len(out) > 8 {
		out = out[:8]
	}
	return strings.Join(out, "; ")
}

func c17SameItems(a, b c17Items) bool {
	if len(a.Str) != len(b.Str) || len(a.Bin) != len(b.Bin) || len(a.StrList) != len(b.StrList) || len(a.BinList) != len(b.BinList) {
		return false
	}
	for k, v := range a.Str {
		if w, ok := b.Str[k]; !ok || w != v {
			return false
		}
	}
	for k, v := range a.Bin {
		w, ok := b.Bin[k]
		if !ok || len(w) != len(v) {
			return false
		}
		for i := range v {
			if v[i] != w[i] {
				return false
			}
		}
	}
	for i := range a.StrList {
		if a.StrList[i] != b.StrList[i] {
			return false
		}
	}
	for i := range a.BinList {
		if a.BinList[i] != b.BinList[i] {
			return false
		}
	}
	return true
}

func c17SizeClass(n int) string {
	for _, t := range c17Thresholds {
		switch {
		case n < t-1:
			return fmt.Sprintf("<%d", t-1)
		case n == t-1:
			return fmt.Sprintf("=%d-1", t)
		case n == t:
			return fmt.Sprintf("=%d", t)
		case n == t+1:
			return fmt.Sprintf("=%d+1", t)
		}
	}
	return fmt.Sprintf(">%d+1", c17Thresholds[len(c17Thresholds)-1])
}

func c17EvalEntry(c *Ctx, raw []byte) {
	var cs c17Entry
	if err := json.Unmarshal(raw, &cs); err != nil {
		panic(err)
	}
	if (cs.Kind != "Secret" && cs.Kind != "ConfigMap") || cs.Size > 8<<20 {
		return
	}
	bt := c17EntryBuild(cs)
	body := bt.body
	if len(bt.text)+len(bt.bin) > 0 {
		c.Nontrivial()
	}
	c.Dist("entry-size:" + c17SizeClass(len(body)))
	c.Dist("entry-reader:" + cs.Reader)
	if cs.Size > 0 {
		c.Dist("entry-fill:" + cs.Fill)
		c.Dist(fmt.Sprintf("entry-exact-size:%v", bt.exact))
		if cs.Cut > 0 {
			c.Dist(fmt.Sprintf("entry-utf8-character-across-threshold:%v", bt.cross))
		}
	}
	// in the domain: the generated body is a manifest yaml.v3 reads back as generated (independent of the code under test)
	var origPlain map[string]any
	if err := yaml.Unmarshal(body, &origPlain); err != nil {
		return
	}
	origNonData := c17PlainNonData(origPlain, cs.Kind)

	dir := c17WorkDir(c)
	defer os.RemoveAll(dir)
	file := filepath.Join(dir, "entry.yaml")
	if err := os.WriteFile(file, body, 0o644); err != nil {
		panic(err)
	}
	permille := func(p, n int) int {
		if p < 0 {
			p = 0
		}
		if p >= 1000 {
			if n == 0 {
				return 0
			}
			return n - 1
		}
		return int(int64(n) * int64(p) / 1000)
	}
	newReader := func(data []byte) *c17Reader {
		rd := &c17Reader{data: data, failAt: -1}
		switch cs.Reader {
		case "chunk":
			if rd.chunk = cs.Chunk; rd.chunk < 1 {
				rd.chunk = 1
			}
		case "one":
			rd.chunk = 1
		case "dataeof":
			rd.dataEOF = true
		}
		return rd
	}

	// ---- the three entry points (the reader one after readers that fail part-way)
	names := []string{"bytes", "file", "reader"}
	ms := make([]k8s.Manifest, 3)
	errs := make([]error, 3)
	out, txt := guard(func() {
		ms[0], errs[0] = k8s.ManifestFromBytes(append([]byte{}, body...))
		ms[1], errs[1] = k8s.ManifestFromFile(file)
		for _, p := range cs.FailRead {
			at := permille(p, len(body))
			rd := newReader(body)
			rd.failAt = at
			fm, ferr := k8s.ManifestFromReader(rd)
			c.Dist("entry-failing-reader")
			c.Direct("failing-reader-is-reported(error-and-no-manifest)", ferr != nil && fm == nil, map[string]any{"fails-after-bytes": at, "of": len(body), "err": fmt.Sprint(ferr)})
		}
		ms[2], errs[2] = k8s.ManifestFromReader(newReader(body))
	})
	if !c.Direct("no-panic(load)", out == "ok", txt) {
		return
	}
	for i := range ms {
		if !c.Direct("in-domain-manifest-loads("+names[i]+")", errs[i] == nil && ms[i] != nil, map[string]any{"size": len(body), "err": fmt.Sprint(errs[i])}) {
			return
		}
	}
	var loaded [3]c17Items
	var bodies, bodies2 [3][]byte
	var reloaded, edited, reloaded2 [3]c17Items
	ok := true
	out, txt = guard(func() {
		for i, m := range ms {
			loaded[i] = c17Observe(m)
		}
		want := c17Items{Str: map[string]string{}, Bin: map[string][]int{}}
		for _, it := range bt.text {
			want.Str[it.K] = fmt.Sprintf("%v", wirePlain(it.V))
		}
		for _, it := range bt.bin {
			want.Bin[it.K] = append([]int{}, it.B...)
		}
		want.StrList, want.BinList = sortedKeys(want.Str), sortedKeys(want.Bin)
		for i := range ms {
			if !c.Direct("loaded-items-are-the-generated-ones("+names[i]+")", c17SameItems(loaded[i], want),
				map[string]any{"size": len(body), "loaded": c17Digest(loaded[i]), "generated": c17Digest(want), "difference(loaded vs generated)": c17ItemsDiff(loaded[i], want)}) {
				ok = false
			}
		}
		for i := 1; i < 3; i++ {
			if !c.Direct("entry-points-agree(items:"+names[i]+"-vs-bytes)", c17SameItems(loaded[i], loaded[0]),
				map[string]any{"size": len(body), names[i]: c17Digest(loaded[i]), "bytes": c17Digest(loaded[0]), "difference": c17ItemsDiff(loaded[i], loaded[0])}) {
				ok = false
			}
		}
		if !ok {
			return // what was loaded is already wrong: everything downstream would only repeat it
		}
		// ---- write (after writers that fail part-way), reload through the reader entry point
		write := func(i int, m k8s.Manifest, failing []int, at string) []byte {
			for _, p := range failing {
				// the budget is a share of the size of the body that was loaded (what is written is about as long)
				fw := &c17Writer{budget: permille(p, len(body))}
				n, werr := m.WriteTo(fw)
				if fw.failed {
					c.Dist("entry-failing-writer")
				}
				c.Direct("failing-writer-is-reported", (werr != nil) == fw.failed && int(n) <= fw.budget,
					map[string]any{"entry": names[i], "at": at, "writer-fails-after-bytes": fw.budget, "writer-failed": fw.failed, "n": n, "err": fmt.Sprint(werr)})
			}
			var buf bytes.Buffer
			n, werr := m.WriteTo(&buf)
			if !c.Direct("WriteTo-ok", werr == nil && int(n) == buf.Len(), map[string]any{"entry": names[i], "at": at, "err": fmt.Sprint(werr)}) {
				ok = false
			}
			return append([]byte{}, buf.Bytes()...)
		}
		reload := func(i int, b []byte, at string) (c17Items, bool) {
			m2, err2 := k8s.ManifestFromReader(newReader(b))
			if !c.Direct("written-manifest-reloads", err2 == nil && m2 != nil, map[string]any{"entry": names[i], "at": at, "err": fmt.Sprint(err2)}) {
				ok = false
				return c17Items{}, false
			}
			return c17Observe(m2), true
		}
		for i, m := range ms {
			var failing []int
			if i == 2 {
				failing = cs.FailWrite
			}
			bodies[i] = write(i, m, failing, "loaded")
			if !ok {
				return
			}
			var fine bool
			if reloaded[i], fine = reload(i, bodies[i], "loaded"); !fine {
				return
			}
			c.Direct("reload-has-same-item-maps", c17SameItems(reloaded[i], loaded[i]),
				map[string]any{"entry": names[i], "size": len(body), "loaded": c17Digest(loaded[i]), "reloaded": c17Digest(reloaded[i]), "difference": c17ItemsDiff(loaded[i], reloaded[i])})
		}
		for i := 1; i < 3; i++ {
			c.Direct("entry-points-agree(written-body:"+names[i]+"-vs-bytes)", bytes.Equal(bodies[i], bodies[0]),
				map[string]any{"size": len(body), names[i]: c17BodyDigest(bodies[i]), "bytes": c17BodyDigest(bodies[0]), "first-difference": c17FirstByteDiff(bodies[i], bodies[0])})
		}
		// ---- the same facade edits on all three, written (the reader one after failing writers again) and reloaded
		wantStr, wantBin := map[string]string{}, map[string][]int{}
		for k, v := range loaded[0].Str {
			wantStr[k] = v
		}
		for k, v := range loaded[0].Bin {
			wantBin[k] = v
		}
		for _, e := range cs.Edits {
			switch e.Op {
			case "supdate":
				wantStr[e.Key] = e.S
			case "sremove":
				delete(wantStr, e.Key)
			case "bupdate":
				wantBin[e.Key] = append([]int{}, e.B...)
			case "bremove":
				delete(wantBin, e.Key)
			}
		}
		wantE := c17Items{Str: wantStr, Bin: wantBin, StrList: sortedKeys(wantStr), BinList: sortedKeys(wantBin)}
		for i, m := range ms {
			for _, e := range cs.Edits {
				c17ApplyEdit(m, e)
			}
			edited[i] = c17Observe(m)
			c.Direct("facade-edits-observed-in-memory", c17SameItems(edited[i], wantE), map[string]any{"entry": names[i], "got": c17Digest(edited[i]), "want": c17Digest(wantE), "difference": c17ItemsDiff(edited[i], wantE)})
			var failing []int
			if i == 2 {
				failing = cs.FailWrite
			}
			bodies2[i] = write(i, m, failing, "edited")
			if !ok {
				return
			}
			var fine bool
			if reloaded2[i], fine = reload(i, bodies2[i], "edited"); !fine {
				return
			}
			c.Direct("reload-observes-exactly-the-edits", c17SameItems(reloaded2[i], wantE),
				map[string]any{"entry": names[i], "reloaded": c17Digest(reloaded2[i]), "want": c17Digest(wantE), "difference": c17ItemsDiff(reloaded2[i], wantE)})
		}
		for i := 1; i < 3; i++ {
			c.Direct("entry-points-agree(written-body-after-edits:"+names[i]+"-vs-bytes)", bytes.Equal(bodies2[i], bodies2[0]),
				map[string]any{"size": len(body), names[i]: c17BodyDigest(bodies2[i]), "bytes": c17BodyDigest(bodies2[0]), "first-difference": c17FirstByteDiff(bodies2[i], bodies2[0])})
		}
	})
	if !c.Direct("no-panic(manifest)", out == "ok", txt) || !ok {
		return
	}
	// ---- fields outside the data sections, on every written body
	for i := range ms {
		for j, b := range [][]byte{bodies[i], bodies2[i]} {
			if b == nil {
				continue
			}
			var plain map[string]any
			if err := yaml.Unmarshal(b, &plain); !c.Direct("written-body-is-yaml", err == nil, fmt.Sprint(err)) {
				continue
			}
			got := c17PlainNonData(plain, cs.Kind)
			c.Direct("non-data-fields-preserved", c17PlainEqual(got, origNonData),
				map[string]any{"entry": names[i], "write": j, "size": len(body), "got-keys": sortedKeys(got), "want-keys": sortedKeys(origNonData), "differing-key": c17PlainDiffKey(got, origNonData)})
		}
	}
}

func c17ApplyEdit(m k8s.Manifest, e c17Edit) {
	switch e.Op {
	case "supdate":
		m.StringData().Update(e.Key, e.S)
	case "sremove":
		m.StringData().Remove(e.Key)
	case "bupdate":
		m.BinaryData().Update(e.Key, c17ToBytes(e.B))
	case "bremove":
		m.BinaryData().Remove(e.Key)
	}
}

func c17PlainNonData(doc map[string]any, kind string) map[string]any {
	bk, tk := c17SectionKeys(kind)
	out := map[string]any{}
	for k, v := range doc {
		if k != bk && k != tk {
			out[k] = v
		}
	}
	return out
}

// c17PlainEqual: typed structural equality of yaml.v3-decoded values.
func c17PlainEqual(a, b any) bool {
	switch x := a.(type) {
	case map[string]any:
		y, ok := b.(map[string]any)
		if !ok || len(x) != len(y) {
			return false
		}
		for k, v := range x {
			w, ok := y[k]
			if !ok || !c17PlainEqual(v, w) {
				return false
			}
		}
		return true
	case []any:
		y, ok := b.([]any)
		if !ok || len(x) != len(y) {
			return false
		}
		for i := range x {
			if !c17PlainEqual(x[i], y[i]) {
				return false
			}
		}
		return true
	}
	return fmt.Sprintf("%T|%v", a, a) == fmt.Sprintf("%T|%v", b, b)
}

func c17PlainDiffKey(a, b map[string]any) string {
	keys := map[string]bool{}
	for k := range a {
		keys[k] = true
	}
	for k := range b {
		keys[k] = true
	}
	ks := sortedKeys(keys)
	sort.Strings(ks)
	for _, k := range ks {
		x, okx := a[k]
		y, oky := b[k]
		if !okx || !oky || !c17PlainEqual(x, y) {
			sx, sy := fmt.Sprintf("%v", x), fmt.Sprintf("%v", y)
			if len(sx) > 80 {
				sx = fmt.Sprintf("%s…(%d bytes)", sx[:40], len(sx))
			}
			if len(sy) > 80 {
				sy = fmt.Sprintf("%s…(%d bytes)", sy[:40], len(sy))
			}
			return fmt.Sprintf("%s: got %s (present %v), want %s (present %v)", k, sx, okx, sy, oky)
		}
	}
	return ""
}

func c17BodyDigest(b []byte) string {
	sum := sha256.Sum256(b)
	return fmt.Sprintf("%d bytes, sha256 %x", len(b), sum[:8])
}

func c17FirstByteDiff(a, b []byte) string {
	n := len(a)
	if len(b) < n {
		n = len(b)
	}
	i := 0
	for i < n && a[i] == b[i] {
		i++
	}
	clip := func(x []byte) string {
		lo, hi := i-30, i+30
		if lo < 0 {
			lo = 0
		}
		if hi > len(x) {
			hi = len(x)
		}
		if lo > hi {
			lo = hi
		}
		return fmt.Sprintf("%q", x[lo:hi])
	}
	return fmt.Sprintf("at byte %d (lengths %d / %d): %s vs %s", i, len(a), len(b), clip(a), clip(b))
}
