package main

import (
	"encoding/json"
	"fmt"
	"math/rand"
	"strings"

	"github.com/rkosegi/yaml-toolkit/dom"
)

// C04 "seq": the SAME receiver merged several times.  The property says AsMap(A.Merge(B, opt)) == modelMerge(A, B, opt)
// and that merging never modifies A or B — for every A, B, hence also for an A that has been merged before (with
// another B), that was read and edited in place in between, that is merged with itself, or whose structurally equal
// subtrees are one node object.  An equality that holds right after the call and stops holding after the next call
// is not the stated equality: every earlier result is observed again after all later merges.

type c04Seq struct {
	A      W        `json:"a"`
	Bs     []W      `json:"bs"`   // merged into the same A one after the other
	Opts   []string `json:"opts"` // list strategy per merge (missing: meld)
	Dag    bool     `json:"dag,omitempty"`
	Seal   bool     `json:"seal,omitempty"`   // the Bs are passed as sealed views
	EditsA []dhEdit `json:"editsA,omitempty"` // applied to A in place after the first round; then every merge again
}

func c04SeqGen() *DocGen {
	g := c04Gen()
	g.MaxDepth = 3
	g.ListMax = 7
	g.PLong = 0
	return g
}

// c04ListPaths: the positions of lists that are reached through container members only (the lists the merge combines
// with the selected strategy).
func c04ListPaths(w W, at []string, out *[][]string) {
	c, ok := wireCont(w)
	if !ok {
		return
	}
	for _, k := range sortedKeys(c) {
		p := append(append([]string{}, at...), k)
		if _, isList := c[k].([]any); isList {
			*out = append(*out, p)
		}
		c04ListPaths(c[k], p, out)
	}
}

// c04AimedB: a sparse document that adds 1-3 items to one of A's lists (an override that extends a list), plus up to
// two unrelated edits.
func c04AimedB(r *rand.Rand, g *DocGen, a W) W {
	var lps [][]string
	c04ListPaths(a, nil, &lps)
	if len(lps) == 0 {
		return g.Mutate(r, a)
	}
	p := pick(r, lps)
	var v W
	items := make([]any, 1+r.Intn(3))
	for i := range items {
		items[i] = g.Node(r, g.MaxDepth-1)
	}
	v = items
	for i := len(p) - 1; i >= 0; i-- {
		v = map[string]any{"m": map[string]any{p[i]: v}}
	}
	for i, n := 0, r.Intn(3); i < n; i++ {
		v = g.Mutate(r, v)
	}
	return v
}

func c04RunSeq(c *Ctx, opt func() string) {
	r := c.Rng
	g := c04SeqGen()
	n := c.N(700)
	if c.Thorough() {
		n /= 2 // keeps the thorough run inside its ten minutes (the exhaustive pair scope dominates it)
	}
	for i := 0; i < n; i++ {
		c.Tick()
		a := g.Doc(r)
		s := c04Seq{A: a, Dag: r.Intn(5) == 0, Seal: r.Intn(5) == 0}
		n := 2 + r.Intn(2)
		o := opt()
		for j := 0; j < n; j++ {
			switch r.Intn(4) {
			case 0:
				b := a
				for k, m := 0, 1+r.Intn(3); k < m; k++ {
					b = g.Mutate(r, b)
				}
				s.Bs = append(s.Bs, b)
			case 1:
				if j > 0 {
					s.Bs = append(s.Bs, g.Mutate(r, s.Bs[j-1]))
				} else {
					s.Bs = append(s.Bs, g.Doc(r))
				}
			default:
				s.Bs = append(s.Bs, c04AimedB(r, g, a))
			}
			if r.Intn(4) == 0 {
				o = opt()
			}
			s.Opts = append(s.Opts, o)
		}
		if !s.Dag && r.Intn(2) == 0 {
			s.EditsA = dhGenEdits(r, g, a, 1+r.Intn(4))
		}
		c.Do("seq", s)
	}
}

func c04EvalSeq(c *Ctx, raw []byte) {
	var p c04Seq
	if err := json.Unmarshal(raw, &p); err != nil {
		panic(err)
	}
	if wireKind(p.A) != "cont" || !c05KeysOK(p.A) {
		return
	}
	for _, b := range p.Bs {
		if wireKind(b) != "cont" || !c05KeysOK(b) {
			return
		}
	}
	for _, e := range p.EditsA {
		if e.V != nil && !c05KeysOK(e.V) {
			return
		}
	}
	optOf := func(i int) string {
		if i < len(p.Opts) && p.Opts[i] == "append" {
			return "append"
		}
		return "meld"
	}
	for i, b := range p.Bs {
		if c04Stats(c, p.A, b, true) {
			c.Nontrivial()
		}
		c.Dist("seq:opt=" + optOf(i))
	}
	if p.Dag {
		c.Dist("seq:dag")
	}
	out, txt := guard(func() {
		var d *dhDoc
		var a dom.ContainerBuilder
		bs := make([]dom.ContainerBuilder, len(p.Bs))
		if p.Dag {
			memo := map[string]dom.Node{}
			a = heapBuildDag(p.A, memo).(dom.ContainerBuilder)
			for i, b := range p.Bs {
				bs[i] = heapBuildDag(b, memo).(dom.ContainerBuilder)
			}
		} else {
			d = dhNew(p.A, nil)
			a = d.root
			for i, b := range p.Bs {
				bs[i] = wireContainer(b)
			}
		}
		other := func(i int) dom.Container {
			if p.Seal {
				return bs[i].Seal()
			}
			return bs[i]
		}
		aw := p.A
		round := func(label string) bool {
			type res struct {
				r    dom.ContainerBuilder
				then string
				what string
			}
			var results []res
			check := func(r dom.ContainerBuilder, x, y W, o, what string) bool {
				finite := dhAcyclic(r) && dhAcyclic(a)
				for _, b := range bs {
					finite = finite && dhAcyclic(b)
				}
				if !c.Direct("seq:result-and-inputs-are-finite-trees", finite, "after "+what+" a container or list contains itself") {
					panic("harness: cyclic document, not observed any further")
				}
				ref := c04RefDoc(x, y, o == "append")
				rw, rm := nodeWire(r), plainWire(r.AsMap())
				results = append(results, res{r, canon(rw), what})
				return c.Direct("seq:merge-eq-reference"+label, canon(rw) == canon(ref) && canon(rm) == canon(ref),
					map[string]any{"merge": what, "impl": rw, "expected": ref})
			}
			for i := range bs {
				if !check(a.Merge(other(i), c04Opts(optOf(i))...), aw, p.Bs[i], optOf(i), fmt.Sprintf("A.Merge(B%d, %s)", i+1, optOf(i))) {
					return false
				}
			}
			// the same object on both sides: A.Merge(A) under either strategy is the merge of two equal documents
			for _, o := range []string{"meld", "append"} {
				if !check(a.Merge(a, c04Opts(o)...), aw, aw, o, "A.Merge(A, "+o+")") {
					return false
				}
			}
			for i := range bs {
				if !check(bs[i].Merge(a, c04Opts(optOf(i))...), p.Bs[i], aw, optOf(i), fmt.Sprintf("B%d.Merge(A, %s)", i+1, optOf(i))) {
					return false
				}
			}
			// every earlier result is still what it was
			for _, x := range results {
				now := nodeWire(x.r)
				if !c.Direct("seq:earlier-result-unchanged-by-later-merges"+label, canon(now) == x.then,
					map[string]any{"merge": x.what, "result then": json.RawMessage(x.then), "result now": now}) {
					return false
				}
			}
			// ... and so are the inputs
			if !c.Direct("seq:A-unchanged"+label, canon(nodeWire(a)) == canon(aw) && canon(plainWire(a.AsMap())) == canon(aw), nodeWire(a)) {
				return false
			}
			for i := range bs {
				if !c.Direct("seq:B-unchanged"+label, canon(nodeWire(bs[i])) == canon(p.Bs[i]), map[string]any{"B": i + 1, "now": nodeWire(bs[i])}) {
					return false
				}
			}
			return true
		}
		if !round("") {
			return
		}
		if d == nil || len(p.EditsA) == 0 {
			return
		}
		executed := 0
		for i, e := range p.EditsA {
			// read before every edit (through the read APIs a merge itself uses: Children, Items, Size, AsMap, Clone, Equals)
			if !dhReport(c, "seq:", i, d.reads(dhReadOpts{Light: true})) {
				return
			}
			st := d.apply(e)
			if st == "skip" {
				continue
			}
			executed++
			if !c.Direct("seq:edit-executes", st == "ok", map[string]any{"edit": e, "result": st}) {
				return
			}
		}
		if executed == 0 {
			return
		}
		c.Dist("seq:A-edited-between-merges")
		aw = d.exp
		if !dhReport(c, "seq:", executed, d.reads(dhReadOpts{Light: true})) {
			return
		}
		round("(A edited in place since the earlier merges)")
	})
	c.Direct("seq:no-panic", out == "ok", strings.TrimSpace(txt))
	// the model on the first merge of the sequence (value level)
	if len(p.Bs) > 0 && out == "ok" {
		a := wireContainer(p.A)
		r := a.Merge(wireContainer(p.Bs[0]), c04Opts(optOf(0))...)
		c.Corr("merge(seq)", nodeWire(r), c.Model("merge", map[string]any{"a": p.A, "b": p.Bs[0], "opt": optOf(0)}))
	}
}
