package main

import (
	"encoding/json"
	"fmt"
	"os"
	"path/filepath"
	"strconv"

	"github.com/rkosegi/yaml-toolkit/dom"
	"github.com/rkosegi/yaml-toolkit/pipeline"
)

// C14 — loops whose counter lives OUTSIDE the data document (round 9; direct predicates only).
//
// "loop runs init once, evaluates its test before every iteration, runs the body and then the post-action,
// and stops at the first false test or error": the observed sequence is init, (test, body, post)^n, test for
// every body / post-action "writing a counter" — wherever that counter is kept and whatever else the two
// do, or do not do, to the data document.  The loops of the `loop` records keep the counter in the document
// (the usual shape).  Here the body's ext action counts
//
//   - file:   lines of a spool file; a marker file appears with the n-th line; the test is the library's own
//     template function  {{ not (fileExists "<marker>") }}
//   - env:    a process environment variable; the test is  {{ ne (env "<VAR>") "<n>" }}
//   - engine: its own field; the executor is given a TemplateEngine (WithTemplateEngine) that answers the
//     loop's test text from that field and hands everything else to the library's engine
//
// and what body and post-action do to the DOCUMENT varies independently:
//
//   - none:     nothing
//   - same:     the body sets a value the document holds already
//   - revert:   the body sets a scratch value, the post-action sets it back
//   - half:     the body writes count/2 (the document changes in every second iteration only)
//   - counter:  the body writes the count (the usual shape, as a control)
//
// x with / without init and post-action x a body that fails in iteration k.  Predicates: the closed-form
// sequence of (init, test:<result>, body, post) events, error iff the body failed, the document after the
// loop is what the writes above make of it.

type c14Stall struct {
	N      int    `json:"n"`      // the test holds while count < n
	Where  string `json:"where"`  // file | env | engine
	Effect string `json:"effect"` // none | same | revert | half | counter
	Init   bool   `json:"init"`
	NoPost bool   `json:"noPost"`
	K      int    `json:"k"` // 0: no failure; else the body's ext action fails in iteration k
}

type c14StallState struct {
	trace  []string
	count  int
	p      *c14Stall
	spool  string
	marker string
	envVar string
}

type c14StallAct struct {
	name string
	st   *c14StallState
}

func (a *c14StallAct) String() string                                    { return "stall:" + a.name }
func (a *c14StallAct) CloneWith(pipeline.ActionContext) pipeline.Action  { return a }
func (a *c14StallAct) NewForArgs(map[string]interface{}) pipeline.Action { return a }
func (a *c14StallAct) Do(ctx pipeline.ActionContext) error {
	st := a.st
	st.trace = append(st.trace, a.name)
	if a.name != "body" {
		return nil
	}
	if len(st.trace) > 10000 {
		panic("runaway loop")
	}
	st.count++
	if st.p.K > 0 && st.count >= st.p.K {
		return fmt.Errorf("body fails in iteration %d", st.count)
	}
	switch st.p.Where {
	case "file":
		f, err := os.OpenFile(st.spool, os.O_CREATE|os.O_APPEND|os.O_WRONLY, 0o644)
		if err != nil {
			return err
		}
		_, _ = f.WriteString("line\n")
		_ = f.Close()
		if st.count >= st.p.N {
			if err = os.WriteFile(st.marker, []byte("done"), 0o644); err != nil {
				return err
			}
		}
	case "env":
		_ = os.Setenv(st.envVar, strconv.Itoa(st.count))
	}
	switch st.p.Effect {
	case "half":
		ctx.Data().AddValue("half", dom.LeafNode(st.count/2))
	case "counter":
		ctx.Data().AddValue("i", dom.LeafNode(st.count))
	}
	return nil
}

const c14StallTest = "{{ .outside_counter_below_bound }}"

// c14StallTE: records every EvalBool; answers the `engine` loops' test from the ext action's own counter.
type c14StallTE struct {
	inner pipeline.TemplateEngine
	st    *c14StallState
}

func (t *c14StallTE) Render(tm string, d map[string]interface{}) (string, error) {
	return t.inner.Render(tm, d)
}
func (t *c14StallTE) RenderLenient(tm string, d map[string]interface{}) string {
	return t.inner.RenderLenient(tm, d)
}
func (t *c14StallTE) RenderMapLenient(in map[string]interface{}, d map[string]interface{}) map[string]interface{} {
	return t.inner.RenderMapLenient(in, d)
}
func (t *c14StallTE) EvalBool(tm string, d map[string]interface{}) (b bool, err error) {
	if len(t.st.trace) > 10000 {
		panic("runaway loop")
	}
	if t.st.p.Where == "engine" && tm == c14StallTest {
		b = t.st.count < t.st.p.N
	} else {
		b, err = t.inner.EvalBool(tm, d)
	}
	if err != nil {
		t.st.trace = append(t.st.trace, "test:error")
	} else {
		t.st.trace = append(t.st.trace, fmt.Sprintf("test:%v", b))
	}
	return b, err
}

var c14StallCount int

func c14EvalStall(c *Ctx, raw []byte) {
	var p c14Stall
	if err := json.Unmarshal(raw, &p); err != nil {
		panic(err)
	}
	if p.N < 0 || p.N > 40 || p.K < 0 {
		return
	}
	switch p.Where {
	case "file", "env", "engine":
	default:
		return
	}
	switch p.Effect {
	case "none", "same", "half", "counter":
	case "revert":
		if p.NoPost {
			return
		}
	default:
		return
	}
	c14StallCount++
	st := &c14StallState{p: &p, envVar: fmt.Sprintf("C14_STALL_%d_%d", os.Getpid(), c14StallCount)}
	dir := filepath.Join(c.VerifDir, ".work", fmt.Sprintf("c14stall.%d.%d", os.Getpid(), c14StallCount))
	loop := &pipeline.LoopOp{}
	switch p.Where {
	case "file":
		if err := os.MkdirAll(dir, 0o755); err != nil {
			panic(err)
		}
		defer os.RemoveAll(dir)
		st.spool, st.marker = filepath.Join(dir, "spool"), filepath.Join(dir, "done")
		if p.N == 0 {
			_ = os.WriteFile(st.marker, []byte("done"), 0o644)
		}
		loop.Test = fmt.Sprintf("{{ not (fileExists %q) }}", st.marker)
	case "env":
		_ = os.Setenv(st.envVar, "0")
		defer os.Unsetenv(st.envVar)
		loop.Test = fmt.Sprintf("{{ ne (env %q) %q }}", st.envVar, strconv.Itoa(p.N))
	case "engine":
		loop.Test = c14StallTest
	}
	set := func(v int) *pipeline.SetOp {
		return &pipeline.SetOp{Path: "scratch", Data: map[string]interface{}{"v": v}}
	}
	loop.Action = pipeline.ActionSpec{Operations: pipeline.OpSpec{Ext: &pipeline.ExtOp{Function: "body"}}}
	post := &pipeline.ActionSpec{Operations: pipeline.OpSpec{Ext: &pipeline.ExtOp{Function: "post"}}}
	switch p.Effect {
	case "same":
		loop.Action.Operations.Set = set(1)
	case "revert":
		loop.Action.Operations.Set = set(2)
		post.Operations.Set = set(1)
	}
	if !p.NoPost {
		loop.PostAction = post
	}
	if p.Init {
		loop.Init = &pipeline.ActionSpec{Operations: pipeline.OpSpec{Ext: &pipeline.ExtOp{Function: "init"}}}
	}
	// closed form: init, (test, body, post)^n, test — cut at the failing body
	var want []string
	failed, count := false, 0
	if p.Init {
		want = append(want, "init")
	}
	for {
		want = append(want, fmt.Sprintf("test:%v", count < p.N))
		if !(count < p.N) {
			break
		}
		want = append(want, "body")
		count++
		if p.K > 0 && count >= p.K {
			failed = true
			break
		}
		if !p.NoPost {
			want = append(want, "post")
		}
	}
	wantData := map[string]any{"keep": map[string]any{"x": 1}, "scratch": map[string]any{"v": 1}}
	done := count
	if failed {
		done-- // the failing pass wrote nothing
	}
	if done > 0 {
		switch p.Effect {
		case "half":
			wantData["half"] = done / 2
		case "counter":
			wantData["i"] = done
		}
	}
	gd := wireContainer(plainWire(map[string]any{"keep": map[string]any{"x": 1}, "scratch": map[string]any{"v": 1}}))
	var err error
	out, txt := guard(func() {
		ex := pipeline.New(pipeline.WithData(gd),
			pipeline.WithTemplateEngine(&c14StallTE{inner: c12Engine(), st: st}),
			pipeline.WithExtActions(map[string]pipeline.ActionFactory{
				"init": &c14StallAct{"init", st}, "body": &c14StallAct{"body", st}, "post": &c14StallAct{"post", st}}))
		err = ex.Execute(loop)
	})
	c.Dist("stall:where:" + p.Where)
	c.Dist("stall:effect:" + p.Effect)
	c.Dist(fmt.Sprintf("stall:n:%d", p.N))
	c.Dist(fmt.Sprintf("stall:failed:%v", failed))
	if count > 0 {
		c.Nontrivial()
	}
	det := map[string]any{"got": st.trace, "want": want, "error": fmt.Sprint(err), "test": loop.Test}
	if !c.Direct("no-panic", out == "ok", map[string]any{"panic": txt, "trace": st.trace}) {
		return
	}
	// "observed sequence is init, (test, body, post)^n, test" / "stops at the first false test or error"
	c.Direct("loop-sequence (counter outside the data document)", canon(st.trace) == canon(want), det)
	c.Direct("loop-error-iff-failure (counter outside the data document)", (err != nil) == failed, det)
	if !(failed && p.Effect == "revert") { // (the order of set and ext inside the failing body is not this clause's matter)
		c.Direct("loop-data-after", canon(nodeWire(gd)) == canon(plainWire(wantData)),
			map[string]any{"after": nodeWire(gd), "expected": plainWire(wantData)})
	}
}

func c14RunStall(c *Ctx) {
	r := c.Rng
	wheres := []string{"file", "env", "engine"}
	effects := []string{"none", "same", "revert", "half", "counter"}
	// the smallest records, deterministically
	for _, w := range wheres {
		for _, e := range effects {
			c.Do("loop-outside", c14Stall{N: 2, Where: w, Effect: e, Init: true})
		}
	}
	for i := 0; i < c.N(150); i++ {
		c.Tick()
		p := c14Stall{N: r.Intn(6), Where: pick(r, wheres), Effect: pick(r, effects), Init: r.Intn(2) == 0, NoPost: r.Intn(5) == 0}
		if p.Effect == "revert" {
			p.NoPost = false
		}
		if r.Intn(4) == 0 {
			p.K = 1 + r.Intn(6)
		}
		c.Do("loop-outside", p)
	}
}

func init() {
	p := registry["C14"]
	run := p.Run
	p.Run = func(c *Ctx) {
		run(c)
		c14RunStall(c)
	}
	p.Rule += " ROUND 9, loop-outside records (c14_stall.go; direct predicates only): loops whose COUNTER LIVES OUTSIDE THE DATA DOCUMENT — the body's ext action counts lines of a spool file (test = the library's template function fileExists on a marker file written with the n-th line), a process environment variable (test = sprig's env), or its own field (test answered by a TemplateEngine given with WithTemplateEngine) — x what body and post-action do to the document {nothing, set a value it holds already, body sets / post-action sets back, a value that changes every second iteration, the count} x bound 0..5 x init x post-action x a body failing in iteration k: closed-form sequence init, (test, body, post)^n, test; error iff the body failed; document after the loop."
	ev := evals["C14"]
	evals["C14"] = func(c *Ctx, kind string, raw []byte) {
		if kind == "loop-outside" {
			c14EvalStall(c, raw)
			return
		}
		ev(c, kind, raw)
	}
}
