package main

// C12 — EQUIVALENT SPELLINGS of a condition that reads data.
//
// "conditions that are constant or read data not written by the same action": text/template gives a condition several
// ways to reach a value of the data document, and the property does not care which one the author picked —
//
//	{{ .flagT }}            the field chain on dot
//	{{ $.flagT }}           the same on $, the root variable (it is dot at the top of the template)
//	{{ index . "flagT" }}   the index function on dot  — the way to reach a key that is no identifier (feature-x)
//	{{ index $ "flagT" }}   the index function on $
//
// On a document (map[string]interface{}) all four print the value of the key, "<no value>" for a missing key or a null,
// and fail on nothing the field chain does not fail on; with more than one key ($.a.b.c) only the chain forms are used
// (index of a missing intermediate key is an error where the chain prints "<no value>").  The reference interpreter
// (refParseTmpl) and the model (Pipeline.parseRef) read all four as the same data reference; the harness' own
// knowledge of a condition (c12CondClass) goes through c12CanonRead.

import (
	"math/rand"
	"regexp"
	"strings"
)

var (
	c12ChainRe   = regexp.MustCompile(`^\{\{ \.([A-Za-z_][A-Za-z0-9_]*(?:\.[A-Za-z_][A-Za-z0-9_]*)*) \}\}$`)
	c12DollarRe  = regexp.MustCompile(`^\{\{ \$\.([A-Za-z_][A-Za-z0-9_]*(?:\.[A-Za-z_][A-Za-z0-9_]*)*) \}\}$`)
	c12IndexKRe  = regexp.MustCompile(`^\{\{ index [.$] "([A-Za-z_][A-Za-z0-9_]*)" \}\}$`)
	c12SpellKeys = []string{"chain", "dollar-chain", "index-dot", "index-dollar"}
)

// c12CanonRead: the field-chain spelling of a condition that is one data reference in any of the four spellings
// (any other text is returned as it is).
func c12CanonRead(t string) string {
	if m := c12DollarRe.FindStringSubmatch(t); m != nil {
		return "{{ ." + m[1] + " }}"
	}
	if m := c12IndexKRe.FindStringSubmatch(t); m != nil {
		return "{{ ." + m[1] + " }}"
	}
	return t
}

// c12SpellingOf names the spelling of a condition ("" = not a single data reference).
func c12SpellingOf(t string) string {
	switch {
	case c12ChainRe.MatchString(t):
		return "chain"
	case c12DollarRe.MatchString(t):
		return "dollar-chain"
	case c12IndexKRe.MatchString(t):
		if strings.HasPrefix(t, "{{ index . ") {
			return "index-dot"
		}
		return "index-dollar"
	}
	return ""
}

// c12Respell writes a field-chain condition in another of the equivalent spellings.
func c12Respell(r *rand.Rand, t string) string {
	m := c12ChainRe.FindStringSubmatch(t)
	if m == nil {
		return t
	}
	if strings.Contains(m[1], ".") {
		return "{{ $." + m[1] + " }}"
	}
	switch r.Intn(3) {
	case 0:
		return "{{ $." + m[1] + " }}"
	case 1:
		return `{{ index . "` + m[1] + `" }}`
	}
	return `{{ index $ "` + m[1] + `" }}`
}

// c12RespellConds walks a generated tree: two in three of the conditions that are a data reference get another
// spelling, one in eight of the actions without a condition get one of the two never-written flags in a spelling
// other than the field chain.
func c12RespellConds(r *rand.Rand, a *c12Act) {
	switch {
	case a.When != nil && c12ChainRe.MatchString(*a.When):
		if r.Intn(3) > 0 {
			a.When = sp(c12Respell(r, *a.When))
		}
	case a.When == nil && r.Intn(8) == 0:
		a.When = sp(c12Respell(r, pick(r, []string{"{{ .flagT }}", "{{ .flagT }}", "{{ .flagF }}"})))
	}
	for i := range a.Children {
		c12RespellConds(r, &a.Children[i])
	}
}

// c12DistSpellings counts the spellings of the data-reading conditions of a tree (evidence).
func c12DistSpellings(c *Ctx, a *c12Act) {
	if a.When != nil {
		if s := c12SpellingOf(*a.When); s != "" {
			c.Dist("cond-spelling:" + s)
		}
	}
	for i := range a.Children {
		c12DistSpellings(c, &a.Children[i])
	}
}
