package main

import (
	"encoding/json"
	"fmt"
	"math/rand"
	"sort"
	"strings"

	"github.com/rkosegi/yaml-toolkit/diff"
	"github.com/rkosegi/yaml-toolkit/dom"
	"github.com/rkosegi/yaml-toolkit/pipeline"
)

// C07 — Diff reports exactly the differences, in a deterministic order.

// c07Mod is one diff.Modification in wire form (nil interface value = the "nil" scalar).
type c07Mod struct {
	Ty    string `json:"ty"`
	Path  string `json:"path"`
	Value W      `json:"value"`
	Old   W      `json:"old"`
}

type c07Pair struct {
	L W `json:"l"`
	R W `json:"r"`
	// Build: "" every node an object of its own; "dag" structurally equal subtrees are ONE node object, inside each
	// document and between the two (a shared block attached under several keys, the same item appended twice);
	// "dag-each" the same, no objects shared between the two documents.
	Build string `json:"build,omitempty"`
	// EditsL: after the first round of Diff calls L is edited in place (domhist.go) and everything is checked again on
	// the content it holds then ("for all pairs of documents" includes documents that were diffed and edited before).
	EditsL []dhEdit `json:"editsL,omitempty"`
	// SealL / SealR: positions of composites (lists, containers) that are attached as their SEALED, read-only views
	// (ListBuilder.Seal() / ContainerBuilder.Seal()) when the document is built; SealRoots: the two roots are handed to
	// Diff as their sealed views as well.  A document holding immutable nodes is a document like any other.
	SealL     [][]any `json:"sealL,omitempty"`
	SealR     [][]any `json:"sealR,omitempty"`
	SealRoots bool    `json:"sealRoots,omitempty"`
}

// c07Layers: L and R are wire containers whose children are the layer documents.
type c07Layers struct {
	L W `json:"l"`
	R W `json:"r"`
}

func init() {
	register(&Prop{ID: "C07", Run: c07Run,
		Rule: "pairs of root containers over path-safe keys (two key pools, one with keys such as a / a-b / aB / a_ whose paths interleave with a. and a[ in byte order): R is L after 0-4 random local edits (key added/removed, leaf changed, kind changed, list edited), or an independent document, or a copy, or a copy differing in exactly one scalar by a confusable pair (same number under another Go type, neighbouring integers beyond 2^53, a value and its printed text); overlay cases hold 0-3 named layers per side; 900 pairs in which a composite subtree of L occurs at two or three positions and is ONE node object there (R lacks a key above it, is empty, independent, or a near miss; sides swapped one time in three); 500 pairs whose L is diffed, edited in place 1-4 times (AddValue / Remove / Set / MustSet / Append / Clear through nested builders, Lookup, the root's path API) and diffed again against the content it must hold then and against a freshly built document; 700 pairs whose documents hold IMMUTABLE nodes: one composite position in three (lists and containers, either side or both) is attached as the sealed view (ListBuilder.Seal / ContainerBuilder.Seal) of its builder, one time in three the sealed roots are what Diff is given, one time in three L is edited in between through the kept builders; the sequence returned by the first call is re-read after twenty later calls; 1200 pairs (plus overlay and domdiff cases) whose member names are arbitrary TEXT free of the path metacharacters '.', '[' and ']' (names with %, #, :, /, *, \\, white space, non-ASCII characters, numerals), lists frequent; domdiff cases go through the pipeline template engine; 500 pairs (kind zoned) whose scalars are mostly timestamps, the documents holding instants and each side spelling its time leaves in zones of its own (1-3 offsets per side, applied cyclically in document order; R a copy, a near miss or independent): the same instant in another zone is the same value (Leaf.Equals / Container.Equals), so Diff must be empty when the instants agree, must report exactly the reference difference computed on instants otherwise, both ways round, and a Change never carries two values that are equal. A pair is non-trivial when Diff(L,R) is non-empty or both documents have more than one node; distinct = distinct canonical case JSON (hash).",
		Assumptions: []string{"scalars are NaN-free and -0-free, so cmp.Equal on leaves coincides with equality of (Go type, fmt.Sprint) pairs",
			"keys are non-empty and path-safe: free of the three path metacharacters '.', '[' and ']' (most pools are over [A-Za-z0-9_-]; the text pools hold any other characters, valid UTF-8); Lean's String order (code points) equals Go's byte order on valid UTF-8",
			"the statement's 'Delete immediately followed by Adds' is read as the quantifier text spells it out: the sequence is sorted by path and, among equal paths, the Delete precedes the Add; with a sibling key such as a-b or aB the block Delete a / Add a[0] is not contiguous after sorting (Delete a, Add a-b, Add a[0])"}})
	evals["C07"] = c07Eval
	shrinkers["C07"] = c07Shrink
}

var c07KeysB = []string{"a", "b", "a-b", "aB", "a_", "c"}

func c07Gen(r *rand.Rand) *DocGen {
	g := stdGen()
	if r.Intn(2) == 0 {
		g.Keys = c07KeysB
	}
	g.MaxDepth = 2 + r.Intn(3)
	g.PList = 0.3 + 0.3*r.Float64()
	return g
}

func c07GenPair(r *rand.Rand) c07Pair {
	g := c07Gen(r)
	l := g.Doc(r)
	var rr W
	switch k := r.Intn(10); {
	case k == 0:
		rr = g.Doc(r)
	case k == 1:
		rr = deepCopyW(l)
	default:
		rr = deepCopyW(l)
		for i, n := 0, 1+r.Intn(4); i < n; i++ {
			rr = g.Mutate(r, rr)
		}
	}
	if r.Intn(2) == 0 {
		l, rr = rr, l
	}
	return c07Pair{L: l, R: rr}
}

func c07Run(c *Ctx) {
	r := c.Rng
	for i := 0; i < c.N(4000); i++ {
		c.Tick()
		c.Do("pair", c07GenPair(r))
	}
	for i := 0; i < c.N(800); i++ {
		// the two documents differ in exactly one scalar, and only by a confusable pair (same number under another Go
		// type, neighbouring integers beyond 2^53, a value and its printed text): a Change (under a key) or the
		// Delete + Adds block (inside a list) must be reported all the same
		c.Tick()
		g := c07Gen(r)
		g.PList += 0.2
		if l, rr, ok := withTwins(r, g.Doc(r)); ok {
			c.Dist("pair:one-confusable-scalar")
			c.Do("pair", c07Pair{L: l, R: rr})
		}
	}
	for i := 0; i < c.N(900); i++ {
		// one composite subtree occurs at two or three positions of L (built as ONE node object: a shared block), and R
		// lacks a key above it, differs in the list that holds it, or holds another kind there — the regions Diff
		// flattens in one go
		c.Tick()
		g := c07Gen(r)
		l := g.Doc(r)
		for k, n := 0, 1+r.Intn(2); k < n; k++ {
			l = c07Dup(r, g, l)
		}
		var rr W
		switch r.Intn(6) {
		case 0:
			rr = map[string]any{"m": map[string]any{}}
		case 1, 2:
			rr = deepCopyW(l)
			if m, ok := wireCont(rr); ok && len(m) > 0 {
				delete(m, pick(r, sortedKeys(m)))
			}
		case 3:
			rr = g.Doc(r)
		default:
			rr = deepCopyW(l)
			for k, n := 0, 1+r.Intn(3); k < n; k++ {
				rr = g.Mutate(r, rr)
			}
		}
		if r.Intn(3) == 0 {
			l, rr = rr, l
		}
		c.Dist("pair:shared-node-objects")
		c.Do("pair", c07Pair{L: l, R: rr, Build: pick(r, []string{"dag", "dag", "dag-each"})})
	}
	for i := 0; i < c.N(500); i++ {
		// L has a history: diffed, edited in place, diffed again
		c.Tick()
		p := c07GenPair(r)
		g := c07Gen(r)
		g.ListMax = 5
		p.EditsL = dhGenEdits(r, g, p.L, 1+r.Intn(4))
		c.Dist("pair:L-with-history")
		c.Do("pair", p)
	}
	for i := 0; i < c.N(700); i++ {
		// documents that hold immutable nodes: some lists / containers (one in three positions, either side) are attached
		// as the sealed views of their builders; one case in three has a history of edits on top (made through the kept
		// builders), one in three hands the sealed roots to Diff
		c.Tick()
		g := c07Gen(r)
		g.PList += 0.15
		l := g.Doc(r)
		var rr W
		switch r.Intn(4) {
		case 0:
			rr = deepCopyW(l)
		default:
			rr = deepCopyW(l)
			for k, n := 0, 1+r.Intn(3); k < n; k++ {
				rr = g.Mutate(r, rr)
			}
		}
		if r.Intn(2) == 0 {
			l, rr = rr, l
		}
		p := c07Pair{L: l, R: rr, SealRoots: r.Intn(3) == 0}
		switch r.Intn(4) {
		case 0:
			p.SealL = dhGenSeals(r, l)
		case 1:
			p.SealR = dhGenSeals(r, rr)
		default:
			p.SealL, p.SealR = dhGenSeals(r, l), dhGenSeals(r, rr)
		}
		if r.Intn(3) == 0 {
			gh := c07Gen(r)
			gh.ListMax = 5
			p.EditsL = dhGenEdits(r, gh, p.L, 1+r.Intn(3))
		}
		c.Dist("pair:with-sealed-nodes")
		c.Do("pair", p)
	}
	names := []string{"base", "dev", "prod"}
	for i := 0; i < c.N(500); i++ {
		c.Tick()
		g := c07Gen(r)
		lm, rm := map[string]any{}, map[string]any{}
		for _, n := range names {
			switch r.Intn(5) {
			case 0: // left only
				lm[n] = g.Doc(r)
			case 1: // right only
				rm[n] = g.Doc(r)
			case 2: // neither
			default:
				d := g.Doc(r)
				lm[n] = d
				rm[n] = g.Mutate(r, d)
			}
		}
		c.Do("overlay", c07Layers{map[string]any{"m": lm}, map[string]any{"m": rm}})
	}
	for i := 0; i < c.N(150); i++ {
		c.Tick()
		c.Do("domdiff", c07GenPair(r))
	}
	c07RunText(c)
	c07RunBig(c)
	c07RunHist(c)  // c07_hist.go
	c07RunZoned(c) // c07_zone.go
}

// c07BigDocs: a pair of documents that differ at MANY positions (about 260-700 modifications): 4-12 groups of scalar
// members, each member of the left one kept, changed, dropped on the right or present on the right only; now and then
// a long list that differs.  one: "" both sides, "l" / "r" the document exists on that side only (the other is empty).
func c07BigDocs(r *rand.Rand, g *DocGen, one string) (W, W) {
	for {
		lm, rm := map[string]any{}, map[string]any{}
		groups := 4 + r.Intn(9)
		flat := r.Intn(3) == 0 || one == "r" // members directly below the root instead of in groups (a document the right side has alone gives one Delete per member of its root)
		for gi := 0; gi < groups; gi++ {
			lg, rg := map[string]any{}, map[string]any{}
			for k, n := 0, 30+r.Intn(50); k < n; k++ {
				key := fmt.Sprintf("k%03d", k)
				if flat {
					key = fmt.Sprintf("g%02dk%03d", gi, k)
				}
				v := g.Scalar(r)
				switch r.Intn(6) {
				case 0: // same on both sides
					lg[key], rg[key] = v, deepCopyW(v)
				case 1, 2: // changed
					lg[key], rg[key] = v, scalarWire(100+r.Intn(50))
				case 3: // left only
					lg[key] = v
				case 4: // right only
					rg[key] = v
				default:
					if r.Intn(8) == 0 { // a list that differs
						ll := make([]any, 5+r.Intn(30))
						for i := range ll {
							ll[i] = g.Scalar(r)
						}
						lg[key], rg[key] = ll, []any{scalarWire("other")}
					} else {
						lg[key], rg[key] = v, scalarWire("changed")
					}
				}
			}
			if flat {
				for k, v := range lg {
					lm[k] = v
				}
				for k, v := range rg {
					rm[k] = v
				}
			} else {
				lm[fmt.Sprintf("g%02d", gi)] = map[string]any{"m": lg}
				rm[fmt.Sprintf("g%02d", gi)] = map[string]any{"m": rg}
			}
		}
		var l, rr W = map[string]any{"m": lm}, map[string]any{"m": rm}
		switch one {
		case "l":
			rr = map[string]any{"m": map[string]any{}}
		case "r":
			l = map[string]any{"m": map[string]any{}}
		}
		if n := len(c07RefDiff(l, rr)); n > 256 || one == "r" {
			return l, rr
		}
	}
}

// c07RunBig: a few LARGE cases per run ("for all pairs of documents", "for every layer name" hold for documents of
// any size): overlay documents of 2-4 layers one (sometimes two) of which differ at several hundred positions while
// the others differ at a few, and plain pairs of that size.
func c07RunBig(c *Ctx) {
	r := c.Rng
	names := []string{"base", "dev", "prod", "x-1"}
	for i := 0; i < c.N(6); i++ {
		c.Tick()
		g := c07Gen(r)
		lm, rm := map[string]any{}, map[string]any{}
		use := names[:2+r.Intn(3)]
		big := r.Intn(len(use))
		big2 := -1
		if r.Intn(4) == 0 {
			big2 = r.Intn(len(use))
		}
		for k, n := range use {
			if k == big || k == big2 {
				l, rr := c07BigDocs(r, g, pick(r, []string{"", "", "", "l", "r"}))
				if lc, _ := wireCont(l); len(lc) > 0 {
					lm[n] = l
				}
				if rc, _ := wireCont(rr); len(rc) > 0 {
					rm[n] = rr
				}
				continue
			}
			switch r.Intn(6) {
			case 0:
				lm[n] = g.Doc(r)
			case 1:
				rm[n] = g.Doc(r)
			default:
				d := g.Doc(r)
				lm[n] = d
				rm[n] = g.Mutate(r, g.Mutate(r, d))
			}
		}
		c.Dist("overlay:a-layer-with-hundreds-of-modifications")
		c.Do("overlay", c07Layers{map[string]any{"m": lm}, map[string]any{"m": rm}})
	}
	for i := 0; i < c.N(2); i++ {
		c.Tick()
		l, rr := c07BigDocs(r, c07Gen(r), "")
		c.Dist("pair:hundreds-of-modifications")
		c.Do("pair", c07Pair{L: l, R: rr})
	}
}

// c07Shrink: big cuts first (halves and quarters of the members of a wide container, of the items of a long list),
// then the generic one-node-at-a-time candidates.
func c07Shrink(kind string, raw []byte) [][]byte {
	var v any
	if err := json.Unmarshal(raw, &v); err != nil {
		return nil
	}
	var out [][]byte
	emit := func() {
		if b, err := json.Marshal(v); err == nil && len(b) < len(raw) {
			out = append(out, b)
		}
	}
	var walk func(x any, set func(any))
	walk = func(x any, set func(any)) {
		switch t := x.(type) {
		case []any:
			if n := len(t); n >= 8 {
				for _, cut := range [][2]int{{0, n / 2}, {n / 2, n}, {0, n / 4}, {n / 4, n / 2}, {n / 2, 3 * n / 4}, {3 * n / 4, n}} {
					set(append(append([]any{}, t[:cut[0]]...), t[cut[1]:]...))
					emit()
					set(t)
				}
			}
			for i := range t {
				i := i
				walk(t[i], func(n any) { t[i] = n })
			}
		case map[string]any:
			ks := sortedKeys(t)
			if n := len(ks); n >= 8 {
				for _, cut := range [][2]int{{0, n / 2}, {n / 2, n}, {0, n / 4}, {n / 4, n / 2}, {n / 2, 3 * n / 4}, {3 * n / 4, n}, {0, n / 8}, {7 * n / 8, n}} {
					saved := map[string]any{}
					for _, k := range ks[cut[0]:cut[1]] {
						saved[k] = t[k]
						delete(t, k)
					}
					emit()
					for k, e := range saved {
						t[k] = e
					}
				}
			}
			for _, k := range ks {
				k := k
				walk(t[k], func(n any) { t[k] = n })
			}
		}
	}
	walk(v, func(n any) { v = n })
	return append(out, shrinkJSON(kind, raw)...)
}

// c07GenText: member names as TEXT.  A flatten-style path carries a member name unchanged, so any name free of the
// three path metacharacters '.', '[' and ']' is path-safe: names with '%', '#', ':', '/', '*', '\\', white space,
// non-ASCII characters, numerals (the pools of harness/c08.go).  Lists are frequent, so that such a name often lies on
// the way to a list whose leaves are reported.
func c07GenText(r *rand.Rand) *DocGen {
	g := c07Gen(r)
	if r.Intn(2) == 0 {
		g.Keys = c08KeysOdd
	} else {
		g.Keys = c08TextKeys(r)
	}
	g.PList += 0.15
	return g
}

func c07GenPairWith(r *rand.Rand, g *DocGen) c07Pair {
	l := g.Doc(r)
	var rr W
	switch k := r.Intn(10); {
	case k == 0:
		rr = g.Doc(r)
	case k == 1:
		rr = deepCopyW(l)
	default:
		rr = deepCopyW(l)
		for i, n := 0, 1+r.Intn(4); i < n; i++ {
			rr = g.Mutate(r, rr)
		}
	}
	if r.Intn(2) == 0 {
		l, rr = rr, l
	}
	return c07Pair{L: l, R: rr}
}

// c07RunText: pairs, overlay documents and domdiff calls over documents whose member names are arbitrary text.
func c07RunText(c *Ctx) {
	r := c.Rng
	for i := 0; i < c.N(1200); i++ {
		c.Tick()
		c.Dist("pair:text-member-names")
		c.Do("pair", c07GenPairWith(r, c07GenText(r)))
	}
	names := []string{"base", "dev", "prod"}
	for i := 0; i < c.N(120); i++ {
		c.Tick()
		g := c07GenText(r)
		lm, rm := map[string]any{}, map[string]any{}
		for _, n := range names {
			switch r.Intn(5) {
			case 0:
				lm[n] = g.Doc(r)
			case 1:
				rm[n] = g.Doc(r)
			case 2:
			default:
				d := g.Doc(r)
				lm[n] = d
				rm[n] = g.Mutate(r, d)
			}
		}
		c.Dist("overlay:text-member-names")
		c.Do("overlay", c07Layers{map[string]any{"m": lm}, map[string]any{"m": rm}})
	}
	for i := 0; i < c.N(40); i++ {
		c.Tick()
		c.Do("domdiff", c07GenPairWith(r, c07GenText(r)))
	}
}

// c07Dup returns a copy of w in which one composite subtree occurs once more: under another key of the same
// container, appended to the list that holds it, or under a key of the root.
func c07Dup(r *rand.Rand, g *DocGen, w W) W {
	var ps []dhPos
	dhPositions(w, []any{}, &ps)
	var cands []dhPos
	for _, p := range ps {
		if len(p.at) > 0 {
			cands = append(cands, p)
		}
	}
	if len(cands) == 0 {
		return w
	}
	// prefer subtrees that hold something
	p := pick(r, cands)
	for try := 0; try < 4 && p.n == 0 && len(p.keys) == 0; try++ {
		p = pick(r, cands)
	}
	sub, ok := dhGet(w, p.at)
	if !ok {
		return w
	}
	parent := p.at[:len(p.at)-1]
	if r.Intn(4) == 0 {
		parent = []any{}
	}
	out, ok := dhUpdate(w, parent, func(x W) (W, bool) {
		if l, isList := x.([]any); isList {
			return append(append([]any{}, l...), deepCopyW(sub)), true
		}
		c, isCont := wireCont(x)
		if !isCont {
			return nil, false
		}
		m := map[string]any{}
		for k, v := range c {
			m[k] = v
		}
		m[pick(r, g.Keys)] = deepCopyW(sub)
		return map[string]any{"m": m}, true
	})
	if !ok {
		return w
	}
	return out
}

func c07ModsWire(ms []diff.Modification) []c07Mod {
	out := make([]c07Mod, 0, len(ms))
	for _, m := range ms {
		out = append(out, c07Mod{string(m.Type), m.Path, scalarWire(m.Value), scalarWire(m.OldValue)})
	}
	return out
}

// ---------------------------------------------------------------- reference diff
//
// Written from the property text over plain wire values; does not call the library.

func c07Join(path, k string) string {
	if path == "" {
		return k
	}
	return path + "." + k
}

// c07Leaves lists one Add per scalar below w, flatten-style paths.
func c07Leaves(w W, path string, out *[]c07Mod) {
	switch x := w.(type) {
	case []any:
		for i, e := range x {
			c07Leaves(e, fmt.Sprintf("%s[%d]", path, i), out)
		}
		return
	case map[string]any:
		if c, ok := x["m"].(map[string]any); ok {
			for _, k := range sortedKeys(c) {
				c07Leaves(c[k], c07Join(path, k), out)
			}
			return
		}
	}
	*out = append(*out, c07Mod{"Add", path, w, scalarWire(nil)})
}

func c07RefWalk(l, r map[string]any, path string, out *[]c07Mod) {
	keys := map[string]bool{}
	for k := range l {
		keys[k] = true
	}
	for k := range r {
		keys[k] = true
	}
	for _, k := range sortedKeys(keys) {
		p := c07Join(path, k)
		lv, lok := l[k]
		rv, rok := r[k]
		switch {
		case lok && !rok: // key only the left has: one Add per leaf under it
			c07Leaves(lv, p, out)
		case !lok && rok: // key only the right has: one Delete
			*out = append(*out, c07Mod{"Delete", p, scalarWire(nil), scalarWire(nil)})
		default:
			lk, rk := wireKind(lv), wireKind(rv)
			switch {
			case lk == "cont" && rk == "cont":
				lc, _ := wireCont(lv)
				rc, _ := wireCont(rv)
				c07RefWalk(lc, rc, p, out)
			case lk == "list" && rk == "list":
				if canon(lv) != canon(rv) { // a list that differs: Delete + Adds of the left list's leaves
					*out = append(*out, c07Mod{"Delete", p, scalarWire(nil), scalarWire(nil)})
					c07Leaves(lv, p, out)
				}
			case lk == "leaf" && rk == "leaf":
				if canon(lv) != canon(rv) { // a scalar that differs: one Change carrying both values
					*out = append(*out, c07Mod{"Change", p, rv, lv})
				}
			default: // kind differs: Delete + Adds of the right node's leaves
				*out = append(*out, c07Mod{"Delete", p, scalarWire(nil), scalarWire(nil)})
				c07Leaves(rv, p, out)
			}
		}
	}
}

func c07RefDiff(l, r W) []c07Mod {
	lc, _ := wireCont(l)
	rc, _ := wireCont(r)
	out := []c07Mod{}
	c07RefWalk(lc, rc, "", &out)
	// ordered by path; among equal paths the Delete comes before the Add
	sort.SliceStable(out, func(i, j int) bool {
		if out[i].Path != out[j].Path {
			return out[i].Path < out[j].Path
		}
		return out[i].Ty == "Delete" && out[j].Ty != "Delete"
	})
	return out
}

// ---------------------------------------------------------------- evaluation

func c07IsDoc(w W) bool {
	_, ok := wireCont(w)
	return ok
}

// c07CheckSeq evaluates the order clauses on one sequence.
func c07CheckSeq(c *Ctx, ms []c07Mod) {
	sorted, ties := true, true
	for i := 1; i < len(ms); i++ {
		if ms[i-1].Path > ms[i].Path {
			sorted = false
		}
		if ms[i-1].Path == ms[i].Path {
			c.Dist("pair:tie")
			if !(ms[i-1].Ty == "Delete" && ms[i].Ty == "Add") {
				ties = false
			}
		}
	}
	c.Direct("paths-non-decreasing", sorted, ms)
	c.Direct("ties-delete-then-add", ties, ms)
}

// c07WireLookup resolves a flatten-style path on a wire document (independent of dom.Lookup).
func c07WireLookup(w W, path string) (W, bool) {
	cur := w
	for _, comp := range strings.Split(path, ".") {
		name := comp
		var idx []int
		if i := strings.Index(comp, "["); i >= 0 {
			name = comp[:i]
			for _, g := range strings.Split(strings.TrimSuffix(comp[i+1:], "]"), "][") {
				n := 0
				if g == "" {
					return nil, false
				}
				for _, ch := range g {
					if ch < '0' || ch > '9' {
						return nil, false
					}
					n = n*10 + int(ch-'0')
				}
				idx = append(idx, n)
			}
		}
		c, ok := wireCont(cur)
		if !ok {
			return nil, false
		}
		if cur, ok = c[name]; !ok {
			return nil, false
		}
		for _, i := range idx {
			l, ok := cur.([]any)
			if !ok || i >= len(l) {
				return nil, false
			}
			cur = l[i]
		}
	}
	return cur, true
}

// c07CheckPositions: every element is of an allowed kind at an allowed position, judged on the
// wire documents with a resolver of the harness's own.
func c07CheckPositions(c *Ctx, p c07Pair, ms []c07Mod) {
	leafIs := func(doc W, path string, w W) bool {
		n, ok := c07WireLookup(doc, path)
		return ok && isWireLeaf(n) && canon(n) == canon(w)
	}
	for i, m := range ms {
		switch m.Ty {
		case "Delete":
			// a key only the right has, or a differing list / kind-mismatch position (present on both sides)
			_, ok := c07WireLookup(p.R, m.Path)
			c.Direct("delete-at-position-present-in-right", ok, m)
		case "Add":
			// a leaf of the left document, or (kind mismatch) of the right node
			inL, inR := leafIs(p.L, m.Path, m.Value), leafIs(p.R, m.Path, m.Value)
			c.Direct("add-is-a-leaf-of-left-or-of-mismatching-right-node", inL || inR, m)
			if !inL && inR {
				// only legitimate below (or at) a Delete that precedes it
				found := false
				for j := 0; j < i; j++ {
					if ms[j].Ty == "Delete" && (ms[j].Path == m.Path || strings.HasPrefix(m.Path, ms[j].Path+".") || strings.HasPrefix(m.Path, ms[j].Path+"[")) {
						found = true
					}
				}
				c.Direct("right-node-add-follows-its-delete", found, m)
			}
		case "Change":
			ok := leafIs(p.L, m.Path, m.Old) && leafIs(p.R, m.Path, m.Value) && canon(m.Old) != canon(m.Value)
			c.Direct("change-carries-both-differing-values", ok, m)
		default:
			c.Direct("modification-type-known", false, m)
		}
	}
}

// c07CheckPair evaluates every clause of the property on one pair: p holds the content the two documents must have
// now, l and r are the live documents.
func c07CheckPair(c *Ctx, p c07Pair, l, r dom.Container, label string, withModel bool) bool {
	fresh := func(w W) dom.ContainerBuilder { return wireContainer(w) }
	first := diff.Diff(l, r)
	ms := c07ModsWire(*first)
	ll := c07ModsWire(*diff.Diff(l, l))
	rr := c07ModsWire(*diff.Diff(r, r))
	lflat, rflat := flattenWire(l), flattenWire(r)
	runs := [][]c07Mod{}
	for i := 0; i < 20; i++ {
		// fresh containers as well as the same ones: map layout and iteration both vary
		if i%2 == 0 {
			runs = append(runs, c07ModsWire(*diff.Diff(l, r)))
		} else {
			runs = append(runs, c07ModsWire(*diff.Diff(fresh(p.L), fresh(p.R))))
		}
	}
	// the sequence returned first is still what it was after all the later calls
	firstNow := c07ModsWire(*first)
	same := canon(p.L) == canon(p.R)
	if len(ms) > 0 || (wireSize(p.L) > 1 && wireSize(p.R) > 1) {
		c.Nontrivial()
	}
	if label == "" {
		for _, m := range ms {
			c.Dist("mod:" + m.Ty)
		}
		switch {
		case len(ms) == 0:
			c.Dist("pair:diff-empty")
		case len(ms) <= 3:
			c.Dist("pair:diff-1..3")
		default:
			c.Dist("pair:diff-4+")
		}
	}
	ok := c.Direct("diff-self-empty"+label, len(ll) == 0 && len(rr) == 0, map[string]any{"Diff(L,L)": ll, "Diff(R,R)": rr})
	ok = c.Direct("equal-documents-give-empty-diff"+label, !same || len(ms) == 0, ms) && ok
	ok = c.Direct("equal-documents(Container.Equals)-give-empty-diff"+label, !l.Equals(r) || len(ms) == 0, ms) && ok
	ok = c.Direct("empty-diff-implies-same-flatten"+label, len(ms) != 0 || canon(lflat) == canon(rflat),
		map[string]any{"Flatten(L)": lflat, "Flatten(R)": rflat}) && ok
	if label == "" {
		c07CheckSeq(c, ms)
	}
	stable := true
	for _, x := range runs {
		if canon(x) != canon(ms) {
			stable = false
		}
	}
	ok = c.Direct("repeated-calls-equal"+label, stable, map[string]any{"first": ms, "runs": runs}) && ok
	ok = c.Direct("earlier-result-unchanged-by-later-calls"+label, canon(firstNow) == canon(ms), map[string]any{"then": ms, "now": firstNow}) && ok
	ref := c07RefDiff(p.L, p.R)
	ok = c.Direct("exactly-the-stated-modifications(reference)"+label, canon(ms) == canon(ref), map[string]any{"Diff": ms, "reference": ref}) && ok
	if label == "" {
		c07CheckPositions(c, p, ms)
	}
	if withModel {
		m := c.Model("diff", map[string]any{"l": p.L, "r": p.R})
		c.Corr("diff", map[string]any{"mods": ms, "ll": ll, "rr": rr}, m)
	}
	return ok
}

type c07TplAction struct {
	tmpl string
	data map[string]interface{}
	out  string
}

func (a *c07TplAction) String() string { return "c07tpl" }
func (a *c07TplAction) Do(ctx pipeline.ActionContext) error {
	s, err := ctx.TemplateEngine().Render(a.tmpl, a.data)
	a.out = s
	return err
}
func (a *c07TplAction) CloneWith(pipeline.ActionContext) pipeline.Action { return a }

const c07Tpl = `{{ range (domdiff .l .r) }}{{ .Type }}|{{ .Path }}|{{ printf "%T" .Value }}|{{ printf "%v" .Value }}|{{ printf "%T" .OldValue }}|{{ printf "%v" .OldValue }}
{{ end }}`

func c07Render(ms []diff.Modification) string {
	var sb strings.Builder
	for _, m := range ms {
		fmt.Fprintf(&sb, "%s|%s|%T|%v|%T|%v\n", m.Type, m.Path, m.Value, m.Value, m.OldValue, m.OldValue)
	}
	return sb.String()
}

func c07Eval(c *Ctx, kind string, raw []byte) {
	switch kind {
	case "afterfail":
		c07EvalAfterFail(c, raw) // c07_hist.go
	case "zoned":
		c07EvalZoned(c, raw) // c07_zone.go
	case "pair":
		var p c07Pair
		if err := json.Unmarshal(raw, &p); err != nil {
			panic(err)
		}
		if !c07IsDoc(p.L) || !c07IsDoc(p.R) {
			c.Dist("pair:not-a-document(skipped)")
			return
		}
		for _, e := range p.EditsL {
			if e.V != nil && !c05KeysOK(e.V) {
				return
			}
		}
		if p.Build != "" {
			c.Dist("pair:build=" + p.Build)
		}
		out, txt := guard(func() {
			var l, r dom.ContainerBuilder
			var d *dhDoc
			switch p.Build {
			case "dag":
				memo := map[string]dom.Node{}
				l, r = heapBuildDag(p.L, memo).(dom.ContainerBuilder), heapBuildDag(p.R, memo).(dom.ContainerBuilder)
			case "dag-each":
				l, r = heapBuildDag(p.L, map[string]dom.Node{}).(dom.ContainerBuilder), heapBuildDag(p.R, map[string]dom.Node{}).(dom.ContainerBuilder)
			default:
				d = dhNew(p.L, p.SealL)
				l, r = d.root, dhNew(p.R, p.SealR).root
			}
			var lv, rv dom.Container = l, r
			if p.SealRoots {
				lv, rv = l.Seal(), r.Seal()
			}
			if len(p.SealL)+len(p.SealR) > 0 || p.SealRoots {
				c.Dist("pair:sealed-views-attached")
			}
			if !c07CheckPair(c, c07Pair{L: p.L, R: p.R}, lv, rv, "", true) || d == nil || len(p.EditsL) == 0 {
				return
			}
			executed := 0
			for i, e := range p.EditsL {
				// read before every edit (through the read APIs Diff itself uses, and the others)
				if !dhReport(c, "hist:", i, d.reads(dhReadOpts{Light: true})) {
					return
				}
				st := d.apply(e)
				if st == "skip" {
					continue
				}
				executed++
				if !c.Direct("edit-executes", st == "ok", map[string]any{"edit": e, "result": st}) {
					return
				}
			}
			if executed == 0 {
				return
			}
			c.Dist("pair:L-edited-between-diffs")
			if !dhReport(c, "hist:", executed, d.reads(dhReadOpts{Light: true})) {
				return
			}
			const label = "(L edited in place since the last Diff)"
			if p.SealRoots {
				lv = l.Seal() // the view handed out after the edits
			}
			if !c07CheckPair(c, c07Pair{L: d.exp, R: p.R}, lv, rv, label, false) {
				return
			}
			// the edited document against a freshly built document of the same content: no difference, either way
			fresh := wireContainer(d.exp)
			a, b := c07ModsWire(*diff.Diff(l, fresh)), c07ModsWire(*diff.Diff(fresh, l))
			c.Direct("equal-documents-give-empty-diff"+label, len(a) == 0 && len(b) == 0, map[string]any{"Diff(L,fresh)": a, "Diff(fresh,L)": b, "L must hold": d.exp})
		})
		c.Direct("no-panic", out == "ok", txt)
	case "overlay":
		var p c07Layers
		if err := json.Unmarshal(raw, &p); err != nil {
			panic(err)
		}
		lm, lok := wireCont(p.L)
		rm, rok := wireCont(p.R)
		if !lok || !rok {
			c.Dist("overlay:malformed(skipped)")
			return
		}
		for _, m := range []map[string]any{lm, rm} {
			for _, k := range sortedKeys(m) {
				if !c07IsDoc(m[k]) {
					c.Dist("overlay:malformed(skipped)")
					return
				}
			}
		}
		c.Nontrivial()
		c.Dist(fmt.Sprintf("overlay:layers-l%d-r%d", len(lm), len(rm)))
		got := map[string]any{}
		expect := map[string]any{}
		ref := map[string]any{}
		stable := true
		out, txt := guard(func() {
			build := func(m map[string]any) dom.OverlayDocument {
				ov := dom.NewOverlayDocument()
				for _, k := range sortedKeys(m) {
					ov.Add(k, wireContainer(m[k]))
				}
				return ov
			}
			lo, ro := build(lm), build(rm)
			// the same overlay document on both sides: no difference in any layer
			for k, ms := range diff.OverlayDocs(lo, lo) {
				c.Direct("overlaydocs-self-empty", len(*ms) == 0, map[string]any{"layer": k, "mods": c07ModsWire(*ms)})
			}
			res := diff.OverlayDocs(lo, ro)
			for _, k := range sortedKeys(res) {
				got[k] = c07ModsWire(*res[k])
			}
			for i := 0; i < 10; i++ {
				again := map[string]any{}
				res2 := diff.OverlayDocs(lo, ro)
				for _, k := range sortedKeys(res2) {
					again[k] = c07ModsWire(*res2[k])
				}
				if canon(again) != canon(got) {
					stable = false
				}
			}
			layer := func(m map[string]dom.Container, k string) dom.Container {
				if x, ok := m[k]; ok {
					return x
				}
				return dom.Builder().Container()
			}
			ll, rl := lo.Layers(), ro.Layers()
			names := map[string]bool{}
			for k := range ll {
				names[k] = true
			}
			for k := range rl {
				names[k] = true
			}
			for _, k := range sortedKeys(names) {
				expect[k] = c07ModsWire(*diff.Diff(layer(ll, k), layer(rl, k)))
				var lw, rw W = map[string]any{"m": map[string]any{}}, map[string]any{"m": map[string]any{}}
				if x, ok := lm[k]; ok {
					lw = x
				}
				if x, ok := rm[k]; ok {
					rw = x
				}
				ref[k] = c07RefDiff(lw, rw)
			}
		})
		if !c.Direct("no-panic", out == "ok", txt) {
			return
		}
		c.Direct("overlaydocs-per-layer-equals-diff-of-layers", canon(got) == canon(expect), map[string]any{"OverlayDocs": got, "Diff per layer": expect})
		c.Direct("overlaydocs-per-layer-equals-reference", canon(got) == canon(ref), map[string]any{"OverlayDocs": got, "reference": ref})
		c.Direct("overlaydocs-repeated-calls-equal", stable, got)
		c.Corr("overlayDocs", got, c.Model("overlay", map[string]any{"l": p.L, "r": p.R}))
	case "domdiff":
		var p c07Pair
		if err := json.Unmarshal(raw, &p); err != nil {
			panic(err)
		}
		if !c07IsDoc(p.L) || !c07IsDoc(p.R) {
			c.Dist("domdiff:not-a-document(skipped)")
			return
		}
		c.Nontrivial()
		var viaTpl, direct string
		var rerr error
		out, txt := guard(func() {
			l, r := wireContainer(p.L), wireContainer(p.R)
			a := &c07TplAction{tmpl: c07Tpl, data: map[string]interface{}{"l": l, "r": r}}
			rerr = pipeline.New().Execute(a)
			viaTpl = a.out
			direct = c07Render(*diff.Diff(l, r))
		})
		if !c.Direct("no-panic", out == "ok", txt) {
			return
		}
		c.Direct("domdiff-renders", rerr == nil, fmt.Sprint(rerr))
		c.Direct("domdiff-equals-diff", viaTpl == direct, map[string]any{"domdiff": viaTpl, "Diff": direct})
	}
}
