package main

import (
	"bytes"
	"encoding/base64"
	"encoding/json"
	"fmt"
	"math/rand"
	"os"
	"path/filepath"
	"sort"
	"strings"

	"github.com/rkosegi/yaml-toolkit/dom"
	"github.com/rkosegi/yaml-toolkit/k8s"
	"gopkg.in/yaml.v3"
)

// C17 — Kubernetes manifests: data and surrounding fields survive load/edit/save.

type c17Item struct {
	K string `json:"k"`
	V W      `json:"v"` // scalar in wire form (string, or int/float/bool/null: "numeric-looking")
}

type c17Bin struct {
	K string `json:"k"`
	B []int  `json:"b"`
}

type c17Edit struct {
	Op  string `json:"op"` // supdate | sremove | bupdate | bremove
	Key string `json:"key"`
	S   string `json:"s"`
	B   []int  `json:"b"`
}

type c17Manifest struct {
	Kind     string    `json:"kind"`
	Extra    W         `json:"extra"` // container: fields outside the data sections
	Text     []c17Item `json:"text"`
	Bin      []c17Bin  `json:"bin"`
	EmptySec bool      `json:"emptySec"` // write empty sections as {} instead of omitting them
	Via      string    `json:"via"`      // bytes | reader | file
	Edits    []c17Edit `json:"edits"`
	// Form: the written form of the body (c17_form.go); nil: what yaml.Marshal gives
	Form *c17Form `json:"form,omitempty"`
}

type c17Emb struct {
	Kind  string         `json:"kind"`
	Extra W              `json:"extra"`
	Text  []c17Item      `json:"text"` // other string items (props mode: the properties themselves)
	Bin   []c17Bin       `json:"bin"`
	Mode  string         `json:"mode"` // yaml | json | props
	Item  string         `json:"item"`
	Doc   W              `json:"doc"` // initial embedded document; nil: item absent (yaml/json)
	Via   string         `json:"via"` // open | builder | create
	Edits []c17DocEdit   `json:"edits"`
	More  [][]c17DocEdit `json:"more,omitempty"` // later rounds (edits, Save, reopen-compare) through the SAME Document handle
	By    *c17Party      `json:"by,omitempty"`   // another manifest alive during the whole history, written + reloaded after every Save
	// After (Via builder / create): what the caller does with the Builder VALUE once it has handed out the Document and
	// before the first edit - a Builder configured once is used for the next manifest: manifest-other (Manifest(other file)),
	// open-other (Manifest(other file).Open(), that document stays alive), create-other (Manifest(new file).Create(...)),
	// encoder-other / decoder-other (Encoder / Decoder set for another item), in any combination.  The Document handed out
	// earlier edits and saves ITS manifest with ITS codec: all clauses of the history hold as usual, and the other file
	// keeps its bytes.
	After []string `json:"after,omitempty"`
}

var c17AfterSteps = []string{"manifest-other", "open-other", "open-other", "create-other", "encoder-other", "decoder-other"}

// c17Party: one of several manifests alive at the same time.
type c17Party struct {
	ID       string    `json:"id"`
	Kind     string    `json:"kind"`
	Extra    W         `json:"extra"`
	Text     []c17Item `json:"text"`
	Bin      []c17Bin  `json:"bin"`
	EmptySec bool      `json:"emptySec"`
	Via      string    `json:"via"` // bytes | reader | file
}

type c17Step struct {
	M   string `json:"m"`  // party id
	Op  string `json:"op"` // load | write | supdate | sremove | bupdate | bremove
	Key string `json:"key,omitempty"`
	S   string `json:"s,omitempty"`
	B   []int  `json:"b,omitempty"`
}

// c17Inter: an interleaving of the histories of several manifests.  A party is loaded by the first step that
// names it; "write" = WriteTo + reload + compare with the party's OWN expected items and sections; after the
// last step every party is (loaded and) written once more, in the order of Ms.
type c17Inter struct {
	Ms    []c17Party `json:"ms"`
	Steps []c17Step  `json:"steps"`
}

type c17Malformed struct {
	Yaml string `json:"yaml"`
}

type c17B64 struct {
	Bytes []int  `json:"bytes"`
	Text  string `json:"text"`
}

func init() {
	register(&Prop{ID: "C17", Run: c17Run,
		Rule: "manifest: Secret/ConfigMap with generated metadata/extra fields (incl. the other kind's section names), 0-5 text items (strings: multi-line, unicode, numeric-looking, YAML-special; and non-string scalars) and 0-4 binary items (0-40 arbitrary bytes, incl. empty), serialised with yaml.v3, loaded through ManifestFromBytes/Reader/File, written, reloaded, then 0-8 Update/Remove edits on both facades, written and reloaded again. embedded: a YAML/JSON document embedded in an item (or absent), or properties spread over the string items, opened through k8s.YamlDoc/JsonDoc/Properties or NewBuilder()...Open()/Create() on a temp file, then 1-4 rounds of (0-6 edits, Save through the SAME Document handle, reopen and compare), in a third of the cases with a second manifest of either kind alive that is written and reloaded after every Save. Edits: AddValueAt / RemoveAt on the root builder, and (4 in 9, never by the same route twice in a row) calls through NESTED HANDLES the history holds - AddValue / Remove / AddContainer+AddValue / AddList+Append / AddValue of a leaf object the container already holds (one instance at two positions) on a nested container, Append / Set / MustSet(in range) / Clear on a nested list, the handle obtained by Lookup, by a chain of Child calls, or retained since the document was opened / an earlier round / returned by AddContainer or AddList (used only while Lookup still finds that very node there). Before and after every edit and around every Save the document is read through every read API (walk of Children/Items/Value, Flatten twice, Lookup of every flattened and composite path, Search for every leaf value, AsMap, Serialize as YAML and JSON, Clone, Equals, a sealed view taken at the start, every held handle's own walk / Flatten / AsMap / Items / Size / AsSlice): all must agree with the walk, with a freshly built document of the same content, with a plain-tree edit of the previous content (nested edits), and the maps returned by an earlier Flatten / AsMap must not change; what a properties Save must persist is the flattening of the WALKED document. savefault: the embedded histories again, with at least one round whose Save fails in the embedded-document encoder (a +Inf/-Inf/NaN float leaf put into a JsonDoc document; a user-supplied encoder given to NewBuilder().Encoder(...) that returns an error before or after doing the standard encoder's work), attempted 1-3 times: after every failed Save the file is read back and must still be the previous manifest (loads, same item maps, same fields outside the data sections, embedded document reopens as last saved); the cause is then repaired and the same handle saves, with the usual clauses. interleave: 2-3 manifests of either kind alive at once, a random schedule of load / Update / Remove / write(+reload) steps over them, every write compared with that manifest's own expected items, sections and non-data fields, every step followed by a look at the items of all alive manifests. entry (direct predicates only): one manifest body of an exact size - natural, or just under / at / just over / well over 512 B, 4 KiB, 64 KiB, 1 MiB, the bulk being one long text item, many text items, one long binary item or a long field outside the data sections, optionally multi-byte UTF-8 with a character across the threshold offset - loaded through ManifestFromBytes, ManifestFromFile and ManifestFromReader (reader handing the bytes out whole / in chunks of 1 B ... 1 MiB / one by one / last chunk together with io.EOF, preceded by 0-2 readers failing after 0 ... n-1 bytes that must yield an error and no manifest): the three show the generated items and the same items, WriteTo (on the reader-loaded one preceded by 0-2 writers failing part-way, which must be reported) gives byte-identical bodies that reload through the reader entry point with the same items and the same non-data fields, also after 0-3 facade edits. WRITTEN FORM (c17_form.go): a third of the manifest cases are not yaml.Marshal output but written the way people and tools write manifests, rendered by yaml.v3's emitter from a styled node tree: base64 text of a binary item on one line, ended by a line break (block scalar `|` with the default chomping), wrapped at 64 / 76 (PEM / MIME / `base64 -w`) or 1-20 columns with LF or CRLF breaks, with or without the final line break, with a line break in front, as literal / folded block or single- / double-quoted scalar; string text items as literal / folded / quoted scalars; quoted item keys; sections as flow mappings; comments; CRLF line ends of the file - item lengths include 47-50, 56-59, 100, 101 bytes so that 64 / 76-column wrapping occurs with every length mod 3. One manifest case in three takes its item keys from a wide pool (letter-case twins, white space, Unicode composition twins, supplementary-plane characters, U+FFFD, YAML indicators, number / boolean / null spellings and long digit strings as STRING keys, the empty key). String values include white-space-only / CRLF / NBSP strings, supplementary-plane characters, U+FFFD, digit strings at 2^53 / 2^63 / 2^64, signed zeros, YAML 1.1 / 1.2 number and boolean spellings and YAML indicators (all pre-filtered by a yaml.v3 round trip). MANIFEST VOCABULARY IN THE DATA (round 8): the string pool of text items and facade updates includes texts that are themselves manifests or written in the manifest vocabulary (kind / apiVersion / metadata / data / stringData / binaryData lines as YAML - indented, quoted, commented, behind a document marker -, JSON and properties, kinds other than Secret / ConfigMap, the bare words Pod / Secret / ConfigMap), the item-key pool includes `kind` and `data`, and one embedded document in four takes its keys from kind / metadata / data / apiVersion / a / b. BUILDER REUSE (embedded cases opened through NewBuilder()...Open() / Create(), two in three of them): after the Document was handed out and before its first edit, the same Builder value is used for the next manifest - Manifest(other file), Manifest(other file).Open() (that document stays alive), Manifest(new file).Create(...), Encoder(...) / Decoder(...) for another item and format, one or two of these - and the history of edits / Saves / reopens through the first Document is judged by the usual clauses, plus: the other manifest file keeps its bytes. rawtext (direct predicates only, c17_rawtext.go): 400 manifests whose text items - 0-3 initial ones and the arguments of StringData().Update among 0-5 facade edits - are given as BYTES, about half of them not valid UTF-8 (single bytes >= 0x80 between ASCII as in legacy single-byte encodings, a multi-byte character cut short, lone continuation bytes, overlong forms, encoded surrogates, 0xFE / 0xFF, UTF-16 with BOM; pre-filtered by a yaml.v3 string round trip, which carries such a string as a !!binary scalar): loaded items, the facades after every edit, and the reload of the first WriteTo, of a second WriteTo of the same manifest and of a WriteTo of the reloaded manifest must all show exactly the expected text (byte for byte, in the text section) and binary items. malformed: YAML assembled from pools of bad kinds / sections / values. b64: random bytes and mutated encodings against encoding/base64. A manifest case is non-trivial when it has at least one item; an embedded case when it has at least one edit; a savefault case when at least one Save failed; an entry case when it has at least one item; an interleave case when two manifests with at least one item between them are alive at a write; distinct = distinct canonical case JSON.",
		Assumptions: []string{
			"yaml.v3 round-trips the generated manifest bodies (strings are pre-filtered by an independent Marshal/Unmarshal round trip; no timestamps, no NaN)",
			"embedded YAML documents hold int/string/bool/null scalars, embedded JSON documents string/bool/float64/null scalars (the codecs' number normalisation is C01's concern); keys are path-safe",
			"embedded properties are compared as flattened key/value maps with values stringified by %v (what a properties file can hold)",
			"the model's embedded text codec is the finite table of (document, text) pairs observed on the implementation",
			"base64 text of a binary item is standard padded base64 in which CR / LF line breaks may stand anywhere (RFC 2045 wrapping, `base64` output, block scalars; what encoding/base64.StdEncoding ignores and the model's b64dec drops) - never spaces or tabs; a written form is used only when yaml.v3 reads it back as the intended root map and item strings (yaml.v3's emitter cannot write a block scalar starting with an empty line: such text is quoted)"}})
	evals["C17"] = c17Eval
	shrinkers["C17"] = c17Shrink
}

// c17Shrink: the generic JSON shrinker, preceded (embedded cases) by the case without the second manifest.
func c17Shrink(kind string, raw []byte) [][]byte {
	var out [][]byte
	if kind == "embedded" {
		var m map[string]json.RawMessage
		if err := json.Unmarshal(raw, &m); err == nil {
			if _, ok := m["by"]; ok {
				delete(m, "by")
				if b, err := json.Marshal(m); err == nil {
					out = append(out, b)
				}
			}
		}
	}
	if kind == "manifest" {
		out = append(out, c17ShrinkForm(raw)...)
	}
	return append(out, shrinkJSON(kind, raw)...)
}

var c17Keys = []string{"a", "b", "key-1", "K_2", "app.properties", "x.yaml", "cfg.json", "z", "kind", "data"}
var c17PropKeys = []string{"a", "a.b", "a.k", "c", "d.e.f", "l[0]", "l[1]", "srv.port", "srv.host", "x"}

var c17StringPool = []string{"", "s", "plain text", "line1\nline2\n", "line1\nline2", "\nlead", "trail \n", "héllo ✓ 日本語",
	"123", "1.5", "-7", "0x1f", "1e3", "true", "null", "~", "no", "2001-12-14", " lead", "trail ", "a: b", "# c", "- x",
	"'q'", "\"dq\"", "tab\there", "{x: 1}", "[1, 2]", "k=v\nk2=v2\n", strings.Repeat("long ", 30), "%v", "|", ">-", "a\n\n\nb", "::",
	// round 5: white space only / CRLF / NBSP, supplementary-plane characters and U+FFFD, digit strings at the
	// 2^53 / 2^63 / 2^64 boundaries, signed zeros, number and boolean spellings of YAML 1.1 and 1.2, YAML indicators
	" ", "\t", "\n", "\r\n", "crlf\r\nline\r\n", "\u00a0", "nb\u00a0sp", "\U0001F680", "\U0001D6FC\u03b2", "\ufffd", "e\u0301", "\u00e9",
	"9007199254740993", "9223372036854775807", "9223372036854775808", "18446744073709551615", "18446744073709551616",
	"123456789012345678901234", "-0", "-0.0", "+1", ".5", "5.", "0o17", "017", "0b1", "1_000", ".inf", "-.Inf", ".NaN", "1:30",
	"True", "TRUE", "False", "y", "Y", "n", "on", "Off", "t", "T", "f", "F", "0", "1", "Null", "NULL", "nil",
	"=", "<<", "---", "...", "--- x", "!!str x", "&a x", "*a", "? k", "@at", "`bt", "%TAG", "a #b", "a: ", "- ", "k:\tv", "\\n", "\\",
	// round 8: a text item is very often itself a document - and among the documents people keep in ConfigMaps and Secrets
	// are MANIFESTS (of any kind) and texts written in the manifest vocabulary (kind / apiVersion / metadata / data /
	// stringData / binaryData lines, as YAML, JSON or properties, indented or not, with or without a document marker)
	"apiVersion: v1\nkind: Pod\nmetadata:\n  name: p\n", "kind: Deployment\n", "kind: List\nitems: []\n", "kind: Secret\ndata: {}\n",
	"kind: ConfigMap\ndata:\n  a: b\n", "  kind: Service\n  spec: {}\n", "---\nkind: Job\n", "apiVersion: apps/v1\nkind: StatefulSet # x\nspec:\n  replicas: 1\n",
	"kind: 1\n", "kind:\n", "kind: \"Role\"\n", "data:\n  kind: x\nstringData:\n  a: b\n", "binaryData:\n  k: YQ==\n", "x: 1\nkind: v1.Node\nmetadata: {}",
	"{\"kind\": \"Pod\", \"data\": {}}", "kind=Pod\ndata.a=1\n", "Pod", "Secret", "ConfigMap"}

func c17YamlStable(s string) bool {
	b, err := yaml.Marshal(map[string]any{"k": s})
	if err != nil {
		return false
	}
	var back map[string]any
	if err := yaml.Unmarshal(b, &back); err != nil {
		return false
	}
	got, ok := back["k"].(string)
	return ok && got == s
}

func c17GenString(r *rand.Rand) string {
	for i := 0; i < 10; i++ {
		s := pick(r, c17StringPool)
		if r.Intn(8) == 0 {
			// random printable / unicode mix
			rs := []rune("abc XYZ09_-.:#\n\"'{}[]é日✓,&*!|>%@`")
			n := r.Intn(12)
			b := make([]rune, n)
			for j := range b {
				b[j] = rs[r.Intn(len(rs))]
			}
			s = string(b)
		}
		if c17YamlStable(s) {
			return s
		}
	}
	return "s"
}

func c17GenBytes(r *rand.Rand) []int {
	n := []int{0, 1, 2, 3, 4, 5, 6, 7, 16, 31, 32, 33, 40, 47, 48, 49, 50, 56, 57, 58, 59, 100, 101}[r.Intn(23)]
	if r.Intn(3) == 0 {
		n = r.Intn(41)
	}
	b := make([]int, n)
	for i := range b {
		switch r.Intn(4) {
		case 0:
			b[i] = []int{0, 255, 10, 13, 61, 128, 127}[r.Intn(7)]
		default:
			b[i] = r.Intn(256)
		}
	}
	return b
}

func c17ToBytes(b []int) []byte {
	out := make([]byte, len(b))
	for i, x := range b {
		out[i] = byte(x)
	}
	return out
}

func c17FromBytes(b []byte) []int {
	out := make([]int, len(b))
	for i, x := range b {
		out[i] = int(x)
	}
	return out
}

func c17SectionKeys(kind string) (bk, tk string) {
	if kind == "Secret" {
		return "data", "stringData"
	}
	return "binaryData", "data"
}

func c17GenExtra(r *rand.Rand, kind string) W {
	g := stdGen()
	g.MaxDepth, g.MaxWidth = 3, 3
	g.Types = []string{"int", "string", "bool", "float64"}
	g.Strings = []string{"", "s", "x y", "héllo", "1", "true", "v1", "Opaque"}
	m := map[string]any{}
	bk, tk := c17SectionKeys(kind)
	pool := []string{"apiVersion", "metadata", "type", "immutable", "extra", "spec", "x-y", "stringData", "binaryData", "data", "Kind"}
	n := r.Intn(5)
	for i := 0; i < n; i++ {
		k := pick(r, pool)
		if k == bk || k == tk || k == "kind" {
			continue
		}
		switch k {
		case "apiVersion":
			m[k] = scalarWire("v1")
		case "metadata":
			m[k] = map[string]any{"m": map[string]any{"name": scalarWire(pick(r, []string{"n1", "cfg"})), "namespace": scalarWire("default"),
				"labels": g.Cont(r, 2)}}
		default:
			m[k] = g.Node(r, 1)
		}
	}
	return map[string]any{"m": m}
}

func c17GenItems(r *rand.Rand, keys []string, maxN int, stringsOnly bool) []c17Item {
	n := r.Intn(maxN + 1)
	seen := map[string]bool{}
	out := []c17Item{}
	for i := 0; i < n; i++ {
		k := pick(r, keys)
		if seen[k] {
			continue
		}
		seen[k] = true
		var v W = scalarWire(c17GenString(r))
		if !stringsOnly && r.Intn(5) == 0 {
			v = pick(r, []W{scalarWire(1), scalarWire(-42), scalarWire(0.5), scalarWire(1e21), scalarWire(true), scalarWire(false), scalarWire(nil), scalarWire(1234567890123)})
		}
		out = append(out, c17Item{K: k, V: v})
	}
	return out
}

func c17GenBins(r *rand.Rand, maxN int) []c17Bin { return c17GenBinsOf(r, c17Keys, maxN) }

func c17GenBinsOf(r *rand.Rand, keys []string, maxN int) []c17Bin {
	n := r.Intn(maxN + 1)
	seen := map[string]bool{}
	out := []c17Bin{}
	for i := 0; i < n; i++ {
		k := pick(r, keys)
		if seen[k] {
			continue
		}
		seen[k] = true
		out = append(out, c17Bin{K: k, B: c17GenBytes(r)})
	}
	return out
}

func c17GenEdits(r *rand.Rand, n int) []c17Edit { return c17GenEditsOf(r, c17Keys, n) }

func c17GenEditsOf(r *rand.Rand, keys []string, n int) []c17Edit {
	out := []c17Edit{}
	for i := 0; i < n; i++ {
		k := pick(r, keys)
		switch r.Intn(4) {
		case 0:
			out = append(out, c17Edit{Op: "supdate", Key: k, S: c17GenString(r)})
		case 1:
			out = append(out, c17Edit{Op: "sremove", Key: k})
		case 2:
			out = append(out, c17Edit{Op: "bupdate", Key: k, B: c17GenBytes(r)})
		default:
			out = append(out, c17Edit{Op: "bremove", Key: k})
		}
	}
	return out
}

func c17Run(c *Ctx) {
	r := c.Rng
	kinds := []string{"Secret", "ConfigMap"}
	for i := 0; i < c.N(2500); i++ {
		c.Tick()
		kind := pick(r, kinds)
		// item keys: the classic pool, or (one case in three) confusable / unusual spellings (c17_form.go)
		keys := c17Keys
		if r.Intn(3) == 0 {
			keys = c17PickKeys(r)
		}
		cs := c17Manifest{Kind: kind, Extra: c17GenExtra(r, kind), Text: c17GenItems(r, keys, 5, false), Bin: c17GenBinsOf(r, keys, 4),
			EmptySec: r.Intn(6) == 0, Via: pick(r, []string{"bytes", "bytes", "reader", "file"}), Edits: c17GenEditsOf(r, keys, r.Intn(9))}
		if r.Intn(3) == 0 {
			cs.Form = c17GenForm(r, cs.Text, cs.Bin)
		}
		c.Do("manifest", cs)
	}
	for i := 0; i < c.N(900); i++ {
		c.Tick()
		c.Do("embedded", c17GenEmb(r))
	}
	for i := 0; i < c.N(1200); i++ {
		c.Tick()
		c.Do("interleave", c17GenInter(r))
	}
	for i := 0; i < c.N(450); i++ {
		c.Tick()
		c.Do("savefault", c17GenFault(r))
	}
	c17EntryCases(c)
	for _, y := range c17MalformedFixed {
		c.Do("malformed", c17Malformed{Yaml: y})
	}
	for i := 0; i < c.N(1000); i++ {
		c.Tick()
		c.Do("malformed", c17Malformed{Yaml: c17GenMalformed(r)})
	}
	for i := 0; i < c.N(2500); i++ {
		c.Tick()
		c.Do("b64", c17GenB64(r))
	}
	c17RunRawText(c) // c17_rawtext.go (last: the cases above stay what they were for a given seed)
}

func c17GenEmb(r *rand.Rand) c17Emb {
	kind := pick(r, []string{"Secret", "ConfigMap"})
	mode := pick(r, []string{"yaml", "json", "props"})
	cs := c17Emb{Kind: kind, Extra: c17GenExtra(r, kind), Bin: c17GenBins(r, 3), Mode: mode, Via: "open", Edits: []c17DocEdit{}}
	g := stdGen()
	g.MaxDepth, g.MaxWidth, g.ListMax = 3, 3, 3
	g.PNull = 0.05
	g.Keys = []string{"a", "b", "c", "k1", "x-y", "z_9"}
	g.Strings = []string{"", "s", "t", "1", "true", "a b", "héllo", "multi\nline\n", "x.y", "k: v"}
	if r.Intn(4) == 0 { // the embedded document is (shaped like) a manifest itself
		g.Keys = []string{"kind", "metadata", "data", "a", "apiVersion", "b"}
		g.Strings = append(g.Strings, "Pod", "v1", "Secret")
	}
	switch mode {
	case "yaml":
		g.Types = []string{"int", "string", "bool"}
	case "json":
		g.Types = []string{"string", "bool", "float64"}
	default:
		g.Types = []string{"string", "string", "int", "bool"}
		g.PNull = 0
	}
	if mode == "props" {
		cs.Text = c17GenItems(r, c17PropKeys, 6, true)
	} else {
		cs.Text = c17GenItems(r, c17Keys, 3, true)
		cs.Item = pick(r, []string{"app.yaml", "cfg.json", "a", "doc"})
		// the embedded item must not clash with another text item
		var keep []c17Item
		for _, it := range cs.Text {
			if it.K != cs.Item {
				keep = append(keep, it)
			}
		}
		cs.Text = keep
		if cs.Text == nil {
			cs.Text = []c17Item{}
		}
		if r.Intn(5) > 0 {
			cs.Doc = g.Doc(r)
		}
	}
	switch r.Intn(6) {
	case 0:
		cs.Via = "create"
		cs.Extra, cs.Text, cs.Bin, cs.Doc = map[string]any{"m": map[string]any{}}, []c17Item{}, []c17Bin{}, nil
	case 1:
		cs.Via = "builder"
	}
	if cs.Via != "open" && r.Intn(3) > 0 {
		for n := 1 + r.Intn(2); n > 0; n-- {
			cs.After = append(cs.After, pick(r, c17AfterSteps))
		}
	}
	// edits aimed at the current shape of the document
	var cur W = cs.Doc
	if mode == "props" || cur == nil {
		cur = map[string]any{"m": map[string]any{}}
		if mode == "props" {
			m := map[string]any{}
			for _, it := range cs.Text {
				m[strings.Split(it.K, ".")[0]] = scalarWire("x")
			}
			cur = map[string]any{"m": m}
		}
	}
	var paths, lists []string
	wirePaths(cur, "", &paths, &lists)
	lastRoute := ""
	genRound := func(n int) []c17DocEdit {
		out := []c17DocEdit{}
		for i := 0; i < n; i++ {
			// nearly half of the edits go through a nested handle (c17_hist.go), never by the same route twice in a row
			if r.Intn(9) < 4 {
				out = append(out, c17GenNested(r, g, &lastRoute))
				continue
			}
			lastRoute = "root"
			p := pick(r, g.Keys)
			if len(paths) > 0 && r.Intn(3) > 0 {
				p = pick(r, paths)
				if r.Intn(3) == 0 {
					p = p + "." + pick(r, g.Keys)
				}
			} else if r.Intn(2) == 0 {
				p = p + "." + pick(r, g.Keys)
			}
			if mode == "props" && r.Intn(2) == 0 {
				p = pick(r, c17PropKeys)
			}
			if r.Intn(3) == 0 {
				out = append(out, c17DocEdit{Op: "removeat", Path: p})
			} else {
				var v W
				if r.Intn(3) == 0 {
					v = g.Node(r, g.MaxDepth-1)
				} else {
					v = g.Scalar(r)
				}
				out = append(out, c17DocEdit{Op: "addat", Path: p, V: v})
				paths = append(paths, p)
			}
		}
		return out
	}
	cs.Edits = genRound(r.Intn(7))
	// history: the same handle is edited and saved again
	for i := pick(r, []int{0, 0, 1, 1, 2, 3}); i > 0; i-- {
		cs.More = append(cs.More, genRound(r.Intn(5)))
	}
	if r.Intn(3) == 0 {
		p := c17GenParty(r, "other")
		cs.By = &p
	}
	return cs
}

func c17GenParty(r *rand.Rand, id string) c17Party {
	kind := pick(r, []string{"Secret", "ConfigMap"})
	return c17Party{ID: id, Kind: kind, Extra: c17GenExtra(r, kind), Text: c17GenItems(r, c17Keys, 4, false), Bin: c17GenBins(r, 3),
		EmptySec: r.Intn(8) == 0, Via: pick(r, []string{"bytes", "bytes", "reader", "file"})}
}

func c17GenInter(r *rand.Rand) c17Inter {
	n := 2 + r.Intn(2)
	cs := c17Inter{Ms: []c17Party{}, Steps: []c17Step{}}
	ids := []string{}
	for i := 0; i < n; i++ {
		id := fmt.Sprintf("m%d", i)
		ids = append(ids, id)
		cs.Ms = append(cs.Ms, c17GenParty(r, id))
	}
	// some (often all) parties are loaded up front, in any order
	for _, i := range r.Perm(n)[:1+r.Intn(n)] {
		if r.Intn(4) > 0 {
			cs.Steps = append(cs.Steps, c17Step{M: ids[i], Op: "load"})
		}
	}
	for k := r.Intn(13); k > 0; k-- {
		id := pick(r, ids)
		switch r.Intn(10) {
		case 0:
			cs.Steps = append(cs.Steps, c17Step{M: id, Op: "load"})
		case 1, 2, 3:
			cs.Steps = append(cs.Steps, c17Step{M: id, Op: "write"})
		default:
			e := c17GenEdits(r, 1)[0]
			cs.Steps = append(cs.Steps, c17Step{M: id, Op: e.Op, Key: e.Key, S: e.S, B: e.B})
		}
	}
	return cs
}

var c17MalformedFixed = []string{
	"kind: 1", "kind: [Secret]", "kind: {a: b}", "kind: null", "x: 1", "kind: Pod", "", "null", "- a", "just text", "kind: true", "kind: 1.5",
	"kind: Secret\ndata: {a: 1}", "kind: Secret\ndata: {a: [x]}", "kind: Secret\ndata: {a: null}", "kind: Secret\ndata: {a: '$$$'}",
	"kind: Secret\ndata: {a: YWJj}", "kind: Secret\ndata: 5", "kind: Secret\ndata: [a]", "kind: Secret\ndata: {1: YWJj}",
	"kind: Secret\ndata:", "kind: Secret\nstringData: 5", "kind: Secret\nstringData: {a: 1}", "kind: Secret\nstringData: {a: x}",
	"kind: ConfigMap\nbinaryData: {a: 1}", "kind: ConfigMap\nbinaryData: x", "kind: ConfigMap\ndata: x",
	"kind: ConfigMap\ndata: {a: 1, b: true, c: x}", "kind: ConfigMap\ndata: {}", "kind: ConfigMap\ndata:\nstringData: 5",
	"kind: Secret\nkind: ConfigMap", "kind: Secret\ndata: {a: YQ}", "kind: Secret\ndata: {a: 'YQ=='}", "kind: Secret\ndata: {a: 'YR=='}",
	"kind: Secret\ndata: {a: \"YW\\nJj\"}", "kind: Secret\ndata: {a: 'YQ=', b: YWJj}", "kind: secret", "Kind: Secret",
	"kind: Secret\nstringData: {a: [1, x], b: {c: 1, d: [2]}, e: null, f: {1: 2}}",
}

func c17GenMalformed(r *rand.Rand) string {
	kinds := []string{"Secret", "ConfigMap", "Secret", "ConfigMap", "1", "[Secret]", "{a: b}", "null", "Pod", "true", "1.5", "\"Secret\"", "secret", "~", "''"}
	secVals := []string{"{a: YWJj}", "{a: 1}", "{a: [x]}", "{a: null}", "{a: '$$$'}", "5", "[a]", "{1: YWJj}", "", "x", "{}", "null",
		"{a: YQ}", "{a: 'YQ=='}", "{a: 'YR=='}", "{a: \"YW\\nJj\"}", "{a: 'YQ=', b: YWJj}", "{a: x, b: 1, c: true, d: 1.5}",
		"{a: [1, x], b: {c: 1}}", "{a: {b: {c: d}}}", "{a: ''}", "{a: '===='}", "{a: 'YWJj='}", "{a: 'YWJjZA'}", "{a: 'YWJjZA=='}", "{'': YQ==}",
		"{a: 2001-12-14}", "{a: !!binary YWJj}", "{a: 0x10}", "{a: 1e3}", "{a: -0}", "{? [k] : v}"}
	var sb strings.Builder
	if r.Intn(10) > 0 {
		sb.WriteString("kind: " + pick(r, kinds) + "\n")
	}
	if r.Intn(3) == 0 {
		sb.WriteString("metadata: {name: x}\n")
	}
	secs := []string{"data", "stringData", "binaryData"}
	r.Shuffle(len(secs), func(i, j int) { secs[i], secs[j] = secs[j], secs[i] })
	n := r.Intn(4)
	for i := 0; i < n; i++ {
		sb.WriteString(secs[i] + ": " + pick(r, secVals) + "\n")
	}
	return sb.String()
}

func c17GenB64(r *rand.Rand) c17B64 {
	b := c17ToBytes(c17GenBytes(r))
	text := base64.StdEncoding.EncodeToString(c17ToBytes(c17GenBytes(r)))
	rs := []rune(text)
	switch r.Intn(10) {
	case 0: // drop padding / tail
		if len(rs) > 0 {
			rs = rs[:len(rs)-1-r.Intn(minInt(2, len(rs)-1)+0)]
		}
	case 1: // newline somewhere
		i := r.Intn(len(rs) + 1)
		rs = append(append(append([]rune{}, rs[:i]...), pick(r, []rune{'\n', '\r'})), rs[i:]...)
	case 2: // foreign character
		i := r.Intn(len(rs) + 1)
		rs = append(append(append([]rune{}, rs[:i]...), pick(r, []rune{' ', '-', '_', '=', '*', 'é', '.', '\t'})), rs[i:]...)
	case 3: // change one character (may set trailing bits)
		if len(rs) > 0 {
			rs[r.Intn(len(rs))] = []rune("ABCDEFGHIJKLMNOPQRSTUVWXYZabcdefghijklmnopqrstuvwxyz0123456789+/=")[r.Intn(65)]
		}
	case 4: // random over the alphabet
		n := r.Intn(10)
		rs = make([]rune, n)
		for i := range rs {
			rs[i] = []rune("ABab01+/=\n")[r.Intn(10)]
		}
	case 5: // extra padding / data after padding
		rs = append(rs, pick(r, []rune{'=', 'A', '\n'}))
	}
	return c17B64{Bytes: c17FromBytes(b), Text: string(rs)}
}

func minInt(a, b int) int {
	if a < b {
		return a
	}
	return b
}

// ------------------------------------------------------------------ building and observing

func c17Root(kind string, extra W, text []c17Item, bin []c17Bin, emptySec bool) map[string]any {
	root := map[string]any{}
	if m, ok := wirePlain(extra).(map[string]any); ok {
		root = m
	}
	root["kind"] = kind
	bk, tk := c17SectionKeys(kind)
	if len(text) > 0 || emptySec {
		sec := map[string]any{}
		for _, it := range text {
			sec[it.K] = wirePlain(it.V)
		}
		root[tk] = sec
	}
	if len(bin) > 0 || emptySec {
		sec := map[string]any{}
		for _, it := range bin {
			sec[it.K] = base64.StdEncoding.EncodeToString(c17ToBytes(it.B))
		}
		root[bk] = sec
	}
	return root
}

type c17Items struct {
	Str     map[string]string `json:"str"`
	Bin     map[string][]int  `json:"bin"`
	StrList []string          `json:"strList"`
	BinList []string          `json:"binList"`
}

func c17Observe(m k8s.Manifest) c17Items {
	it := c17Items{Str: map[string]string{}, Bin: map[string][]int{}, StrList: []string{}, BinList: []string{}}
	it.StrList = append(it.StrList, m.StringData().List()...)
	sort.Strings(it.StrList)
	for _, k := range it.StrList {
		if p := m.StringData().Get(k); p != nil {
			it.Str[k] = *p
		}
	}
	it.BinList = append(it.BinList, m.BinaryData().List()...)
	sort.Strings(it.BinList)
	for _, k := range it.BinList {
		it.Bin[k] = c17FromBytes(m.BinaryData().Get(k))
	}
	return it
}

// c17Decode: the YAML body as yaml.v3 decodes it, in wire form (the model's input).
func c17Decode(b []byte) (W, error) {
	var doc map[string]any
	if err := yaml.Unmarshal(b, &doc); err != nil {
		return nil, err
	}
	if doc == nil {
		doc = map[string]any{}
	}
	return plainWire(doc), nil
}

func c17NonData(w W, kind string) W {
	bk, tk := c17SectionKeys(kind)
	out := map[string]any{}
	if m, ok := wireCont(w); ok {
		for k, v := range m {
			if k != bk && k != tk {
				out[k] = v
			}
		}
	}
	return out
}

func c17WorkDir(c *Ctx) string {
	d := filepath.Join(c.VerifDir, ".work", fmt.Sprintf("c17-%d", os.Getpid()))
	_ = os.MkdirAll(d, 0o755)
	return d
}

// c17CheckLoaded: the items a freshly loaded manifest shows are the generated ones.
func c17CheckLoaded(c *Ctx, text []c17Item, bin []c17Bin, loaded c17Items) {
	for _, it := range text {
		want := fmt.Sprintf("%v", wirePlain(it.V))
		got, ok := loaded.Str[it.K]
		c.Direct("text-item-loaded-as-text", ok && got == want, map[string]any{"key": it.K, "got": got, "want": want})
	}
	c.Direct("text-item-keys", len(loaded.Str) == len(text) && len(loaded.StrList) == len(text), loaded.StrList)
	for _, it := range bin {
		got, ok := loaded.Bin[it.K]
		c.Direct("binary-item-byte-exact", ok && canon(got) == canon(append([]int{}, it.B...)), map[string]any{"key": it.K, "got": got, "want": it.B})
	}
	c.Direct("binary-item-keys", len(loaded.Bin) == len(bin), loaded.BinList)
}

// c17CheckWritten: a written body is YAML, keeps the fields outside the data sections, and holds the binary
// items base64-encoded in the section the kind prescribes and the text items as strings in theirs (a section
// is absent when it has no items).  Returns the decoded body (nil when it is not YAML).
func c17CheckWritten(c *Ctx, kind string, orig W, b []byte, items c17Items, write any) W {
	bk, tk := c17SectionKeys(kind)
	w, err := c17Decode(b)
	if !c.Direct("written-body-is-yaml", err == nil, fmt.Sprint(err)) {
		return nil
	}
	c.Direct("non-data-fields-preserved", canon(c17NonData(w, kind)) == canon(c17NonData(orig, kind)),
		map[string]any{"write": write, "got": c17NonData(w, kind), "want": c17NonData(orig, kind)})
	wm, _ := wireCont(w)
	wantB := map[string]any{}
	for k, v := range items.Bin {
		wantB[k] = scalarWire(base64.StdEncoding.EncodeToString(c17ToBytes(v)))
	}
	wantT := map[string]any{}
	for k, v := range items.Str {
		wantT[k] = scalarWire(v)
	}
	checkSec := func(key string, want map[string]any, clause string) {
		got, present := wm[key]
		if len(want) == 0 {
			c.Direct(clause+"(absent-when-empty)", !present, map[string]any{"write": write, "section": key, "got": got})
			return
		}
		c.Direct(clause, present && canon(got) == canon(map[string]any{"m": want}), map[string]any{"write": write, "section": key, "got": got, "want": want})
	}
	checkSec(bk, wantB, "binary-section-is-base64-of-items")
	checkSec(tk, wantT, "text-section-is-items")
	return w
}

func c17Eval(c *Ctx, kind string, raw []byte) {
	switch kind {
	case "manifest":
		c17EvalManifest(c, raw)
	case "embedded":
		c17EvalEmbedded(c, raw)
	case "interleave":
		c17EvalInter(c, raw)
	case "savefault":
		c17EvalFault(c, raw)
	case "entry":
		c17EvalEntry(c, raw)
	case "malformed":
		c17EvalMalformed(c, raw)
	case "b64":
		c17EvalB64(c, raw)
	case "rawtext":
		c17EvalRawText(c, raw) // c17_rawtext.go
	}
}

func c17EvalManifest(c *Ctx, raw []byte) {
	var cs c17Manifest
	if err := json.Unmarshal(raw, &cs); err != nil {
		panic(err)
	}
	if cs.Kind != "Secret" && cs.Kind != "ConfigMap" {
		return
	}
	root := c17Root(cs.Kind, cs.Extra, cs.Text, cs.Bin, cs.EmptySec)
	body, err := yaml.Marshal(root)
	if err != nil {
		panic(err)
	}
	if cs.Form != nil {
		if fb, ok := c17FormBody(cs.Kind, cs.Extra, cs.Text, cs.Bin, cs.EmptySec, cs.Form); ok {
			body = fb
			c.Dist("form:written-by-hand")
			for _, it := range cs.Bin {
				bf := cs.Form.Bin[it.K]
				lay := c17Layout(c17ToBytes(it.B), bf)
				if strings.ContainsAny(lay, "\r\n") {
					c.Dist(fmt.Sprintf("form:base64-with-line-breaks,len%%3=%d", len(it.B)%3))
				}
				if strings.HasSuffix(lay, "\n") {
					c.Dist(fmt.Sprintf("form:base64-ends-in-line-break,len%%3=%d", len(it.B)%3))
				}
				if bf.Wrap >= 64 && len(lay) > bf.Wrap+2 {
					c.Dist("form:base64-wrapped-at-64/76")
				}
			}
		} else {
			c.Dist("form:not-read-back-by-yaml.v3(default form used)")
		}
	}
	if len(cs.Text)+len(cs.Bin) > 0 {
		c.Nontrivial()
	}
	c.Dist("manifest-kind:" + cs.Kind)
	c.Dist(fmt.Sprintf("text-items:%d", len(cs.Text)))
	c.Dist(fmt.Sprintf("bin-items:%d", len(cs.Bin)))
	c.Dist("via:" + cs.Via)
	var m k8s.Manifest
	var loadErr error
	dir := ""
	out, txt := guard(func() {
		switch cs.Via {
		case "reader":
			m, loadErr = k8s.ManifestFromReader(bytes.NewReader(body))
		case "file":
			dir = c17WorkDir(c)
			f := filepath.Join(dir, "m.yaml")
			if err := os.WriteFile(f, body, 0o644); err != nil {
				panic(err)
			}
			m, loadErr = k8s.ManifestFromFile(f)
		default:
			m, loadErr = k8s.ManifestFromBytes(body)
		}
	})
	if dir != "" {
		defer os.RemoveAll(dir)
	}
	if !c.Direct("no-panic(load)", out == "ok", txt) {
		return
	}
	if !c.Direct("in-domain-manifest-loads", loadErr == nil && m != nil, fmt.Sprint(loadErr)) {
		return
	}
	var loaded, reloaded, edited, reloaded2 c17Items
	var saved1, saved2 W
	var body1, body2 []byte
	out, txt = guard(func() {
		loaded = c17Observe(m)
		// ---- items as generated
		c17CheckLoaded(c, cs.Text, cs.Bin, loaded)
		// ---- write + reload, no edits
		var buf bytes.Buffer
		n, werr := m.WriteTo(&buf)
		c.Direct("WriteTo-ok", werr == nil && int(n) == buf.Len(), fmt.Sprint(werr))
		body1 = append([]byte{}, buf.Bytes()...)
		m2, err2 := k8s.ManifestFromBytes(body1)
		if !c.Direct("written-manifest-reloads", err2 == nil && m2 != nil, fmt.Sprint(err2)) {
			return
		}
		reloaded = c17Observe(m2)
		c.Direct("reload-has-same-item-maps", canon(reloaded) == canon(loaded), map[string]any{"loaded": loaded, "reloaded": reloaded})
		// ---- edits through the facades, against a plain map model
		wantStr, wantBin := map[string]string{}, map[string][]int{}
		for k, v := range loaded.Str {
			wantStr[k] = v
		}
		for k, v := range loaded.Bin {
			wantBin[k] = v
		}
		for _, e := range cs.Edits {
			c.Dist("edit:" + e.Op)
			switch e.Op {
			case "supdate":
				m.StringData().Update(e.Key, e.S)
				wantStr[e.Key] = e.S
			case "sremove":
				m.StringData().Remove(e.Key)
				delete(wantStr, e.Key)
			case "bupdate":
				m.BinaryData().Update(e.Key, c17ToBytes(e.B))
				wantBin[e.Key] = append([]int{}, e.B...)
			case "bremove":
				m.BinaryData().Remove(e.Key)
				delete(wantBin, e.Key)
			}
		}
		edited = c17Observe(m)
		c.Direct("facade-edits-observed-in-memory", canon(edited.Str) == canon(wantStr) && canon(edited.Bin) == canon(wantBin), map[string]any{"got": edited, "wantStr": wantStr, "wantBin": wantBin})
		buf.Reset()
		_, werr = m.WriteTo(&buf)
		c.Direct("WriteTo-ok", werr == nil, fmt.Sprint(werr))
		body2 = append([]byte{}, buf.Bytes()...)
		m3, err3 := k8s.ManifestFromBytes(body2)
		if !c.Direct("written-manifest-reloads", err3 == nil && m3 != nil, fmt.Sprint(err3)) {
			return
		}
		reloaded2 = c17Observe(m3)
		c.Direct("reload-observes-exactly-the-edits", canon(reloaded2.Str) == canon(wantStr) && canon(reloaded2.Bin) == canon(wantBin),
			map[string]any{"reloaded": reloaded2, "wantStr": wantStr, "wantBin": wantBin})
	})
	if !c.Direct("no-panic(manifest)", out == "ok", txt) {
		return
	}
	// ---- fields outside the data sections, and the shape of the sections, on the written bodies
	orig, err := c17Decode(body)
	if err != nil {
		panic(err)
	}
	for i, b := range [][]byte{body1, body2} {
		if b == nil {
			continue
		}
		items := loaded
		if i == 1 {
			items = edited
		}
		w := c17CheckWritten(c, cs.Kind, orig, b, items, i)
		if i == 0 {
			saved1 = w
		} else {
			saved2 = w
		}
	}
	// ---- model
	mo := c.Model("manifest", map[string]any{"doc": orig, "edits": []c17Edit{}})
	c.Corr("load-save-reload", map[string]any{"o": "ok", "loaded": loaded, "edited": loaded, "saved": saved1, "reload": c17WithO(reloaded)}, mo)
	me := c.Model("manifest", map[string]any{"doc": orig, "edits": cs.Edits})
	c.Corr("edit-save-reload", map[string]any{"o": "ok", "loaded": loaded, "edited": edited, "saved": saved2, "reload": c17WithO(reloaded2)}, me)
}

func c17WithO(it c17Items) map[string]any {
	return map[string]any{"o": "ok", "str": it.Str, "bin": it.Bin, "strList": it.StrList, "binList": it.BinList}
}

// ------------------------------------------------------------------ several manifests alive at once

// c17Live: one loaded manifest with the plain-map expectation of its items and its history so far.
type c17Live struct {
	p       c17Party
	orig    W
	m       k8s.Manifest
	loaded  c17Items
	wantStr map[string]string
	wantBin map[string][]int
	nEdits  int
	pending []c17Edit        // edits since the last write
	rounds  [][]c17Edit      // the edits of every completed round (a round ends with a write)
	obs     []map[string]any // what the implementation showed in every completed round
	dead    bool             // a load / write / reload failed (already reported): no further comparison
}

// c17LiveLoad builds the party's YAML body and loads it the way the party says.  nil: the load failed (reported).
func c17LiveLoad(c *Ctx, p c17Party, dir string, seq int) *c17Live {
	if p.Kind != "Secret" && p.Kind != "ConfigMap" {
		return nil
	}
	l := &c17Live{p: p, wantStr: map[string]string{}, wantBin: map[string][]int{}, pending: []c17Edit{}}
	body, err := yaml.Marshal(c17Root(p.Kind, p.Extra, p.Text, p.Bin, p.EmptySec))
	if err != nil {
		panic(err)
	}
	if l.orig, err = c17Decode(body); err != nil {
		panic(err)
	}
	var loadErr error
	out, txt := guard(func() {
		switch p.Via {
		case "reader":
			l.m, loadErr = k8s.ManifestFromReader(bytes.NewReader(body))
		case "file":
			f := filepath.Join(dir, fmt.Sprintf("m-%d.yaml", seq))
			if err := os.WriteFile(f, body, 0o644); err != nil {
				panic(err)
			}
			l.m, loadErr = k8s.ManifestFromFile(f)
			_ = os.Remove(f)
		default:
			l.m, loadErr = k8s.ManifestFromBytes(body)
		}
		if loadErr == nil && l.m != nil {
			l.loaded = c17Observe(l.m)
		}
	})
	if !c.Direct("no-panic(load)", out == "ok", txt) {
		return nil
	}
	if !c.Direct("in-domain-manifest-loads", loadErr == nil && l.m != nil, fmt.Sprint(loadErr)) {
		return nil
	}
	c17CheckLoaded(c, p.Text, p.Bin, l.loaded)
	for k, v := range l.loaded.Str {
		l.wantStr[k] = v
	}
	for k, v := range l.loaded.Bin {
		l.wantBin[k] = v
	}
	return l
}

func (l *c17Live) edit(c *Ctx, e c17Edit) {
	if e.B == nil {
		e.B = []int{}
	}
	out, txt := guard(func() {
		switch e.Op {
		case "supdate":
			l.m.StringData().Update(e.Key, e.S)
			l.wantStr[e.Key] = e.S
		case "sremove":
			l.m.StringData().Remove(e.Key)
			delete(l.wantStr, e.Key)
		case "bupdate":
			l.m.BinaryData().Update(e.Key, c17ToBytes(e.B))
			l.wantBin[e.Key] = append([]int{}, e.B...)
		case "bremove":
			l.m.BinaryData().Remove(e.Key)
			delete(l.wantBin, e.Key)
		default:
			return
		}
		l.pending = append(l.pending, e)
		l.nEdits++
	})
	if !c.Direct("no-panic(manifest)", out == "ok", txt) {
		l.dead = true
	}
}

// inMemory: the manifest shows exactly its own expected items (whatever happened to other manifests meanwhile).
func (l *c17Live) inMemory(c *Ctx, clause string, at any) c17Items {
	var now c17Items
	out, txt := guard(func() { now = c17Observe(l.m) })
	if !c.Direct("no-panic(manifest)", out == "ok", txt) {
		l.dead = true
		return now
	}
	c.Direct(clause, canon(now.Str) == canon(l.wantStr) && canon(now.Bin) == canon(l.wantBin),
		map[string]any{"manifest": l.p.ID, "at": at, "got": now, "wantStr": l.wantStr, "wantBin": l.wantBin})
	return now
}

// write: WriteTo, reload what was written, compare with the manifest's own expectation; ends a round.
func (l *c17Live) write(c *Ctx, at any) {
	edited := l.inMemory(c, "facade-edits-observed-in-memory", at)
	if l.dead {
		return
	}
	var reloaded c17Items
	var body []byte
	ok := false
	out, txt := guard(func() {
		var buf bytes.Buffer
		n, werr := l.m.WriteTo(&buf)
		if !c.Direct("WriteTo-ok", werr == nil && int(n) == buf.Len(), fmt.Sprint(werr)) {
			return
		}
		body = append([]byte{}, buf.Bytes()...)
		m2, err2 := k8s.ManifestFromBytes(body)
		if !c.Direct("written-manifest-reloads", err2 == nil && m2 != nil, map[string]any{"manifest": l.p.ID, "at": at, "err": fmt.Sprint(err2), "written": string(body)}) {
			return
		}
		reloaded = c17Observe(m2)
		ok = true
	})
	if !c.Direct("no-panic(manifest)", out == "ok", txt) || !ok {
		l.dead = true
		if body != nil {
			c17CheckWritten(c, l.p.Kind, l.orig, body, edited, at)
		}
		return
	}
	clause := "reload-observes-exactly-the-edits"
	if l.nEdits == 0 {
		clause = "reload-has-same-item-maps"
	}
	c.Direct(clause, canon(reloaded.Str) == canon(l.wantStr) && canon(reloaded.Bin) == canon(l.wantBin),
		map[string]any{"manifest": l.p.ID, "at": at, "reloaded": reloaded, "wantStr": l.wantStr, "wantBin": l.wantBin})
	saved := c17CheckWritten(c, l.p.Kind, l.orig, body, edited, at)
	l.rounds = append(l.rounds, l.pending)
	l.pending = []c17Edit{}
	l.obs = append(l.obs, map[string]any{"edited": edited, "saved": saved, "reload": c17WithO(reloaded)})
}

// model: the manifest's history alone (the model has no notion of other manifests) shows the same.
func (l *c17Live) model(c *Ctx, fn string) {
	if l.dead || len(l.rounds) == 0 {
		return
	}
	mo := c.Model("manifestHist", map[string]any{"doc": l.orig, "rounds": l.rounds})
	c.Corr(fn, map[string]any{"o": "ok", "loaded": l.loaded, "rounds": l.obs}, mo)
}

func c17EvalInter(c *Ctx, raw []byte) {
	var cs c17Inter
	if err := json.Unmarshal(raw, &cs); err != nil {
		panic(err)
	}
	dir := c17WorkDir(c)
	defer os.RemoveAll(dir)
	parties := map[string]c17Party{}
	for _, p := range cs.Ms {
		if _, dup := parties[p.ID]; !dup {
			parties[p.ID] = p
		}
	}
	live := map[string]*c17Live{}
	var order []*c17Live
	kinds := map[string]bool{}
	get := func(id string) *c17Live {
		if l, seen := live[id]; seen {
			return l
		}
		p, ok := parties[id]
		if !ok {
			return nil
		}
		l := c17LiveLoad(c, p, dir, len(live))
		live[id] = l
		if l != nil {
			order = append(order, l)
			kinds[p.Kind] = true
		}
		return l
	}
	alive := func() (n, items int) {
		for _, l := range order {
			if !l.dead {
				n++
				items += len(l.wantStr) + len(l.wantBin) + len(l.p.Text) + len(l.p.Bin)
			}
		}
		return
	}
	others := func(at any) {
		for _, l := range order {
			if !l.dead {
				l.inMemory(c, "alive-manifests-keep-their-own-items", at)
			}
		}
	}
	write := func(l *c17Live, at any) {
		if n, items := alive(); n >= 2 && items > 0 {
			c.Nontrivial()
		}
		l.write(c, at)
	}
	for i, st := range cs.Steps {
		l := get(st.M)
		if l == nil || l.dead {
			continue
		}
		c.Dist("inter-step:" + st.Op)
		switch st.Op {
		case "load":
		case "write":
			write(l, i)
		default:
			l.edit(c, c17Edit{Op: st.Op, Key: st.Key, S: st.S, B: st.B})
		}
		others(i)
	}
	// finally every manifest is (loaded and) written and reloaded, all of them still alive
	for _, p := range cs.Ms {
		if l := get(p.ID); l != nil && !l.dead && l.p.ID == p.ID {
			write(l, "end:"+p.ID)
			others("end:" + p.ID)
		}
	}
	c.Dist(fmt.Sprintf("inter-manifests:%d", len(order)))
	if len(kinds) > 1 {
		c.Dist("inter-kinds:mixed")
	} else {
		c.Dist("inter-kinds:same")
	}
	for _, l := range order {
		l.model(c, "interleaved-history")
	}
}

func c17EvalMalformed(c *Ctx, raw []byte) {
	var cs c17Malformed
	if err := json.Unmarshal(raw, &cs); err != nil {
		panic(err)
	}
	var m k8s.Manifest
	var err error
	var items c17Items
	var werr error
	out, txt := guard(func() {
		m, err = k8s.ManifestFromBytes([]byte(cs.Yaml))
		if err == nil && m != nil {
			items = c17Observe(m)
			var buf bytes.Buffer
			_, werr = m.WriteTo(&buf)
		}
	})
	c.Nontrivial()
	if !c.Direct("error-or-manifest-never-panic", out == "ok", map[string]any{"panic": txt}) {
		return
	}
	c.Direct("error-xor-manifest", (err != nil) != (m != nil), fmt.Sprint(err))
	c.Direct("loaded-manifest-writes", werr == nil, fmt.Sprint(werr))
	c.Dist("malformed:" + errTag(err))
	w, derr := c17Decode([]byte(cs.Yaml))
	if derr != nil {
		c.Dist("malformed:yaml-error")
		c.Direct("yaml-error-is-error", err != nil, nil)
		return
	}
	// unsupported kinds (and a missing / non-string kind) yield errors
	var plain map[string]any
	_ = yaml.Unmarshal([]byte(cs.Yaml), &plain)
	if ks, ok := plain["kind"].(string); !ok || (ks != "Secret" && ks != "ConfigMap") {
		c.Dist("malformed:bad-kind")
		c.Direct("unsupported-or-missing-kind-is-error", err != nil, plain["kind"])
	}
	mo := c.Model("load", map[string]any{"doc": w})
	if err != nil {
		c.Corr("load", map[string]any{"o": "err"}, mo)
	} else {
		c.Corr("load", c17WithO(items), mo)
	}
}

func c17EvalB64(c *Ctx, raw []byte) {
	var cs c17B64
	if err := json.Unmarshal(raw, &cs); err != nil {
		panic(err)
	}
	c.Nontrivial()
	b := c17ToBytes(cs.Bytes)
	enc := base64.StdEncoding.EncodeToString(b)
	var dec any
	if d, err := base64.StdEncoding.DecodeString(cs.Text); err == nil {
		dec = c17FromBytes(d)
		c.Dist("b64:text-valid")
	} else {
		c.Dist("b64:text-invalid")
	}
	back, err := base64.StdEncoding.DecodeString(enc)
	c.Direct("base64-roundtrip(go)", err == nil && bytes.Equal(back, b), nil)
	bs := cs.Bytes
	if bs == nil {
		bs = []int{}
	}
	mo := c.Model("b64", map[string]any{"bytes": bs, "text": cs.Text})
	c.Corr("b64", map[string]any{"enc": enc, "dec": dec, "rt": bs}, mo)
}

// ------------------------------------------------------------------ embedded documents

func c17Serialize(cb dom.Container, mode string) string {
	var sb strings.Builder
	enc := dom.DefaultYamlEncoder
	if mode == "json" {
		enc = dom.DefaultJsonEncoder
	}
	if err := cb.Serialize(&sb, dom.DefaultNodeEncoderFn, enc); err != nil {
		panic(err)
	}
	return sb.String()
}

func c17Open(mode, file, item string) (k8s.Document, error) {
	switch mode {
	case "yaml":
		return k8s.YamlDoc(file, item)
	case "json":
		return k8s.JsonDoc(file, item)
	default:
		return k8s.Properties(file)
	}
}

func c17Stringified(c dom.Container) map[string]string {
	out := map[string]string{}
	for k, v := range c.Flatten() {
		out[k] = fmt.Sprintf("%v", v.Value())
	}
	return out
}

// c17FlattenLossless: no empty container or list below the root (Flatten forgets those).
func c17FlattenLossless(w W, root bool) bool {
	switch x := w.(type) {
	case []any:
		if len(x) == 0 {
			return false
		}
		for _, e := range x {
			if !c17FlattenLossless(e, false) {
				return false
			}
		}
	case map[string]any:
		if m, ok := x["m"].(map[string]any); ok {
			if len(m) == 0 && !root {
				return false
			}
			for _, e := range m {
				if !c17FlattenLossless(e, false) {
					return false
				}
			}
		}
	}
	return true
}

func c17EvalEmbedded(c *Ctx, raw []byte) {
	var cs c17Emb
	if err := json.Unmarshal(raw, &cs); err != nil {
		panic(err)
	}
	if cs.Kind != "Secret" && cs.Kind != "ConfigMap" {
		return
	}
	rounds := [][]c17DocEdit{cs.Edits}
	for _, es := range cs.More {
		if es == nil {
			es = []c17DocEdit{}
		}
		rounds = append(rounds, es)
	}
	if rounds[0] == nil {
		rounds[0] = []c17DocEdit{}
	}
	nEdits := 0
	for _, es := range rounds {
		nEdits += len(es)
	}
	if nEdits > 0 {
		c.Nontrivial()
	}
	c.Dist("mode:" + cs.Mode)
	c.Dist("via:" + cs.Via)
	c.Dist(fmt.Sprintf("saves-through-one-handle:%d", len(rounds)))
	dir := c17WorkDir(c)
	defer os.RemoveAll(dir)
	file := filepath.Join(dir, "e.yaml")
	_ = os.Remove(file)

	// another manifest, loaded first and alive during the whole history
	var by *c17Live
	if cs.By != nil {
		c.Dist("bystander:" + map[bool]string{true: "same-kind", false: "other-kind"}[cs.By.Kind == cs.Kind])
		if by = c17LiveLoad(c, *cs.By, dir, 0); by == nil {
			return
		}
	}

	text := append([]c17Item{}, cs.Text...)
	table := []any{}
	if cs.Mode != "props" && cs.Doc != nil && cs.Via != "create" {
		t0 := c17Serialize(wireContainer(cs.Doc), cs.Mode)
		text = append(text, c17Item{K: cs.Item, V: scalarWire(t0)})
	}
	var d k8s.Document
	var err error
	var b k8s.Builder
	out, txt := guard(func() {
		b = k8s.NewBuilder().Manifest(file)
		switch cs.Mode {
		case "yaml":
			b = b.Decoder(k8s.DecodeEmbeddedDoc(cs.Item, dom.DefaultYamlDecoder)).Encoder(k8s.EncodeEmbeddedDoc(cs.Item, dom.DefaultYamlEncoder))
		case "json":
			b = b.Decoder(k8s.DecodeEmbeddedDoc(cs.Item, dom.DefaultJsonDecoder)).Encoder(k8s.EncodeEmbeddedDoc(cs.Item, dom.DefaultJsonEncoder))
		default:
			b = b.Decoder(k8s.DecodeEmbeddedProps()).Encoder(k8s.EncodeEmbeddedProps())
		}
		if cs.Via == "create" {
			d, err = b.Create(cs.Kind, "nm", k8s.WithNamespace("ns1"))
			return
		}
		root := c17Root(cs.Kind, cs.Extra, text, cs.Bin, false)
		body, merr := yaml.Marshal(root)
		if merr != nil {
			panic(merr)
		}
		if werr := os.WriteFile(file, body, 0o644); werr != nil {
			panic(werr)
		}
		if cs.Via == "builder" {
			d, err = b.Open()
		} else {
			d, err = c17Open(cs.Mode, file, cs.Item)
		}
	})
	if !c.Direct("no-panic(open)", out == "ok", txt) {
		return
	}
	if !c.Direct("in-domain-manifest-opens", err == nil && d != nil, fmt.Sprint(err)) {
		return
	}
	// ---- the Builder value is used for the next manifest; the Document handed out above is on its own
	otherFile := filepath.Join(dir, "other.yaml")
	var otherBody []byte
	var heldOther []k8s.Document
	if len(cs.After) > 0 && (cs.Via == "builder" || cs.Via == "create") {
		otherRoot := map[string]any{"kind": "ConfigMap", "metadata": map[string]any{"name": "other"}, "data": map[string]any{"o": "x: 1\n", "p": "q"}}
		if cs.By != nil && (cs.By.Kind == "Secret" || cs.By.Kind == "ConfigMap") {
			otherRoot = c17Root(cs.By.Kind, cs.By.Extra, cs.By.Text, cs.By.Bin, false)
		}
		var merr error
		if otherBody, merr = yaml.Marshal(otherRoot); merr != nil {
			panic(merr)
		}
		if werr := os.WriteFile(otherFile, otherBody, 0o644); werr != nil {
			panic(werr)
		}
		out, txt = guard(func() {
			for _, st := range cs.After {
				c.Dist("builder-reused-after-open:" + st)
				switch st {
				case "manifest-other":
					b.Manifest(otherFile)
				case "open-other": // (whether the other manifest opens with this codec is its own matter)
					if d2, e2 := b.Manifest(otherFile).Open(); e2 == nil && d2 != nil {
						heldOther = append(heldOther, d2)
					}
				case "create-other":
					nf := filepath.Join(dir, "created.yaml")
					_ = os.Remove(nf)
					if d2, e2 := b.Manifest(nf).Create("ConfigMap", "o2"); e2 == nil && d2 != nil {
						heldOther = append(heldOther, d2)
					}
				case "encoder-other":
					b.Encoder(k8s.EncodeEmbeddedDoc("zz-other-item", dom.DefaultJsonEncoder))
				case "decoder-other":
					b.Decoder(k8s.DecodeEmbeddedDoc("zz-other-item", dom.DefaultJsonDecoder))
				}
			}
		})
		if !c.Direct("no-panic(open)", out == "ok", map[string]any{"builder-reused": cs.After, "panic": txt}) {
			return
		}
	}
	body0, rerr := os.ReadFile(file)
	if rerr != nil {
		panic(rerr)
	}
	file0, derr := c17Decode(body0)
	if derr != nil {
		panic(derr)
	}
	if cs.Via == "create" {
		c.Corr("create-init", file0, c.Model("create", map[string]any{"kind": cs.Kind, "name": "nm", "ns": "ns1"}))
	}
	m0, merr := k8s.ManifestFromFile(file)
	if merr != nil {
		panic(merr)
	}
	before := c17Observe(m0)
	if by != nil {
		by.inMemory(c, "alive-manifests-keep-their-own-items", "open")
	}

	var doc0 W
	out, txt = guard(func() {
		doc0 = nodeWire(d.Document())
		if cs.Mode != "props" {
			table = append(table, map[string]any{"doc": doc0, "text": c17Serialize(d.Document(), cs.Mode)})
		}
	})
	if !c.Direct("no-panic(edit-save-reopen)", out == "ok", txt) {
		return
	}
	if cs.Mode != "props" && cs.Doc != nil && cs.Via != "create" {
		c.Direct("embedded-document-opens-as-stored", canon(doc0) == canon(nodeWire(wireContainer(cs.Doc))), map[string]any{"got": doc0})
	}

	// ---- the history: every round edits and saves through the SAME handle d, then a fresh handle reopens the file
	prev := before
	implRounds := []map[string]any{}
	modelRounds := [][]map[string]any{}
	complete := true
	var hist *c17Hist
	for ri, edits := range rounds {
		var editedW, doc2, file2 W
		var after c17Items
		var editedFlat, reopenedFlat map[string]string
		var equalsBack bool
		var saveErr, reopenErr, reloadErr error
		out, txt = guard(func() {
			if hist == nil {
				// the history holds a handle to every nested container / list from the start (c17_hist.go)
				hist = c17NewHist(d.Document())
			}
			for ei, e := range edits {
				c.Dist("docedit:" + e.Op)
				hist.step(c, e, map[string]any{"round": ri + 1, "edit": ei + 1})
			}
			modelRounds = append(modelRounds, hist.takeModel())
			// what is about to be saved: the document as walked; its flattening is computed from the walk, and the
			// document's own Flatten / AsMap / Serialize ... must agree with it (observe)
			editedW = hist.observe(c, map[string]any{"round": ri + 1, "before": "Save"}).W
			editedFlat = c17RefStringified(editedW)
			if cs.Mode != "props" {
				table = append(table, map[string]any{"doc": editedW, "text": c17Serialize(d.Document(), cs.Mode)})
			}
			saveErr = d.Save()
			if saveErr != nil {
				return
			}
			savedW := hist.observe(c, map[string]any{"round": ri + 1, "after": "Save"}).W
			c.Direct("Save-leaves-the-document-as-edited", canon(savedW) == canon(editedW), map[string]any{"round": ri + 1, "before": editedW, "after": savedW})
			hist.hold()
			d2, e2 := c17Open(cs.Mode, file, cs.Item)
			reopenErr = e2
			if e2 != nil {
				return
			}
			doc2 = nodeWire(d2.Document())
			reopenedFlat = c17Stringified(d2.Document())
			equalsBack = d2.Document().Equals(d.Document()) && d.Document().Equals(d2.Document())
			m2, e3 := k8s.ManifestFromFile(file)
			reloadErr = e3
			if e3 != nil {
				return
			}
			after = c17Observe(m2)
			b2, _ := os.ReadFile(file)
			file2, _ = c17Decode(b2)
		})
		at := map[string]any{"save": ri + 1}
		if !c.Direct("no-panic(edit-save-reopen)", out == "ok", map[string]any{"at": at, "panic": txt}) {
			return
		}
		if !c.Direct("Save-ok", saveErr == nil, map[string]any{"at": at, "err": fmt.Sprint(saveErr)}) ||
			!c.Direct("reopen-ok", reopenErr == nil, map[string]any{"at": at, "err": fmt.Sprint(reopenErr)}) ||
			!c.Direct("saved-manifest-reloads", reloadErr == nil, map[string]any{"at": at, "err": fmt.Sprint(reloadErr)}) {
			complete = false
			break
		}
		if cs.Mode == "props" {
			// a properties file holds leaves only: a document with an empty container / list somewhere is
			// not representable (its flattening forgets it), so the equality is asked of the others
			if c17FlattenLossless(editedW, true) {
				c.Dist("props:representable")
				c.Direct("reopened-properties==edited-document(flattened,%v)", canon(reopenedFlat) == canon(editedFlat),
					map[string]any{"at": at, "reopened": reopenedFlat, "edited": editedFlat})
			} else {
				c.Dist("props:has-empty-composite")
			}
			c.Direct("string-data==flattened-document-exactly", canon(after.Str) == canon(editedFlat), map[string]any{"at": at, "items": after.Str, "flattened": editedFlat})
		} else {
			c.Direct("reopened==edited-document", canon(doc2) == canon(editedW), map[string]any{"at": at, "reopened": doc2, "edited": editedW})
			c.Direct("reopened.Equals(edited)", equalsBack, at)
			// other string items untouched
			for k, v := range prev.Str {
				if k == cs.Item {
					continue
				}
				got, ok := after.Str[k]
				c.Direct("other-items-unchanged", ok && got == v, map[string]any{"at": at, "key": k, "got": got, "want": v})
			}
			for k := range after.Str {
				_, ok := prev.Str[k]
				c.Direct("no-item-invented", ok || k == cs.Item, map[string]any{"at": at, "key": k})
			}
		}
		c.Direct("binary-items-unchanged", canon(after.Bin) == canon(prev.Bin), map[string]any{"at": at, "before": prev.Bin, "after": after.Bin})
		c.Direct("non-data-fields-preserved", canon(c17NonData(file2, cs.Kind)) == canon(c17NonData(file0, cs.Kind)), map[string]any{"at": at, "got": c17NonData(file2, cs.Kind)})
		re := c17WithO(after)
		re["doc"] = doc2
		implRounds = append(implRounds, map[string]any{"edited": editedW, "save": "ok", "file": file2, "reopen": re})
		prev = after
		if otherBody != nil {
			ob, _ := os.ReadFile(otherFile)
			c.Direct("other-manifest-file-untouched-by-Save", bytes.Equal(ob, otherBody), map[string]any{"at": at, "builder-reused": cs.After,
				"other-file-before": string(otherBody), "other-file-now": string(ob)})
		}
		// the other manifest is untouched by all this, and what it writes is its own
		if by != nil && !by.dead {
			by.write(c, at)
		}
	}
	if by != nil {
		by.model(c, "bystander-history")
	}
	if !complete {
		return
	}
	// ---- model
	mo := c.Model("embedded", map[string]any{"file": file0, "mode": cs.Mode, "item": cs.Item, "table": table, "rounds": modelRounds})
	mm, _ := mo.(map[string]any)
	if mm == nil {
		c.Corr("embedded", "object", mo)
		return
	}
	c.Corr("embedded.open", "ok", mm["o"])
	c.Corr("embedded.doc0", doc0, mm["doc0"])
	c.Corr("embedded.before", before, mm["before"])
	mr, _ := mm["rounds"].([]any)
	if !c.Corr("embedded.rounds", len(implRounds), len(mr)) {
		return
	}
	for i, ir := range implRounds {
		r, _ := mr[i].(map[string]any)
		if r == nil {
			c.Corr("embedded.round", "object", mr[i])
			continue
		}
		c.Corr("embedded.edited", ir["edited"], r["edited"])
		c.Corr("embedded.save", ir["save"], r["save"])
		c.Corr("embedded.file", ir["file"], r["file"])
		c.Corr("embedded.reopen", ir["reopen"], r["reopen"])
	}
}
