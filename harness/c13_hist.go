package main

import (
	"encoding/json"
	"fmt"
	"math/rand"
	"regexp"
	"strings"

	"github.com/rkosegi/yaml-toolkit/dom"
	"github.com/rkosegi/yaml-toolkit/pipeline"
)

// C13 — lenient rendering over a HISTORY of data documents (round 8).
//
// "Lenient rendering returns non-template text or text whose rendering fails unchanged" — and text
// that renders is rendered: every operation places its result at its leniently rendered path.  Whether
// a text renders is a matter of the text AND of the data of that moment (`{{ .cfg.target }}` fails while
// cfg is a scalar or missing and renders once cfg is a container; `{{ index .l 1 }}` fails while the
// list is short; `{{ upper .v }}` fails while v is a number).  One executor (one template engine) is kept
// for the whole history; the data document is exchanged between the renderings, and EVERY rendering is
// judged against the data of its own moment:
//
//   - no `{{` in s                       -> RenderLenient(s) == s
//   - Render(s) fails on that data        -> RenderLenient(s) == s
//   - Render(s) succeeds on that data     -> RenderLenient(s) == Render(s)
//
// and compared with the model's renderLenient fed with the renderer's actual result (as in `lenient`).
//
// Every evaluation of a case renders a text that nothing in this process has rendered before (a comment
// action holding a process-wide counter is appended to a text that holds `{{`): the verdict on a history
// depends on that history alone, not on what other cases — or the shrinker's earlier attempts — rendered,
// so a shrunk replay file fails on its own in a fresh process.

type c13LenientSeq struct {
	S    string `json:"s"`
	Docs []W    `json:"docs"`
}

// c13SetDoc makes the executor's document equal to w (same root object).
func c13SetDoc(gd dom.ContainerBuilder, w W) {
	for k := range gd.Children() {
		gd.Remove(k)
	}
	if m, ok := wireCont(w); ok {
		for _, k := range sortedKeys(m) {
			gd.AddValue(k, wireNode(m[k]))
		}
	}
}

var c13HistCount int

func c13EvalLenientSeq(c *Ctx, raw []byte) {
	var p c13LenientSeq
	if err := json.Unmarshal(raw, &p); err != nil {
		panic(err)
	}
	if len(p.Docs) == 0 || len(p.Docs) > 8 {
		return
	}
	for _, d := range p.Docs {
		if !c13IsDoc(d) {
			return
		}
	}
	gd := dom.Builder().Container()
	ex := pipeline.New(pipeline.WithData(gd))
	hasOpen := strings.Contains(p.S, "{{")
	text := p.S
	if hasOpen {
		c13HistCount++
		text = fmt.Sprintf("%s{{/* history %d */}}", p.S, c13HistCount)
	}
	failed, failedThenRendered := false, false
	for i, d := range p.Docs {
		var rendered, lenient string
		var rerr error
		out, txt := guard(func() {
			c13SetDoc(gd, d)
			_ = ex.Execute(&c13Probe{f: func(ctx pipeline.ActionContext) error {
				rendered, rerr = ctx.TemplateEngine().Render(text, ctx.Snapshot())
				lenient = ctx.TemplateEngine().RenderLenient(text, ctx.Snapshot())
				return nil
			}})
		})
		if !c.Direct("no-panic", out == "ok", map[string]any{"rendering": i + 1, "panic": txt}) {
			return
		}
		det := map[string]any{"rendering": i + 1, "text": text, "data": d, "lenient": lenient}
		switch {
		case !hasOpen:
			c.Direct("RenderLenient(s)==s for s without '{{'", lenient == text, det)
		case rerr != nil:
			failed = true
			c.Dist("lenient-history:failing")
			det["error"] = rerr.Error()
			c.Direct("RenderLenient(s)==s when rendering fails", lenient == text, det)
		default:
			if failed {
				failedThenRendered = true
			}
			c.Dist("lenient-history:renders")
			det["rendered"] = rendered
			c.Direct("RenderLenient(s)==Render(s) when rendering succeeds on the data at that time", lenient == rendered, det)
		}
		args := map[string]any{"s": text, "rendered": nil}
		if rerr == nil {
			args["rendered"] = rendered
		}
		if m, _ := c.Model("lenient", args).(map[string]any); m != nil {
			c.Corr("renderLenient", lenient, m["out"])
		} else {
			c.Corr("renderLenient", lenient, nil)
		}
	}
	if failedThenRendered {
		c.Nontrivial()
		c.Dist("lenient-history:failed-then-rendered")
	}
}

// c13PutSafe: c13PutWire, or the document as it is when the builder refuses the path on it.
func c13PutSafe(data W, path string, v W) (out W) {
	out = data
	if o, _ := guard(func() { out = c13PutWire(data, path, v) }); o != "ok" {
		return data
	}
	return out
}

var c13IdentRe = regexp.MustCompile(`^[A-Za-z_][A-Za-z0-9_]*$`)

// c13TplAccess: the template expression that reads the value at a key path: `.a.b` when every key is
// an identifier, `(index . "x-y" "b")` otherwise.
func c13TplAccess(keys []string) string {
	ident := true
	for _, k := range keys {
		ident = ident && c13IdentRe.MatchString(k)
	}
	if ident {
		return "." + strings.Join(keys, ".")
	}
	q := make([]string, len(keys))
	for i, k := range keys {
		q[i] = fmt.Sprintf("%q", k)
	}
	return "(index . " + strings.Join(q, " ") + ")"
}

// c13GenLenientSeq: a text reading a key path (plainly, through `index` into a list, through a
// function that wants a string), and a history of documents in which that path holds a text, holds a
// number, holds a list of varying length, is cut short by a scalar / a list, or is missing.
func c13GenLenientSeq(r *rand.Rand, g *DocGen) c13LenientSeq {
	n := 1 + r.Intn(3)
	keys := make([]string, n)
	for i := range keys {
		keys[i] = pick(r, g.Keys)
	}
	path := strings.Join(keys, ".")
	acc := c13TplAccess(keys)
	idx := r.Intn(3)
	var s string
	form := r.Intn(6)
	switch form {
	case 0:
		s = "{{ " + acc + " }}"
	case 1:
		s = "out." + "{{ " + acc + " }}"
	case 2:
		s = fmt.Sprintf("{{ index %s %d }}", acc, idx)
	case 3:
		s = "{{ upper " + acc + " }}"
	case 4:
		s = "{{ " + acc + ".name }}-{{ .b }}"
	default:
		s = "pre {{ if " + acc + " }}{{ " + acc + ".k1 }}{{ end }} post"
	}
	if r.Intn(8) == 0 {
		s = pick(r, []string{" ", "\n", "x"}) + s
	}
	// the value at the path under which the text renders
	good := func() W {
		switch form {
		case 2:
			l := make([]any, idx+1+r.Intn(2))
			for i := range l {
				l[i] = scalarWire(pick(r, []any{"e0", "e1", 7, true}))
			}
			return l
		case 4:
			return map[string]any{"m": map[string]any{"name": scalarWire(pick(r, []string{"greeting", "n", ""}))}}
		case 5:
			return map[string]any{"m": map[string]any{"k1": scalarWire(pick(r, []any{"v", 1}))}}
		}
		return scalarWire(pick(r, []string{"greeting", "t", "a.b", ""}))
	}
	// … and values / documents under which it (mostly) does not
	bad := func(base W) W {
		switch k := r.Intn(8); {
		case k == 0 && n > 1: // the path is cut short by a scalar
			return c13PutSafe(base, strings.Join(keys[:1+r.Intn(n-1)], "."), scalarWire(pick(r, []any{"text", 3, false})))
		case k == 1 && n > 1: // … by a list
			return c13PutSafe(base, strings.Join(keys[:1+r.Intn(n-1)], "."), []any{scalarWire(1)})
		case k == 2: // the first key is missing
			gd := wireContainer(base)
			gd.Remove(keys[0])
			return nodeWire(gd)
		case k == 3:
			return c13PutSafe(base, path, scalarWire(pick(r, []any{7, true, 2.5})))
		case k == 4:
			return c13PutSafe(base, path, []any{})
		case k == 5:
			return c13PutSafe(base, path, scalarWire("plain"))
		case k == 6:
			return c13PutSafe(base, path, g.Cont(r, 2))
		}
		return g.Doc(r)
	}
	base := g.Doc(r)
	cs := c13LenientSeq{S: s}
	for i, m := 0, 2+r.Intn(3); i < m; i++ {
		if r.Intn(5) == 0 {
			base = g.Doc(r)
		}
		var d W
		if (i == 0) == (r.Intn(4) != 0) { // mostly: first a document under which the text fails
			d = bad(base)
		} else {
			d = c13PutSafe(base, path, good())
		}
		cs.Docs = append(cs.Docs, d)
	}
	return cs
}

func c13RunHist(c *Ctx) {
	r := c.Rng
	g := c13Gen()
	// the smallest histories, deterministically
	a := map[string]any{"m": map[string]any{"cfg": scalarWire("text")}}
	b := map[string]any{"m": map[string]any{"cfg": map[string]any{"m": map[string]any{"target": scalarWire("greeting")}}}}
	e := map[string]any{"m": map[string]any{}}
	for _, s := range []string{"{{ .cfg.target }}", "out.{{ .cfg.target }}", "{{ index .cfg \"target\" }}"} {
		c.Do("lenient-history", c13LenientSeq{S: s, Docs: []W{a, b}})
		c.Do("lenient-history", c13LenientSeq{S: s, Docs: []W{e, b, a, b}})
	}
	for i := 0; i < c.N(300); i++ {
		c.Tick()
		c.Do("lenient-history", c13GenLenientSeq(r, g))
	}
}
