package main

// C18 (brief mext7c): the file walkers of the document set — AddDocumentFromFile, AddDocumentsFromDirectory,
// AddDocumentsFromManifest — on REAL temp directories and REAL k8s manifests, against the model of
// lean/YtkModel/DocSetFiles.lean (each found file / item = one step of the document-set model; the file system,
// filepath.Glob and the text decoders enter the model as parameters: the harness measures them with control calls).
//
// Case kinds (hooked into C18 from this file's init; c18.go is untouched):
//   files-dir       a directory of generated files (yaml / yml / json, malformed texts, a suffix without decoder, a
//                   directory where a file is expected), a glob pattern (all, by suffix, nothing, a bad pattern), options,
//                   and documents registered BEFORE the walk (under file names too, so that MustCreate fails mid-walk)
//   files-manifest  a ConfigMap / Secret manifest whose string items are generated documents, malformed texts or carry
//                   a suffix without decoder; a missing / broken manifest; 25 walks of the same manifest (the visiting
//                   order is Go's map order: the SET of registered names must not depend on it, their order does)

import (
	"encoding/json"
	"fmt"
	"os"
	"path/filepath"
	"sort"
	"strings"

	"github.com/rkosegi/yaml-toolkit/analytics"
	"github.com/rkosegi/yaml-toolkit/common"
	"github.com/rkosegi/yaml-toolkit/dom"
	"gopkg.in/yaml.v3"
)

func init() {
	p := registry["C18"]
	if p == nil || evals["C18"] == nil {
		panic("c18_files.go: C18 is not registered yet (file order)")
	}
	run, eval := p.Run, evals["C18"]
	p.Run = func(c *Ctx) { run(c); c18fRun(c) }
	p.Rule += " | files-dir / files-manifest: AddDocumentsFromDirectory / AddDocumentFromFile / AddDocumentsFromManifest over real temp directories and manifests (2-6 files or items; malformed texts, suffixes without decoder, unreadable entries, bad glob patterns, names registered before the walk, MustCreate / MergeTags / WithTags); non-trivial when at least two files / items are visited"
	evals["C18"] = func(c *Ctx, kind string, raw []byte) {
		if strings.HasPrefix(kind, "files-") {
			c18fEval(c, kind, raw)
			return
		}
		eval(c, kind, raw)
	}
}

type c18fFile struct {
	Name string `json:"name"` // relative name (directory) / item name (manifest)
	Doc  W      `json:"doc"`  // nil: a malformed text
	Dir  bool   `json:"dir,omitempty"`
}

type c18fPre struct {
	Name string   `json:"name"` // relative file name (registered under the full path) or a plain name
	File bool     `json:"file,omitempty"`
	Doc  W        `json:"doc"`
	Opts []c18Opt `json:"opts"`
}

type c18fCase struct {
	Pre      []c18fPre  `json:"pre"`
	Opts     []c18Opt   `json:"opts"`
	Files    []c18fFile `json:"files"`
	Pattern  string     `json:"pattern,omitempty"`  // files-dir
	Manifest string     `json:"manifest,omitempty"` // files-manifest: ConfigMap | Secret | broken | missing
}

func c18fRun(c *Ctx) {
	r := c.Rng
	g := stdGen()
	exts := []string{".yaml", ".yaml", ".yml", ".json", ".json", ".txt"}
	gen := func(n int, manifest bool) []c18fFile {
		var fs []c18fFile
		used := map[string]bool{}
		for len(fs) < n {
			name := pick(r, []string{"a", "b", "c", "d", "e", "k8s", "z"}) + pick(r, exts)
			if used[name] {
				continue
			}
			used[name] = true
			f := c18fFile{Name: name, Doc: g.Doc(r)}
			switch r.Intn(9) {
			case 0:
				f.Doc = nil
			case 1:
				if !manifest {
					f.Dir = true
				}
			}
			fs = append(fs, f)
		}
		return fs
	}
	for i := 0; i < c.N(70); i++ {
		c.Tick()
		cs := c18fCase{Files: gen(2+r.Intn(5), false), Pattern: pick(r, []string{"*", "*", "*", "*.yaml", "*.json", "[a-c]*", "nothing*", "[", "?.y*"})}
		cs.Opts = c18GenOpts(r, false, []string{"t1", "t2", "*"})
		if r.Intn(3) == 0 {
			f := pick(r, cs.Files)
			cs.Pre = append(cs.Pre, c18fPre{Name: f.Name, File: true, Doc: g.Doc(r), Opts: c18GenOpts(r, false, []string{"t1", "t3"})})
		}
		if r.Intn(4) == 0 {
			cs.Pre = append(cs.Pre, c18fPre{Name: "other", Doc: g.Doc(r), Opts: []c18Opt{}})
		}
		c.Do("files-dir", cs)
	}
	for i := 0; i < c.N(50); i++ {
		c.Tick()
		cs := c18fCase{Files: gen(1+r.Intn(5), true), Manifest: pick(r, []string{"ConfigMap", "ConfigMap", "Secret", "Secret", "ConfigMap", "broken", "missing"})}
		cs.Opts = c18GenOpts(r, false, []string{"t1", "t2", "*"})
		if r.Intn(4) == 0 {
			f := pick(r, cs.Files)
			cs.Pre = append(cs.Pre, c18fPre{Name: f.Name, File: true, Doc: g.Doc(r), Opts: []c18Opt{}})
		}
		c.Do("files-manifest", cs)
	}
}

// c18fControl: what opening + decoding `text` under the suffix of `name` gives — the model's `load` parameter
func c18fControl(name, text string, isDir bool) (tag string, doc W) {
	dec := common.DefaultFileDecoderProvider(name)
	if dec == nil {
		return "panic", nil // the nil decoder is CALLED by FromReader (a directory opens without error, too)
	}
	if isDir {
		return "err", nil // a directory: opening succeeds, the read fails
	}
	var cb dom.ContainerBuilder
	var err error
	out, _ := guard(func() { cb, err = dom.Builder().FromReader(strings.NewReader(text), dec) })
	if out == "panic" {
		return "panic", nil
	}
	if err != nil {
		return "err", nil
	}
	return "ok", nodeWire(cb)
}

func c18fLoadWire(tag string, doc W) map[string]any {
	if tag == "ok" {
		return map[string]any{"t": "ok", "doc": doc}
	}
	return map[string]any{"t": tag}
}

// c18fObserve: the set as the views serve it
func c18fObserve(ds analytics.DocumentSet, names []string, strip func(string) string) (map[string]any, c18Overlay) {
	asOne, _ := c18ObserveOverlay(func() dom.OverlayDocument { return ds.AsOne() }, strip)
	named := []any{}
	for _, n := range names {
		var d dom.ContainerBuilder
		out, _ := guard(func() { d = ds.NamedDocument(n) })
		if out != "ok" || d == nil {
			named = append(named, nil)
		} else {
			named = append(named, nodeWire(d))
		}
	}
	return map[string]any{"q": []any{}, "asOne": asOne, "named": named}, asOne
}

func c18fEval(c *Ctx, kind string, raw []byte) {
	var cs c18fCase
	if err := json.Unmarshal(raw, &cs); err != nil {
		panic(err)
	}
	if len(cs.Files) == 0 || len(cs.Files) > 12 {
		return
	}
	seen := map[string]bool{}
	for _, f := range cs.Files {
		if seen[f.Name] || f.Name == "" || strings.ContainsAny(f.Name, "/\\\x00") || (f.Doc != nil && !isContainerWire(f.Doc)) {
			return
		}
		seen[f.Name] = true
	}
	for _, p := range cs.Pre {
		if p.Doc == nil || !isContainerWire(p.Doc) {
			return
		}
	}
	dir := filepath.Join(c.VerifDir, ".work", fmt.Sprintf("c18f-%d", os.Getpid()))
	_ = os.RemoveAll(dir)
	if err := os.MkdirAll(dir, 0o755); err != nil {
		panic(err)
	}
	defer os.RemoveAll(dir)
	strip := func(n string) string {
		if strings.HasPrefix(n, dir+"/") {
			return "@/" + strings.TrimPrefix(n, dir+"/")
		}
		return n
	}
	text := func(f c18fFile) string {
		enc := "yaml"
		if strings.HasSuffix(f.Name, ".json") {
			enc = "json"
		}
		return c18Text(f.Doc, enc)
	}
	build := func() (analytics.DocumentSet, []any) {
		ds := analytics.NewDocumentSet()
		var pre []any
		for _, p := range cs.Pre {
			n := p.Name
			if p.File {
				n = filepath.Join(dir, p.Name)
				if kind == "files-manifest" {
					n = filepath.Join(dir, "m.yaml") + "/" + p.Name
				}
			}
			_ = ds.AddDocument(n, wireContainer(p.Doc), c18ApiOpts(p.Opts)...)
			pre = append(pre, map[string]any{"k": "add", "name": strip(n), "doc": p.Doc, "opts": p.Opts})
		}
		if pre == nil {
			pre = []any{}
		}
		return ds, pre
	}
	opts := cs.Opts
	if opts == nil {
		opts = []c18Opt{}
	}
	switch kind {
	case "files-dir":
		for _, f := range cs.Files {
			p := filepath.Join(dir, f.Name)
			if f.Dir {
				_ = os.MkdirAll(p, 0o755)
			} else if err := os.WriteFile(p, []byte(text(f)), 0o644); err != nil {
				panic(err)
			}
		}
		pattern := filepath.Join(dir, cs.Pattern)
		matched, gerr := filepath.Glob(pattern) // control: the model's `glob` parameter
		var globW any
		table := []any{}
		var names []string
		firstFail := -1
		if gerr == nil {
			l := []any{}
			for i, m := range matched {
				l = append(l, strip(m))
				names = append(names, m)
				for _, f := range cs.Files {
					if filepath.Join(dir, f.Name) == m {
						tag, doc := c18fControl(f.Name, text(f), f.Dir)
						table = append(table, []any{strip(m), c18fLoadWire(tag, doc)})
						if tag != "ok" && firstFail < 0 {
							firstFail = i
						}
					}
				}
			}
			globW = l
		}
		c.Dist(fmt.Sprintf("files-dir:matched=%d,first-failure=%v,bad-pattern=%v", min(len(matched), 4), firstFail >= 0, gerr != nil))
		if len(matched) >= 2 {
			c.Nontrivial()
		}
		ds, pre := build()
		var err error
		tag, ptxt := guard(func() { err = ds.AddDocumentsFromDirectory(pattern, common.DefaultFileDecoderProvider, c18ApiOpts(opts)...) })
		if tag == "ok" && err != nil {
			tag = "err"
		}
		for _, p := range cs.Pre {
			names = append(names, p.Name)
		}
		names = append(names, filepath.Join(dir, "never-there.yaml"))
		obs, asOne := c18fObserve(ds, names, strip)
		obs["end"] = tag
		// direct: what the doc comments and the code's own contract say without the model
		c.Direct("files:bad-pattern-is-an-error-and-registers-nothing", gerr == nil || (tag == "err" && len(asOne.Names) == len(uniqueStrings(preNames(cs.Pre)))), map[string]any{"end": tag, "layers": asOne.Names})
		if gerr == nil && firstFail < 0 && !c18fHasMust(opts) {
			c.Direct("files:every-matched-file-is-registered-under-its-name-when-all-load", tag == "ok" && containsAll(asOne.Names, stripAll(matched, strip)),
				map[string]any{"end": tag, "panic": ptxt, "layers": asOne.Names, "matched": stripAll(matched, strip)})
		}
		if gerr == nil && firstFail >= 0 {
			after := stripAll(matched[firstFail+1:], strip)
			preSet := map[string]bool{}
			for _, p := range cs.Pre {
				if p.File {
					preSet["@/"+p.Name] = true
				}
			}
			stopped := tag != "ok"
			for _, n := range after {
				if !preSet[n] && containsAll(asOne.Names, []string{n}) {
					stopped = false
				}
			}
			c.Direct("files:the-first-failing-file-ends-the-walk(error-or-panic,nothing-after-it-registered)", stopped, map[string]any{"end": tag, "layers": asOne.Names, "after": after})
		}
		m := c.Model("files", map[string]any{"fn": "dir", "pre": pre, "opts": opts, "glob": globW, "files": table, "queries": []any{}, "names": stripAll(names, strip)})
		c.Corr("files.AddDocumentsFromDirectory", obs, m)
	case "files-manifest":
		mpath := filepath.Join(dir, "m.yaml")
		data := map[string]any{}
		for _, f := range cs.Files {
			data[f.Name] = text(f)
		}
		loaded := true
		switch cs.Manifest {
		case "missing":
			loaded = false
		case "broken":
			loaded = false
			_ = os.WriteFile(mpath, []byte("kind: [1, 2"), 0o644)
		default:
			key := "data"
			if cs.Manifest == "Secret" {
				key = "stringData"
			}
			b, err := yaml.Marshal(map[string]any{"apiVersion": "v1", "kind": cs.Manifest, "metadata": map[string]any{"name": "m"}, key: data})
			if err != nil {
				panic(err)
			}
			_ = os.WriteFile(mpath, b, 0o644)
		}
		items, decoded := []any{}, []any{}
		var names []string
		anyPanic, nOk := false, 0
		for _, n := range sortedKeys(data) {
			txt := data[n].(string)
			items = append(items, []any{n, txt})
			tag, doc := c18fControl(n, txt, false)
			decoded = append(decoded, []any{n, c18fLoadWire(tag, doc)})
			names = append(names, mpath+"/"+n)
			if tag == "panic" {
				anyPanic = true
			}
			if tag == "ok" {
				nOk++
			}
		}
		c.Dist(fmt.Sprintf("files-manifest:%s,items=%d,decodable=%d,nil-decoder=%v", cs.Manifest, len(items), min(nOk, 4), anyPanic))
		if len(items) >= 2 && loaded {
			c.Nontrivial()
		}
		orders := map[string]bool{}
		var first map[string]any
		for rep := 0; rep < 25; rep++ {
			ds, pre := build()
			var err error
			tag, _ := guard(func() { err = ds.AddDocumentsFromManifest(mpath, common.DefaultFileDecoderProvider, c18ApiOpts(opts)...) })
			if tag == "ok" && err != nil {
				tag = "err"
			}
			obs, asOne := c18fObserve(ds, stripAll(names, func(s string) string { return s }), strip)
			obs["end"] = tag
			orders[strings.Join(asOne.Names, "|")] = true
			// the order of the layers is the visiting order (Go's map order): compared as a SET; a panic part-way
			// leaves the items visited before it, which is order-dependent too: then only the outcome is compared
			sorted := append([]string{}, asOne.Names...)
			sort.Strings(sorted)
			cmp := map[string]any{"end": tag, "named": obs["named"], "layers": sorted}
			if anyPanic && loaded {
				cmp = map[string]any{"end": tag}
			}
			if rep == 0 {
				first = cmp
				c.Direct("files:a-manifest-that-cannot-be-loaded-is-an-error", loaded || tag == "err", map[string]any{"end": tag})
				if loaded && !anyPanic {
					c.Direct("files:every-decodable-item-is-registered-as-manifest/item", tag == "ok" && len(asOne.Names) >= nOk, map[string]any{"end": tag, "layers": asOne.Names})
				}
				m, _ := c.Model("files", map[string]any{"fn": "manifest", "pre": pre, "opts": opts, "manifest": strip(mpath), "loaded": loaded,
					"items": items, "decoded": decoded, "queries": []any{}, "names": stripAll(names, strip)}).(map[string]any)
				mcmp := map[string]any{"end": nil}
				if m != nil {
					ml := []string{}
					if a, ok := m["asOne"].(map[string]any); ok {
						if ns, ok := a["names"].([]any); ok {
							for _, n := range ns {
								ml = append(ml, fmt.Sprint(n))
							}
						}
					}
					sort.Strings(ml)
					mcmp = map[string]any{"end": m["end"], "named": m["named"], "layers": ml}
					if anyPanic && loaded {
						mcmp = map[string]any{"end": m["end"]}
					}
				}
				c.Corr("files.AddDocumentsFromManifest", cmp, mcmp)
			} else {
				c.Direct("files:the-registered-documents-do-not-depend-on-the-visiting-order", canon(cmp) == canon(first), map[string]any{"first": first, "now": cmp})
			}
		}
		if len(orders) > 1 {
			c.Dist("files-manifest:OBSERVED:layer-order-differs-between-walks-of-the-same-manifest")
		}
	}
}

func c18fHasMust(opts []c18Opt) bool {
	for _, o := range opts {
		if o.K == "must" {
			return true
		}
	}
	return false
}

func preNames(pre []c18fPre) []string {
	var out []string
	for _, p := range pre {
		if p.File {
			out = append(out, "@/"+p.Name)
		} else {
			out = append(out, p.Name)
		}
	}
	return out
}

func uniqueStrings(xs []string) []string {
	seen := map[string]bool{}
	out := []string{}
	for _, x := range xs {
		if !seen[x] {
			seen[x] = true
			out = append(out, x)
		}
	}
	return out
}

func stripAll(xs []string, strip func(string) string) []string {
	out := []string{}
	for _, x := range xs {
		out = append(out, strip(x))
	}
	return out
}

func containsAll(have, want []string) bool {
	set := map[string]bool{}
	for _, h := range have {
		set[h] = true
	}
	for _, w := range want {
		if !set[w] {
			return false
		}
	}
	return true
}

func isContainerWire(w W) bool {
	m, ok := w.(map[string]any)
	if !ok {
		return false
	}
	_, ok = m["m"]
	return ok
}
