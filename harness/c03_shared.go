package main

import (
	"encoding/json"
	"math/rand"
	"strings"

	"github.com/rkosegi/yaml-toolkit/dom"
)

// C03 — "after every step AsMap(doc) == the same edits applied to a plain tree", Walk(CompactFn) clause, for a
// document in which ONE container object sits at several places.
//
// AddValue / AddValueAt store the node they are given, so a caller who builds a value once and stores it under
// two names (v := …; AddValueAt("a.b", v); AddValueAt("c", v)) has a document whose content, read as a plain
// tree, holds that value twice.  The property speaks about content: whatever the object graph looks like, after
// Walk(CompactFn) the document must be the compaction of that plain tree — exactly the empty keyed containers go
// (at EVERY place they sit), cascading upwards; lists and leaves stay.  The histories of c03.go build trees only
// and heap-hist cases judge shared graphs against the heap model; this kind is the direct predicate on the
// implementation alone: a start document, one container value (empty, emptied by the compaction itself, or with
// content that stays) attached as one object at 2-4 prefix-free key paths, a twin document that gets a copy of its
// own at each place, then Walk(CompactFn) on both.
type c03SharedCase struct {
	Start  W        `json:"start"`
	Shared W        `json:"shared"`
	At     []string `json:"at"`
}

func init() {
	p := registry["C03"]
	if p == nil || evals["C03"] == nil {
		panic("c03_shared.go: C03 is not registered yet (file order)")
	}
	run, eval := p.Run, evals["C03"]
	p.Run = func(c *Ctx) {
		if c.P.ID == "C03" {
			c03SharedGen(c)
		}
		run(c)
	}
	p.Rule += " shared-compact cases (harness/c03_shared.go; 80 per quick run, direct predicates only): a generated start document (one in three rich in empty-but-present values), ONE container object — empty, holding only containers that the compaction empties, or with leaves / lists that stay — attached by AddValue / AddValueAt at 2-4 prefix-free key paths, and a twin document that gets a copy of its own at each place; Lookup at each place returns that very object, both documents read the same, and after Walk(CompactFn) the document equals the compaction of its previous content computed on the plain tree, equals the compacted twin, holds no empty keyed container, kept every leaf, and a second Walk(CompactFn) changes nothing. Non-trivial: at least two places and the compaction changed the document."
	evals["C03"] = func(c *Ctx, kind string, raw []byte) {
		if kind == "shared-compact" {
			c03SharedEval(c, raw)
			return
		}
		eval(c, kind, raw)
	}
}

func c03SharedGen(c *Ctx) {
	// a stream of its own: the cases of the other kinds stay what they were for a given seed
	r := rand.New(rand.NewSource(c.Seed*7919 + 0x5a))
	g := stdGen()
	g.Keys = c03Keys
	g.MaxDepth = 3
	ge := *g
	ge.PEmpty, ge.PLeaf, ge.PNull, ge.MaxDepth, ge.Strings = 0.45, 0.3, 0.3, 4, []string{"", "", " ", "s"}
	empty := func() W { return map[string]any{"m": map[string]any{}} }
	for i := 0; i < c.N(80); i++ {
		c.Tick()
		var start W = empty()
		switch r.Intn(3) {
		case 0:
			start = g.Doc(r)
		case 1:
			start = ge.Doc(r)
		}
		var shared W
		switch r.Intn(6) {
		case 0, 1:
			shared = empty()
		case 2: // emptied by the compaction itself
			shared = map[string]any{"m": map[string]any{pick(r, c03Keys): empty()}}
		case 3:
			shared = map[string]any{"m": map[string]any{pick(r, c03Keys): map[string]any{"m": map[string]any{pick(r, c03Keys): empty()}}, pick(r, c03Keys): empty()}}
		case 4: // content that stays (an empty list is not an empty container), next to containers that go
			shared = map[string]any{"m": map[string]any{"l": []any{}, pick(r, c03Keys): empty()}}
		default:
			shared = ge.Cont(r, 2)
		}
		var at []string
		n := 2 + r.Intn(3)
		for try := 0; len(at) < n && try < 20; try++ {
			ks := make([]string, 1+r.Intn(3))
			for j := range ks {
				ks[j] = pick(r, c03Keys)
			}
			p := strings.Join(ks, ".")
			ok := true
			for _, q := range at {
				if pathUnder(p, q) || pathUnder(q, p) {
					ok = false
				}
			}
			if ok {
				at = append(at, p)
			}
		}
		c.Do("shared-compact", c03SharedCase{Start: start, Shared: shared, At: at})
	}
}

func c03SharedEval(c *Ctx, raw []byte) {
	var sc c03SharedCase
	if err := json.Unmarshal(raw, &sc); err != nil {
		panic(err)
	}
	// shape of the case (shrink candidates may leave it)
	if _, ok := wireCont(sc.Start); !ok {
		return
	}
	if _, ok := wireCont(sc.Shared); !ok {
		return
	}
	if len(sc.At) == 0 || len(sc.At) > 6 || !dhAllKeysSafe(sc.Start) || !dhAllKeysSafe(sc.Shared) || !c05KeysOK(sc.Start) || !c05KeysOK(sc.Shared) {
		return
	}
	for i, p := range sc.At {
		for _, k := range strings.Split(p, ".") {
			if !dhPathSafe(k) {
				return
			}
		}
		for j, q := range sc.At {
			if i != j && (pathUnder(p, q) || pathUnder(q, p)) {
				return // one place inside another: the object would be attached below itself
			}
		}
	}
	var cb, twin dom.ContainerBuilder
	var node dom.Node
	out, txt := guard(func() {
		cb, twin = wireContainer(sc.Start), wireContainer(sc.Start)
		node = wireNode(sc.Shared)
	})
	if out != "ok" {
		c.Direct("shared-compact: no panic while building", false, txt)
		return
	}
	put := func(b dom.ContainerBuilder, p string, n dom.Node) {
		if strings.Contains(p, ".") {
			b.AddValueAt(p, n)
		} else {
			b.AddValue(p, n)
		}
	}
	for _, p := range sc.At {
		if !c03InDomain(nodeWire(cb), p) {
			return
		}
		out, txt = guard(func() {
			put(cb, p, node)
			put(twin, p, wireNode(sc.Shared))
		})
		if out != "ok" {
			c.Direct("shared-compact: no panic while attaching", false, map[string]any{"path": p, "panic": txt})
			return
		}
	}
	prev := nodeWire(cb)
	det := map[string]any{"at": sc.At, "before": prev}
	for _, p := range sc.At {
		c.Direct("shared-compact: set-get (lookup returns the node that was stored)", cb.Lookup(p) == node, map[string]any{"path": p, "doc": prev})
	}
	c.Direct("shared-compact: one object at several places reads like a copy at each place", canon(prev) == canon(nodeWire(twin)),
		map[string]any{"at": sc.At, "doc": prev, "twin": nodeWire(twin)})
	oldFlat := flattenWire(cb)

	out, txt = guard(func() {
		cb.Walk(dom.CompactFn)
		twin.Walk(dom.CompactFn)
	})
	if out != "ok" {
		c.Direct("shared-compact: no panic in Walk(CompactFn)", false, map[string]any{"at": sc.At, "before": prev, "panic": txt})
		return
	}
	cur, want := nodeWire(cb), c03RefCompact(prev)
	det["after"], det["expected"] = cur, want
	if len(sc.At) >= 2 && canon(want) != canon(prev) {
		c.Nontrivial()
	}
	if len(wireContMust(sc.Shared)) == 0 {
		c.Dist("shared-compact:empty")
	} else if e, _ := wireCont(c03RefCompact(sc.Shared)); len(e) == 0 {
		c.Dist("shared-compact:emptied-by-compaction")
	} else {
		c.Dist("shared-compact:content-stays")
	}
	c.Direct("shared-compact: compact==compaction of the plain tree (one container object at several places: it goes at every place, cascading; lists and leaves stay)",
		canon(cur) == canon(want), det)
	c.Direct("shared-compact: compacts like the document with a copy at each place", canon(cur) == canon(nodeWire(twin)),
		map[string]any{"at": sc.At, "before": prev, "after": cur, "twin_after": nodeWire(twin)})
	c.Direct("shared-compact: compact-removes-empty-keyed-containers", !hasEmptyKeyedContainer(cur), det)
	c.Direct("shared-compact: compact-keeps-leaves", canon(flattenWire(cb)) == canon(oldFlat), det)
	var keep, keepLists []string
	wirePaths(want, "", &keep, &keepLists)
	for _, q := range keep {
		if !c.Direct("shared-compact: lookup still finds what was not removed", canon(nodeWire(cb.Lookup(q))) == canon(wireLookup(want, q)),
			map[string]any{"path": q, "before": prev, "after": cur}) {
			break
		}
	}
	out, txt = guard(func() { cb.Walk(dom.CompactFn) })
	c.Direct("shared-compact: a second Walk(CompactFn) changes nothing", out == "ok" && canon(nodeWire(cb)) == canon(cur),
		map[string]any{"at": sc.At, "after_first": cur, "after_second": nodeWire(cb), "panic": txt})
}

func wireContMust(w W) map[string]any {
	m, _ := wireCont(w)
	return m
}
