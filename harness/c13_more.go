package main

import (
	"encoding/base64"
	"encoding/json"
	"fmt"
	"math"
	"os"
	"path/filepath"
	"regexp"
	"sort"
	"strings"

	"github.com/rkosegi/yaml-toolkit/dom"
	"github.com/rkosegi/yaml-toolkit/patch"
	"github.com/rkosegi/yaml-toolkit/pipeline"
)

// C13 — further generic features of the harness (none of them looks at a particular line of the
// code under test):
//
//   c13Decoy      every operation under test is PRECEDED by an operation of the same kind that fails
//                 part-way, on another document through another executor (a template that fails
//                 after emitting text, an export whose encoder fails after the file was opened, an
//                 import of an unparsable file, a move whose add step fails and is rolled back, a
//                 set without data).  "Documented effect and only that effect" holds for every
//                 history of calls: the outcome must be what the model and the references say.
//   c13ShareEqual the payload map of a set operation holds ONE Go map / slice object wherever it
//                 holds structurally equal ones (the same object under two keys, twice in a list):
//                 the effect must be that of distinct-but-equal objects (which is what the model and
//                 the direct predicates describe).
//   c13ReadAll    in histories, before and after every execution the document is read through every
//                 read API (Children / Items walk, AsMap, Flatten, Search, Lookup of every flattened
//                 path, Clone, Equals); all of them must show one and the same document.
//   kind "large"  imports of large files (a 2-, 3- or 4-byte character across byte 512 / 4 KiB /
//                 64 KiB / 1 MiB of the file) in text and binary mode, and export -> import round
//                 trips of large subtrees (files just under / over 4 KiB, 64 KiB, 1 MiB) whose string
//                 values are full of multi-byte characters; direct predicates only.

// ------------------------------------------------------------------ decoys

// c13Decoy runs an operation of the kind of `a` that fails part-way, on a document of its own.  Which
// of the failing variants is taken is a function of the operation's configuration (a case replays
// with the same decoy).
func c13Decoy(a pipeline.Action) {
	variant := ""
	switch x := a.(type) {
	case *pipeline.SetOp:
		variant = x.Path + fmt.Sprint(len(x.Data))
	case *pipeline.TemplateOp:
		variant = x.Path + x.Template
	case *pipeline.ExportOp:
		variant = string(x.Format)
		if x.Path != nil {
			variant += x.Path.Val + x.Path.Ref
		}
	}
	c13DecoyNo := int(hash64([]byte(variant)) % 6)
	cont := func(m map[string]any) W { return map[string]any{"m": m} }
	doc := wireContainer(cont(map[string]any{
		"zz_decoy": cont(map[string]any{"user": scalarWire("u"), "password": scalarWire("p"), "list": []any{scalarWire(1), scalarWire("x")}}),
		"zz_nan":   cont(map[string]any{"f": scalarWire("placeholder")}),
	}))
	var op pipeline.Action
	switch x := a.(type) {
	case *pipeline.SetOp:
		st := pipeline.SetStrategy("zz_no_such_strategy")
		op = &pipeline.SetOp{Path: "zz_decoy.user", Strategy: &st, Data: map[string]any{"zz": map[string]any{"secret": "s"}}}
		if c13DecoyNo%2 == 0 {
			op = &pipeline.SetOp{Path: "zz_decoy"}
		}
	case *pipeline.TemplateOp:
		op = &pipeline.TemplateOp{Template: `zz_decoy output {{ .zz_decoy.user }} {{ fail "decoy" }} never`, Path: "zz_decoy.t"}
		if c13DecoyNo%2 == 0 {
			pa := pipeline.ParseTextAs("yaml")
			op = &pipeline.TemplateOp{Template: "zz: [unterminated, {{ .zz_decoy.password }}", Path: "zz_decoy.t", ParseAs: &pa}
		}
	case *pipeline.PatchOp:
		// a move whose remove step works and whose add step fails (rolled back)
		op = &pipeline.PatchOp{Op: patch.OpMove, From: "/zz_decoy/user", Path: "/zz_decoy/list/7"}
	case *pipeline.ImportOp:
		dir := filepath.Dir(x.File)
		if st, err := os.Stat(dir); err != nil || !st.IsDir() {
			return
		}
		f := filepath.Join(dir, "zz_decoy.in")
		_ = os.WriteFile(f, []byte("zz_decoy:\n  user: u\n  broken: [1, 2\n"), 0o644)
		defer os.Remove(f)
		mode := x.Mode
		if mode != pipeline.ParseFileModeJson {
			mode = pipeline.ParseFileModeYaml
		}
		op = &pipeline.ImportOp{File: f, Path: "zz_decoy.imp", Mode: mode}
	case *pipeline.ExportOp:
		if x.File == nil || x.File.Val == "" {
			return
		}
		dir := filepath.Dir(x.File.Val)
		if st, err := os.Stat(dir); err != nil || !st.IsDir() {
			return
		}
		f := filepath.Join(dir, "zz_decoy.out")
		defer os.Remove(f)
		switch c13DecoyNo % 3 {
		case 0: // the JSON encoder fails (NaN) after the file was opened
			doc.AddValueAt("zz_nan.f", dom.LeafNode(math.NaN()))
			op = &pipeline.ExportOp{File: &pipeline.ValOrRef{Val: f}, Path: &pipeline.ValOrRef{Val: "zz_nan"}, Format: pipeline.OutputFormatJson}
		case 1: // text format on a container: fails after the file was opened
			op = &pipeline.ExportOp{File: &pipeline.ValOrRef{Val: f}, Path: &pipeline.ValOrRef{Val: "zz_decoy"}, Format: pipeline.OutputFormatText}
		default: // the file cannot be opened
			op = &pipeline.ExportOp{File: &pipeline.ValOrRef{Val: filepath.Join(dir, "zz_no_such_dir", "o")}, Path: &pipeline.ValOrRef{Val: "zz_decoy"}, Format: x.Format}
		}
	default:
		return
	}
	guard(func() { _ = pipeline.New(pipeline.WithData(doc)).Execute(op) })
}

// ------------------------------------------------------------------ shared payload objects

// c13ShareEqual returns the plain tree with ONE object in the place of every group of structurally
// equal maps / slices (non-empty ones).
func c13ShareEqual(v any, memo map[string]any) any {
	switch x := v.(type) {
	case map[string]any:
		for k, e := range x {
			x[k] = c13ShareEqual(e, memo)
		}
		if len(x) == 0 {
			return x
		}
		key := "m" + mustJSON(x)
		if prev, ok := memo[key]; ok {
			return prev
		}
		memo[key] = x
		return x
	case []any:
		for i, e := range x {
			x[i] = c13ShareEqual(e, memo)
		}
		if len(x) == 0 {
			return x
		}
		key := "l" + mustJSON(x)
		if prev, ok := memo[key]; ok {
			return prev
		}
		memo[key] = x
		return x
	}
	return v
}

// c13SharedPayload: the payload of a set operation as a Go map in which equal subtrees are one object.
func c13SharedPayload(w W) map[string]any {
	m, _ := wirePlain(w).(map[string]any)
	if m == nil {
		return m
	}
	for k, e := range m {
		m[k] = c13ShareEqual(e, map[string]any{})
	}
	return m
}

// ------------------------------------------------------------------ every read API

// c13ReadAll reads the document through every read API; problems lists the observations that do not
// show the document the walk through Children() / Items() / Value() shows.
func c13ReadAll(gd dom.ContainerBuilder) (problems []string) {
	out, txt := guard(func() {
		budget := 200000
		w := c13NodeWire(gd, 0, &budget)
		ref := map[string]struct {
			V     W
			Steps int
		}{}
		wireFlattenRef(w, "", 0, ref)
		refKeys := sortedKeys(ref)
		// Flatten
		flat := gd.Flatten()
		fkeys := sortedKeys(flat)
		if strings.Join(fkeys, "\x00") != strings.Join(refKeys, "\x00") {
			problems = append(problems, fmt.Sprintf("Flatten keys %q, walk shows %q", fkeys, refKeys))
		} else {
			for _, k := range fkeys {
				if canon(scalarWire(flat[k].Value())) != canon(ref[k].V) {
					problems = append(problems, fmt.Sprintf("Flatten[%s] = %v, walk shows %v", k, mustJSON(scalarWire(flat[k].Value())), mustJSON(ref[k].V)))
				}
			}
		}
		// Search
		found := gd.Search(func(any) bool { return true })
		sort.Strings(found)
		if strings.Join(found, "\x00") != strings.Join(refKeys, "\x00") {
			problems = append(problems, fmt.Sprintf("Search(any) = %q, walk shows %q", found, refKeys))
		}
		// Lookup of every flattened path — where a path names one position: keys over [A-Za-z0-9_-] (the property's
		// domain).  A history whose templated path renders the text of a container (`map[b: z_9:0.5]`) leaves keys
		// holding `.` and `[`: the flattened path of such a document does not parse back into its keys.
		safe := c13KeysPathSafe(w)
		for _, k := range refKeys {
			if !safe {
				break
			}
			n := gd.Lookup(k)
			if n == nil || !n.IsLeaf() || canon(scalarWire(n.(dom.Leaf).Value())) != canon(ref[k].V) {
				problems = append(problems, fmt.Sprintf("Lookup(%s) does not give the leaf the walk shows (%s)", k, mustJSON(ref[k].V)))
			}
		}
		// AsMap
		if am := canon(plainWire(gd.AsMap())); am != canon(plainWire(wirePlain(w))) {
			problems = append(problems, "AsMap() = "+am+", walk shows "+canon(plainWire(wirePlain(w))))
		}
		// Clone, Equals
		cl := gd.Clone()
		b2 := 200000
		if cw := canon(c13NodeWire(cl, 0, &b2)); cw != canon(w) {
			problems = append(problems, "Clone() = "+cw+", walk shows "+canon(w))
		}
		if !gd.Equals(cl) || !cl.Equals(gd) {
			problems = append(problems, "document and its Clone() are not Equals")
		}
	})
	if out != "ok" {
		problems = append(problems, "panic while reading: "+txt)
	}
	return problems
}

var c13SafeKeyRe = regexp.MustCompile(`^[A-Za-z0-9_-]+$`)

// c13KeysPathSafe: every key of the document is over [A-Za-z0-9_-].
func c13KeysPathSafe(w W) bool {
	switch x := w.(type) {
	case []any:
		for _, e := range x {
			if !c13KeysPathSafe(e) {
				return false
			}
		}
	case map[string]any:
		if cm, ok := x["m"].(map[string]any); ok {
			for k, e := range cm {
				if !c13SafeKeyRe.MatchString(k) || !c13KeysPathSafe(e) {
					return false
				}
			}
		}
	}
	return true
}

// ------------------------------------------------------------------ kind "large"

type c13Large struct {
	Mode   string `json:"mode"`   // text | binary (import of a generated file), yaml | json (export of a generated subtree, import elsewhere)
	Offset int    `json:"offset"` // text / binary: the byte offset of the file the character lies across; yaml / json: size of the exported file (about)
	Char   string `json:"char"`
	Back   int    `json:"back"`
	After  int    `json:"after,omitempty"`
	Via    string `json:"via,omitempty"`
}

func c13EvalLarge(c *Ctx, raw []byte) {
	var p c13Large
	if err := json.Unmarshal(raw, &p); err != nil {
		panic(err)
	}
	if !c13ViaOK(p.Via) || p.Offset < 64 || p.Offset > 2<<20 {
		return
	}
	cont := func(m map[string]any) W { return map[string]any{"m": m} }
	small := map[string]any{"a": scalarWire("text"), "c": cont(map[string]any{"k": scalarWire("w"), "l": []any{scalarWire(1)}})}
	dir := c13TempDir(c)
	defer os.RemoveAll(dir)
	clip := func(s string) string {
		if len(s) > 48 {
			return fmt.Sprintf("%q…(%d bytes)", s[:48], len(s))
		}
		return fmt.Sprintf("%q", s)
	}
	firstDiff := func(a, b string) int {
		n := min(len(a), len(b))
		for i := 0; i < n; i++ {
			if a[i] != b[i] {
				return i
			}
		}
		return n
	}
	c.Dist("large:mode=" + p.Mode)
	c.Dist("via:" + p.Via)
	switch p.Mode {
	case "text", "binary":
		_, text, ok := c16EdgePairs(c16Edge{Offset: p.Offset, Char: p.Char, Back: p.Back, After: p.After, ValLen: 40, Wide: true})
		if !ok {
			return
		}
		c.Nontrivial()
		c.Dist(fmt.Sprintf("large:offset=%d", p.Offset))
		file := filepath.Join(dir, "in.dat")
		if err := os.WriteFile(file, []byte(text), 0o644); err != nil {
			panic(err)
		}
		gd := wireContainer(cont(small))
		before := canon(nodeWire(gd))
		tag, txt := c13ExecVia(gd, &pipeline.ImportOp{File: file, Path: "c.imp", Mode: pipeline.ParseFileMode(p.Mode)}, p.Via)
		if !c.Direct("no-panic", tag != "panic", txt) {
			return
		}
		want := text
		if p.Mode == "binary" {
			want = base64.StdEncoding.EncodeToString([]byte(text))
		}
		got, isStr := "", false
		if n := gd.Lookup("c.imp"); n != nil && n.IsLeaf() {
			got, isStr = n.(dom.Leaf).Value().(string)
		}
		c.Direct("import-"+p.Mode+"-stores-exact-content", tag == "ok" && isStr && got == want,
			map[string]any{"tag": tag, "error": txt, "file-bytes": len(text), "got": clip(got), "want": clip(want), "first-difference-at": firstDiff(got, want)})
		gd.RemoveAt("c.imp")
		c.Direct("frame: paths not under the target unchanged", canon(nodeWire(gd)) == before, map[string]any{"file-bytes": len(text), "after": nodeWire(gd)})
	case "yaml", "json":
		if !utf8ValidOne(p.Char) {
			return
		}
		// a subtree of n string leaves (every third inside a list or a nested container), values full of
		// multi-byte characters, sized so that the exported file has about Offset bytes
		big := map[string]any{}
		wide := []string{"é", "日", "ß", "😀", "€", p.Char}
		n := 0
		for est := 0; est < p.Offset && n < 100000; n++ {
			i := n
			v := fmt.Sprintf("v%d-", i) + strings.Repeat(wide[i%len(wide)], 3+i%5) + "-" + strings.Repeat(p.Char, 1+i%3)
			k := fmt.Sprintf("k%05d", i)
			est += len(k) + len(v)
			switch i % 3 {
			case 0:
				big[k] = scalarWire(v)
				est += 3
			case 1:
				big[k] = []any{scalarWire(v), scalarWire("x" + p.Char)}
				est += 14 + len(p.Char)
			default:
				big[k] = cont(map[string]any{"n": scalarWire(v)})
				est += 9
			}
			if p.Mode == "json" {
				est += 9
			}
		}
		data := cont(map[string]any{"a": small["a"], "c": small["c"], "big": cont(big)})
		c.Nontrivial()
		file := filepath.Join(dir, "out."+p.Mode)
		gd := wireContainer(data)
		before := canon(nodeWire(gd))
		tag, txt := c13ExecVia(gd, &pipeline.ExportOp{File: &pipeline.ValOrRef{Val: file}, Path: &pipeline.ValOrRef{Val: "big"}, Format: pipeline.OutputFormat(p.Mode)}, p.Via)
		if !c.Direct("no-panic", tag != "panic", txt) {
			return
		}
		c.Direct("export-no-error", tag == "ok", txt)
		c.Direct("export-does-not-change-data", canon(nodeWire(gd)) == before, map[string]any{"entries": n})
		size := int64(-1)
		if st, err := os.Stat(file); err == nil {
			size = st.Size()
		}
		switch {
		case size > 1<<20:
			c.Dist("large:exported-file>1MiB")
		case size > 64<<10:
			c.Dist("large:exported-file>64KiB")
		case size > 4<<10:
			c.Dist("large:exported-file>4KiB")
		default:
			c.Dist("large:exported-file<=4KiB")
		}
		tag2, txt2 := c13ExecVia(gd, &pipeline.ImportOp{File: file, Path: "imp.q", Mode: pipeline.ParseFileMode(p.Mode)}, p.Via)
		if !c.Direct("no-panic", tag2 != "panic", txt2) {
			return
		}
		c.Direct("import-no-error", tag2 == "ok", map[string]any{"error": txt2, "file-bytes": size})
		var got W
		if nd := gd.Lookup("imp.q"); nd != nil {
			got = nodeWire(nd)
		}
		same := canon(got) == canon(cont(big))
		det := map[string]any{"entries": n, "file-bytes": size, "file-bytes-aimed-at": p.Offset}
		if !same {
			gc, _ := wireCont(got)
			for _, k := range sortedKeys(big) {
				if gc == nil || canon(gc[k]) != canon(big[k]) {
					det["first-differing-key"], det["imported"], det["want"] = k, gc[k], big[k]
					break
				}
			}
			det["imported-keys"] = len(gc)
		}
		c.Direct("Import(Export(subtree))==subtree up to number normalisation", same, det)
		gd.RemoveAt("imp")
		c.Direct("frame: paths not under the target unchanged", canon(nodeWire(gd)) == before, det)
	}
}

func utf8ValidOne(s string) bool {
	n := 0
	for _, r := range s {
		if r == 0xFFFD || !c16PlainRune(r) && r >= 0x80 {
			return false
		}
		n++
	}
	return n == 1
}

// c13RunLarge: a fixed handful of large cases per run.
func c13RunLarge(c *Ctx) {
	r := c.Rng
	chars := [][]string{{"é", "ó", "ß"}, {"日", "€", "→"}, {"😀", "𝄞"}}
	for _, mode := range []string{"text", "binary"} {
		for _, off := range []int{512, 4096, 65536, 1 << 20} {
			for _, pool := range chars {
				ch := pick(r, pool)
				cs := c13Large{Mode: mode, Offset: off, Char: ch, Back: 1 + r.Intn(len(ch)-1), Via: c13PickVia(r)}
				if r.Intn(3) > 0 {
					cs.After = 1 + r.Intn(off)
				}
				c.Tick()
				c.Do("large", cs)
			}
		}
		// total size of the file: the offset - 1, the offset, the offset + 1
		for _, off := range []int{512, 4096, 65536} {
			for d := 0; d <= 2; d++ {
				c.Tick()
				c.Do("large", c13Large{Mode: mode, Offset: off, Char: "é", Back: 2 + d, Via: c13PickVia(r)})
			}
		}
	}
	for _, mode := range []string{"yaml", "json"} {
		for _, size := range []int{3500, 4600, 57 << 10, 72 << 10} { // just under / over 4 KiB and 64 KiB
			c.Tick()
			c.Do("large", c13Large{Mode: mode, Offset: size + r.Intn(200), Char: pick(r, pick(r, chars)), Via: c13PickVia(r)})
		}
		c.Tick()
		c.Do("large", c13Large{Mode: mode, Offset: 1<<20 - 100000 + r.Intn(250000), Char: pick(r, pick(r, chars))})
	}
}
