package main

import (
	"bytes"
	"encoding/json"
	"fmt"
	"math/rand"
	"regexp"
	"sort"
	"strings"
	"unicode/utf8"

	"github.com/magiconair/properties"
	"github.com/rkosegi/yaml-toolkit/common"
	"github.com/rkosegi/yaml-toolkit/dom"
	"github.com/rkosegi/yaml-toolkit/k8s"
	"github.com/rkosegi/yaml-toolkit/props"
	"github.com/rkosegi/yaml-toolkit/utils"
)

// C16 — properties: flat dotted keys and trees correspond exactly and deterministically.

// c16KV is a finite set of (dotted key, plain string value); the order of Pairs is the order
// of the lines of the rendered properties text.
type c16KV struct {
	Pairs [][2]string `json:"pairs"`
}

const c16Repeats = 50

var c16KeyRe = regexp.MustCompile(`^[A-Za-z0-9_-]+(\.[A-Za-z0-9_-]+)*$`)

// Values that need no escaping in the properties format: no backslash, no whitespace, no line
// break, no '=' / ':' / '#' / '!'. The characters '$', '{' and '}' are ordinary value characters
// of the format (the magiconair library gives "${key}" a meaning only in its Get* accessors, which
// the codec never uses), so they belong to the domain of the round-trip clauses.
var c16ValRe = regexp.MustCompile(`^[A-Za-z0-9_.${}-]*$`)

// c16ValOK: a plain value of the domain.  Over c16ValRe, and — "plain string value ... that needs no escaping" read on
// the format — blanks (space, tab) anywhere but in front (only blanks in FRONT of a value are insignificant in
// properties text; inner and trailing ones belong to the value and are written as they are), a few more ASCII
// punctuation characters that have no meaning inside a value (',', ';', '/', '@', '+', '*', '(', ')', '[', ']', '|',
// '~', '%', '&', '?', '<', '>', apostrophe, '"', '^'), NBSP behind the first character, and non-ASCII letters and symbols (c16PlainRune).
func c16ValOK(v string) bool {
	if c16ValRe.MatchString(v) {
		return true
	}
	if !utf8.ValidString(v) {
		return false
	}
	for i, r := range v {
		switch {
		case r == ' ' || r == '\t' || r == 0xA0:
			if i == 0 {
				return false
			}
		case r < 0x80:
			if !c16ValRe.MatchString(string(r)) && !strings.ContainsRune(",;/@+*()[]|~%&?<>'\"^", r) {
				return false
			}
		default:
			if !c16PlainRune(r) {
				return false
			}
		}
	}
	return true
}

func init() {
	register(&Prop{ID: "C16", Run: c16Run,
		Rule: "key sets built from a pool of 14 path-safe segments, several of which are proper string prefixes of others (a, ab, abc, a1, a-b, k, k1 …; the same pool at every level, so that sibling segments related by string prefix but not by dotted prefix are frequent), 1-4 segments per key, 0-8 keys; three streams: prefix-free sets (conflicting keys removed), sets with deliberately added dotted prefixes / extensions of present keys, unconstrained sets; values from a pool of strings over [A-Za-z0-9_.-] incl. the empty string, and in one case out of three also values over [A-Za-z0-9_.${}-] shaped like placeholder expressions: ${key} naming the own key, another key of the set, an undefined key, rings of keys naming each other, nested and repeated ${…}, unclosed ${, and stray $ { } characters; in one case out of three also values as TEXT: ending in a blank or tab, with inner blanks / tabs / NBSP, differing from another value by case or a trailing blank only, boolean / null / number spellings incl. 20-30 digit strings and 2^53+1 / 2^63 / 2^64, punctuation that is syntax elsewhere (, ; / | % ( ) [ ]), non-ASCII incl. supplementary-plane characters and U+FFFD; line order of the rendered text shuffled. Kind dots (repeated-decode clause only, 'whatever the keys'): such a set plus 1-3 keys with a leading / trailing / doubled separator (k. .k .k. a..b ..k k.. and the keys . .. ...), most of them next to the same key without the stray separator and with a different value; 50 decodes through FromReader (observed through Children and AsMap, not Flatten) and 50 through props.DecoderFn alone must give one result. Kind big (direct predicates only, a fixed handful per run): prefix-free sets described compactly as blocks of pairs b<i>.s<j mod 41>.k<j> = <j>_<i>_padding with a common value length, rendered text between 64 KiB and 6 MiB per run (one below 1 MiB, one of 1.1-2.6 MiB and one of 4.2-6 MiB with tens of thousands of ordinary pairs, one with a few lines longer than 64 KiB each; two more of 70-400 KiB with 1-2 lines of 65-200 KiB standing between about 20 ordinary pairs x.e<i>.<seg> whose values are TEXT - words and blanks that spell what is syntax in the formats next door: shell env files, ini sections, YAML, SQL, XML - some in front of the long lines and some behind them), decoded through FromReader from a strings.Reader, from a plain io.Reader handing out 4093-byte pieces and with the provider's decoder, through props.DecoderFn alone, FromProperties, Unflatten, and written by both encoders and read back - every result compared pair by pair with the set. Stream deep (kind kv): key sets shaped like a deep tree - a first key of 4-10 segments and 1-7 further keys, each keeping a prefix of an earlier key (often all but its last 1-3 segments) and continuing with 1-4 segments of its own, so that containers at depth 3, 5, 6, 7 and 9 have several sibling containers and leaves; 3 in 4 prefix-free. Kind edge (direct predicates only, about 90 per run): texts in which an ASCII, 2-, 3- or 4-byte UTF-8 character of a plain value (non-ASCII letters and symbols need no escaping) starts 0 ... len+2 bytes before byte offset 512 / 4 KiB / 64 KiB (every placement: starting at, lying across, ending at the offset, followed by the line end at it), lies across 1 MiB, every other power of two from 256 B to 512 KiB, 4093, 8186, 65521 and a few round numbers; with nothing after that pair (total text size = offset -1 / +0 / +1) or further pairs after it; filler values with or without non-ASCII characters; same predicates as kind big. Kind form (direct predicates only, about 500 per run): a kv-style set (at least one key below a container), handed to the decoder the ways a caller can hand over properties text, three aspects varied independently in about half of the cases each - LAYOUT of the text (last line without a line end, CR LF line ends, with and without the final one, `k = v`, `k:v`, `k v`, indented keys, comment and blank lines in front of / between / behind the pairs); READER and its POSITION (strings.Reader, bytes.Reader, *os.File, bufio.Reader, a plain io.Reader handing out 7-byte pieces; the text preceded in the same reader by a preamble the caller has already read: an envelope line, a length prefix, a byte-order mark, a piece of a line, or an earlier properties document some of whose keys are keys of the set); what the CALLER DOES with the map a decode gave it before the same text is decoded again (values overwritten, the first entry deleted, entries added, everything deleted, nested maps replaced by a string - at the top and in every nested map); 6 decodes through props.DecoderFn / the provider's decoder and 6 through FromReader, interleaved with the caller's edits: prefix-free sets must flatten to exactly the pairs, every set must decode to one result in all runs and to the same result as the text from a fresh strings.Reader. History: in kinds kv / big / edge every decode is preceded by a decode of an unrelated text whose reader fails after 0 / 3 / 700 bytes and every encode by encodes of an unrelated map / document whose writer fails after 0 / 3 / 17 / 40 bytes; Flatten is called twice on one document and the earlier result is read again after the later call. Thorough tier adds all 128 subsets of {a, b, a.b, a.c, a.b.c, b.a, a.b.c.d} and of {a.b, a.b.x, a.bc, a-b.x, a1, ab.x, abc} in two line orders. A case is non-trivial when it has at least two keys and at least one key with two or more segments; distinct = distinct canonical case JSON (hash).",
		Assumptions: []string{
			"magiconair/properties agrees with the reference k=v line parser (Props.parseSimple) on keys over [A-Za-z0-9_.-] and values over [A-Za-z0-9_.${}-]* extended by blanks / tabs / NBSP behind the first character, the punctuation , ; / @ + * ( ) [ ] | ~ % & ? < > ' \" ^ and non-ASCII letters and symbols — raw values as returned by Map(), whatever its ${…} expansion self-check says (validated by the corr:C16.parse comparison on every case, not proved)",
			"key segments are non-empty and over [A-Za-z0-9_-] (no segment ends in an index group, so AddValueAt treats every segment as a plain child name); empty segments (stray separators) occur only in the cases of kind dots, on which nothing but the repeated-decode clause is evaluated",
			"values are plain strings that need no escaping in the properties format: no backslash, no line break, no '=' ':' '#' '!', no blank in FRONT (blanks and tabs inside and at the END of a value are part of it and need no escaping); kinds dots / big keep them over [A-Za-z0-9_.${}-] (the ordinary pairs of a big case: words, inner / trailing blanks and the punctuation below), kind kv adds inner / trailing blanks, tabs and NBSP, some punctuation and non-ASCII letters and symbols, kind edge adds non-ASCII letters and symbols, written as UTF-8"}})
	evals["C16"] = c16Eval
	shrinkers["C16"] = c16Shrink
}

// Segment pool: the early (most often drawn) entries are related by string prefix — "a" < "ab" <
// "abc", "a" < "a1", "a" < "a-b", "k" < "k1" — without being related by dotted prefix, and they
// fall on both sides of '.' in byte order ('-' < '.' < '0'), so that in sorted key order a sibling
// such as "ab" or "a1" follows the subtree of "a" while "a-b" precedes it.
var c16Segs = []string{"a", "ab", "b", "abc", "a1", "a-b", "k", "k1", "c", "x-y", "z_9", "A", "0", "x-"}
var c16Vals = []string{"", "1", "2", "x", "true", "v_1", "a-b", "x.y", "007", "Zz"}

// c16TextVals: values as TEXT (one kv case in three draws from this pool as well): trailing and inner blanks (space,
// tab, NBSP), values that differ from another one by case or by a trailing blank only, boolean / null / number
// spellings incl. very long digit strings and precision boundaries (a decoder must hand back the text, not a typed
// reading of it), punctuation that is syntax elsewhere, non-ASCII incl. supplementary-plane characters and U+FFFD.
var c16TextVals = []string{"x ", "x  ", "x\t", "x \t", "a b", "a  b", "a\tb", "$ ", "[app] ", ", ", "x", "X", "true ", "TRUE", "True", "t", "F", "0", "1 ",
	"null", "~", "-0", "+1", "1.0", "1e3", "0x1F", "9007199254740993", "9223372036854775808", "18446744073709551616", "123456789012345678901234567890",
	"a,b;c", "(x)", "[0]", "a/b", "50%", "a|b", "x\u00a0", "h\u00e9llo", "\U0001F680", "\U0001D6FC x", "\ufffd", "\u65e5\u672c "}

// values that are not placeholder expressions but contain their characters
var c16Stray = []string{"$", "}", "{", "$}", "}{", "$$", "a$b", "{a}", "$a", "${}", "}$", "$.{", "1}", "{-"}

// c16Undefined are dotted names that are never keys of a generated set (segments outside the pool).
var c16Undefined = []string{"nokey", "u.v", "a.undefined", "NO_SUCH_KEY_9"}

func c16Wrap(r *rand.Rand, s string) string {
	if r.Intn(2) == 0 {
		s = pick(r, []string{"x", "1-", "v_", "."}) + s
	}
	if r.Intn(2) == 0 {
		s += pick(r, []string{"y", ".0", "-z", "_"})
	}
	return s
}

// c16ExprVal draws a value containing placeholder syntax for the key `self` of the set `keys`.
func c16ExprVal(r *rand.Rand, keys []string, self string) string {
	other := func() string { return keys[r.Intn(len(keys))] }
	switch r.Intn(9) {
	case 0: // names its own key
		return c16Wrap(r, "${"+self+"}")
	case 1, 2: // names a key of the set (possibly itself, possibly closing a ring)
		return c16Wrap(r, "${"+other()+"}")
	case 3: // names a key that is not defined
		return c16Wrap(r, "${"+pick(r, c16Undefined)+"}")
	case 4: // opened, never closed
		return c16Wrap(r, "") + "${" + pick(r, []string{"", "a", self, other(), "x.y"})
	case 5: // two expressions
		return "${" + other() + "}" + pick(r, []string{"", "-", "."}) + "${" + pick(r, []string{other(), self, pick(r, c16Undefined)}) + "}"
	case 6: // nested / doubled prefix
		return pick(r, []string{"${${" + other() + "}}", "$${" + other() + "}", "${" + other() + "}}", "{${" + other() + "}", "${" + other() + "${"})
	default: // the characters alone
		return pick(r, c16Stray)
	}
}

func c16Key(r *rand.Rand) string {
	n := 1 + r.Intn(4)
	if r.Intn(3) == 0 {
		n = 1 + r.Intn(2)
	}
	parts := make([]string, n)
	for i := range parts {
		// a small effective pool per level so that keys share prefixes often
		parts[i] = c16Segs[r.Intn(3+r.Intn(len(c16Segs)-2))]
	}
	return strings.Join(parts, ".")
}

// c16GenDeep: a key set shaped like a deep tree — keys of up to 10 segments that fork at every depth
// (each new key keeps a prefix of an earlier one and continues with 1-4 segments of its own, often
// just one: sibling leaves and sibling containers below containers at depth 3, 5, 6, 7, 9), dotted
// prefixes removed (mode 0) or kept (mode 1).
func c16GenDeep(r *rand.Rand, mode int) c16KV {
	seg := func() string { return c16Segs[r.Intn(3+r.Intn(len(c16Segs)-2))] }
	first := make([]string, pick(r, []int{4, 5, 5, 6, 7, 8, 9, 10}))
	for i := range first {
		first[i] = seg()
	}
	keys := [][]string{first}
	for n := 1 + r.Intn(7); n > 0; n-- {
		base := keys[r.Intn(len(keys))]
		keep := r.Intn(len(base))
		if r.Intn(2) == 0 && len(base) >= 3 { // fork close to the end of the earlier key
			keep = len(base) - 1 - r.Intn(3)
		}
		k := append([]string{}, base[:keep]...)
		for m := 1 + r.Intn(1+r.Intn(4)); m > 0 && len(k) < 10; m-- {
			k = append(k, seg())
		}
		keys = append(keys, k)
	}
	set := map[string]bool{}
	var flat []string
	for _, k := range keys {
		if s := strings.Join(k, "."); !set[s] {
			set[s] = true
			flat = append(flat, s)
		}
	}
	if mode == 0 {
		var keep []string
		for _, a := range flat {
			bad := false
			for _, b := range flat {
				if c16IsPrefix(a, b) {
					bad = true
				}
			}
			if !bad {
				keep = append(keep, a)
			}
		}
		flat = keep
	}
	r.Shuffle(len(flat), func(i, j int) { flat[i], flat[j] = flat[j], flat[i] })
	out := c16KV{Pairs: [][2]string{}}
	for _, k := range flat {
		out.Pairs = append(out.Pairs, [2]string{k, c16Vals[r.Intn(len(c16Vals))]})
	}
	return out
}

func c16IsPrefix(a, b string) bool { // a is a proper dotted prefix of b
	return len(a) < len(b) && strings.HasPrefix(b, a+".")
}

// c16SiblingPrefix: some key's parent path is a plain string prefix, but not a dotted prefix, of
// the key that follows it in sorted order (app.db.port, app.dbpool.size).
func c16SiblingPrefix(sorted []string) bool {
	for i := 0; i+1 < len(sorted); i++ {
		j := strings.LastIndex(sorted[i], ".")
		if j > 0 && strings.HasPrefix(sorted[i+1], sorted[i][:j]) && !strings.HasPrefix(sorted[i+1], sorted[i][:j+1]) {
			return true
		}
	}
	return false
}

// c16DeepFork: some container at depth >= 3 has at least two children that are containers.
func c16DeepFork(keys []string) bool {
	kids := map[string]map[string]bool{}
	for _, k := range keys {
		segs := strings.Split(k, ".")
		for d := 3; d+1 < len(segs); d++ {
			p := strings.Join(segs[:d], ".")
			if kids[p] == nil {
				kids[p] = map[string]bool{}
			}
			kids[p][segs[d]] = true
		}
	}
	for _, m := range kids {
		if len(m) >= 2 {
			return true
		}
	}
	return false
}

func c16PrefixFree(keys []string) bool {
	for _, a := range keys {
		for _, b := range keys {
			if c16IsPrefix(a, b) {
				return false
			}
		}
	}
	return true
}

func c16Gen(r *rand.Rand, mode int) c16KV {
	n := r.Intn(9)
	set := map[string]bool{}
	var keys []string
	addKey := func(k string) {
		if !set[k] {
			set[k] = true
			keys = append(keys, k)
		}
	}
	for i := 0; i < n; i++ {
		addKey(c16Key(r))
	}
	switch mode {
	case 0: // prefix-free: drop every key that is a dotted prefix of another
		var keep []string
		for _, a := range keys {
			bad := false
			for _, b := range keys {
				if c16IsPrefix(a, b) {
					bad = true
				}
			}
			if !bad {
				keep = append(keep, a)
			}
		}
		keys = keep
	case 1: // conflicts: add prefixes / extensions of present keys
		m := 1 + r.Intn(3)
		for i := 0; i < m && len(keys) > 0; i++ {
			k := keys[r.Intn(len(keys))]
			if j := strings.LastIndex(k, "."); j > 0 && r.Intn(2) == 0 {
				if r.Intn(2) == 0 {
					addKey(k[:j])
				} else {
					addKey(k[:strings.Index(k, ".")])
				}
			} else {
				addKey(k + "." + c16Segs[r.Intn(len(c16Segs))])
			}
		}
	}
	r.Shuffle(len(keys), func(i, j int) { keys[i], keys[j] = keys[j], keys[i] })
	out := c16KV{Pairs: [][2]string{}}
	expr := r.Intn(3) == 0 // one case out of three has values with placeholder syntax
	text := r.Intn(3) == 0 // one case out of three has values from the text pool
	for _, k := range keys {
		v := c16Vals[r.Intn(len(c16Vals))]
		if text && r.Intn(2) == 0 {
			v = pick(r, c16TextVals)
		}
		if expr && r.Intn(2) == 0 {
			v = c16ExprVal(r, keys, k)
		}
		out.Pairs = append(out.Pairs, [2]string{k, v})
	}
	if expr && len(keys) >= 2 && r.Intn(3) == 0 {
		// a ring of 2-3 keys, each naming the next one
		n := 2 + r.Intn(2)
		if n > len(keys) {
			n = len(keys)
		}
		idx := r.Perm(len(keys))[:n]
		for i, j := range idx {
			out.Pairs[j][1] = c16Wrap(r, "${"+out.Pairs[idx[(i+1)%n]][0]+"}")
		}
	}
	return out
}

func c16Run(c *Ctx) {
	r := c.Rng
	for i := 0; i < c.N(1300); i++ {
		c.Tick()
		c.Do("kv", c16Gen(r, 0))
	}
	for i := 0; i < c.N(1300); i++ {
		c.Tick()
		c.Do("kv", c16Gen(r, 1))
	}
	for i := 0; i < c.N(400); i++ {
		c.Tick()
		c.Do("kv", c16Gen(r, 2))
	}
	for i := 0; i < c.N(300); i++ {
		c.Tick()
		c.Do("dots", c16GenDots(r))
	}
	for i := 0; i < c.N(300); i++ {
		c.Tick()
		mode := 0 // 3 in 4 prefix-free
		if r.Intn(4) == 0 {
			mode = 1
		}
		c.Do("kv", c16GenDeep(r, mode))
	}
	c16RunForm(c)
	c16RunEdge(c)
	c16RunBig(c)
	if c.Thorough() && !c.searchMode {
		for _, u := range [][]string{
			{"a", "b", "a.b", "a.c", "a.b.c", "b.a", "a.b.c.d"},
			// segments related by string prefix only, on both sides of '.' in byte order
			{"a.b", "a.b.x", "a.bc", "a-b.x", "a1", "ab.x", "abc"},
		} {
			c.Note("exhaustive scope: all %d subsets of %v, two line orders", 1<<len(u), u)
			for mask := 0; mask < 1<<len(u); mask++ {
				var ps [][2]string
				for i, k := range u {
					if mask&(1<<i) != 0 {
						ps = append(ps, [2]string{k, fmt.Sprint(i)})
					}
				}
				if ps == nil {
					ps = [][2]string{}
				}
				c.Do("kv", c16KV{Pairs: ps})
				rev := make([][2]string, len(ps))
				for i := range ps {
					rev[len(ps)-1-i] = ps[i]
				}
				c.Do("kv", c16KV{Pairs: rev})
			}
		}
	}
}

// c16FlattenPlain is the harness' own reference flattening of a plain tree.
func c16FlattenPlain(v any, path string, out map[string]any) {
	switch x := v.(type) {
	case map[string]any:
		for k, e := range x {
			p := k
			if path != "" {
				p = path + "." + k
			}
			c16FlattenPlain(e, p, out)
		}
	case []any:
		for i, e := range x {
			c16FlattenPlain(e, fmt.Sprintf("%s[%d]", path, i), out)
		}
	default:
		out[path] = v
	}
}

func c16FlatWire(m map[string]any) []any {
	out := make([]any, 0, len(m))
	for _, k := range sortedKeys(m) {
		out = append(out, []any{k, scalarWire(m[k])})
	}
	return out
}

func c16PairsWire(m map[string]string) []any {
	out := make([]any, 0, len(m))
	for _, k := range sortedKeys(m) {
		out = append(out, []any{k, m[k]})
	}
	return out
}

// c16ParseLines is the harness' own k=v line reader (independent of the library and the model).
func c16ParseLines(text string) (map[string]string, bool) {
	out := map[string]string{}
	for _, l := range strings.Split(text, "\n") {
		if l == "" {
			continue
		}
		i := strings.Index(l, "=")
		if i < 0 {
			return nil, false
		}
		if _, dup := out[l[:i]]; dup {
			return nil, false
		}
		out[l[:i]] = l[i+1:]
	}
	return out, true
}

func c16Eval(c *Ctx, kind string, raw []byte) {
	switch kind {
	case "kv":
	case "dots":
		c16EvalDots(c, raw)
		return
	case "big":
		c16EvalBig(c, raw)
		return
	case "edge":
		c16EvalEdge(c, raw)
		return
	case "form":
		c16EvalForm(c, raw)
		return
	default:
		return
	}
	var p c16KV
	if err := json.Unmarshal(raw, &p); err != nil {
		panic(err)
	}
	// domain: unique path-safe dotted keys, values that need no escaping
	kv := map[string]string{}
	for _, e := range p.Pairs {
		if !c16KeyRe.MatchString(e[0]) || !c16ValOK(e[1]) {
			return
		}
		if _, dup := kv[e[0]]; dup {
			return
		}
		kv[e[0]] = e[1]
	}
	keys := sortedKeys(kv)
	prefixFree := c16PrefixFree(keys)
	deep := false
	for _, k := range keys {
		if strings.Contains(k, ".") {
			deep = true
		}
	}
	if len(keys) >= 2 && deep {
		c.Nontrivial()
	}
	if prefixFree {
		c.Dist("keys:prefix-free")
	} else {
		c.Dist("keys:conflicting")
	}
	c.Dist(fmt.Sprintf("keys:n=%d", len(keys)))
	maxSegs := 0
	for _, k := range keys {
		maxSegs = max(maxSegs, strings.Count(k, ".")+1)
	}
	c.Dist(fmt.Sprintf("keys:longest=%d-segments", maxSegs))
	if c16DeepFork(keys) {
		c.Dist("keys:two-sibling-containers-at-depth>=3")
	}
	if c16SiblingPrefix(keys) {
		c.Dist("keys:sibling-segment-is-string-prefix-of-next")
	}
	for _, k := range keys {
		if strings.ContainsAny(kv[k], "${}") {
			c.Dist("values:with-$-{-}")
			break
		}
	}
	for _, k := range keys {
		if v := kv[k]; strings.HasSuffix(v, " ") || strings.HasSuffix(v, "\t") {
			c.Dist("values:ending-in-a-blank")
			break
		}
	}
	for _, k := range keys {
		if !c16ValRe.MatchString(kv[k]) {
			c.Dist("values:text(blanks/punctuation/non-ASCII)")
			break
		}
	}
	var sb strings.Builder
	for _, e := range p.Pairs {
		sb.WriteString(e[0] + "=" + e[1] + "\n")
	}
	text := sb.String()
	kvAny := func() map[string]any {
		m := map[string]any{}
		for k, v := range kv {
			m[k] = v
		}
		return m
	}
	want := canon(c16FlatWire(kvAny()))
	wantSig := c16FlatSig(kv, func(v string) any { return v })
	leafVal := func(l dom.Leaf) any { return l.Value() }
	anyVal := func(v any) any { return v }

	var readerW, readerFlat, propsW, propsFlat, unflW, unflFlat, embW W
	var loadPairs, encPairs, domEncPairs []any
	out, txt := guard(func() {
		// --- decoding the text, 50 times, through FromReader with props.DecoderFn (after a decode of an
		// unrelated text whose reader failed part-way)
		_, _ = dom.Builder().FromReader(&c16FailReader{s: c16DecoyText, n: []int{0, 3, 700}[len(text)%3]}, props.DecoderFn)
		first := ""
		for i := 0; i < c16Repeats; i++ {
			dec := props.DecoderFn
			if i%2 == 1 {
				dec = common.DefaultFileDecoderProvider("x.properties")
			}
			cb, err := dom.Builder().FromReader(strings.NewReader(text), dec)
			if !c.Direct("decode-no-error", err == nil, fmt.Sprint(err)) {
				return
			}
			// (runs are compared by signature, see c16_sig.go; the wire form is built for the first run
			// and for a run that differs)
			s := c16NodeSig(cb)
			if i == 0 {
				first, readerW, readerFlat = s, nodeWire(cb), flattenWire(cb)
				// flattening the same document a second time shows the same leaves
				if again := flattenWire(cb); prefixFree && canon(again) != canon(readerFlat) {
					c.Direct("flatten(FromReader(render(kv)))==kv", false, map[string]any{"flatten": again, "flatten-called": "a second time on the same document", "first-call": readerFlat})
				}
			}
			if s != first {
				c.Direct("50-decodes-one-result", false, map[string]any{"run": i, "first": readerW, "this": nodeWire(cb)})
				return
			}
		}
		if prefixFree {
			c.Direct("flatten(FromReader(render(kv)))==kv", canon(readerFlat) == want, map[string]any{"flatten": readerFlat, "kv": json.RawMessage(want)})
		}
		// --- FromProperties
		firstP := ""
		var firstPW W
		stable := true
		for i := 0; i < c16Repeats; i++ {
			cb := dom.Builder().FromProperties(kvAny())
			s := c16NodeSig(cb)
			if i == 0 {
				firstP, firstPW, propsW, propsFlat = s, nodeWire(cb), nodeWire(cb), flattenWire(cb)
			} else if s != firstP {
				stable = false
				propsW = map[string]any{"unstable": []any{firstPW, nodeWire(cb)}}
			}
			if prefixFree && c16FlatSig(cb.Flatten(), leafVal) != wantSig {
				if fw := flattenWire(cb); canon(fw) != want {
					c.Direct("flatten(FromProperties(kv))==kv", false, map[string]any{"flatten": fw, "kv": json.RawMessage(want)})
					break
				}
			}
		}
		// --- utils.Unflatten
		firstU := ""
		var firstUW W
		for i := 0; i < c16Repeats; i++ {
			u := utils.Unflatten(kvAny())
			var usb strings.Builder
			c16PlainSig(&usb, u)
			s := usb.String()
			fl := map[string]any{}
			c16FlattenPlain(u, "", fl)
			if i == 0 {
				firstU, firstUW, unflW, unflFlat = s, plainWire(u), plainWire(u), c16FlatWire(fl)
			} else if s != firstU {
				stable = false
				unflW = map[string]any{"unstable": []any{firstUW, plainWire(u)}}
			}
			if prefixFree && c16FlatSig(fl, anyVal) != wantSig {
				if fw := c16FlatWire(fl); canon(fw) != want {
					c.Direct("flattenPlain(Unflatten(kv))==kv", false, map[string]any{"flatten": fw, "kv": json.RawMessage(want)})
					break
				}
			}
		}
		// --- "building a document from such a flat map does the same": on a conflict-free set
		// FromProperties(kv), FromReader(render(kv)) and FromMap(Unflatten(kv)) are one document
		if prefixFree && stable {
			c.Direct("FromProperties(kv)==FromReader(render(kv))", canon(propsW) == canon(readerW), map[string]any{"fromProperties": propsW, "fromReader": readerW})
			viaMap := nodeWire(dom.Builder().FromMap(utils.Unflatten(kvAny())))
			c.Direct("FromProperties(kv)==FromMap(Unflatten(kv))", canon(propsW) == canon(viaMap), map[string]any{"fromProperties": propsW, "fromMap(unflatten)": viaMap})
		}
		// --- k8s.DecodeEmbeddedProps on a ConfigMap holding the same pairs
		firstE := ""
		var firstEW W
		for i := 0; i < 20; i++ {
			m, err := k8s.ManifestFromBytes([]byte("kind: ConfigMap\n"))
			if err != nil {
				panic(err)
			}
			for k, v := range kv {
				m.StringData().Update(k, v)
			}
			cb, err := k8s.DecodeEmbeddedProps()(m)
			if err != nil {
				panic(err)
			}
			s := c16NodeSig(cb)
			if i == 0 {
				firstE, firstEW, embW = s, nodeWire(cb), nodeWire(cb)
			} else if s != firstE {
				stable = false
				embW = map[string]any{"unstable": []any{firstEW, nodeWire(cb)}}
			}
		}
		if !stable {
			c.Dist("unstable-build")
		}
		// --- the library's view of the text (contract of the `load` parameter)
		// Load also runs a self-check of ${…} expressions and reports its failure next to a fully
		// usable result; the raw pairs of Map() are the contract, whatever that check says.
		if lp, err := properties.Load([]byte(text), properties.UTF8); lp != nil {
			loadPairs = c16PairsWire(lp.Map())
			if err != nil {
				c.Dist("values:expansion-check-fails")
			}
		}
		// --- encoders: EncoderFn (directly and through the provider), DomEncoderFn
		// An earlier encode of an unrelated map whose writer failed must leave no trace in a later
		// encode (the round-trip clause holds for every history of calls, not only the first).
		c16EncoderDecoys(len(text))
		for i, enc := range []dom.EncoderFunc{props.EncoderFn, common.DefaultFileEncoderProvider("x.properties")} {
			var buf bytes.Buffer
			err := enc(&buf, kvAny())
			c.Direct("encode-no-error", err == nil, fmt.Sprint(err))
			back, ok := c16ParseLines(buf.String())
			c.Direct("EncoderFn-writes-one-k=v-line-per-entry", ok && canon(c16PairsWire(back)) == canon(c16PairsWire(kv)), buf.String())
			if i == 0 {
				encPairs = c16PairsWire(back)
			}
			res := map[string]any{}
			err = props.DecoderFn(&buf2{bytes.NewReader(buf.Bytes())}, &res)
			c.Direct("decode-no-error", err == nil, fmt.Sprint(err))
			if prefixFree {
				fl := map[string]any{}
				c16FlattenPlain(res, "", fl)
				c.Direct("DecoderFn(EncoderFn(kv))==kv", canon(c16FlatWire(fl)) == want, map[string]any{"decoded": c16FlatWire(fl), "kv": json.RawMessage(want)})
			} else {
				// conflicting keys: the text written by the encoder decodes like the rendered text
				c.Direct("DecoderFn(EncoderFn(kv))==DecoderFn(render(kv))", canon(plainWire(res)) == canon(unflW), map[string]any{"decoded": plainWire(res), "unflatten": unflW})
			}
		}
		{
			flat := dom.Builder().Container()
			for _, k := range keys {
				flat.AddValue(k, dom.LeafNode(kv[k]))
			}
			var buf bytes.Buffer
			err := props.DomEncoderFn(&buf, flat)
			c.Direct("encode-no-error", err == nil, fmt.Sprint(err))
			back, ok := c16ParseLines(buf.String())
			c.Direct("DomEncoderFn-writes-one-k=v-line-per-entry", ok && canon(c16PairsWire(back)) == canon(c16PairsWire(kv)), buf.String())
			domEncPairs = c16PairsWire(back)
			res := map[string]any{}
			err = props.DecoderFn(bytes.NewReader(buf.Bytes()), &res)
			c.Direct("decode-no-error", err == nil, fmt.Sprint(err))
			if prefixFree {
				fl := map[string]any{}
				c16FlattenPlain(res, "", fl)
				c.Direct("DecoderFn(DomEncoderFn(kv))==kv", canon(c16FlatWire(fl)) == want, map[string]any{"decoded": c16FlatWire(fl), "kv": json.RawMessage(want)})
			}
		}
	})
	if !c.Direct("no-panic", out == "ok", txt) {
		return
	}
	if len(c.curFailed) > 0 {
		return
	}
	pairs := make([]any, 0, len(p.Pairs))
	for _, e := range p.Pairs {
		pairs = append(pairs, []any{e[0], e[1]})
	}
	m, _ := c.Model("kv", map[string]any{"kv": pairs, "text": text}).(map[string]any)
	if m == nil {
		c.Corr("kv", "model result", m)
		return
	}
	c.Corr("unflatten", unflW, m["unflatten"])
	c.Corr("unflattenFlat", unflFlat, m["unflattenFlat"])
	c.Corr("fromProperties", propsW, m["fromProperties"])
	c.Corr("fromPropertiesFlat", propsFlat, m["fromPropertiesFlat"])
	c.Corr("decodeEmbeddedProps", embW, m["fromProperties"])
	c.Corr("fromReader", readerW, m["fromReader"])
	c.Corr("fromReaderFlat", readerFlat, m["fromReaderFlat"])
	c.Corr("parse", loadPairs, m["parse"])
	c.Corr("encode", encPairs, m["encode"])
	c.Corr("domEncode", domEncPairs, m["domEncode"])
}

// c16Shrink proposes smaller key/value sets, always as well-formed pairs: one pair less, then per
// pair the empty value, a key with one segment less, a key / value with one character less.
func c16Shrink(kind string, raw []byte) [][]byte {
	if kind == "big" {
		return c16ShrinkBig(raw)
	}
	if kind == "edge" {
		return c16ShrinkEdge(raw)
	}
	if kind == "form" {
		return c16ShrinkForm(raw)
	}
	var p c16KV
	if json.Unmarshal(raw, &p) != nil {
		return nil
	}
	var out [][]byte
	add := func(q c16KV) {
		if b, err := json.Marshal(q); err == nil && len(b) < len(raw) {
			out = append(out, b)
		}
	}
	emit := func(i, j int, s string) {
		q := c16KV{Pairs: make([][2]string, len(p.Pairs))}
		copy(q.Pairs, p.Pairs)
		q.Pairs[i][j] = s
		add(q)
	}
	for i := range p.Pairs {
		q := c16KV{Pairs: [][2]string{}}
		q.Pairs = append(append(q.Pairs, p.Pairs[:i]...), p.Pairs[i+1:]...)
		add(q)
	}
	if kind == "dots" {
		c16ShrinkDots(p, add)
	}
	for i, e := range p.Pairs {
		if e[1] != "" {
			emit(i, 1, "")
		}
		if segs := strings.Split(e[0], "."); len(segs) > 1 {
			for j := range segs {
				emit(i, 0, strings.Join(append(append([]string{}, segs[:j]...), segs[j+1:]...), "."))
			}
		}
	}
	for i, e := range p.Pairs {
		for j := 0; j < 2; j++ {
			for k := range e[j] {
				emit(i, j, e[j][:k]+e[j][k+1:])
			}
		}
	}
	if len(out) > 600 {
		out = out[:600]
	}
	return out
}

// buf2 hides every method but Read (DecoderFn must work with a plain io.Reader).
type buf2 struct{ r *bytes.Reader }

func (b *buf2) Read(p []byte) (int, error) { return b.r.Read(p) }

var _ = sort.Strings
