package main

import (
	"fmt"
	"math/rand"
	"sort"
	"strconv"
	"strings"

	"github.com/rkosegi/yaml-toolkit/dom"
)

// C17, histories on an embedded document that hold NESTED HANDLES.
//
// The embedded-document clause speaks about every edit sequence: "a document embedded in a manifest item, once
// edited and saved, reopens equal to the edited document".  The document handed out by Document() is an ordinary
// dom builder, so an edit sequence is any interleaving of
//
//	root builder calls             AddValueAt / RemoveAt on Document()
//	calls on nested containers     AddValue / Remove / AddContainer / AddList on a handle obtained through
//	                               Lookup(path), a chain of Child() calls, or returned by AddContainer earlier
//	calls on nested lists          Append / Set / MustSet(in range) / Clear on a list handle obtained the same way
//
// with Saves and READS in between.  Handles are obtained when the document is opened and after every round and are
// RETAINED by the history (a handle is used only while Lookup still finds the very same node at its path).  Before
// and after every edit the document is read through every read API (walk of Children/Items/Value, Flatten (twice),
// Lookup of every flattened and composite path, Search for every leaf value, AsMap, Serialize as YAML and JSON,
// Clone, Equals, a sealed view obtained at the start, and every retained handle's own Flatten / AsMap / Items / Size /
// AsSlice); all observations must agree with each other, with a freshly built document of the same content, with
// what a plain-tree edit of the previous content gives (nested edits), and - through the rounds' edited documents -
// with the model.  Results of earlier reads (the map Flatten returned, the map AsMap returned) must not change
// when the document is edited afterwards.

// c17DocEdit: one edit of an embedded document.
//
//	addat | removeat                      root builder: AddValueAt(Path, V) / RemoveAt(Path)
//	hadd | hremove | haddcont | haddlist  through the handle of the Sel-th container of the document (sorted paths, the
//	                                      root first): AddValue(Key, V) | Remove(Key) (Key "": the Idx-th existing key) |
//	                                      AddContainer(Key) then AddValue of V's members through the returned handle |
//	                                      AddList(Key) then Append of V's items through the returned handle
//	hshare                                AddValue(Key, n) where n is the very leaf OBJECT the container already holds under
//	                                      its Idx-th leaf key: one node instance attached at two positions
//	lappend | lset | lmustset | lclear    through the handle of the Sel-th list: Append(V) | Set(Idx, V) |
//	                                      MustSet(Idx mod size, V) | Clear()
//
// How: where the handle comes from - "lookup" Lookup(path) now | "child" Child() step by step now | "held" the handle
// the history obtained earlier (when the document was opened / after an earlier round / from AddContainer/AddList).
type c17DocEdit struct {
	Op   string `json:"op"`
	Path string `json:"path"`
	Idx  int    `json:"idx"`
	V    W      `json:"v,omitempty"`
	Key  string `json:"key,omitempty"`
	Sel  int    `json:"sel,omitempty"`
	How  string `json:"how,omitempty"`
}

var c17NestedOps = []string{"hadd", "hadd", "hadd", "hremove", "hremove", "haddcont", "haddlist", "hshare", "lappend", "lset", "lmustset", "lclear"}

// c17GenNested: an edit through a nested handle, by another route than the previous one.
func c17GenNested(r *rand.Rand, g *DocGen, last *string) c17DocEdit {
	var e c17DocEdit
	for tries := 0; tries < 8; tries++ {
		e = c17DocEdit{Op: pick(r, c17NestedOps), How: pick(r, []string{"lookup", "child", "held", "held"}), Sel: r.Intn(24)}
		if e.Op+"/"+e.How != *last {
			break
		}
	}
	*last = e.Op + "/" + e.How
	val := func() W {
		if r.Intn(3) == 0 {
			return g.Node(r, g.MaxDepth-1)
		}
		return g.Scalar(r)
	}
	switch e.Op {
	case "hadd":
		e.Key, e.V = pick(r, g.Keys), val()
	case "hremove":
		e.Idx = r.Intn(6)
		if r.Intn(3) == 0 {
			e.Key = pick(r, g.Keys)
		}
	case "hshare":
		e.Key, e.Idx = pick(r, g.Keys), r.Intn(6)
	case "haddcont":
		e.Key = pick(r, g.Keys)
		m := map[string]any{}
		for n := r.Intn(3); n > 0; n-- {
			m[pick(r, g.Keys)] = g.Scalar(r)
		}
		e.V = map[string]any{"m": m}
	case "haddlist":
		e.Key = pick(r, g.Keys)
		l := []any{}
		for n := r.Intn(4); n > 0; n-- {
			l = append(l, g.Scalar(r))
		}
		e.V = l
	case "lappend":
		e.V = val()
	case "lset":
		e.Idx, e.V = r.Intn(5), val()
	case "lmustset":
		e.Idx, e.V = r.Intn(8), val()
	}
	return e
}

// ---------------------------------------------------------------- wire helpers (plain-tree side)

// c17Steps: a lookup path as keys (string) and list indexes (int).
func c17Steps(path string) []any {
	var out []any
	if path == "" {
		return out
	}
	for _, comp := range strings.Split(path, ".") {
		base := comp
		var idxs []int
		for strings.HasSuffix(base, "]") {
			i := strings.LastIndexByte(base, '[')
			if i < 0 {
				break
			}
			n, err := strconv.Atoi(base[i+1 : len(base)-1])
			if err != nil {
				break
			}
			idxs = append([]int{n}, idxs...)
			base = base[:i]
		}
		out = append(out, base)
		for _, i := range idxs {
			out = append(out, i)
		}
	}
	return out
}

func c17WireAt(w W, steps []any) W {
	for _, s := range steps {
		switch k := s.(type) {
		case string:
			m, ok := wireCont(w)
			if !ok {
				return nil
			}
			if w, ok = m[k]; !ok {
				return nil
			}
		case int:
			l, ok := w.([]any)
			if !ok || k >= len(l) {
				return nil
			}
			w = l[k]
		}
	}
	return w
}

// c17WireUpdate replaces the node at steps by f(node), in place (no-op when absent).
func c17WireUpdate(w W, steps []any, f func(W) W) W {
	if len(steps) == 0 {
		return f(w)
	}
	switch k := steps[0].(type) {
	case string:
		if m, ok := wireCont(w); ok {
			if ch, ok := m[k]; ok {
				m[k] = c17WireUpdate(ch, steps[1:], f)
			}
		}
	case int:
		if l, ok := w.([]any); ok && k < len(l) {
			l[k] = c17WireUpdate(l[k], steps[1:], f)
		}
	}
	return w
}

// c17Composites: the lookup paths of the containers (the root "" first) and of the lists of a document, sorted walk.
func c17Composites(w W, prefix string, conts, lists *[]string) {
	switch x := w.(type) {
	case []any:
		*lists = append(*lists, prefix)
		for i, e := range x {
			c17Composites(e, fmt.Sprintf("%s[%d]", prefix, i), conts, lists)
		}
	case map[string]any:
		if m, ok := x["m"].(map[string]any); ok {
			*conts = append(*conts, prefix)
			for _, k := range sortedKeys(m) {
				p := k
				if prefix != "" {
					p = prefix + "." + k
				}
				c17Composites(m[k], p, conts, lists)
			}
		}
	}
}

func c17LeafText(v any) string { return fmt.Sprintf("%T(%v)", v, v) }

// c17RefFlat: flatten written from the property text (dotted keys, [i] indexes, one entry per scalar position),
// values as Go type and %v text.
func c17RefFlat(w W, path string, out map[string]string) {
	switch x := w.(type) {
	case []any:
		for i, e := range x {
			c17RefFlat(e, fmt.Sprintf("%s[%d]", path, i), out)
		}
	case map[string]any:
		if m, ok := x["m"].(map[string]any); ok {
			for k, e := range m {
				p := k
				if path != "" {
					p = path + "." + k
				}
				c17RefFlat(e, p, out)
			}
			return
		}
		out[path] = c17LeafText(wirePlain(x))
	}
}

// c17RefStringified: what a properties file can hold of the document: flattened paths, values printed with %v.
func c17RefStringified(w W) map[string]string {
	var walk func(w W, path string, out map[string]string)
	walk = func(w W, path string, out map[string]string) {
		switch x := w.(type) {
		case []any:
			for i, e := range x {
				walk(e, fmt.Sprintf("%s[%d]", path, i), out)
			}
		case map[string]any:
			if m, ok := x["m"].(map[string]any); ok {
				for k, e := range m {
					p := k
					if path != "" {
						p = path + "." + k
					}
					walk(e, p, out)
				}
				return
			}
			out[path] = fmt.Sprintf("%v", wirePlain(x))
		}
	}
	out := map[string]string{}
	walk(w, "", out)
	return out
}

// ---------------------------------------------------------------- reading a document through every read API

type c17Reads struct {
	W      W                   `json:"w"`      // walk of Children / Items / Value
	Flat   map[string]string   `json:"flat"`   // Flatten()
	Again  bool                `json:"again"`  // a second Flatten() call returned the same
	Look   map[string]string   `json:"look"`   // Lookup(p) for every flattened path and every composite path
	Search map[string][]string `json:"search"` // Search(SearchEqual(v)) for every leaf value v (and one absent value)
	AsMap  string              `json:"asMap"`
	Yaml   string              `json:"yaml"`
	Json   string              `json:"json"`
	Clone  W                   `json:"clone"`
	Eq     string              `json:"eq"` // Equals(self), Equals(clone), clone.Equals(doc)

	flatMap map[string]dom.Leaf
	asMap   map[string]any
}

func c17TypedFlat(n dom.Container) (map[string]string, map[string]dom.Leaf) {
	fl := n.Flatten()
	out := map[string]string{}
	for k, v := range fl {
		out[k] = c17LeafText(v.Value())
	}
	return out, fl
}

func c17SerializeText(n dom.Container, enc dom.EncoderFunc) string {
	var sb strings.Builder
	if err := n.Serialize(&sb, dom.DefaultNodeEncoderFn, enc); err != nil {
		return "error"
	}
	return sb.String()
}

func c17ReadDoc(n dom.Container) c17Reads {
	var rd c17Reads
	rd.W = nodeWire(n)
	rd.Flat, rd.flatMap = c17TypedFlat(n)
	second, _ := c17TypedFlat(n)
	rd.Again = canon(second) == canon(rd.Flat)
	rd.Look = map[string]string{}
	var conts, lists []string
	c17Composites(rd.W, "", &conts, &lists)
	paths := append(append(sortedKeys(rd.Flat), conts...), lists...)
	for _, p := range paths {
		if p != "" {
			rd.Look[p] = canon(nodeWire(n.Lookup(p)))
		}
	}
	rd.Search = map[string][]string{}
	search := func(v any) {
		res := append([]string{}, n.Search(dom.SearchEqual(v))...)
		sort.Strings(res)
		rd.Search[c17LeafText(v)] = res
	}
	for _, k := range sortedKeys(rd.flatMap) {
		search(rd.flatMap[k].Value())
	}
	search("\x00 no such value")
	rd.asMap = n.AsMap()
	rd.AsMap = canon(rd.asMap)
	rd.Yaml = c17SerializeText(n, dom.DefaultYamlEncoder)
	rd.Json = c17SerializeText(n, dom.DefaultJsonEncoder)
	cl := n.Clone()
	rd.Clone = nodeWire(cl)
	rd.Eq = fmt.Sprint(n.Equals(n), n.Equals(cl), cl.Equals(n))
	return rd
}

// ---------------------------------------------------------------- the history

type c17Hist struct {
	root   dom.ContainerBuilder
	sealed dom.Container
	held   map[string]dom.Node // handles the history holds, by the path they were obtained at
	holds  int
	model  []map[string]any // the edits of the current round in the model's terms

	last  *c17Reads // what the reads after the previous edit / Save showed (nothing has touched the document since)
	steps int

	keptFlat     map[string]dom.Leaf // what an earlier Flatten() returned, and what it showed then
	keptFlatText string
	keptMap      map[string]any // what an earlier AsMap() returned
	keptMapText  string
}

func c17NewHist(root dom.ContainerBuilder) *c17Hist {
	h := &c17Hist{root: root, sealed: root.Seal(), held: map[string]dom.Node{}, model: []map[string]any{}}
	h.hold()
	return h
}

func c17Resolve(root dom.Container, path, how string) dom.Node {
	if path == "" {
		return root
	}
	if how == "child" {
		var cur dom.Node = root
		for _, comp := range strings.Split(path, ".") {
			c, ok := cur.(dom.Container)
			if !ok {
				return nil
			}
			if cur = c.Child(comp); cur == nil {
				return nil
			}
		}
		return cur
	}
	return root.Lookup(path)
}

// hold: obtain and retain a handle to every container and list the document has now (alternating between Lookup and
// Child chains); handles already held and still in place are kept as they are.
func (h *c17Hist) hold() {
	var conts, lists []string
	c17Composites(nodeWire(h.root), "", &conts, &lists)
	for _, p := range append(conts, lists...) {
		if p == "" {
			continue
		}
		if old, ok := h.held[p]; ok && c17Resolve(h.root, p, "lookup") == old {
			continue
		}
		h.holds++
		how := "lookup"
		if h.holds%2 == 0 {
			how = "child"
		}
		if n := c17Resolve(h.root, p, how); n != nil {
			h.held[p] = n
		}
	}
}

// touched: the document has been edited behind the history's back (fault injection): earlier reads are out of date.
func (h *c17Hist) touched() { h.last = nil }

func (h *c17Hist) takeModel() []map[string]any {
	m := h.model
	h.model = []map[string]any{}
	return m
}

// handle: the handle for path by the route the edit names ("held": only while the held node is still what Lookup finds).
func (h *c17Hist) handle(path, how string) dom.Node {
	if path == "" {
		return h.root
	}
	if how == "held" {
		if n, ok := h.held[path]; ok && c17Resolve(h.root, path, "lookup") == n {
			return n
		}
		how = "lookup"
	}
	return c17Resolve(h.root, path, how)
}

// apply performs one edit on the implementation; returns the edit in the model's terms (nil: nothing was done) and,
// for nested edits, the plain-tree function that does the same to the walked document.
func (h *c17Hist) apply(c *Ctx, e c17DocEdit, before W) (me map[string]any, ref func(W) W) {
	switch e.Op {
	case "addat":
		h.root.AddValueAt(e.Path, wireNode(e.V))
		return map[string]any{"op": "addat", "path": e.Path, "v": e.V}, nil
	case "removeat":
		h.root.RemoveAt(e.Path)
		return map[string]any{"op": "removeat", "path": e.Path}, nil
	}
	var conts, lists []string
	c17Composites(before, "", &conts, &lists)
	sel := e.Sel
	if sel < 0 {
		sel = -sel
	}
	switch e.Op {
	case "hadd", "hremove", "haddcont", "haddlist", "hshare":
		// a nested container three times out of four when the document has one
		path := conts[0]
		if len(conts) > 1 && sel%4 != 0 {
			path = conts[1+(sel/4)%(len(conts)-1)]
		}
		cb, ok := h.handle(path, e.How).(dom.ContainerBuilder)
		if !ok {
			return nil, nil
		}
		steps := c17Steps(path)
		key := e.Key
		if e.Op == "hremove" && key == "" {
			m, _ := wireCont(c17WireAt(before, steps))
			keys := sortedKeys(m)
			if len(keys) == 0 {
				return nil, nil
			}
			key = keys[c17Abs(e.Idx)%len(keys)]
		}
		if key == "" || strings.ContainsAny(key, ".[]") {
			return nil, nil
		}
		c.Dist("docedit-route:" + map[bool]string{true: "root-as-handle", false: "nested-" + e.How}[path == ""])
		if e.Op == "hremove" {
			cb.Remove(key)
			return map[string]any{"op": "hremove", "path": path, "key": key}, func(w W) W {
				return c17WireUpdate(w, steps, func(x W) W {
					if m, ok := wireCont(x); ok {
						delete(m, key)
					}
					return x
				})
			}
		}
		v := e.V
		switch e.Op {
		case "hshare":
			m, _ := wireCont(c17WireAt(before, steps))
			var leafKeys []string
			for _, k := range sortedKeys(m) {
				if isWireLeaf(m[k]) {
					leafKeys = append(leafKeys, k)
				}
			}
			if len(leafKeys) == 0 {
				return nil, nil
			}
			src := leafKeys[c17Abs(e.Idx)%len(leafKeys)]
			n := cb.Child(src)
			if n == nil || !n.IsLeaf() {
				return nil, nil
			}
			v = deepCopyW(m[src])
			cb.AddValue(key, n)
		case "hadd":
			if v == nil {
				return nil, nil
			}
			cb.AddValue(key, wireNode(v))
		case "haddcont":
			m, _ := wireCont(v)
			if m == nil {
				m = map[string]any{}
			}
			for k := range m {
				if k == "" || strings.ContainsAny(k, ".[]") {
					delete(m, k)
				}
			}
			v = map[string]any{"m": m}
			nh := cb.AddContainer(key)
			for _, k := range sortedKeys(m) {
				nh.AddValue(k, wireNode(m[k]))
			}
			h.held[c17Join(path, key)] = nh
		case "haddlist":
			l, _ := v.([]any)
			if l == nil {
				l = []any{}
			}
			v = l
			nh := cb.AddList(key)
			for _, it := range l {
				nh.Append(wireNode(it))
			}
			h.held[c17Join(path, key)] = nh
		}
		return map[string]any{"op": "hadd", "path": path, "key": key, "v": v}, func(w W) W {
			return c17WireUpdate(w, steps, func(x W) W {
				if m, ok := wireCont(x); ok {
					m[key] = deepCopyW(v)
				}
				return x
			})
		}
	case "lappend", "lset", "lmustset", "lclear":
		if len(lists) == 0 {
			return nil, nil
		}
		path := lists[sel%len(lists)]
		lb, ok := h.handle(path, e.How).(dom.ListBuilder)
		if !ok {
			return nil, nil
		}
		steps := c17Steps(path)
		onList := func(f func(l []any) []any) func(W) W {
			return func(w W) W {
				return c17WireUpdate(w, steps, func(x W) W {
					if l, ok := x.([]any); ok {
						return f(l)
					}
					return x
				})
			}
		}
		idx := c17Abs(e.Idx)
		if e.Op != "lclear" && e.V == nil {
			return nil, nil
		}
		c.Dist("docedit-route:list-" + e.How)
		switch e.Op {
		case "lappend":
			lb.Append(wireNode(e.V))
			return map[string]any{"op": "lappend", "path": path, "v": e.V}, onList(func(l []any) []any { return append(l, deepCopyW(e.V)) })
		case "lset":
			if idx > 12 {
				idx %= 13
			}
			lb.Set(uint(idx), wireNode(e.V))
			return map[string]any{"op": "lset", "path": path, "idx": idx, "v": e.V}, onList(func(l []any) []any {
				for len(l) <= idx {
					l = append(l, scalarWire(nil))
				}
				l[idx] = deepCopyW(e.V)
				return l
			})
		case "lmustset":
			if lb.Size() == 0 {
				return nil, nil
			}
			idx %= lb.Size()
			lb.MustSet(uint(idx), wireNode(e.V))
			return map[string]any{"op": "lmustset", "path": path, "idx": idx, "v": e.V}, onList(func(l []any) []any {
				if idx < len(l) {
					l[idx] = deepCopyW(e.V)
				}
				return l
			})
		default:
			lb.Clear()
			return map[string]any{"op": "lclear", "path": path}, onList(func(l []any) []any { return []any{} })
		}
	}
	return nil, nil
}

func c17Join(path, key string) string {
	if path == "" {
		return key
	}
	return path + "." + key
}

func c17Abs(i int) int {
	if i < 0 {
		return -i
	}
	return i
}

// observe: read the document (and every handle the history holds) through every read API; everything read must
// agree with the walk of the document, with a fresh document of the same content, and with what earlier reads kept.
func (h *c17Hist) observe(c *Ctx, at any) c17Reads {
	live := c17ReadDoc(h.root)
	bad := func(clause string, ok bool, detail any) {
		c.Direct(clause, ok, map[string]any{"at": at, "document(walked)": live.W, "detail": detail})
	}
	ref := map[string]string{}
	c17RefFlat(live.W, "", ref)
	bad("reads-agree(Flatten()==flattening-of-the-walked-document)", canon(live.Flat) == canon(ref), map[string]any{"Flatten": live.Flat, "walked": ref})
	bad("reads-agree(Flatten-twice)", live.Again, nil)
	for p, got := range live.Look {
		if want := canon(c17WireAt(live.W, c17Steps(p))); got != want {
			bad("reads-agree(Lookup(path)==walked-document-at-path)", false, map[string]any{"path": p, "Lookup": got, "walked": want})
			break
		}
	}
	bad("reads-agree(AsMap()==walked-document)", live.AsMap == canon(wirePlain(live.W)), map[string]any{"AsMap": live.AsMap})
	bad("reads-agree(Clone()==walked-document)", canon(live.Clone) == canon(live.W) && live.Eq == "true true true", map[string]any{"clone": live.Clone, "equals": live.Eq})
	for val, paths := range live.Search {
		for _, p := range paths {
			if live.Flat[p] != val {
				bad("reads-agree(Search-results-are-flattened-paths-of-that-value)", false, map[string]any{"value": val, "path": p, "Flatten": live.Flat})
			}
		}
	}
	// a freshly built document of the same content, nobody has edited or read before
	fresh := c17ReadDoc(wireContainer(live.W))
	bad("reads-agree-with-fresh-document-of-same-content(Flatten)", canon(live.Flat) == canon(fresh.Flat), map[string]any{"live": live.Flat, "fresh": fresh.Flat})
	bad("reads-agree-with-fresh-document-of-same-content(Lookup)", canon(live.Look) == canon(fresh.Look), map[string]any{"live": live.Look, "fresh": fresh.Look})
	bad("reads-agree-with-fresh-document-of-same-content(Search)", canon(live.Search) == canon(fresh.Search), map[string]any{"live": live.Search, "fresh": fresh.Search})
	bad("reads-agree-with-fresh-document-of-same-content(AsMap)", live.AsMap == fresh.AsMap, map[string]any{"live": live.AsMap, "fresh": fresh.AsMap})
	bad("reads-agree-with-fresh-document-of-same-content(Serialize-yaml)", live.Yaml == fresh.Yaml, map[string]any{"live": live.Yaml, "fresh": fresh.Yaml})
	bad("reads-agree-with-fresh-document-of-same-content(Serialize-json)", live.Json == fresh.Json, map[string]any{"live": live.Json, "fresh": fresh.Json})
	// the sealed view obtained when the history began shows the same document
	sf, _ := c17TypedFlat(h.sealed)
	bad("sealed-view-shows-the-edited-document", canon(nodeWire(h.sealed)) == canon(live.W) && canon(sf) == canon(ref) && canon(h.sealed.AsMap()) == live.AsMap,
		map[string]any{"sealed(walked)": nodeWire(h.sealed), "sealed.Flatten": sf})
	// every handle the history holds shows its part of the document
	for _, p := range sortedKeys(h.held) {
		n := h.held[p]
		if c17Resolve(h.root, p, "lookup") != n {
			continue
		}
		want := c17WireAt(live.W, c17Steps(p))
		switch x := n.(type) {
		case dom.Container:
			hf, _ := c17TypedFlat(x)
			wf := map[string]string{}
			c17RefFlat(want, "", wf)
			bad("held-handle-shows-its-part-of-the-document(container)", canon(nodeWire(x)) == canon(want) && canon(hf) == canon(wf) && canon(x.AsMap()) == canon(wirePlain(want)),
				map[string]any{"path": p, "walked": nodeWire(x), "Flatten": hf, "AsMap": canon(x.AsMap())})
		case dom.List:
			bad("held-handle-shows-its-part-of-the-document(list)", canon(nodeWire(x)) == canon(want) && x.Size() == len(x.Items()) && canon(x.AsSlice()) == canon(wirePlain(want)),
				map[string]any{"path": p, "items": nodeWire(x), "size": x.Size(), "AsSlice": canon(x.AsSlice())})
		}
	}
	h.last = &live
	return live
}

// keep / kept: what a read returned earlier is not changed by later edits.
func (h *c17Hist) keep(rd c17Reads) {
	h.keptFlat, h.keptFlatText = rd.flatMap, canon(rd.Flat)
	h.keptMap, h.keptMapText = rd.asMap, rd.AsMap
}

func (h *c17Hist) kept(c *Ctx, at any) {
	if h.keptFlat == nil {
		return
	}
	now := map[string]string{}
	for k, v := range h.keptFlat {
		now[k] = c17LeafText(v.Value())
	}
	c.Direct("earlier-Flatten-result-unchanged-by-later-edit", canon(now) == h.keptFlatText, map[string]any{"at": at, "then": h.keptFlatText, "now": now})
	c.Direct("earlier-AsMap-result-unchanged-by-later-edit", canon(h.keptMap) == h.keptMapText, map[string]any{"at": at, "then": h.keptMapText, "now": canon(h.keptMap)})
}

// step: read everything, edit, read everything again.
func (h *c17Hist) step(c *Ctx, e c17DocEdit, at any) {
	// the reads before the edit: the ones that followed the previous edit / Save when nothing has happened since
	// (every fourth time they are repeated all the same: reading twice in a row)
	var before c17Reads
	if h.steps++; h.last != nil && h.steps%4 != 0 {
		before = *h.last
	} else {
		before = h.observe(c, map[string]any{"at": at, "before": e})
	}
	h.last = nil
	h.keep(before)
	me, ref := h.apply(c, e, before.W)
	if me == nil {
		c.Dist("docedit-noop:" + e.Op)
		return
	}
	h.model = append(h.model, me)
	after := h.observe(c, map[string]any{"at": at, "after": e})
	h.kept(c, map[string]any{"at": at, "after": e})
	if ref != nil {
		want := ref(deepCopyW(before.W))
		c.Direct("edit-through-nested-handle==same-edit-on-plain-tree", canon(after.W) == canon(want),
			map[string]any{"at": at, "edit": me, "before": before.W, "after": after.W, "plain-tree": want})
	}
}
