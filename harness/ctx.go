package main

import (
	"bufio"
	"crypto/sha256"
	"encoding/binary"
	"encoding/json"
	"fmt"
	"math/rand"
	"os"
	"path/filepath"
	"sort"
	"strings"
	"time"
)

// Failure is one recorded problem on one case.
type Failure struct {
	Clause  string          `json:"clause"`            // property clause or corr:<fn>
	Kind    string          `json:"kind"`              // case kind
	Case    json.RawMessage `json:"case"`              // the (shrunk) case
	Detail  any             `json:"detail,omitempty"`  // implementation output, expectation
	Finding string          `json:"finding,omitempty"` // classification key for known findings
}

type ProofStatus struct {
	BuildOK     bool     `json:"build_ok"`
	Obligations int      `json:"obligations"`
	Discharged  int      `json:"discharged"`
	Broken      []string `json:"broken"`
	CheckerCmd  string   `json:"checker_cmd"`
	Theorems    []any    `json:"theorems"`
	Generated   any      `json:"generated,omitempty"`
	Notes       []string `json:"notes,omitempty"`
}

type Ctx struct {
	P           *Prop
	Tier        string
	Seed        int64
	Rng         *rand.Rand
	Scale       float64
	VerifDir    string
	drv         *Driver
	drvPath     string
	drvRestarts int

	evaluations int
	distinct    map[uint64]struct{}
	nontrivial  map[uint64]struct{}
	samples     []any
	dist        map[string]int
	modelCalls  int
	corrChecked int

	direct []Failure // direct predicate failures (property falsified on the implementation)
	corr   []Failure // model / implementation divergences
	notes  []string

	proof ProofStatus

	// per-case state
	curKind    string
	curRaw     []byte
	curHash    uint64
	curFailed  map[string]bool
	probe      bool // shrinking / searching: do not count
	probeFail  map[string]bool
	probeDet   map[string]any // detail of each clause that failed during a probe
	searchMode bool
	replayMode bool
	deadline   time.Time
}

func newCtx(p *Prop, tier string, seed int64, drvPath, verifDir string, scale float64) *Ctx {
	if drvPath == "" {
		drvPath = filepath.Join(verifDir, "lean/.lake/build/bin/ytk-driver")
	}
	c := &Ctx{P: p, Tier: tier, Seed: seed, Rng: rand.New(rand.NewSource(seed)), Scale: scale,
		VerifDir: verifDir, drvPath: drvPath,
		distinct: map[uint64]struct{}{}, nontrivial: map[uint64]struct{}{}, dist: map[string]int{}}
	c.proof.BuildOK = true
	return c
}

func (c *Ctx) close() {
	if c.drv != nil {
		c.drv.Close()
	}
}

func (c *Ctx) Thorough() bool { return c.Tier == "thorough" }

// N scales a case count: quick n, thorough 20n (times the -scale flag).
func (c *Ctx) N(quick int) int {
	n := float64(quick) * c.Scale
	if c.Thorough() {
		n *= 20
	}
	if n < 1 {
		n = 1
	}
	return int(n)
}

func (c *Ctx) Note(format string, a ...any) { c.notes = append(c.notes, fmt.Sprintf(format, a...)) }

func (c *Ctx) Dist(key string) { c.dist[key]++ }

func (c *Ctx) loadProof(path string) {
	if path == "" {
		return
	}
	b, err := os.ReadFile(path)
	if err != nil {
		c.proof.BuildOK = false
		c.proof.Broken = append(c.proof.Broken, "proof-status-unreadable:"+err.Error())
		return
	}
	if err := json.Unmarshal(b, &c.proof); err != nil {
		c.proof.BuildOK = false
		c.proof.Broken = append(c.proof.Broken, "proof-status-unparsable:"+err.Error())
	}
}

func hash64(b []byte) uint64 {
	h := sha256.Sum256(b)
	return binary.LittleEndian.Uint64(h[:8])
}

// Do evaluates one case of the given kind.  data must be JSON-marshalable and is what
// a replay file contains.
func (c *Ctx) Do(kind string, data any) {
	raw, err := json.Marshal(data)
	if err != nil {
		panic(fmt.Sprintf("case not marshalable: %v", err))
	}
	c.DoRaw(kind, raw)
}

func (c *Ctx) DoRaw(kind string, raw []byte) {
	if c.searchMode && len(c.direct) > 0 {
		return
	}
	c.curKind, c.curRaw = kind, raw
	c.curHash = hash64(append([]byte(kind+"\x00"), raw...))
	c.curFailed = map[string]bool{}
	if !c.probe {
		c.evaluations++
		c.distinct[c.curHash] = struct{}{}
		c.dist["kind:"+kind]++
		if len(c.samples) < 4 && (c.evaluations%97 == 1 || c.evaluations < 3) {
			var v any
			_ = json.Unmarshal(raw, &v)
			c.samples = append(c.samples, map[string]any{"kind": kind, "case": v})
		}
	}
	c.evalGuarded(kind, raw)
}

func (c *Ctx) evalGuarded(kind string, raw []byte) {
	defer func() {
		if r := recover(); r != nil {
			if _, ok := r.(driverDead); ok {
				panic(r)
			}
			// a panic that escaped the property code's own recover: harness bug or
			// implementation panic in an unguarded spot; treat as a direct failure
			c.Direct("no-panic(harness-level)", false, fmt.Sprintf("panic: %v", r))
		}
	}()
	evalFn := evals[c.P.ID]
	evalFn(c, kind, raw)
}

var evals = map[string]func(c *Ctx, kind string, raw []byte){}

// Nontrivial marks the current case as non-trivial by the property's rule.
func (c *Ctx) Nontrivial() {
	if !c.probe {
		c.nontrivial[c.curHash] = struct{}{}
	}
}

// Direct records the result of a property predicate evaluated on the implementation.
func (c *Ctx) Direct(clause string, ok bool, detail any) bool {
	return c.DirectF(clause, ok, detail, "")
}

// DirectF is Direct with a known-finding classification key.
func (c *Ctx) DirectF(clause string, ok bool, detail any, finding string) bool {
	if ok {
		return true
	}
	if c.probe {
		if !c.probeFail[clause] {
			c.probeDet[clause] = detail
		}
		c.probeFail[clause] = true
		return false
	}
	if c.curFailed[clause] {
		return false
	}
	c.curFailed[clause] = true
	n := 0
	for _, f := range c.direct {
		if f.Clause == clause && f.Finding == finding {
			n++
		}
	}
	if n < 3 {
		c.direct = append(c.direct, Failure{Clause: clause, Kind: c.curKind, Case: append([]byte(nil), c.curRaw...), Detail: detail, Finding: finding})
	}
	return false
}

// canon returns the canonical JSON text of v (Go's encoder sorts map keys).
func canon(v any) string {
	b, err := json.Marshal(v)
	if err != nil {
		return fmt.Sprintf("<unmarshalable %v>", err)
	}
	var x any
	if err := json.Unmarshal(b, &x); err != nil {
		return string(b)
	}
	b2, _ := json.Marshal(x)
	return string(b2)
}

// Corr compares an implementation observation with the model's.
func (c *Ctx) Corr(fn string, impl any, model any) bool {
	if c.searchMode {
		return true
	}
	if !c.probe {
		c.corrChecked++
	}
	a, b := canon(impl), canon(model)
	if a == b {
		return true
	}
	clause := "corr:" + c.P.ID + "." + fn
	if c.probe {
		if !c.probeFail[clause] {
			c.probeDet[clause] = map[string]any{"impl": json.RawMessage(a), "model": json.RawMessage(b)}
		}
		c.probeFail[clause] = true
		return false
	}
	if c.curFailed[clause] {
		return false
	}
	c.curFailed[clause] = true
	n := 0
	for _, f := range c.corr {
		if f.Clause == clause {
			n++
		}
	}
	if n < 3 {
		c.corr = append(c.corr, Failure{Clause: clause, Kind: c.curKind, Case: append([]byte(nil), c.curRaw...),
			Detail: map[string]any{"impl": json.RawMessage(a), "model": json.RawMessage(b)}})
	}
	return false
}

// Model calls the Lean driver.  In search mode the model is not consulted.
func (c *Ctx) Model(op string, args any) any {
	if c.drv == nil {
		d, err := startDriver(c.drvPath)
		if err != nil {
			panic(driverDead{err})
		}
		c.drv = d
	}
	if !c.probe {
		c.modelCalls++
	}
	out, err := c.drv.Call(c.P.ID, op, args)
	if err != nil && c.drvRestarts < 3 {
		// the driver process went away (e.g. killed under memory pressure by something unrelated):
		// the model is a pure function of the request, so restarting and repeating the call is sound
		c.drvRestarts++
		c.drv.Close()
		c.Note("model driver restarted after: %v", err)
		d, err2 := startDriver(c.drvPath)
		if err2 != nil {
			panic(driverDead{err2})
		}
		c.drv = d
		out, err = c.drv.Call(c.P.ID, op, args)
	}
	if err != nil {
		panic(driverDead{err})
	}
	return out
}

type driverDead struct{ err error }

func (c *Ctx) runGuarded(f func()) {
	defer func() {
		if r := recover(); r != nil {
			if d, ok := r.(driverDead); ok {
				c.proof.Broken = append(c.proof.Broken, "model-driver-unavailable: "+d.err.Error())
				return
			}
			panic(r)
		}
	}()
	c.runCorpus()
	f()
}

// runCorpus runs the minimised past failures first.
func (c *Ctx) runCorpus() {
	dir := filepath.Join(c.VerifDir, "corpus", c.P.ID)
	ents, err := os.ReadDir(dir)
	if err != nil {
		return
	}
	names := []string{}
	for _, e := range ents {
		if strings.HasSuffix(e.Name(), ".json") {
			names = append(names, e.Name())
		}
	}
	sort.Strings(names)
	for _, n := range names {
		b, err := os.ReadFile(filepath.Join(dir, n))
		if err != nil {
			continue
		}
		var cs []struct {
			Kind string          `json:"kind"`
			Case json.RawMessage `json:"case"`
		}
		if err := json.Unmarshal(b, &cs); err != nil {
			var one struct {
				Kind string          `json:"kind"`
				Case json.RawMessage `json:"case"`
			}
			if err2 := json.Unmarshal(b, &one); err2 != nil {
				c.Note("corpus file %s unparsable: %v", n, err)
				continue
			}
			cs = append(cs, one)
		}
		for _, k := range cs {
			c.Dist("corpus")
			c.DoRaw(k.Kind, k.Case)
		}
	}
}

// ---------------------------------------------------------------- known findings

type knownFinding struct {
	Property string
	Key      string
	Text     string
}

func (c *Ctx) loadKnown() []knownFinding {
	var out []knownFinding
	f, err := os.Open(filepath.Join(c.VerifDir, "known_findings.txt"))
	if err != nil {
		return nil
	}
	defer f.Close()
	sc := bufio.NewScanner(f)
	for sc.Scan() {
		line := strings.TrimSpace(sc.Text())
		if !strings.HasPrefix(line, "finding:") {
			continue // "fixed:" entries and comments suppress nothing
		}
		kf := knownFinding{Text: line}
		for _, w := range strings.Fields(line) {
			if strings.HasPrefix(w, "property=") {
				kf.Property = strings.TrimPrefix(w, "property=")
			}
			if strings.HasPrefix(w, "key=") {
				kf.Key = strings.TrimPrefix(w, "key=")
			}
		}
		out = append(out, kf)
	}
	return out
}

// ---------------------------------------------------------------- shrinking

// Shrinkers: per property, candidates strictly smaller than the case.
var shrinkers = map[string]func(kind string, raw []byte) [][]byte{}

func (c *Ctx) stillFails(kind string, raw []byte, clause string) bool {
	c.probe = true
	c.probeFail = map[string]bool{}
	c.probeDet = map[string]any{}
	saveK, saveR := c.curKind, c.curRaw
	c.curKind, c.curRaw = kind, raw
	func() {
		defer func() {
			if r := recover(); r != nil {
				if _, ok := r.(driverDead); ok {
					return
				}
				c.probeFail["no-panic(harness-level)"] = true
			}
		}()
		evals[c.P.ID](c, kind, raw)
	}()
	c.curKind, c.curRaw = saveK, saveR
	c.probe = false
	return c.probeFail[clause]
}

func (c *Ctx) shrink(f Failure) Failure {
	sh := shrinkers[c.P.ID]
	if sh == nil || os.Getenv("VERIF_NOSHRINK") != "" {
		return f
	}
	cur := []byte(f.Case)
	deadline := time.Now().Add(20 * time.Second)
	for round := 0; round < 200 && time.Now().Before(deadline); round++ {
		progressed := false
		for _, cand := range sh(f.Kind, cur) {
			if len(cand) >= len(cur) {
				continue
			}
			if c.stillFails(f.Kind, cand, f.Clause) {
				cur = cand
				if d, ok := c.probeDet[f.Clause]; ok {
					f.Detail = d // the detail of the shrunk case, not of the original one
				}
				progressed = true
				break
			}
			if time.Now().After(deadline) {
				break
			}
		}
		if !progressed {
			break
		}
	}
	f.Case = cur
	return f
}

// ---------------------------------------------------------------- verdict

func (c *Ctx) writeReplay(f Failure, extra map[string]any) string {
	dir := filepath.Join(c.VerifDir, "replays")
	_ = os.MkdirAll(dir, 0o755)
	body := map[string]any{"property": c.P.ID, "clause": f.Clause, "kind": f.Kind, "case": f.Case,
		"detail": f.Detail, "seed": c.Seed, "tier": c.Tier}
	for k, v := range extra {
		body[k] = v
	}
	b, _ := json.MarshalIndent(body, "", " ")
	name := fmt.Sprintf("%s-%016x.json", c.P.ID, hash64(b))
	p := filepath.Join(dir, name)
	_ = os.WriteFile(p, b, 0o644)
	return p
}

func (c *Ctx) verdict(start time.Time, evidencePath string) int {
	known := c.loadKnown()
	isKnown := func(f Failure) (knownFinding, bool) {
		if f.Finding == "" {
			return knownFinding{}, false
		}
		for _, k := range known {
			if k.Property == c.P.ID && k.Key == f.Finding {
				return k, true
			}
		}
		return knownFinding{}, false
	}
	exit := 0
	violations := 0
	printedKnown := map[string]bool{}
	var unlisted []Failure
	for _, f := range c.direct {
		if k, ok := isKnown(f); ok {
			if !printedKnown[k.Key] {
				printedKnown[k.Key] = true
				fmt.Printf("KNOWN-FINDING: %s\n", strings.TrimSpace(strings.TrimPrefix(k.Text, "finding:")))
			}
			continue
		}
		unlisted = append(unlisted, f)
	}
	proofBroken := !c.proof.BuildOK || len(c.proof.Broken) > 0 || c.proof.Discharged != c.proof.Obligations
	if len(unlisted) == 0 && (len(c.corr) > 0 || proofBroken) {
		// witness search: the proof or the correspondence no longer checks; look for a
		// concrete input on which the property itself fails on the implementation.
		c.witnessSearch()
		for _, f := range c.direct {
			if _, ok := isKnown(f); !ok {
				already := false
				for _, u := range unlisted {
					if u.Clause == f.Clause && string(u.Case) == string(f.Case) {
						already = true
					}
				}
				if !already {
					unlisted = append(unlisted, f)
				}
			}
		}
	}
	if len(unlisted) > 0 {
		seen := map[string]bool{}
		for _, f := range unlisted {
			if seen[f.Clause] {
				continue
			}
			seen[f.Clause] = true
			f = c.shrink(f)
			p := c.writeReplay(f, map[string]any{"what": "property predicate falsified on the implementation",
				"proof_broken": c.proof.Broken, "divergences": len(c.corr)})
			fmt.Printf("VIOLATION property=%s replay=%s\n", c.P.ID, p)
			fmt.Printf("  clause: %s\n", f.Clause)
			violations++
		}
		exit = 1
	} else if len(c.corr) > 0 || proofBroken {
		var f Failure
		what := ""
		if len(c.corr) > 0 {
			f = c.shrink(c.corr[0])
			what = "correspondence " + f.Clause + " no longer checks: model and implementation differ on the recorded case; no input falsifying the property itself was found"
		} else {
			f = Failure{Clause: "proof:" + strings.Join(c.proof.Broken, ","), Kind: "proof", Case: json.RawMessage("null")}
			what = "proof obligations no longer check: " + strings.Join(c.proof.Broken, ", ")
		}
		p := c.writeReplay(f, map[string]any{"what": what, "proof_broken": c.proof.Broken,
			"obligations": c.proof.Obligations, "discharged": c.proof.Discharged})
		fmt.Printf("VIOLATION property=%s replay=%s no-failing-input-found\n", c.P.ID, p)
		fmt.Printf("  %s\n", what)
		violations++
		exit = 1
	}
	c.writeEvidence(start, evidencePath, violations, printedKnown)
	if exit == 0 {
		fmt.Printf("OK property=%s tier=%s seed=%d evaluations=%d distinct_nontrivial=%d obligations=%d discharged=%d wall=%.1fs\n",
			c.P.ID, c.Tier, c.Seed, c.evaluations, len(c.nontrivial), c.proof.Obligations, c.proof.Discharged, time.Since(start).Seconds())
	}
	return exit
}

// witnessSearch re-runs the generators with thorough budgets and fresh seeds, direct
// predicates only, until a failing input is found or the budget is spent.
func (c *Ctx) witnessSearch() {
	saveTier, saveRng := c.Tier, c.Rng
	c.searchMode = true
	defer func() { c.searchMode = false; c.Tier, c.Rng = saveTier, saveRng }()
	// first: the divergent cases themselves and what the shrinker proposes around them
	for _, f := range c.corr {
		c.DoRaw(f.Kind, f.Case)
		if sh := shrinkers[c.P.ID]; sh != nil {
			for _, cand := range sh(f.Kind, f.Case) {
				c.DoRaw(f.Kind, cand)
			}
		}
	}
	deadline := time.Now().Add(90 * time.Second)
	for i := int64(1); i <= 4 && len(c.direct) == 0 && time.Now().Before(deadline); i++ {
		c.Rng = rand.New(rand.NewSource(c.Seed*1000003 + i))
		if i > 1 {
			c.Tier = "thorough"
		}
		c.deadline = deadline
		func() {
			defer func() {
				if r := recover(); r != nil {
					if _, ok := r.(driverDead); ok {
						return
					}
					if r == errDeadline {
						return
					}
					panic(r)
				}
			}()
			c.P.Run(c)
		}()
	}
	c.deadline = time.Time{}
}

var errDeadline = fmt.Errorf("deadline")

// Tick lets long generators stop when a search deadline passes.
func (c *Ctx) Tick() {
	if !c.deadline.IsZero() && time.Now().After(c.deadline) {
		panic(errDeadline)
	}
}

func (c *Ctx) writeEvidence(start time.Time, path string, violations int, known map[string]bool) {
	if path == "" {
		return
	}
	distKeys := make([]string, 0, len(c.dist))
	for k := range c.dist {
		distKeys = append(distKeys, k)
	}
	sort.Strings(distKeys)
	dist := map[string]int{}
	for _, k := range distKeys {
		dist[k] = c.dist[k]
	}
	knownKeys := []string{}
	for k := range known {
		knownKeys = append(knownKeys, k)
	}
	sort.Strings(knownKeys)
	samples := c.samples
	if len(samples) == 0 {
		samples = []any{"no generated cases on this run (proof obligations only)"}
	}
	cov := map[string]any{
		"obligations":                   c.proof.Obligations,
		"discharged":                    c.proof.Discharged,
		"checker_cmd":                   c.proof.CheckerCmd,
		"trusted_base":                  trustedBase,
		"evaluations":                   c.evaluations,
		"distinct_nontrivial":           len(c.nontrivial),
		"distinct_cases":                len(c.distinct),
		"rule":                          c.P.Rule,
		"samples":                       samples,
		"traces_validated_against_impl": c.corrChecked,
		"disagreements_checked":         c.corrChecked,
		"model_calls":                   c.modelCalls,
		"divergences":                   len(c.corr),
		"direct_failures":               len(c.direct),
		"known_findings_hit":            knownKeys,
		"input_distribution":            dist,
		"theorems":                      c.proof.Theorems,
		"proof_broken":                  c.proof.Broken,
		"generated_tables":              c.proof.Generated,
		"notes":                         append(c.notes, c.proof.Notes...),
		"exhaustive":                    false,
	}
	ev := map[string]any{
		"property_id": c.P.ID,
		"tier":        c.Tier,
		"seed":        c.Seed,
		"level":       "proof",
		"coverage":    cov,
		"assumptions": c.P.Assumptions,
		"wall_s":      time.Since(start).Seconds(),
		"violations":  violations,
	}
	b, _ := json.MarshalIndent(ev, "", " ")
	_ = os.MkdirAll(filepath.Dir(path), 0o755)
	_ = os.WriteFile(path, b, 0o644)
}

var trustedBase = []string{
	"Lean 4.33.0 kernel; axioms per theorem listed under coverage.theorems (subset of propext, Classical.choice, Quot.sound); no sorry/admit/native_decide/bv_decide/own axioms (grep gate + Lean.collectAxioms audit)",
	"hand-written Lean model of the code (lean/YtkModel); tied to /repo by this correspondence harness (differential testing: bounded by generator quality) and by go/ast fact extractors that regenerate lean/YtkModel/Generated/*.lean on every run",
	"external libraries modelled as parameters, validated by correspondence only: gopkg.in/yaml.v3, encoding/json, magiconair/properties, text/template + sprig, encoding/base64, regexp, go-cmp, OS",
	"value semantics of the model: aliasing/independence clauses rest on the harness's probing histories",
}

// ---------------------------------------------------------------- replay

func (c *Ctx) replayFile(path string) int {
	b, err := os.ReadFile(path)
	if err != nil {
		fmt.Fprintln(os.Stderr, err)
		return 2
	}
	var r struct {
		Clause string          `json:"clause"`
		Kind   string          `json:"kind"`
		Case   json.RawMessage `json:"case"`
		What   string          `json:"what"`
	}
	if err := json.Unmarshal(b, &r); err != nil {
		fmt.Fprintln(os.Stderr, err)
		return 2
	}
	fmt.Printf("replay property=%s clause=%s kind=%s\n", c.P.ID, r.Clause, r.Kind)
	if r.Kind == "proof" {
		fmt.Printf("  %s\n  (no input: re-run ./check %s to re-check the obligations)\n", r.What, c.P.ID)
		return 1
	}
	c.runGuardedNoCorpus(func() { c.DoRaw(r.Kind, r.Case) })
	for _, f := range append(c.direct, c.corr...) {
		d, _ := json.Marshal(f.Detail)
		fmt.Printf("  FAILS %s\n    detail: %s\n", f.Clause, string(d))
	}
	if len(c.direct)+len(c.corr) == 0 {
		fmt.Println("  case passes on the current tree")
		return 0
	}
	return 1
}

func (c *Ctx) runGuardedNoCorpus(f func()) {
	defer func() {
		if r := recover(); r != nil {
			if d, ok := r.(driverDead); ok {
				fmt.Fprintln(os.Stderr, "driver unavailable:", d.err)
				return
			}
			panic(r)
		}
	}()
	f()
}
